package main

// C19, a static fact of its own: code started concurrently (go) or later (defer, time.AfterFunc) inside a loop that reaches the
// loop's variable. /repo's go.mod says `go 1.14`, so — whatever toolchain compiles it — every iteration shares ONE variable: the loop
// writes it while the started goroutines read it (a data race), and in practice every goroutine sees the last element.
// `go vet` only reports the case where the go statement is the last statement of the body. /repo had exactly this defect once
// (handleTxsMsg, fix b496d03). The committed list is empty; a new site is a table mismatch and an oracle failure.
// Rewritten after review R5-M6/M7: identity by the parser's object resolution instead of by name (no false report for a field, a
// parameter, a literal-local or a nested re-binding of the same name), more capture shapes (see c19LoopVarCaptures), loops that
// assign an outer variable, package-level function literals, and the go directive of go.mod is read.
// STILL NOT SEEN (no type information): `go v.M()` with a pointer-receiver method on an addressable loop variable; a closure stored
// in the loop and started after it; starters other than go / defer / time.AfterFunc that run their argument concurrently.

import (
	"fmt"
	"go/ast"
	"go/parser"
	"go/token"
	"io/ioutil"
	"os"
	"path/filepath"
	"regexp"
	"sort"
	"strconv"
	"strings"
)

type c19LoopVar struct{ Fn, Var string }

// c19PerIterationLoopVars: does the module's go directive (>= 1.22) give `:=` loops a fresh variable per iteration?
func c19PerIterationLoopVars(repo string) bool {
	b, err := ioutil.ReadFile(filepath.Join(repo, "go.mod"))
	if err != nil {
		return false
	}
	m := regexp.MustCompile(`(?m)^go\s+(\d+)\.(\d+)`).FindStringSubmatch(string(b))
	if m == nil {
		return false
	}
	maj, _ := strconv.Atoi(m[1])
	min, _ := strconv.Atoi(m[2])
	return maj > 1 || (maj == 1 && min >= 22)
}

// c19LoopVarCaptures lists (function, variable) where code STARTED CONCURRENTLY (go) or LATER (defer, time.AfterFunc) from inside a
// loop reaches the loop's shared variable.  Identity is by the parser's object resolution (ast.Ident.Obj), not by name, so a field,
// a parameter, a literal-local variable or a re-binding `v := v` (at any depth) of the same name is a different object.  Shapes:
//   go/defer func(){ ..v.. }()                         the literal reads v
//   f := func(){ ..v.. }; go f()                       a local bound (in the loop body) to such a literal
//   go spawn(func(){ ..v.. }) / go use(&v)             a literal reading v, or v's address, among the arguments of a go/defer call
//   time.AfterFunc(d, func(){ ..v.. })                 the one standard starter used in /repo
// Loops: `for k, v := range`, `for i := ..` (shared before go 1.22) and loops that ASSIGN an outer local (`for _, v = range`, shared
// under every version).  Whole files are walked (function declarations and package-level function literals).
func c19LoopVarCaptures(repo string) ([]c19LoopVar, error) {
	var out []c19LoopVar
	perIter := c19PerIterationLoopVars(repo)
	fset := token.NewFileSet()
	err := filepath.Walk(repo, func(path string, info os.FileInfo, err error) error {
		if err != nil {
			return err
		}
		if info.IsDir() {
			n := info.Name()
			if n == ".git" || n == "vendor" || n == "testdata" || strings.HasPrefix(n, "_") {
				return filepath.SkipDir
			}
			return nil
		}
		if !strings.HasSuffix(path, ".go") || strings.HasSuffix(path, "_test.go") || strings.HasPrefix(info.Name(), "verif_") {
			return nil
		}
		f, perr := parser.ParseFile(fset, path, nil, 0) // object resolution ON
		if perr != nil {
			return nil // a file that does not parse breaks the build anyway
		}
		rel, _ := filepath.Rel(repo, path)
		pkgDir := filepath.ToSlash(filepath.Dir(rel))
		for _, d := range f.Decls {
			var root ast.Node
			name := ""
			switch x := d.(type) {
			case *ast.FuncDecl:
				if x.Body == nil {
					continue
				}
				root, name = x.Body, x.Name.Name
				if x.Recv != nil && len(x.Recv.List) == 1 {
					t := x.Recv.List[0].Type
					if st, ok := t.(*ast.StarExpr); ok {
						t = st.X
					}
					if id, ok := t.(*ast.Ident); ok {
						name = id.Name + "." + name
					}
				}
			case *ast.GenDecl:
				if x.Tok != token.VAR {
					continue
				}
				root = x
				for _, sp := range x.Specs {
					if vs, ok := sp.(*ast.ValueSpec); ok && len(vs.Names) > 0 {
						name = "var:" + vs.Names[0].Name
						break
					}
				}
			default:
				continue
			}
			out = append(out, c19ScanLoops(root, pkgDir+":"+name, perIter)...)
		}
		return nil
	})
	sort.Slice(out, func(i, j int) bool {
		if out[i].Fn != out[j].Fn {
			return out[i].Fn < out[j].Fn
		}
		return out[i].Var < out[j].Var
	})
	var ded []c19LoopVar
	for i, x := range out {
		if i == 0 || x != out[i-1] {
			ded = append(ded, x)
		}
	}
	return ded, err
}

func c19ScanLoops(root ast.Node, fn string, perIter bool) (out []c19LoopVar) {
	ast.Inspect(root, func(n ast.Node) bool {
		var objs []*ast.Object
		var body *ast.BlockStmt
		add := func(e ast.Expr, define bool) {
			id, ok := e.(*ast.Ident)
			if !ok || id.Name == "_" || id.Obj == nil || id.Obj.Kind != ast.Var {
				return
			}
			if define && perIter {
				return // go >= 1.22: a fresh variable per iteration
			}
			objs = append(objs, id.Obj)
		}
		switch x := n.(type) {
		case *ast.RangeStmt:
			if x.Tok != token.DEFINE && x.Tok != token.ASSIGN {
				return true
			}
			add(x.Key, x.Tok == token.DEFINE)
			add(x.Value, x.Tok == token.DEFINE)
			body = x.Body
		case *ast.ForStmt:
			if as, ok := x.Init.(*ast.AssignStmt); ok {
				for _, e := range as.Lhs {
					add(e, as.Tok == token.DEFINE)
				}
			}
			body = x.Body
		default:
			return true
		}
		if len(objs) == 0 || body == nil {
			return true
		}
		reads := func(node ast.Node, o *ast.Object) bool {
			used := false
			ast.Inspect(node, func(z ast.Node) bool {
				if id, ok := z.(*ast.Ident); ok && id.Obj == o {
					used = true
				}
				return !used
			})
			return used
		}
		// locals of the body bound to a function literal: f := func(){..}, var f = func(){..}, f = func(){..}
		bound := map[*ast.Object][]*ast.FuncLit{}
		ast.Inspect(body, func(m ast.Node) bool {
			switch y := m.(type) {
			case *ast.AssignStmt:
				if len(y.Lhs) == len(y.Rhs) {
					for i := range y.Lhs {
						if id, ok := y.Lhs[i].(*ast.Ident); ok && id.Obj != nil {
							if lit, ok := y.Rhs[i].(*ast.FuncLit); ok {
								bound[id.Obj] = append(bound[id.Obj], lit)
							}
						}
					}
				}
			case *ast.ValueSpec:
				if len(y.Names) == len(y.Values) {
					for i := range y.Names {
						if lit, ok := y.Values[i].(*ast.FuncLit); ok && y.Names[i].Obj != nil {
							bound[y.Names[i].Obj] = append(bound[y.Names[i].Obj], lit)
						}
					}
				}
			}
			return true
		})
		// does running `call` later / concurrently reach the loop variable o?
		reaches := func(call *ast.CallExpr, o *ast.Object, argsOnly bool) bool {
			if !argsOnly {
				switch fx := call.Fun.(type) {
				case *ast.FuncLit:
					if reads(fx.Body, o) {
						return true
					}
				case *ast.Ident:
					for _, lit := range bound[fx.Obj] {
						if fx.Obj != nil && reads(lit.Body, o) {
							return true
						}
					}
				}
			}
			for _, a := range call.Args {
				hit := false
				ast.Inspect(a, func(z ast.Node) bool {
					switch w := z.(type) {
					case *ast.FuncLit:
						if reads(w.Body, o) {
							hit = true
						}
						return false
					case *ast.UnaryExpr:
						if id, ok := w.X.(*ast.Ident); ok && w.Op == token.AND && id.Obj == o {
							hit = true
						}
					case *ast.Ident: // a local bound to a literal, passed on
						for _, lit := range bound[w.Obj] {
							if w.Obj != nil && reads(lit.Body, o) {
								hit = true
							}
						}
					}
					return !hit
				})
				if hit {
					return true
				}
			}
			return false
		}
		ast.Inspect(body, func(m ast.Node) bool {
			var call *ast.CallExpr
			argsOnly := false
			switch y := m.(type) {
			case *ast.GoStmt:
				call = y.Call
			case *ast.DeferStmt:
				call = y.Call
			case *ast.CallExpr:
				if se, ok := y.Fun.(*ast.SelectorExpr); ok && se.Sel.Name == "AfterFunc" {
					if p, ok := se.X.(*ast.Ident); ok && p.Name == "time" {
						call, argsOnly = y, true
					}
				}
			}
			if call == nil {
				return true
			}
			for _, o := range objs {
				if reaches(call, o, argsOnly) {
					out = append(out, c19LoopVar{fn, o.Name})
				}
			}
			return true
		})
		return true
	})
	return
}

func c19LoopVarFacts(c *Ctx) {
	caps, err := c19LoopVarCaptures(c19Repo())
	if err != nil {
		c.Fail("c19/scan-failed/loopvar", err.Error(), nil)
		return
	}
	for _, x := range caps {
		c.Op("loopvar "+x.Fn+" "+x.Var, "ok")
		c.Fail("c19/goroutine-captures-loop-variable/"+x.Fn+"/"+x.Var, fmt.Sprintf("in %s a function literal started with go / defer inside a loop reads the loop variable %s: with go.mod `go 1.14` every iteration shares one variable — the loop writes it while the goroutines read it, and every goroutine sees the last element (fact `loopvar %s %s`)", x.Fn, x.Var, x.Fn, x.Var), nil)
	}
	c.Op(fmt.Sprintf("loopvar-end %d", len(caps)), "ok")
	c.Count(fmt.Sprintf("fact:loopvar-capture:%d", len(caps)))
}

package main

// C19, a static fact of its own: a goroutine (or deferred) function literal started inside a loop that reads the loop's
// variable. /repo's go.mod says `go 1.14`, so — whatever toolchain compiles it — every iteration shares ONE variable: the loop
// writes it while the started goroutines read it (a data race), and in practice every goroutine sees the last element.
// `go vet` only reports the case where the go statement is the last statement of the body. /repo had exactly this defect once
// (handleTxsMsg, fix b496d03). The committed list is empty; a new site is a table mismatch and an oracle failure.

import (
	"fmt"
	"go/ast"
	"go/parser"
	"go/token"
	"os"
	"path/filepath"
	"sort"
	"strings"
)

type c19LoopVar struct{ Fn, Var string }

func c19LoopVarCaptures(repo string) ([]c19LoopVar, error) {
	var out []c19LoopVar
	fset := token.NewFileSet()
	err := filepath.Walk(repo, func(path string, info os.FileInfo, err error) error {
		if err != nil {
			return err
		}
		if info.IsDir() {
			n := info.Name()
			if n == ".git" || n == "vendor" || n == "testdata" || strings.HasPrefix(n, "_") {
				return filepath.SkipDir
			}
			return nil
		}
		if !strings.HasSuffix(path, ".go") || strings.HasSuffix(path, "_test.go") || strings.HasPrefix(info.Name(), "verif_") {
			return nil
		}
		f, perr := parser.ParseFile(fset, path, nil, 0)
		if perr != nil {
			return nil // a file that does not parse breaks the build anyway
		}
		rel, _ := filepath.Rel(repo, path)
		pkgDir := filepath.ToSlash(filepath.Dir(rel))
		for _, d := range f.Decls {
			fd, ok := d.(*ast.FuncDecl)
			if !ok || fd.Body == nil {
				continue
			}
			name := fd.Name.Name
			if fd.Recv != nil && len(fd.Recv.List) == 1 {
				t := fd.Recv.List[0].Type
				if st, ok := t.(*ast.StarExpr); ok {
					t = st.X
				}
				if id, ok := t.(*ast.Ident); ok {
					name = id.Name + "." + name
				}
			}
			fn := pkgDir + ":" + name
			ast.Inspect(fd.Body, func(n ast.Node) bool {
				var vars []string
				var body *ast.BlockStmt
				switch x := n.(type) {
				case *ast.RangeStmt:
					if x.Tok != token.DEFINE {
						return true
					}
					for _, e := range []ast.Expr{x.Key, x.Value} {
						if id, ok := e.(*ast.Ident); ok && id.Name != "_" {
							vars = append(vars, id.Name)
						}
					}
					body = x.Body
				case *ast.ForStmt:
					if as, ok := x.Init.(*ast.AssignStmt); ok && as.Tok == token.DEFINE {
						for _, e := range as.Lhs {
							if id, ok := e.(*ast.Ident); ok && id.Name != "_" {
								vars = append(vars, id.Name)
							}
						}
					}
					body = x.Body
				default:
					return true
				}
				if len(vars) == 0 || body == nil {
					return true
				}
				// a re-binding `v := v` at the top level of the body gives each iteration its own copy from there on
				rebound := map[string]token.Pos{}
				for _, st := range body.List {
					if as, ok := st.(*ast.AssignStmt); ok && as.Tok == token.DEFINE && len(as.Lhs) == len(as.Rhs) {
						for i := range as.Lhs {
							l, ok1 := as.Lhs[i].(*ast.Ident)
							r, ok2 := as.Rhs[i].(*ast.Ident)
							if ok1 && ok2 && l.Name == r.Name {
								rebound[l.Name] = as.Pos()
							}
						}
					}
				}
				ast.Inspect(body, func(m ast.Node) bool {
					var call *ast.CallExpr
					switch y := m.(type) {
					case *ast.GoStmt:
						call = y.Call
					case *ast.DeferStmt:
						call = y.Call
					default:
						return true
					}
					lit, ok := call.Fun.(*ast.FuncLit)
					if !ok {
						return true
					}
					params := map[string]bool{}
					if lit.Type.Params != nil {
						for _, p := range lit.Type.Params.List {
							for _, id := range p.Names {
								params[id.Name] = true
							}
						}
					}
					for _, v := range vars {
						if params[v] {
							continue
						}
						if p, ok := rebound[v]; ok && p < m.Pos() {
							continue
						}
						used := false
						ast.Inspect(lit.Body, func(z ast.Node) bool {
							if id, ok := z.(*ast.Ident); ok && id.Name == v {
								used = true
							}
							return !used
						})
						if used {
							out = append(out, c19LoopVar{fn, v})
						}
					}
					return true
				})
				return true
			})
		}
		return nil
	})
	sort.Slice(out, func(i, j int) bool {
		if out[i].Fn != out[j].Fn {
			return out[i].Fn < out[j].Fn
		}
		return out[i].Var < out[j].Var
	})
	// de-duplicate (nested loops report an inner literal once per enclosing loop that declares the variable)
	var ded []c19LoopVar
	for i, x := range out {
		if i == 0 || x != out[i-1] {
			ded = append(ded, x)
		}
	}
	return ded, err
}

func c19LoopVarFacts(c *Ctx) {
	caps, err := c19LoopVarCaptures(c19Repo())
	if err != nil {
		c.Fail("c19/scan-failed/loopvar", err.Error(), nil)
		return
	}
	for _, x := range caps {
		c.Op("loopvar "+x.Fn+" "+x.Var, "ok")
		c.Fail("c19/goroutine-captures-loop-variable/"+x.Fn+"/"+x.Var, fmt.Sprintf("in %s a function literal started with go / defer inside a loop reads the loop variable %s: with go.mod `go 1.14` every iteration shares one variable — the loop writes it while the goroutines read it, and every goroutine sees the last element (fact `loopvar %s %s`)", x.Fn, x.Var, x.Fn, x.Var), nil)
	}
	c.Op(fmt.Sprintf("loopvar-end %d", len(caps)), "ok")
	c.Count(fmt.Sprintf("fact:loopvar-capture:%d", len(caps)))
}

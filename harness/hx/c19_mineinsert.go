package main

// c19_mineinsert.go — FORCED schedule InsertBlock ∥ MineBlock (child `c19-mineinsert`).
//
//	0 ── P ─┬─ B   B was mined in time by the deputy after P's miner, but reaches the node late
//	        └─ M?  the node is the deputy after B's miner: on P its own slot has come, on B it has not
//
// Three runs on fresh nodes (5 deputies, 100 s slots so the slots do not move during the run):
//   insert → mine : head is B, the node is not in turn on B          ⇒ MineBlock fails, head = B
//   mine → insert : the node mines M on P, B arrives as a lower fork ⇒ MineBlock = M(parent P), head = M
//   concurrent    : InsertBlock(B) is PARKED inside ChainDB.SetBlock(B) — it holds the chain lock, B is not the
//                   head yet — (a protocol.ChainDB wrapper handed to the real engine; /repo is not changed),
//                   MineBlock is started in a second goroutine, then the insert is released.
// The concurrent outcome (InsertBlock result, MineBlock result, parent of the mined block, head, blocks stored at
// that height, whether the node confirmed B) must equal one of the two sequential outcomes; otherwise
// `c19/not-linearizable/mine-vs-insert` (e.g. M mined on P although B already is the head: the node has confirmed B
// and signed its own sibling of B).  No probability involved: the park makes MineBlock run against a moving head.

import (
	"fmt"
	"os"
	"time"

	"github.com/LemoFoundationLtd/lemochain-core/chain"
	"github.com/LemoFoundationLtd/lemochain-core/chain/consensus"
	"github.com/LemoFoundationLtd/lemochain-core/chain/deputynode"
	"github.com/LemoFoundationLtd/lemochain-core/chain/txpool"
	"github.com/LemoFoundationLtd/lemochain-core/chain/types"
	"github.com/LemoFoundationLtd/lemochain-core/common"
	"github.com/LemoFoundationLtd/lemochain-core/common/flag"
	"github.com/LemoFoundationLtd/lemochain-core/store"
	"github.com/LemoFoundationLtd/lemochain-core/store/protocol"
)

func init() { subs["c19-mineinsert"] = c19MineInsertChild }

// c19ParkingDB stops inside SetBlock(pauseHash): the caller (DPoVP.InsertBlock → saveToStore) holds the chain lock there
type c19ParkingDB struct {
	protocol.ChainDB
	pauseHash common.Hash
	entered   chan struct{}
	release   chan struct{}
}

func (p *c19ParkingDB) SetBlock(hash common.Hash, block *types.Block) error {
	if p.entered != nil && hash == p.pauseHash {
		close(p.entered)
		<-p.release
	}
	return p.ChainDB.SetBlock(hash, block)
}

type c19ParkNode struct {
	dir string
	raw *store.ChainDatabase
	db  *c19ParkingDB
	dm  *deputynode.Manager
	bc  *chain.BlockChain
}

func newC19ParkNode(w *World, deputies int) *c19ParkNode {
	dir, err := os.MkdirTemp("", "hx-node-")
	if err != nil {
		panic(err)
	}
	n := &c19ParkNode{dir: dir}
	n.raw = store.NewChainDataBase(dir)
	chain.SetupGenesisBlock(n.raw, w.genesis)
	n.db = &c19ParkingDB{ChainDB: n.raw}
	n.dm = deputynode.NewManager(deputies, n.db)
	bc, err := chain.NewBlockChain(chain.Config{ChainID: nodeChainID, MineTimeout: w.Timeout}, n.dm, n.db, flag.CmdFlags{}, txpool.NewTxPool())
	if err != nil {
		panic(err)
	}
	n.bc = bc
	return n
}

func (n *c19ParkNode) close() {
	time.Sleep(150 * time.Millisecond) // fire-and-forget goroutines of the engine
	n.bc.Stop()
	n.raw.Close()
	os.RemoveAll(n.dir)
}

type c19MIOutcome struct {
	InsertOK    bool
	MineOK      bool
	MinedParent string // P | B | -
	Head        string // P | B | M | ?
	AtHeight2   string // which of B, M are stored
	ConfirmedB  bool   // the node's own confirm is on the stored B
}

func (o c19MIOutcome) String() string {
	return fmt.Sprintf("{InsertBlock(B) ok=%v; MineBlock ok=%v, mined block's parent=%s; head=%s; stored at that height=%s; node confirmed B=%v}", o.InsertOK, o.MineOK, o.MinedParent, o.Head, o.AtHeight2, o.ConfirmedB)
}

func c19MineInsertChild(c *Ctx) {
	h := &c19Hammer{res: &c19HResult{Rounds: c.N, Counts: map[string]int{}}, out: c.Out, rnd: c.Rnd, seen: map[string]bool{}}
	h.flush()
	for r := 0; r < c.N; r++ {
		h.runRound("c19-mineinsert", r, func() { h.mineInsertRound(r) })
	}
	h.res.Done = true
	h.flush()
}

func (h *c19Hammer) mineInsertRound(round int) {
	const deputies = 5
	now := uint32(time.Now().Unix())
	w := NewWorld(deputies, now-1000, 100000) // 100 s slots
	b := w.NewNode(deputies)
	defer b.Close()
	genesis := b.BC.CurrentBlock()
	mk := func(parent *types.Block, t uint32, name string) *types.Block {
		blk, _, err := b.Build(parent, t, nil, nil)
		if err != nil {
			panic(fmt.Sprintf("mine-vs-insert scenario: build %s: %v", name, err))
		}
		if err := b.Insert(CloneBlock(blk)); err != nil {
			panic(fmt.Sprintf("mine-vs-insert scenario: builder rejects %s: %v", name, err))
		}
		return blk
	}
	// P is 150 s old: its first slot (0..100 s) is over, the second one (100..200 s) is running
	blockP := mk(genesis, now-150-uint32(round), "P")
	meKey, err := b.InTurn(blockP, now)
	if err != nil {
		panic(err)
	}
	if keyAddr(meKey) == blockP.MinerAddress() {
		h.fail(round, "c19/harness/scenario-guarantee-broken", "mine-vs-insert: P's own miner is in turn on P 150 s later (slot arithmetic of the scenario is off)")
		return
	}
	// B was mined in the first slot on P
	blockB := mk(blockP, blockP.Time()+10, "B")
	if blockB.MinerAddress() == keyAddr(meKey) {
		h.fail(round, "c19/harness/scenario-guarantee-broken", "mine-vs-insert: B is mined by the node itself")
		return
	}
	if k, err := b.InTurn(blockB, now); err == nil && keyAddr(k) == keyAddr(meKey) {
		h.fail(round, "c19/harness/scenario-guarantee-broken", "mine-vs-insert: the node is in turn on B too")
		return
	}
	deputynode.SetSelfNodeKey(meKey)

	run := func(mode string) c19MIOutcome {
		consensus.VerifSetSigCache(common.Hash{}, nil)
		n := newC19ParkNode(w, deputies)
		defer n.close()
		eng := n.bc.VerifEngine()
		if _, err := eng.InsertBlock(CloneBlock(blockP)); err != nil {
			panic(fmt.Sprintf("mine-vs-insert scenario: node rejects P: %v", err))
		}
		var insertErr, mineErr error
		var mined *types.Block
		switch mode {
		case "insert-mine":
			_, insertErr = eng.InsertBlock(CloneBlock(blockB))
			mined, mineErr = eng.MineBlock(3000)
		case "mine-insert":
			mined, mineErr = eng.MineBlock(3000)
			_, insertErr = eng.InsertBlock(CloneBlock(blockB))
		case "concurrent":
			n.db.pauseHash = blockB.Hash()
			n.db.release = make(chan struct{})
			n.db.entered = make(chan struct{})
			insertDone, mineDone := make(chan struct{}), make(chan struct{})
			go func() { // network thread
				defer close(insertDone)
				_, insertErr = eng.InsertBlock(CloneBlock(blockB))
			}()
			select {
			case <-n.db.entered: // InsertBlock(B) holds the chain lock and is about to store B
			case <-time.After(20 * time.Second):
				panic("mine-vs-insert scenario: InsertBlock(B) never reached SetBlock")
			}
			go func() { // miner thread
				defer close(mineDone)
				mined, mineErr = eng.MineBlock(3000)
			}()
			time.Sleep(400 * time.Millisecond) // MineBlock is queueing on the chain lock now
			close(n.db.release)
			<-insertDone
			<-mineDone
		}
		name := func(hash common.Hash) string {
			switch {
			case hash == blockP.Hash():
				return "P"
			case hash == blockB.Hash():
				return "B"
			case mined != nil && hash == mined.Hash():
				return "M"
			}
			return "?"
		}
		out := c19MIOutcome{InsertOK: insertErr == nil, MineOK: mineErr == nil, MinedParent: "-"}
		if mined != nil {
			out.MinedParent = name(mined.ParentHash())
		}
		out.Head = name(n.bc.CurrentBlock().Hash())
		if sb, err := n.raw.GetBlockByHash(blockB.Hash()); err == nil {
			out.AtHeight2 += "B"
			for _, sg := range sb.Confirms {
				if c19SigBy(meKey, blockB.Hash(), sg[:]) {
					out.ConfirmedB = true
				}
			}
		}
		if mined != nil {
			if _, err := n.raw.GetBlockByHash(mined.Hash()); err == nil {
				out.AtHeight2 += "M"
			}
		}
		return out
	}
	seq1 := run("insert-mine")
	seq2 := run("mine-insert")
	conc := run("concurrent")
	h.count("mineinsert:rounds", 1)
	if seq1.MineOK || seq1.Head != "B" || seq2.MinedParent != "P" || seq2.Head != "M" {
		// the scenario guarantees these two outcomes by construction (slots are 100 s wide, the run takes seconds): a
		// deviation means a change broke the guarantee — reported, never silently skipped
		h.fail(round, "c19/harness/scenario-guarantee-broken", fmt.Sprintf("mine-vs-insert: the sequential runs do not give the outcomes the scenario guarantees (Insert→Mine: MineBlock fails, head B; Mine→Insert: M on P, head M): InsertBlock→MineBlock: %s; MineBlock→InsertBlock: %s", seq1, seq2))
		return
	}
	switch conc {
	case seq1:
		h.count("mineinsert:concurrent = insert→mine", 1)
	case seq2:
		h.count("mineinsert:concurrent = mine→insert", 1)
	default:
		h.fail(round, "c19/not-linearizable/mine-vs-insert", fmt.Sprintf("MineBlock called while InsertBlock(B) holds the chain lock: the outcome equals no sequential order of the two requests. concurrent: %s; InsertBlock→MineBlock: %s; MineBlock→InsertBlock: %s", conc, seq1, seq2))
	}
}

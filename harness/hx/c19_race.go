package main

// c19_race.go — THOROUGH tier only: the same hammer built with `-race`, run as a child; every
// `WARNING: DATA RACE` block is canonicalised to the pair of top-most /repo frames of its two
// accesses (function names, no line numbers) and reported as `c19/data-race/<root>/<funcA>~<funcB>`,
// where <root> is the shared variable of the fact table accessed at the source line of either top frame
// (positions from the scan of c19_scan.go); tree-node races inside store.CBlock count for the unconfirmed
// tree; anything else is `other`.  known_findings entries name the root (prefix match), the pair is detail.

import (
	"fmt"
	"os"
	"os/exec"
	"path/filepath"
	"regexp"
	"sort"
	"strings"
	"time"
)

func c19HarnessSrc() string {
	if d := os.Getenv("VERIF_HARNESS_SRC"); d != "" {
		return d
	}
	exe, err := os.Executable()
	if err != nil {
		return "/verif/harness"
	}
	return filepath.Join(filepath.Dir(filepath.Dir(exe)), "harness")
}

func c19Race(c *Ctx) {
	src := c19HarnessSrc()
	repo := c19Repo()
	outAbs, err := filepath.Abs(c.Out)
	if err != nil {
		outAbs = c.Out
	}
	bdir := filepath.Join(outAbs, "racebuild")
	os.RemoveAll(bdir)
	os.MkdirAll(filepath.Join(bdir, "hx"), 0755)
	gm, err := os.ReadFile(filepath.Join(src, "go.mod"))
	if err != nil {
		c.Count("race:inconclusive:no-harness-source")
		return
	}
	gmod := regexp.MustCompile(`(?m)^(replace github.com/LemoFoundationLtd/lemochain-core =>) .*$`).ReplaceAllString(string(gm), "$1 "+repo)
	os.WriteFile(filepath.Join(bdir, "go.mod"), []byte(gmod), 0644)
	if gs, err := os.ReadFile(filepath.Join(repo, "go.sum")); err == nil {
		os.WriteFile(filepath.Join(bdir, "go.sum"), gs, 0644)
	}
	files, _ := filepath.Glob(filepath.Join(src, "hx", "c19*.go"))
	for _, n := range []string{"main.go", "util.go", "node.go", "txgen.go"} {
		files = append(files, filepath.Join(src, "hx", n))
	}
	for _, f := range files {
		b, err := os.ReadFile(f)
		if err != nil {
			c.Count("race:inconclusive:no-harness-source")
			return
		}
		os.WriteFile(filepath.Join(bdir, "hx", filepath.Base(f)), b, 0644)
	}
	exe := filepath.Join(bdir, "hx-race")
	cmd := exec.Command("go", "build", "-race", "-gcflags=all=-d=checkptr=0", "-tags", "verif", "-o", exe, "./hx") // checkptr (implied by -race) rejects the unaligned xor of the vendored sha3; not what is measured here
	cmd.Dir = bdir
	cmd.Env = append(os.Environ(), "GOFLAGS=-mod=mod", "GOPROXY=off", "GOSUMDB=off", "GOTOOLCHAIN=local", "CGO_ENABLED=1")
	t0 := time.Now()
	out, err := cmd.CombinedOutput()
	if err != nil {
		// no race build = no race evidence: reported, not silently skipped (the race tier is part of the check)
		msg := string(out)
		if len(msg) > 1200 {
			msg = msg[len(msg)-1200:]
		}
		c.Count("race:race-build-failed")
		c.Fail("c19/race-build-failed", "the -race build of the hammer failed: the race tier produced no evidence: "+strings.ReplaceAll(msg, "\n", " | "), nil)
		return
	}
	c.Stats["race:build-seconds"] = int(time.Since(t0).Seconds())
	rounds := 6
	if v := os.Getenv("VERIF_C19_RACE_ROUNDS"); v != "" {
		fmt.Sscan(v, &rounds)
	}
	// every child under the detector; the canary child is the POSITIVE CONTROL of the whole pipeline
	// (build flags, GORACE options, stderr capture, parser): its planted race must come back as a report
	type job struct {
		sub, mode string
		rounds    int
	}
	jobs := []job{{"c19-racecanary", "race-canary", 1}, {"c19-hammer", "race", rounds}, {"c19-confirmrace", "race-confirmrace", 3}, {"c19-mineinsert", "race-mineinsert", 1}, {"c19-maprace", "race-maprace", 2}, {"c19-restart", "race-restart", 2}, {"c19-lastsig", "race-lastsig", 2000}}
	all := map[string]*c19RacePair{}
	reports := 0
	for _, j := range jobs {
		text, ran := c19RunHammer(c, exe, j.sub, j.mode, j.rounds, c19ChildLimit())
		if !ran {
			continue
		}
		n := strings.Count(text, "WARNING: DATA RACE")
		if j.sub == "c19-racecanary" {
			if n == 0 || !strings.Contains(text, "c19RaceCanary") {
				c.Fail("c19/race-detector-inactive", "positive control failed: the planted data race of the canary child (two goroutines writing one harness variable) was not reported by the -race build; the race tier proves nothing in this state", nil)
			} else {
				c.Count("race:canary-planted-race-reported(positive control)")
			}
			continue
		}
		reports += n
		for k, p := range c19ParseRaces(text, repo) {
			if q := all[k]; q != nil {
				q.n += p.n
			} else {
				all[k] = p
			}
		}
	}
	keys := make([]string, 0, len(all))
	for k := range all {
		keys = append(keys, k)
	}
	sort.Strings(keys)
	c.Stats["race:distinct-pairs"] = len(keys)
	c.Stats["race:reports"] = reports
	for _, k := range keys {
		c.Fail("c19/data-race/"+k, "race detector ("+fmt.Sprint(all[k].n)+" report(s)): "+all[k].example, map[string]interface{}{"report": all[k].block})
	}
	os.RemoveAll(bdir)
}

type c19RacePair struct {
	n       int
	example string
	block   string
}

var c19FrameRe = regexp.MustCompile(`^  (\S+)\(\)$`)

// c19ParseRaces canonicalises race reports. A report is
//
//	WARNING: DATA RACE / <Kind> at 0x.. by goroutine N: / frames (function line, then "      file:line +0x..") /
//	blank / Previous <kind> at ... / frames / blank / Goroutine ... created at: ...
func c19ParseRaces(text, repo string) map[string]*c19RacePair {
	out := map[string]*c19RacePair{}
	blocks := strings.Split(text, "WARNING: DATA RACE")
	for _, b := range blocks[1:] {
		if i := strings.Index(b, "=================="); i >= 0 {
			b = b[:i]
		}
		lines := strings.Split(b, "\n")
		var tops []string
		var kinds []string
		var vias []string
		var roots []string
		i := 0
		for i < len(lines) && len(tops) < 2 {
			l := lines[i]
			isAcc := (strings.HasPrefix(l, "Read at") || strings.HasPrefix(l, "Write at") || strings.HasPrefix(l, "Previous read at") || strings.HasPrefix(l, "Previous write at") || strings.HasPrefix(l, "Atomic") || strings.HasPrefix(l, "Previous atomic"))
			if !isAcc {
				i++
				continue
			}
			kind := "r"
			if strings.Contains(strings.ToLower(l), "write") {
				kind = "w"
			}
			i++
			top := ""
			bottom := ""
			root := ""
			deep := ""
			for i+1 < len(lines) && strings.HasPrefix(lines[i], "  ") {
				m := c19FrameRe.FindStringSubmatch(lines[i])
				file := strings.TrimSpace(lines[i+1])
				if m != nil && top == "" && (strings.HasPrefix(file, repo+"/") || strings.Contains(m[1], "LemoFoundationLtd/lemochain-core/")) && !strings.Contains(file, "/verif_") {
					fn := m[1]
					fn = strings.TrimPrefix(fn, "github.com/LemoFoundationLtd/lemochain-core/")
					if j := strings.LastIndex(fn, "/"); j >= 0 {
						fn = fn[j+1:]
					}
					fn = strings.NewReplacer("(*", "", ")", "").Replace(fn)
					top = fn
					// file:line of the access -> shared variable of the fact table
					loc := file
					if j := strings.Index(loc, " "); j >= 0 {
						loc = loc[:j]
					}
					if rel, err := filepath.Rel(repo, loc); err == nil && c19LastScan != nil {
						root = c19LastScan.accessAt[rel]
					}
					if root == "" && strings.HasPrefix(fn, "store.CBlock.") {
						root = "ChainDatabase.UnConfirmBlocks"
					}
					if fn == "store.ChainDatabase.appendConfirm" {
						root = "Block.Confirms" // the Confirms slice of a *types.Block shared with lock-free readers
					}
				}
				if m != nil && (strings.HasPrefix(file, repo+"/") || strings.Contains(m[1], "LemoFoundationLtd/lemochain-core/")) {
					fn := m[1]
					if j := strings.LastIndex(fn, "/"); j >= 0 {
						fn = fn[j+1:]
					}
					bottom = strings.NewReplacer("(*", "", ")", "").Replace(fn) // the outermost /repo frame = how this goroutine got there
					// fallback root: the first frame (from the top) that is an accessor function of a shared variable
					if root == "" && deep == "" {
						deep = c19VarOfFunc(bottom)
					}
				}
				i += 2
			}
			vias = append(vias, bottom)
			if root == "" {
				root = deep
			}
			roots = append(roots, root)
			if top == "" {
				top = "<outside-repo>"
			}
			tops = append(tops, top)
			kinds = append(kinds, kind)
		}
		if len(tops) < 2 {
			continue
		}
		a, bb := tops[0]+":"+kinds[0], tops[1]+":"+kinds[1]
		if bb < a {
			a, bb = bb, a
		}
		root := roots[0]
		if root == "" {
			root = roots[1]
		}
		if root == "" {
			root = "other"
		}
		key := root + "/" + a + "~" + bb
		p := out[key]
		if p == nil {
			blk := "WARNING: DATA RACE" + b
			if len(blk) > 2500 {
				blk = blk[:2500]
			}
			p = &c19RacePair{example: tops[0] + " (" + kinds[0] + ") vs " + tops[1] + " (" + kinds[1] + ")", block: blk}
			out[key] = p
		}
		p.n++
		via := vias[0] + " / " + vias[1]
		if !strings.Contains(p.example, via) && strings.Count(p.example, "; via ") < 4 {
			p.example += "; via " + via
		}
	}
	return out
}

// c19VarOfFunc: the shared variable a function (race-report spelling `pkg.Type.Method` / `pkg.Func`, closures
// `….funcN`) accesses directly according to the last scan ("" if none)
func c19VarOfFunc(fn string) string {
	if c19LastScan == nil {
		return ""
	}
	for strings.Contains(fn, ".func") {
		fn = fn[:strings.LastIndex(fn, ".func")]
	}
	cands := []string{fn}
	if i := strings.Index(fn, "."); i >= 0 && strings.Count(fn, ".") >= 2 {
		cands = append(cands, fn[i+1:])
	}
	best := ""
	for _, f := range c19LastScan.all {
		for _, c := range cands {
			if f.name == c {
				for _, a := range f.accesses {
					if n := c19Vars[a.v].Name; best == "" || n < best {
						best = n
					}
				}
			}
		}
	}
	return best
}

// ---------------------------------------------------------------- positive control of the race tier

func init() { subs["c19-racecanary"] = c19RaceCanaryChild }

var c19RaceCanaryVar int

//go:noinline
func c19RaceCanary(v int) { c19RaceCanaryVar = v }

// c19RaceCanaryChild plants one data race inside the harness itself (never inside /repo): under a -race build the
// detector must print a report naming c19RaceCanary; the parent checks that it does.
func c19RaceCanaryChild(c *Ctx) {
	h := &c19Hammer{res: &c19HResult{Rounds: 1, Counts: map[string]int{}}, out: c.Out, rnd: c.Rnd, seen: map[string]bool{}}
	done := make(chan struct{})
	go func() {
		for i := 0; i < 1000; i++ {
			c19RaceCanary(i)
		}
		close(done)
	}()
	for i := 0; i < 1000; i++ {
		c19RaceCanary(-i)
	}
	<-done
	h.res.Completed, h.res.Done = 1, true
	h.flush()
}

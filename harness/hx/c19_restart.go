package main

// c19_restart.go — restart of a node whose write-ahead file holds a block with asset transactions
// (child `c19-restart`; meaningful under -race, and as a plain data-integrity check).
//
// FileQueue.Start opens SyncFileDB (its goroutine runs) BEFORE checkFile/scanFile replay the tmp file.  When the
// replayed records contain a block with a CreateAsset/IssueAsset transaction, the sync goroutine's After hook
// (BeansDB.afterBlock → UtilsSetAssetCode → BeansDB.Put → FileQueue.Put) appends to the same file and moves
// Offset while scanFile is still reading it and moving Offset too.

import (
	"fmt"
	"time"

	"github.com/LemoFoundationLtd/lemochain-core/chain/deputynode"
	"github.com/LemoFoundationLtd/lemochain-core/chain/types"
	"github.com/LemoFoundationLtd/lemochain-core/common"
)

func init() { subs["c19-restart"] = c19RestartChild }

func c19RestartChild(c *Ctx) {
	h := &c19Hammer{res: &c19HResult{Rounds: c.N, Counts: map[string]int{}}, out: c.Out, rnd: c.Rnd, seen: map[string]bool{}}
	h.flush()
	for r := 0; r < c.N; r++ {
		h.runRound("c19-restart", r, func() { h.restartRound(r) })
	}
	h.res.Done = true
	h.flush()
}

func (h *c19Hammer) restartRound(round int) {
	const deputies = 5
	now := uint32(time.Now().Unix())
	w := NewWorld(deputies, now-500, 10000)
	n := w.NewNode(deputies)
	defer n.Close()
	deputynode.SetSelfNodeKey(w.DeputyKeys[0])
	parent := n.BC.CurrentBlock()
	var blocks []*types.Block
	for i := 1; i <= 30; i++ {
		t := parent.Time() + 1
		var txs types.Transactions
		// asset-creating transactions in every block: each stored block record makes the After hook call Put
		for j := 0; j < 5; j++ {
			txs = append(txs, txCreateAsset(w.FounderKey, 1, true, true, TxOpt{Exp: uint64(t) + 600, Msg: fmt.Sprintf("c19-restart-%d-%d-%d", round, i, j)}))
		}
		blk, invalid, err := n.Build(parent, t, txs, nil)
		if err != nil {
			panic(fmt.Sprintf("restart scenario: build block %d: %v", i, err))
		}
		if len(invalid) > 0 {
			h.count("restart:asset-tx-rejected-by-builder", len(invalid))
		}
		deputynode.SetSelfNodeKey(w.DeputyKeys[0])
		if err := n.Insert(CloneBlock(blk)); err != nil {
			panic(fmt.Sprintf("restart scenario: insert block %d: %v", i, err))
		}
		blocks = append(blocks, blk)
		parent = blk
	}
	tip := blocks[len(blocks)-1]
	var sigs []types.SignData
	for d := 1; d < deputies; d++ {
		sigs = append(sigs, Confirm(tip, w.DeputyKeys[d]))
	}
	if err := n.BC.VerifEngine().InsertConfirms(tip.Height(), tip.Hash(), sigs); err != nil {
		panic(fmt.Sprintf("restart scenario: InsertConfirms(tip): %v", err))
	}
	if n.BC.StableBlock().Hash() != tip.Hash() {
		h.fail(round, "c19/harness/scenario-guarantee-broken", "restart: the tip did not become stable after the packet with 4 valid confirms")
		return
	}
	want := map[uint32]common.Hash{}
	for _, b := range blocks {
		want[b.Height()] = b.Hash()
	}
	for rs := 0; rs < 2; rs++ {
		n.Reopen() // tmp file is replayed by FileQueue.Start
		time.Sleep(50 * time.Millisecond)
		for ht, hash := range want {
			b, err := n.DB.GetBlockByHeight(ht)
			if err != nil || b.Hash() != hash {
				h.fail(round, "c19/restart-lost-block", fmt.Sprintf("after restart %d the stable block at height %d cannot be read back unchanged (err=%v)", rs+1, ht, err))
			}
		}
		h.count("restart:restarts", 1)
	}
}

package main

// c19_scan.go — lock-discipline FACTS for property C19, regenerated from the source on every run.
//
// A small whole-repo static analysis with the standard library only (go/parser + go/types; every
// import outside the module is replaced by an empty fake package, errors are ignored: all objects
// that matter here — the shared variables, the lock fields, the methods and interfaces of /repo —
// are declared inside the module and resolve exactly).
//
//   * shared variables: c19Vars (a package-level var or a struct field, each with "its" lock);
//   * per function: every direct access (read / write) with the set of relevant locks held at
//     that point (statement-order tracking of `x.L.Lock()` … `x.L.Unlock()` / `defer x.L.Unlock()`),
//     every call site with the locks held there, every `go` statement / time.AfterFunc closure
//     (= a new root holding nothing);
//   * call graph: static calls exactly, interface calls by class-hierarchy analysis over all
//     loaded named types (method-name set + arity);
//   * per entry point: must-hold lock set at each reachable function
//     (held(f) = ⋂ over call sites (held(caller) ∪ held at the site), entry = ∅);
//   * rows  `access <var> <func> <r|w> <lockHeld> <entry>`.
//
// Function literals that are not launched by `go`/time.AfterFunc are treated as running inside the
// function that defines them with the locks held at the point of definition (true for the
// synchronous callbacks and local helper closures of the anchored code).

import (
	"fmt"
	"go/ast"
	"go/build"
	"go/parser"
	"go/token"
	"go/types"
	"os"
	"path/filepath"
	"sort"
	"strings"
)

const c19Mod = "github.com/LemoFoundationLtd/lemochain-core"

type c19Var struct {
	Name  string // name in the table
	Pkg   string // package directory relative to the repo
	Type  string // struct type ("" = package-level variable)
	Field string
	Lock  string // "<Type>.<field>" of the mutex, or "atomic"
}

var c19Vars = []c19Var{
	// Lock = the variable's nominal lock: the first of the `|` alternatives that exists in the tree
	// (the dedicated mutexes were added by /repo commits f4ffd1d, 204ebea, 20ee480; before them the only
	// candidate was the engine's chain lock / the store's RW)
	{"sigCache", "chain/consensus", "", "sigCache", "consensus.sigCacheMu|DPoVP.chainLock"},
	{"Confirmer.lastSig", "chain/consensus", "Confirmer", "lastSig", "Confirmer.lastSigLock|DPoVP.chainLock"},
	{"ForkManager.head", "chain/consensus", "ForkManager", "head", "atomic"},
	{"ChainDatabase.UnConfirmBlocks", "store", "ChainDatabase", "UnConfirmBlocks", "ChainDatabase.RW"},
	{"ChainDatabase.LastConfirm", "store", "ChainDatabase", "LastConfirm", "ChainDatabase.RW"},
	{"FileQueue.Offset", "store", "FileQueue", "Offset", "FileQueue.putLock|ChainDatabase.RW"},
	{"FileQueue.Index", "store", "FileQueue", "Index", "FileQueue.IndexRW"},
	{"Manager.termList", "chain/deputynode", "Manager", "termList", "Manager.lock"},
	{"Manager.evilDeputies", "chain/deputynode", "Manager", "evilDeputies", "Manager.edLock"},
}

// the packages whose goroutines / exported API are entry points
var c19Anchored = []string{"chain/consensus", "store", "chain/deputynode"}

// packages loaded as roots (their imports inside the module follow)
var c19Roots = []string{"chain/consensus", "store", "chain/deputynode", "chain", "chain/account", "chain/transaction", "chain/miner", "network", "main/node"}

type c19Mask uint64

type c19Access struct {
	v      int
	write  bool
	held   c19Mask
	atomic bool
	// locks of the CALLER that this function has released (non-deferred Unlock of a lock it did not take) before this point
	dropped c19Mask
	// per lock bit held locally: the Lock() statement that opened the section; source position of the access
	secs *[64]token.Pos
	pos  token.Pos
}

// A read-modify-write pair that must sit inside ONE critical section: inside Func, the call of Read and the call
// of Write must both hold Lock, acquired by the same Lock() (or both inherited from the caller, never released).
type c19RMW struct {
	Name  string // variable name in the table
	Func  string // the function containing the pair
	Read  string // callee that reads the record
	Write string // callee that writes it back
	Lock  string
}

var c19RMWs = []c19RMW{
	// the stored record of a STABLE block: setConfirm reads it from Beansdb, appends the confirms, writes it back
	{"Beansdb.blockRecord", "ChainDatabase.setConfirm", "ChainDatabase.getBlock4DB", "ChainDatabase.setBlock2DB", "ChainDatabase.RW"},
}

type c19RMWAccess struct {
	spec    int
	write   bool
	held    c19Mask
	dropped c19Mask
	sec     token.Pos // position of the Lock() statement that opened the section (0 = not locally held)
}

type c19Call struct {
	callees []*c19Fn
	held    c19Mask
	dropped c19Mask
	// unresolved description (interface call resolved after all packages are loaded)
	iface  *types.Interface
	method string
	static *types.Func
}

type c19Fn struct {
	name     string
	pkg      string // relative dir
	obj      *types.Func
	exported bool
	recv     string
	accesses []c19Access
	calls    []*c19Call
	spawns   []*c19Spawn
	nclos    int
	// every lock this function's own body takes (anywhere, nested blocks included)
	locksTaken c19Mask
	rmw        []c19RMWAccess
	// locks still held (taken here, no deferred Unlock) at a return statement or at the end of the body
	leaks c19Mask
	// every Lock()/RLock() statement: the lock and the locks already held locally
	lockSites []c19LockSite
	// accesses / calls / spawns in source order (start-up analysis: what happens after the first `go`)
	seq []c19Ev
	// calls through function VALUES (func-typed variables, parameters, fields) that the call graph cannot follow,
	// and `go` / time.AfterFunc of such values
	dynCalls, dynGo int
}

type c19LockSite struct {
	bit  c19Mask
	held c19Mask
}

type c19Ev struct {
	kind byte // 'a' access, 'c' call, 's' spawn
	idx  int
}

type c19Spawn struct {
	kind   string // "go" | "timer"
	target *c19Fn // closure node, or nil when the target is a call to resolve
	call   *c19Call
	from   *c19Fn
}

type c19Pkg struct {
	rel   string
	files []*ast.File
	pkg   *types.Package
	info  *types.Info
}

type c19Scan struct {
	repo   string
	fset   *token.FileSet
	pkgs   map[string]*c19Pkg // by import path
	fake   map[string]*types.Package
	errs   int
	varObj map[types.Object]int    // tracked variable objects
	lockOf map[types.Object]string // mutex field object -> "Type.field"
	locks  []string                // relevant lock names (index = bit)
	fns    map[*types.Func]*c19Fn
	all    []*c19Fn
	named  []*types.Named
	notes  []string
	// the nominal lock chosen for each variable
	nominal []string
	// second pass: RLock / RUnlock are not lock operations (only exclusive sections protect a write)
	exclusiveOnly bool
	// lock name -> package directory (relative) of its declaration
	lockPkg map[string]string
	// "<file relative to the repo>:<line>" of every direct access -> variable name (race report mapping)
	accessAt map[string]string
}

func (s *c19Scan) Import(path string) (*types.Package, error) {
	if path == "unsafe" {
		return types.Unsafe, nil
	}
	if path == c19Mod || strings.HasPrefix(path, c19Mod+"/") {
		p, err := s.load(path)
		if err != nil {
			return nil, err
		}
		return p.pkg, nil
	}
	if p, ok := s.fake[path]; ok {
		return p, nil
	}
	name := path[strings.LastIndex(path, "/")+1:]
	if i := strings.Index(name, "."); i > 0 { // gopkg.in/x/cli.v1
		name = name[:i]
	}
	name = strings.ReplaceAll(name, "-", "_")
	p := types.NewPackage(path, name)
	p.MarkComplete()
	s.fake[path] = p
	return p, nil
}

func (s *c19Scan) load(path string) (*c19Pkg, error) {
	if p, ok := s.pkgs[path]; ok {
		if p.pkg == nil {
			return nil, fmt.Errorf("import cycle through %s", path)
		}
		return p, nil
	}
	rel := strings.TrimPrefix(strings.TrimPrefix(path, c19Mod), "/")
	dir := filepath.Join(s.repo, rel)
	p := &c19Pkg{rel: rel}
	s.pkgs[path] = p
	ents, err := os.ReadDir(dir)
	if err != nil {
		return nil, err
	}
	ctx := build.Default
	ctx.BuildTags = nil // production build: the `verif` hook files are not part of the code under analysis
	ctx.CgoEnabled = true
	for _, e := range ents {
		n := e.Name()
		if e.IsDir() || !strings.HasSuffix(n, ".go") || strings.HasSuffix(n, "_test.go") {
			continue
		}
		if ok, err := ctx.MatchFile(dir, n); err != nil || !ok {
			continue
		}
		f, err := parser.ParseFile(s.fset, filepath.Join(dir, n), nil, parser.SkipObjectResolution)
		if err != nil {
			return nil, err
		}
		p.files = append(p.files, f)
	}
	// keep the files of the majority package name (a directory may hold a stray `package main` tool)
	cnt := map[string]int{}
	for _, f := range p.files {
		cnt[f.Name.Name]++
	}
	best := ""
	for n, c := range cnt {
		if best == "" || c > cnt[best] || (c == cnt[best] && n < best) {
			best = n
		}
	}
	var fs []*ast.File
	for _, f := range p.files {
		if f.Name.Name == best {
			fs = append(fs, f)
		}
	}
	p.files = fs
	p.info = &types.Info{
		Defs:       map[*ast.Ident]types.Object{},
		Uses:       map[*ast.Ident]types.Object{},
		Selections: map[*ast.SelectorExpr]*types.Selection{},
		Types:      map[ast.Expr]types.TypeAndValue{},
	}
	conf := types.Config{Importer: s, FakeImportC: true, Error: func(error) { s.errs++ }, DisableUnusedImportCheck: true}
	pkg, _ := conf.Check(path, s.fset, p.files, p.info)
	if pkg == nil {
		return nil, fmt.Errorf("type-check of %s produced no package", path)
	}
	p.pkg = pkg
	return p, nil
}

func isSyncMutexType(e ast.Expr) bool {
	sel, ok := e.(*ast.SelectorExpr)
	if !ok {
		return false
	}
	id, ok := sel.X.(*ast.Ident)
	return ok && id.Name == "sync" && (sel.Sel.Name == "Mutex" || sel.Sel.Name == "RWMutex")
}

// index: tracked variables, mutex fields, named types
func (s *c19Scan) index() error {
	s.varObj = map[types.Object]int{}
	s.lockOf = map[types.Object]string{}
	found := make([]bool, len(c19Vars))
	for _, p := range s.pkgs {
		if p.pkg == nil {
			continue
		}
		for _, f := range p.files {
			for _, d := range f.Decls {
				gd, ok := d.(*ast.GenDecl)
				if !ok {
					continue
				}
				for _, sp := range gd.Specs {
					switch sp := sp.(type) {
					case *ast.ValueSpec:
						if gd.Tok != token.VAR {
							continue
						}
						for _, id := range sp.Names {
							if sp.Type != nil && isSyncMutexType(sp.Type) {
								if o := p.info.Defs[id]; o != nil {
									s.lockOf[o] = p.pkg.Name() + "." + id.Name // a package-level mutex
								}
							}
							for i, v := range c19Vars {
								if v.Type == "" && v.Pkg == p.rel && v.Field == id.Name {
									if o := p.info.Defs[id]; o != nil {
										s.varObj[o] = i
										found[i] = true
									}
								}
							}
						}
					case *ast.TypeSpec:
						if o, ok := p.info.Defs[sp.Name].(*types.TypeName); ok {
							if n, ok := o.Type().(*types.Named); ok {
								s.named = append(s.named, n)
							}
						}
						st, ok := sp.Type.(*ast.StructType)
						if !ok {
							continue
						}
						for _, fl := range st.Fields.List {
							for _, id := range fl.Names {
								o := p.info.Defs[id]
								if o == nil {
									continue
								}
								if isSyncMutexType(fl.Type) {
									s.lockOf[o] = sp.Name.Name + "." + id.Name
								}
								for i, v := range c19Vars {
									if v.Type == sp.Name.Name && v.Pkg == p.rel && v.Field == id.Name {
										s.varObj[o] = i
										found[i] = true
									}
								}
							}
						}
					}
				}
			}
		}
	}
	for i, ok := range found {
		if !ok {
			return fmt.Errorf("shared variable %s not found in %s", c19Vars[i].Name, c19Vars[i].Pkg)
		}
	}
	// lock identity is the declared object; the printed name "Type.field" is qualified by the package when two
	// different mutexes of the module would print alike
	byName := map[string][]types.Object{}
	for o, n := range s.lockOf {
		byName[n] = append(byName[n], o)
	}
	for n, os := range byName {
		if len(os) > 1 {
			for _, o := range os {
				if o.Pkg() != nil {
					s.lockOf[o] = o.Pkg().Name() + "." + n
				}
			}
		}
	}
	s.lockPkg = map[string]string{}
	for o, n := range s.lockOf {
		if o.Pkg() != nil {
			s.lockPkg[n] = strings.TrimPrefix(strings.TrimPrefix(o.Pkg().Path(), c19Mod), "/")
		}
	}
	seenLock := map[string]bool{}
	for _, n := range s.lockOf {
		if !seenLock[n] {
			seenLock[n] = true
			s.locks = append(s.locks, n)
		}
	}
	sort.Strings(s.locks)
	if len(s.locks) > 64 {
		return fmt.Errorf("more than 64 mutexes in the module (%d)", len(s.locks))
	}
	s.nominal = make([]string, len(c19Vars))
	for i, v := range c19Vars {
		if v.Lock == "atomic" {
			s.nominal[i] = "atomic"
			continue
		}
		for _, alt := range strings.Split(v.Lock, "|") {
			if seenLock[alt] {
				s.nominal[i] = alt
				break
			}
		}
		if s.nominal[i] == "" {
			return fmt.Errorf("lock %s not found (no sync.Mutex/RWMutex of that name)", v.Lock)
		}
	}
	sort.Slice(s.named, func(i, j int) bool {
		a, b := s.named[i].Obj(), s.named[j].Obj()
		if a.Pkg().Path() != b.Pkg().Path() {
			return a.Pkg().Path() < b.Pkg().Path()
		}
		return a.Name() < b.Name()
	})
	return nil
}

func (s *c19Scan) noteAccess(pos token.Pos, v int) {
	if s.accessAt == nil {
		s.accessAt = map[string]string{}
	}
	p := s.fset.Position(pos)
	rel, err := filepath.Rel(s.repo, p.Filename)
	if err != nil {
		rel = p.Filename
	}
	s.accessAt[fmt.Sprintf("%s:%d", rel, p.Line)] = c19Vars[v].Name
}

func (s *c19Scan) lockBit(name string) c19Mask {
	for i, l := range s.locks {
		if l == name {
			return 1 << uint(i)
		}
	}
	return 0
}

// ---------------------------------------------------------------- per-function walk

type c19Walker struct {
	s  *c19Scan
	p  *c19Pkg
	fn *c19Fn
	// caller's locks released so far in this function (source order, monotone = conservative)
	dropped c19Mask
	// per lock bit: the Lock() statement that opened the section currently held locally
	lastLock [64]token.Pos
	// locks with a registered `defer x.Unlock()`
	deferred c19Mask
}

func recvTypeName(fd *ast.FuncDecl) string {
	if fd.Recv == nil || len(fd.Recv.List) != 1 {
		return ""
	}
	t := fd.Recv.List[0].Type
	if st, ok := t.(*ast.StarExpr); ok {
		t = st.X
	}
	if id, ok := t.(*ast.Ident); ok {
		return id.Name
	}
	return ""
}

func (s *c19Scan) collect() {
	s.fns = map[*types.Func]*c19Fn{}
	var paths []string
	for path := range s.pkgs {
		paths = append(paths, path)
	}
	sort.Strings(paths)
	type job struct {
		p  *c19Pkg
		fd *ast.FuncDecl
		fn *c19Fn
	}
	var jobs []job
	for _, path := range paths {
		p := s.pkgs[path]
		if p.pkg == nil {
			continue
		}
		for _, f := range p.files {
			for _, d := range f.Decls {
				fd, ok := d.(*ast.FuncDecl)
				if !ok || fd.Body == nil {
					continue
				}
				obj, _ := p.info.Defs[fd.Name].(*types.Func)
				if obj == nil {
					continue
				}
				recv := recvTypeName(fd)
				name := p.pkg.Name() + "." + fd.Name.Name
				if recv != "" {
					name = recv + "." + fd.Name.Name
				}
				fn := &c19Fn{name: name, pkg: p.rel, obj: obj, exported: fd.Name.IsExported(), recv: recv}
				s.fns[obj] = fn
				s.all = append(s.all, fn)
				jobs = append(jobs, job{p, fd, fn})
			}
		}
	}
	for _, j := range jobs {
		w := &c19Walker{s: s, p: j.p, fn: j.fn}
		end := w.stmts(j.fd.Body.List, 0)
		j.fn.leaks |= end &^ w.deferred
	}
}

// lockCall: `<x>.<L>.Lock()` etc. on a relevant mutex field
func (w *c19Walker) lockCall(e ast.Expr) (c19Mask, string) {
	call, ok := e.(*ast.CallExpr)
	if !ok || len(call.Args) != 0 {
		return 0, ""
	}
	sel, ok := call.Fun.(*ast.SelectorExpr)
	if !ok {
		return 0, ""
	}
	switch sel.Sel.Name {
	case "Lock", "Unlock":
	case "RLock", "RUnlock":
		if w.s.exclusiveOnly {
			return 0, ""
		}
	default:
		return 0, ""
	}
	var id *ast.Ident
	switch x := sel.X.(type) {
	case *ast.SelectorExpr:
		id = x.Sel
	case *ast.Ident:
		id = x
	default:
		return 0, ""
	}
	o := w.p.info.Uses[id]
	if o == nil {
		return 0, ""
	}
	name, ok := w.s.lockOf[o]
	if !ok {
		return 0, ""
	}
	return w.s.lockBit(name), sel.Sel.Name
}

func (w *c19Walker) stmts(list []ast.Stmt, held c19Mask) c19Mask {
	saved := w.lastLock // what a nested list does to the sections is dropped together with its lock set
	for _, st := range list {
		held = w.stmt(st, held)
	}
	w.lastLock = saved
	return held
}

// clauses: the case / comm clauses of a switch or select are alternatives: each starts from `held`, the result is
// the intersection
func (w *c19Walker) clauses(list []ast.Stmt, held c19Mask) c19Mask {
	out := held
	for _, cl := range list {
		out &= w.stmt(cl, held)
	}
	return out
}

func bitIndex(m c19Mask) int {
	for i := 0; i < 64; i++ {
		if m == 1<<uint(i) {
			return i
		}
	}
	return -1
}

// stmt returns the lock set held after the statement.  Nested blocks: a lock RELEASED inside a nested block
// (on any branch) counts as released afterwards, a lock TAKEN inside is not kept (intersection = conservative).
func (w *c19Walker) stmt(st ast.Stmt, held c19Mask) c19Mask {
	switch st := st.(type) {
	case nil:
	case *ast.ExprStmt:
		if bit, m := w.lockCall(st.X); m != "" {
			if m == "Lock" || m == "RLock" {
				w.fn.locksTaken |= bit
				w.fn.lockSites = append(w.fn.lockSites, c19LockSite{bit, held})
				if i := bitIndex(bit); i >= 0 {
					w.lastLock[i] = st.Pos()
				}
				return held | bit
			}
			if held&bit == 0 {
				w.dropped |= bit // releases a lock it did not take here: the caller's
			}
			return held &^ bit
		}
		w.expr(st.X, held, nil)
	case *ast.DeferStmt:
		if bit, m := w.lockCall(st.Call); m == "Unlock" || m == "RUnlock" {
			w.deferred |= bit
			return held // released at function exit
		}
		w.expr(st.Call, held, nil)
	case *ast.GoStmt:
		w.spawn("go", st.Call, held)
	case *ast.BlockStmt:
		return held & w.stmts(st.List, held)
	case *ast.IfStmt:
		w.stmt(st.Init, held)
		w.expr(st.Cond, held, nil)
		a := w.stmts(st.Body.List, held)
		b := w.stmt(st.Else, held)
		return held & a & b
	case *ast.ForStmt:
		w.stmt(st.Init, held)
		w.expr(st.Cond, held, nil)
		w.stmt(st.Post, held)
		return held & w.stmts(st.Body.List, held)
	case *ast.RangeStmt:
		wr := map[ast.Node]bool{}
		w.markWrite(st.Key, wr)
		w.markWrite(st.Value, wr)
		w.expr(st.Key, held, wr)
		w.expr(st.Value, held, wr)
		w.expr(st.X, held, nil)
		return held & w.stmts(st.Body.List, held)
	case *ast.SwitchStmt:
		w.stmt(st.Init, held)
		w.expr(st.Tag, held, nil)
		return held & w.clauses(st.Body.List, held)
	case *ast.TypeSwitchStmt:
		w.stmt(st.Init, held)
		w.stmt(st.Assign, held)
		return held & w.clauses(st.Body.List, held)
	case *ast.CaseClause:
		for _, e := range st.List {
			w.expr(e, held, nil)
		}
		return held & w.stmts(st.Body, held)
	case *ast.SelectStmt:
		return held & w.clauses(st.Body.List, held)
	case *ast.CommClause:
		w.stmt(st.Comm, held)
		return held & w.stmts(st.Body, held)
	case *ast.LabeledStmt:
		return w.stmt(st.Stmt, held)
	case *ast.AssignStmt:
		wr := map[ast.Node]bool{}
		for _, l := range st.Lhs {
			w.markWrite(l, wr)
		}
		for _, l := range st.Lhs {
			w.expr(l, held, wr)
		}
		for _, r := range st.Rhs {
			w.expr(r, held, nil)
		}
	case *ast.IncDecStmt:
		wr := map[ast.Node]bool{}
		w.markWrite(st.X, wr)
		w.expr(st.X, held, wr)
	case *ast.ReturnStmt:
		for _, r := range st.Results {
			w.expr(r, held, nil)
		}
		w.fn.leaks |= held &^ w.deferred // returns with a lock it took and will not release
	case *ast.SendStmt:
		w.expr(st.Chan, held, nil)
		w.expr(st.Value, held, nil)
	case *ast.DeclStmt:
		if gd, ok := st.Decl.(*ast.GenDecl); ok {
			for _, sp := range gd.Specs {
				if vs, ok := sp.(*ast.ValueSpec); ok {
					for _, v := range vs.Values {
						w.expr(v, held, nil)
					}
				}
			}
		}
	case *ast.BranchStmt, *ast.EmptyStmt:
	default:
		w.s.notes = append(w.s.notes, fmt.Sprintf("unhandled statement %T in %s", st, w.fn.name))
	}
	return held
}

func (w *c19Walker) tracked(e ast.Expr) (int, bool) {
	var id *ast.Ident
	switch x := e.(type) {
	case *ast.SelectorExpr:
		id = x.Sel
	case *ast.Ident:
		id = x
	default:
		return 0, false
	}
	o := w.p.info.Uses[id]
	if o == nil {
		return 0, false
	}
	i, ok := w.s.varObj[o]
	return i, ok
}

// markWrite: the base chain of an assignment target (x.f.g, x.f[k], *x.f, x.f[a:b]) is written
func (w *c19Walker) markWrite(e ast.Expr, wr map[ast.Node]bool) {
	for e != nil {
		if _, ok := w.tracked(e); ok {
			wr[e] = true
		}
		switch x := e.(type) {
		case *ast.SelectorExpr:
			e = x.X
		case *ast.IndexExpr:
			e = x.X
		case *ast.SliceExpr:
			e = x.X
		case *ast.StarExpr:
			e = x.X
		case *ast.ParenExpr:
			e = x.X
		default:
			return
		}
	}
}

func (w *c19Walker) newClosure(lit *ast.FuncLit) *c19Fn {
	w.fn.nclos++
	// closures spawned from a closure keep the name of the declared function they sit in
	base := w.fn.name
	fn := &c19Fn{name: fmt.Sprintf("%s$%d", base, w.fn.nclos), pkg: w.fn.pkg}
	w.s.all = append(w.s.all, fn)
	cw := &c19Walker{s: w.s, p: w.p, fn: fn}
	end := cw.stmts(lit.Body.List, 0)
	fn.leaks |= end &^ cw.deferred
	return fn
}

func (w *c19Walker) spawn(kind string, call *ast.CallExpr, held c19Mask) {
	// arguments are evaluated by the spawning goroutine
	for _, a := range call.Args {
		w.expr(a, held, nil)
	}
	sp := &c19Spawn{kind: kind, from: w.fn}
	if lit, ok := call.Fun.(*ast.FuncLit); ok {
		sp.target = w.newClosure(lit)
	} else {
		// receiver expression is evaluated here too
		if sel, ok := call.Fun.(*ast.SelectorExpr); ok {
			w.expr(sel.X, held, nil)
		}
		sp.call = w.resolve(call, 0)
		if sp.call == nil {
			w.fn.dynGo++ // `go f()` of a function value: no root can be derived
			return
		}
	}
	w.fn.spawns = append(w.fn.spawns, sp)
	w.fn.seq = append(w.fn.seq, c19Ev{'s', len(w.fn.spawns) - 1})
}

func isAfterFunc(call *ast.CallExpr) bool {
	sel, ok := call.Fun.(*ast.SelectorExpr)
	if !ok || sel.Sel.Name != "AfterFunc" {
		return false
	}
	id, ok := sel.X.(*ast.Ident)
	return ok && id.Name == "time"
}

// expr records accesses and calls inside an expression evaluated with `held`
func (w *c19Walker) expr(e ast.Expr, held c19Mask, wr map[ast.Node]bool) {
	if e == nil {
		return
	}
	atomicBase := map[ast.Node]string{}
	ast.Inspect(e, func(n ast.Node) bool {
		switch x := n.(type) {
		case *ast.FuncLit:
			w.stmts(x.Body.List, held) // runs inside the defining function (see file comment)
			return false
		case *ast.CallExpr:
			if isAfterFunc(x) && len(x.Args) == 2 {
				w.expr(x.Args[0], held, nil)
				if lit, ok := x.Args[1].(*ast.FuncLit); ok {
					w.fn.spawns = append(w.fn.spawns, &c19Spawn{kind: "timer", from: w.fn, target: w.newClosure(lit)})
					w.fn.seq = append(w.fn.seq, c19Ev{'s', len(w.fn.spawns) - 1})
				} else if c := w.funcValue(x.Args[1]); c != nil {
					// time.AfterFunc(d, x.method) / time.AfterFunc(d, f): a timer root running that function
					if sel, ok := x.Args[1].(*ast.SelectorExpr); ok {
						w.expr(sel.X, held, nil)
					}
					w.fn.spawns = append(w.fn.spawns, &c19Spawn{kind: "timer", from: w.fn, call: c})
					w.fn.seq = append(w.fn.seq, c19Ev{'s', len(w.fn.spawns) - 1})
				} else {
					w.expr(x.Args[1], held, nil)
					w.fn.dynGo++
				}
				return false
			}
			if sel, ok := x.Fun.(*ast.SelectorExpr); ok {
				if _, ok := w.tracked(sel.X); ok {
					switch sel.Sel.Name {
					case "Load":
						atomicBase[sel.X] = "r"
					case "Store", "Swap", "CompareAndSwap":
						atomicBase[sel.X] = "w"
					}
				}
				if id, ok := sel.X.(*ast.Ident); ok && id.Name == "delete" {
					_ = id
				}
			}
			if id, ok := x.Fun.(*ast.Ident); ok && id.Name == "delete" && len(x.Args) == 2 {
				if wr == nil {
					wr = map[ast.Node]bool{}
				}
				w.markWrite(x.Args[0], wr)
			}
			if c := w.resolve(x, held); c == nil {
				if w.isFuncValueCall(x) {
					w.fn.dynCalls++
				}
			} else {
				c.dropped = w.dropped
				w.fn.calls = append(w.fn.calls, c)
				w.fn.seq = append(w.fn.seq, c19Ev{'c', len(w.fn.calls) - 1})
				if c.static != nil {
					callee := c19FuncDisplayName(c.static)
					for si, spec := range c19RMWs {
						if w.fn.name != spec.Func || (callee != spec.Read && callee != spec.Write) {
							continue
						}
						ra := c19RMWAccess{spec: si, write: callee == spec.Write, held: held, dropped: w.dropped}
						if bit := w.s.lockBit(spec.Lock); held&bit != 0 {
							if i := bitIndex(bit); i >= 0 {
								ra.sec = w.lastLock[i]
							}
						}
						w.fn.rmw = append(w.fn.rmw, ra)
					}
				}
			}
			return true
		case *ast.SelectorExpr:
			if i, ok := w.tracked(x); ok {
				secs := w.lastLock
				a := c19Access{v: i, held: held, write: wr != nil && wr[x], dropped: w.dropped, secs: &secs, pos: x.Pos()}
				w.s.noteAccess(x.Pos(), i)
				if m, ok := atomicBase[x]; ok {
					a.atomic = true
					a.write = m == "w"
				}
				w.fn.accesses = append(w.fn.accesses, a)
				w.fn.seq = append(w.fn.seq, c19Ev{'a', len(w.fn.accesses) - 1})
			}
			return true
		case *ast.Ident:
			if i, ok := w.tracked(x); ok && c19Vars[i].Type == "" {
				w.s.noteAccess(x.Pos(), i)
				secs := w.lastLock
				w.fn.accesses = append(w.fn.accesses, c19Access{v: i, held: held, write: wr != nil && wr[x], dropped: w.dropped, secs: &secs, pos: x.Pos()})
				w.fn.seq = append(w.fn.seq, c19Ev{'a', len(w.fn.accesses) - 1})
			}
		}
		return true
	})
}

// resolve a call expression to a (possibly still symbolic) call record
func (w *c19Walker) resolve(call *ast.CallExpr, held c19Mask) *c19Call {
	fun := call.Fun
	for {
		if p, ok := fun.(*ast.ParenExpr); ok {
			fun = p.X
		} else {
			break
		}
	}
	switch f := fun.(type) {
	case *ast.Ident:
		if o, ok := w.p.info.Uses[f].(*types.Func); ok {
			return &c19Call{static: o, held: held}
		}
	case *ast.SelectorExpr:
		if sel, ok := w.p.info.Selections[f]; ok {
			if sel.Kind() != types.MethodVal {
				return nil // a call through a func-typed field
			}
			m, ok := sel.Obj().(*types.Func)
			if !ok {
				return nil
			}
			if it, ok := sel.Recv().Underlying().(*types.Interface); ok {
				return &c19Call{iface: it, method: m.Name(), held: held}
			}
			return &c19Call{static: m, held: held}
		}
		if o, ok := w.p.info.Uses[f.Sel].(*types.Func); ok { // pkg.Func
			return &c19Call{static: o, held: held}
		}
	}
	return nil
}

// funcValue: an expression used as a function VALUE (not called here) that denotes a declared function or method
func (w *c19Walker) funcValue(e ast.Expr) *c19Call {
	switch f := e.(type) {
	case *ast.ParenExpr:
		return w.funcValue(f.X)
	case *ast.Ident:
		if o, ok := w.p.info.Uses[f].(*types.Func); ok {
			return &c19Call{static: o}
		}
	case *ast.SelectorExpr:
		if sel, ok := w.p.info.Selections[f]; ok && sel.Kind() == types.MethodVal {
			if m, ok := sel.Obj().(*types.Func); ok {
				if it, ok := sel.Recv().Underlying().(*types.Interface); ok {
					return &c19Call{iface: it, method: m.Name()}
				}
				return &c19Call{static: m}
			}
		}
		if o, ok := w.p.info.Uses[f.Sel].(*types.Func); ok {
			return &c19Call{static: o}
		}
	}
	return nil
}

// isFuncValueCall: an unresolved call whose callee is a func-typed variable / parameter / struct field of the module
// (calls of functions of packages outside the module, conversions and builtins are not counted)
func (w *c19Walker) isFuncValueCall(call *ast.CallExpr) bool {
	fun := call.Fun
	for {
		if p, ok := fun.(*ast.ParenExpr); ok {
			fun = p.X
		} else {
			break
		}
	}
	switch f := fun.(type) {
	case *ast.Ident:
		if v, ok := w.p.info.Uses[f].(*types.Var); ok {
			_, isSig := v.Type().Underlying().(*types.Signature)
			return isSig
		}
	case *ast.SelectorExpr:
		if sel, ok := w.p.info.Selections[f]; ok && sel.Kind() == types.FieldVal {
			_, isSig := sel.Type().Underlying().(*types.Signature)
			return isSig
		}
	}
	return false
}

// ---------------------------------------------------------------- call graph (CHA for interfaces)

func arity(f *types.Func) [2]int {
	sig, ok := f.Type().(*types.Signature)
	if !ok {
		return [2]int{-1, -1}
	}
	return [2]int{sig.Params().Len(), sig.Results().Len()}
}

func (s *c19Scan) link() {
	type key struct {
		it *types.Interface
		m  string
	}
	cache := map[key][]*c19Fn{}
	implementers := func(it *types.Interface, m string) []*c19Fn {
		k := key{it, m}
		if r, ok := cache[k]; ok {
			return r
		}
		var out []*c19Fn
		for _, n := range s.named {
			if _, isIface := n.Underlying().(*types.Interface); isIface {
				continue
			}
			ms := types.NewMethodSet(types.NewPointer(n))
			ok := true
			var target *types.Func
			for i := 0; i < it.NumMethods(); i++ {
				im := it.Method(i)
				sel := ms.Lookup(im.Pkg(), im.Name())
				if sel == nil {
					ok = false
					break
				}
				cm, isF := sel.Obj().(*types.Func)
				if !isF || arity(cm) != arity(im) {
					ok = false
					break
				}
				if im.Name() == m {
					target = cm
				}
			}
			if ok && target != nil {
				if fn := s.fns[target]; fn != nil {
					out = append(out, fn)
				}
			}
		}
		cache[k] = out
		return out
	}
	fix := func(c *c19Call) {
		if c == nil {
			return
		}
		if c.static != nil {
			if fn := s.fns[c.static]; fn != nil {
				c.callees = []*c19Fn{fn}
			}
		} else if c.iface != nil {
			c.callees = implementers(c.iface, c.method)
		}
	}
	for _, fn := range s.all {
		for _, c := range fn.calls {
			fix(c)
		}
		for _, sp := range fn.spawns {
			fix(sp.call)
		}
	}
}

// must-hold lock set at the entry of every function reachable from `entry`
func (s *c19Scan) reach(entry *c19Fn) map[*c19Fn]c19Mask { return s.reachFrom(entry, 0) }

func (s *c19Scan) reachFrom(entry *c19Fn, h0 c19Mask) map[*c19Fn]c19Mask {
	held := map[*c19Fn]c19Mask{entry: h0}
	work := []*c19Fn{entry}
	for len(work) > 0 {
		f := work[len(work)-1]
		work = work[:len(work)-1]
		h := held[f]
		for _, c := range f.calls {
			for _, t := range c.callees {
				nh := (h &^ c.dropped) | c.held
				if old, ok := held[t]; !ok {
					held[t] = nh
					work = append(work, t)
				} else if old&nh != old {
					held[t] = old & nh
					work = append(work, t)
				}
			}
		}
	}
	return held
}

type c19Row struct {
	Var, Fn, RW string
	Held        bool
	Entry       string
}

func (r c19Row) String() string {
	return fmt.Sprintf("access %s %s %s %v %s", r.Var, r.Fn, r.RW, r.Held, r.Entry)
}

type c19Entry struct {
	name string
	fn   *c19Fn
}

func inList(x string, l []string) bool {
	for _, y := range l {
		if x == y {
			return true
		}
	}
	return false
}

func (s *c19Scan) entries() []c19Entry {
	var out []c19Entry
	seen := map[string]bool{}
	add := func(name string, fn *c19Fn) {
		if fn == nil || seen[name] {
			return
		}
		seen[name] = true
		out = append(out, c19Entry{name, fn})
	}
	byName := map[string]*c19Fn{}
	for _, fn := range s.all {
		if inList(fn.pkg, c19Anchored) {
			byName[fn.name] = fn
		}
	}
	// 1. the engine's public entry points
	for _, n := range []string{"DPoVP.MineBlock", "DPoVP.InsertBlock", "DPoVP.InsertConfirms"} {
		add(n, byName[n])
	}
	// 2. goroutines and timers started inside the anchored packages
	for _, fn := range s.all {
		if !inList(fn.pkg, c19Anchored) {
			continue
		}
		for _, sp := range fn.spawns {
			pre := "go:"
			if sp.kind == "timer" {
				pre = "timer:"
			}
			if sp.target != nil {
				add(pre+sp.target.name, sp.target)
			} else if sp.call != nil {
				for _, t := range sp.call.callees {
					add(pre+t.name, t)
				}
			}
		}
	}
	// 3. the store's public API
	for _, fn := range s.all {
		if fn.pkg == "store" && fn.recv == "ChainDatabase" && fn.exported {
			add("store:"+strings.TrimPrefix(fn.name, "ChainDatabase."), fn)
		}
	}
	// 4. other exported functions of the anchored packages that touch a shared variable directly and
	//    are called from a package outside the anchored ones (constructors New* excepted)
	callers := map[*c19Fn][]*c19Fn{}
	for _, fn := range s.all {
		for _, c := range fn.calls {
			for _, t := range c.callees {
				callers[t] = append(callers[t], fn)
			}
		}
	}
	for _, fn := range s.all {
		if !inList(fn.pkg, c19Anchored) || !fn.exported || len(fn.accesses) == 0 || fn.obj == nil {
			continue
		}
		if strings.HasPrefix(fn.obj.Name(), "New") || fn.pkg == "store" { // the store's API is ChainDatabase (rule 3)
			continue
		}
		ext := false
		for _, c := range callers[fn] {
			if !inList(c.pkg, c19Anchored) {
				ext = true
			}
		}
		if ext {
			add("ext:"+fn.name, fn)
		}
	}
	return out
}

// rows builds the table.  A variable's GUARD is a lock held at every access from a real entry point
// (the intersection of the lock sets over all those accesses; "atomic" when every access goes through
// atomic.Value Load/Store; "none" when there is no such lock).  lockHeld of a row = the access holds the
// variable's nominal lock (c19Vars) or its guard.
func (s *c19Scan) rows() ([]c19Row, map[string]string) {
	type k struct {
		v     int
		fn    string
		write bool
		entry string
	}
	type acc struct {
		key    k
		mask   c19Mask
		atomic bool
	}
	var all []acc
	covered := map[*c19Fn]bool{} // has accesses and is reached from an entry
	reached := map[*c19Fn]bool{} // reached from an entry
	addReach := func(name string, held map[*c19Fn]c19Mask) {
		for fn, h := range held {
			reached[fn] = true
			for _, a := range fn.accesses {
				covered[fn] = true
				all = append(all, acc{k{a.v, fn.name, a.write, name}, (h &^ a.dropped) | a.held, a.atomic})
			}
		}
	}
	for _, e := range s.entries() {
		addReach(e.name, s.reach(e.fn))
	}
	// The rest of the exported API of the anchored packages (everything another package, an RPC or a network thread
	// may call at any time): an accessor that only such a function reaches is NOT start-up code.  Constructors and
	// life-cycle methods are left to the start-up analysis below.
	lifecycle := func(fn *c19Fn) bool {
		if fn.obj == nil {
			return false
		}
		n := fn.obj.Name()
		return strings.HasPrefix(n, "New") || n == "Start" || n == "Open" || n == "Close" || n == "Stop" || n == "init"
	}
	for _, fn := range s.all {
		if !inList(fn.pkg, c19Anchored) || !fn.exported || fn.obj == nil || reached[fn] || lifecycle(fn) {
			continue
		}
		held := s.reach(fn)
		uncoveredAccessor := false
		for g := range held {
			if len(g.accesses) > 0 && !covered[g] {
				uncoveredAccessor = true
			}
		}
		if !uncoveredAccessor {
			continue
		}
		// only the not yet covered accessors get rows (the others already have theirs from the named entries)
		for g, h := range held {
			if covered[g] {
				continue
			}
			for _, a := range g.accesses {
				all = append(all, acc{k{a.v, g.name, a.write, "api:" + fn.name}, (h &^ a.dropped) | a.held, a.atomic})
			}
		}
	}
	apiCovered := map[*c19Fn]bool{}
	for _, a := range all {
		if strings.HasPrefix(a.key.entry, "api:") {
			for _, fn := range s.all {
				if fn.name == a.key.fn {
					apiCovered[fn] = true
				}
			}
		}
	}
	// Start-up analysis.  Code that no entry reaches (constructors, Start/Open) is exempt ("-") only for what it does
	// BEFORE it starts a goroutine that can reach the same variable: walking the start-up functions in source order,
	// `live` is the set of variables reachable from the goroutines started so far (own `go`/timer statements and those
	// of the functions already called); an access of a live variable gets a real entry `init:<root>`.
	varsOf := map[*c19Fn]map[int]bool{}
	reachVars := func(t *c19Fn) map[int]bool {
		if m, ok := varsOf[t]; ok {
			return m
		}
		m := map[int]bool{}
		for g := range s.reach(t) {
			for _, a := range g.accesses {
				m[a.v] = true
			}
		}
		varsOf[t] = m
		return m
	}
	spawnTargets := func(sp *c19Spawn) []*c19Fn {
		if sp.target != nil {
			return []*c19Fn{sp.target}
		}
		if sp.call != nil {
			return sp.call.callees
		}
		return nil
	}
	// spawnVars(f): variables reachable from goroutines started by f or anything it calls
	spawnVars := map[*c19Fn]map[int]bool{}
	for _, f := range s.all {
		m := map[int]bool{}
		for _, sp := range f.spawns {
			for _, t := range spawnTargets(sp) {
				for v := range reachVars(t) {
					m[v] = true
				}
			}
		}
		spawnVars[f] = m
	}
	for changed := true; changed; {
		changed = false
		for _, f := range s.all {
			for _, c := range f.calls {
				for _, t := range c.callees {
					for v := range spawnVars[t] {
						if !spawnVars[f][v] {
							spawnVars[f][v] = true
							changed = true
						}
					}
				}
			}
		}
	}
	postGo := map[*c19Fn]map[int]bool{} // access indexes of f that happen after a goroutine reaching the variable runs
	var initWalk func(root string, f *c19Fn, live map[int]bool, h c19Mask, depth int) map[int]bool
	visiting := map[*c19Fn]bool{}
	initWalk = func(root string, f *c19Fn, live map[int]bool, h c19Mask, depth int) map[int]bool {
		if visiting[f] || depth > 40 {
			return live
		}
		visiting[f] = true
		defer delete(visiting, f)
		for _, ev := range f.seq {
			switch ev.kind {
			case 's':
				for _, t := range spawnTargets(f.spawns[ev.idx]) {
					for v := range reachVars(t) {
						live[v] = true
					}
				}
			case 'a':
				a := f.accesses[ev.idx]
				if live[a.v] {
					if postGo[f] == nil {
						postGo[f] = map[int]bool{}
					}
					postGo[f][ev.idx] = true
					all = append(all, acc{k{a.v, f.name, a.write, "init:" + root}, (h &^ a.dropped) | a.held, a.atomic})
				}
			case 'c':
				c := f.calls[ev.idx]
				for _, t := range c.callees {
					if reached[t] || apiCovered[t] {
						for v := range spawnVars[t] {
							live[v] = true
						}
						continue
					}
					live = initWalk(root, t, live, (h&^c.dropped)|c.held, depth+1)
				}
			}
		}
		return live
	}
	hasUncoveredCaller := map[*c19Fn]bool{}
	for _, f := range s.all {
		if reached[f] || apiCovered[f] || !inList(f.pkg, c19Anchored) {
			continue
		}
		for _, c := range f.calls {
			for _, t := range c.callees {
				if t != f {
					hasUncoveredCaller[t] = true
				}
			}
		}
	}
	for _, f := range s.all {
		if reached[f] || apiCovered[f] || hasUncoveredCaller[f] || !inList(f.pkg, c19Anchored) {
			continue
		}
		initWalk(f.name, f, map[int]bool{}, 0, 0)
	}
	// what is left: accesses of start-up code before any goroutine that could reach the variable exists: entry "-"
	for _, fn := range s.all {
		if covered[fn] || apiCovered[fn] {
			continue
		}
		for i, a := range fn.accesses {
			if postGo[fn][i] {
				continue
			}
			all = append(all, acc{k{a.v, fn.name, a.write, "-"}, a.held, a.atomic})
		}
	}
	common := make([]c19Mask, len(c19Vars))
	allAtomic := make([]bool, len(c19Vars))
	for i := range common {
		common[i] = ^c19Mask(0)
		allAtomic[i] = true
	}
	for _, a := range all {
		if a.key.entry == "-" {
			continue
		}
		common[a.key.v] &= a.mask
		allAtomic[a.key.v] = allAtomic[a.key.v] && a.atomic
	}
	guards := map[string]string{}
	for i, v := range c19Vars {
		var names []string
		for b, l := range s.locks {
			if common[i] != ^c19Mask(0) && common[i]&(1<<uint(b)) != 0 {
				names = append(names, l)
			}
		}
		switch {
		case s.nominal[i] == "atomic" && allAtomic[i]:
			guards[v.Name] = "atomic"
		case len(names) > 0:
			guards[v.Name] = strings.Join(names, "+")
		default:
			guards[v.Name] = "none"
			common[i] = 0
		}
	}
	agg := map[k]bool{}
	for _, a := range all {
		var ok bool
		if s.nominal[a.key.v] == "atomic" {
			ok = a.atomic || a.mask&common[a.key.v] != 0
		} else {
			ok = a.mask&(s.lockBit(s.nominal[a.key.v])|common[a.key.v]) != 0
		}
		if old, seen := agg[a.key]; seen {
			agg[a.key] = old && ok
		} else {
			agg[a.key] = ok
		}
	}
	var out []c19Row
	for key, held := range agg {
		rw := "r"
		if key.write {
			rw = "w"
		}
		out = append(out, c19Row{c19Vars[key.v].Name, key.fn, rw, held, key.entry})
	}
	sort.Slice(out, func(i, j int) bool { return out[i].String() < out[j].String() })
	return out, guards
}

func c19FuncDisplayName(f *types.Func) string {
	if sig, ok := f.Type().(*types.Signature); ok && sig.Recv() != nil {
		t := sig.Recv().Type()
		if p, ok := t.(*types.Pointer); ok {
			t = p.Elem()
		}
		if n, ok := t.(*types.Named); ok {
			return n.Obj().Name() + "." + f.Name()
		}
	}
	if f.Pkg() != nil {
		return f.Pkg().Name() + "." + f.Name()
	}
	return f.Name()
}

// rmwRows: the read row is `held` when Lock is held at the read; the write row is `held` when Lock is held at the
// write AND it is the same critical section as every read of the pair (same Lock() statement, or both inherited
// from the caller and not released in between).
func (s *c19Scan) rmwRows() ([]c19Row, map[string]string, error) {
	var out []c19Row
	guards := map[string]string{}
	for si, spec := range c19RMWs {
		var fn *c19Fn
		for _, f := range s.all {
			if f.name == spec.Func && inList(f.pkg, c19Anchored) {
				fn = f
			}
		}
		nr, nw := 0, 0
		if fn != nil {
			for _, ra := range fn.rmw {
				if ra.spec == si {
					if ra.write {
						nw++
					} else {
						nr++
					}
				}
			}
		}
		if fn == nil || nr == 0 || nw == 0 {
			return nil, nil, fmt.Errorf("read-modify-write pair %s: %s with calls of %s and %s not found", spec.Name, spec.Func, spec.Read, spec.Write)
		}
		bit := s.lockBit(spec.Lock)
		if bit == 0 {
			return nil, nil, fmt.Errorf("read-modify-write pair %s: lock %s not found", spec.Name, spec.Lock)
		}
		allHeld := true
		type k struct {
			write bool
			entry string
		}
		agg := map[k]bool{}
		emit := func(entry string, h c19Mask) {
			// section of an access: >0 local Lock() statement, -1 inherited from the caller, 0 not held
			sec := func(ra c19RMWAccess) int64 {
				if ra.held&bit != 0 {
					return int64(ra.sec)
				}
				if (h&^ra.dropped)&bit != 0 {
					return -1
				}
				return 0
			}
			for _, ra := range fn.rmw {
				if ra.spec != si {
					continue
				}
				ok := sec(ra) != 0
				if ra.write && ok {
					for _, rb := range fn.rmw {
						if rb.spec == si && !rb.write && sec(rb) != sec(ra) {
							ok = false // lock released (or re-taken) between the read and the write back
						}
					}
				}
				key := k{ra.write, entry}
				if old, seen := agg[key]; seen {
					agg[key] = old && ok
				} else {
					agg[key] = ok
				}
			}
		}
		reached := false
		for _, e := range s.entries() {
			if h, ok := s.reach(e.fn)[fn]; ok {
				reached = true
				emit(e.name, h)
			}
		}
		if !reached {
			emit("-", 0)
		}
		for key, held := range agg {
			rw := "r"
			if key.write {
				rw = "w"
			}
			if !held && key.entry != "-" {
				allHeld = false
			}
			out = append(out, c19Row{spec.Name, spec.Func, rw, held, key.entry})
		}
		if allHeld {
			guards[spec.Name] = spec.Lock
		} else {
			guards[spec.Name] = "none"
		}
	}
	return out, guards, nil
}

// ---------------------------------------------------------------- reads of the fork head that feed a decision
//
// The engine's critical section must START before the head is read: inside every function that takes the chain
// lock (MineBlock, InsertBlock, InsertConfirms) each call that reads the fork head or the stable head — directly
// (ForkManager.head load, ChainDatabase.LoadLatestBlock) or through any callee — must hold the lock taken by that
// function.  Row: `access ForkManager.head.decision <F>/<callee> r <inside the section?> <F>`.
//
// One read is outside on purpose and is listed as `false` in the committed table: InsertBlock's early exit
// isIgnorableBlock (block already stored / height ≤ stable).  It is a pre-check on MONOTONE facts (a stored block
// stays known, the stable height only grows) whose negative answer is re-validated under the lock (VerifyAndSeal:
// parent lookup, SetBlock: ErrExist / height ≤ last confirm); its positive answer only drops the request.

const c19HeadDecision = "ForkManager.head.decision"
const c19ChainLock = "DPoVP.chainLock"

var c19BenignPrechecks = []string{"DPoVP.InsertBlock/DPoVP.isIgnorableBlock"}

func (s *c19Scan) headDecisionRows() ([]c19Row, string, error) {
	headVar := -1
	for i, v := range c19Vars {
		if v.Name == "ForkManager.head" {
			headVar = i
		}
	}
	reads := map[*c19Fn]bool{}
	for _, f := range s.all {
		if f.name == "ChainDatabase.LoadLatestBlock" && f.pkg == "store" {
			reads[f] = true
		}
		for _, a := range f.accesses {
			if a.v == headVar && !a.write {
				reads[f] = true
			}
		}
	}
	if len(reads) < 2 {
		return nil, "", fmt.Errorf("head readers not found (ForkManager.head load / ChainDatabase.LoadLatestBlock)")
	}
	for changed := true; changed; {
		changed = false
		for _, f := range s.all {
			if reads[f] {
				continue
			}
			for _, c := range f.calls {
				for _, t := range c.callees {
					if reads[t] && !reads[f] {
						reads[f] = true
						changed = true
					}
				}
			}
		}
	}
	bit := s.lockBit(c19ChainLock)
	if bit == 0 {
		return nil, "", fmt.Errorf("lock %s not found", c19ChainLock)
	}
	agg := map[[2]string]bool{}
	takers := 0
	for _, f := range s.all {
		if !inList(f.pkg, c19Anchored) || f.locksTaken&bit == 0 {
			continue
		}
		takers++
		for _, c := range f.calls {
			for _, t := range c.callees {
				if !reads[t] {
					continue
				}
				key := [2]string{f.name, t.name}
				ok := c.held&bit != 0
				if old, seen := agg[key]; seen {
					agg[key] = old && ok
				} else {
					agg[key] = ok
				}
			}
		}
	}
	if takers == 0 || len(agg) == 0 {
		return nil, "", fmt.Errorf("no function taking %s with a read of the head found", c19ChainLock)
	}
	var out []c19Row
	guard := c19ChainLock
	for key, held := range agg {
		fn := key[0] + "/" + key[1]
		if !held && !inList(fn, c19BenignPrechecks) {
			guard = "none"
		}
		out = append(out, c19Row{c19HeadDecision, fn, "r", held, key[0]})
	}
	return out, guard, nil
}

// ---------------------------------------------------------------- check-then-act splits
//
// For every tracked variable: a function that READS it in one critical section of the variable's lock and WRITES it
// in ANOTHER critical section of the same lock later in the same function (the lock is released between the guarding
// read and the write) is a check-then-act split: every access is guarded, yet check and update are not atomic.
// Expected: none (`rmw-split <var> <func>` lines, committed list empty).

type c19Split struct{ Var, Fn string }

func (s *c19Scan) rmwSplits() []c19Split {
	var out []c19Split
	seen := map[c19Split]bool{}
	for _, f := range s.all {
		for vi, v := range c19Vars {
			if s.nominal[vi] == "atomic" {
				continue
			}
			bit := s.lockBit(s.nominal[vi])
			i := bitIndex(bit)
			if i < 0 {
				continue
			}
			for _, r := range f.accesses {
				if r.v != vi || r.write || r.held&bit == 0 || r.secs == nil {
					continue
				}
				for _, w := range f.accesses {
					if w.v != vi || !w.write || w.held&bit == 0 || w.secs == nil {
						continue
					}
					if w.pos > r.pos && w.secs[i] != r.secs[i] {
						k := c19Split{v.Name, f.name}
						if !seen[k] {
							seen[k] = true
							out = append(out, k)
						}
					}
				}
			}
		}
	}
	sort.Slice(out, func(i, j int) bool { return out[i].Var+out[i].Fn < out[j].Var+out[j].Fn })
	return out
}

// ---------------------------------------------------------------- lock leaks and lock order
//
// lock-leak <func> <lock>: the function takes the lock and can return (or fall off its end) still holding it, with no
// deferred Unlock: a missing Unlock on one path.  Expected: none.
// lock-order <A> <B>: B is taken while A may be held (A held locally at the Lock() statement, or held by some caller
// path).  The committed edge list must be acyclic (a cycle = a lock-order inversion = a possible deadlock); A = B is a
// re-acquisition of a non-reentrant mutex.

type c19Pair struct{ A, B string }

func (s *c19Scan) lockLeaks() []c19Pair {
	var out []c19Pair
	for _, f := range s.all {
		if !inList(f.pkg, c19Anchored) {
			continue
		}
		for b, l := range s.locks {
			if f.leaks&(1<<uint(b)) != 0 {
				out = append(out, c19Pair{f.name, l})
			}
		}
	}
	sort.Slice(out, func(i, j int) bool { return out[i].A+out[i].B < out[j].A+out[j].B })
	return out
}

func (s *c19Scan) mayHeld() map[*c19Fn]c19Mask {
	may := map[*c19Fn]c19Mask{}
	for changed := true; changed; {
		changed = false
		for _, f := range s.all {
			for _, cl := range f.calls {
				for _, t := range cl.callees {
					nh := may[f] | cl.held
					if may[t]|nh != may[t] {
						may[t] |= nh
						changed = true
					}
				}
			}
		}
	}
	return may
}

func (s *c19Scan) lockOrder() []c19Pair {
	may := s.mayHeld()
	seen := map[c19Pair]bool{}
	var out []c19Pair
	for _, f := range s.all {
		for _, site := range f.lockSites {
			bi := bitIndex(site.bit)
			if bi < 0 {
				continue
			}
			before := may[f] | site.held
			for a, la := range s.locks {
				if before&(1<<uint(a)) == 0 {
					continue
				}
				p := c19Pair{la, s.locks[bi]}
				if !inList(s.lockPkg[p.A], c19Anchored) && !inList(s.lockPkg[p.B], c19Anchored) {
					continue // an edge between two locks outside the anchored packages
				}
				if !seen[p] {
					seen[p] = true
					out = append(out, p)
				}
			}
		}
	}
	sort.Slice(out, func(i, j int) bool { return out[i].A+" "+out[i].B < out[j].A+" "+out[j].B })
	return out
}

// c19LockRank: a topological order of the lock-order edges ("" and the offending pair when there is a cycle)
// Lock identity is per TYPE: an edge A → A is a re-acquisition only if it is the same instance.  The known ones
// (different instances / over-approximated interface calls) are listed here and in the committed table; a new one is
// reported.
var c19KnownSelfEdges = []string{"BitCask.RW"}

// functions that hand a lock to their caller on purpose
var c19KnownLockLeaks = []string{"TrieDatabase.Lock"}

func c19LockRank(edges []c19Pair) ([]string, *c19Pair) {
	nodes := map[string]bool{}
	indeg := map[string]int{}
	adj := map[string][]string{}
	for _, e := range edges {
		if e.A == e.B {
			if inList(e.A, c19KnownSelfEdges) {
				continue
			}
			return nil, &c19Pair{e.A, e.B}
		}
		nodes[e.A], nodes[e.B] = true, true
		adj[e.A] = append(adj[e.A], e.B)
		indeg[e.B]++
	}
	var order []string
	for len(order) < len(nodes) {
		var ready []string
		for n := range nodes {
			if indeg[n] == 0 {
				ready = append(ready, n)
			}
		}
		if len(ready) == 0 {
			// a cycle: report one edge inside it
			for _, e := range edges {
				if indeg[e.A] > 0 && indeg[e.B] > 0 {
					return nil, &c19Pair{e.A, e.B}
				}
			}
			return nil, &edges[0]
		}
		sort.Strings(ready)
		n := ready[0]
		order = append(order, n)
		indeg[n] = -1
		for _, m := range adj[n] {
			indeg[m]--
		}
	}
	return order, nil
}

// c19AllVarNames: the shared variables of c19Vars followed by the read-modify-write records of c19RMWs
func c19AllVarNames() []string {
	var out []string
	for _, v := range c19Vars {
		out = append(out, v.Name)
	}
	for _, r := range c19RMWs {
		out = append(out, r.Name)
	}
	out = append(out, c19HeadDecision)
	return out
}

// c19NominalLock: the lock a finding about variable `name` talks about
func c19NominalLock(name string) string {
	for i, v := range c19Vars {
		if v.Name == name && c19LastScan != nil {
			return c19LastScan.nominal[i]
		}
	}
	for _, r := range c19RMWs {
		if r.Name == name {
			return r.Lock + " (one critical section from the read to the write back)"
		}
	}
	if name == c19HeadDecision {
		return c19ChainLock + " (the section must start before the head is read)"
	}
	return ""
}

// c19LastScan keeps the last successful scan (nominal locks, access positions) for the other parts of hx c19
var c19LastScan *c19Scan

// c19ScanRepo: READ rows come from a scan in which RLock counts as holding the lock; WRITE rows from a second scan
// in which RLock/RUnlock are ignored (a writer under a read lock is not protected); a variable keeps its guard only
// if no write row from a real entry point became false.
func c19ScanRepo(repo string) ([]c19Row, map[string]string, error) {
	rowsA, guards, sA, err := c19ScanOnce(repo, false)
	if err != nil {
		return nil, nil, err
	}
	rowsB, _, _, err := c19ScanOnce(repo, true)
	if err != nil {
		return nil, nil, err
	}
	excl := map[string]bool{}
	for _, r := range rowsB {
		if r.RW == "w" {
			excl[r.Var+"|"+r.Fn+"|"+r.Entry] = r.Held
		}
	}
	for i, r := range rowsA {
		if r.RW != "w" {
			continue
		}
		if h, ok := excl[r.Var+"|"+r.Fn+"|"+r.Entry]; ok && r.Held && !h {
			rowsA[i].Held = false // held through RLock only
			if r.Entry != "-" {
				guards[r.Var] = "none"
			}
		}
	}
	c19LastScan = sA
	return rowsA, guards, nil
}

func c19ScanOnce(repo string, exclusiveOnly bool) ([]c19Row, map[string]string, *c19Scan, error) {
	s := &c19Scan{repo: repo, fset: token.NewFileSet(), pkgs: map[string]*c19Pkg{}, fake: map[string]*types.Package{}, exclusiveOnly: exclusiveOnly}
	for _, r := range c19Roots {
		if _, err := s.load(c19Mod + "/" + r); err != nil {
			return nil, nil, nil, fmt.Errorf("load %s: %v", r, err)
		}
	}
	if err := s.index(); err != nil {
		return nil, nil, nil, err
	}
	s.collect()
	s.link()
	rows, guards := s.rows()
	rrows, rguards, err := s.rmwRows()
	if err != nil {
		return nil, nil, nil, err
	}
	rows = append(rows, rrows...)
	hrows, hguard, err := s.headDecisionRows()
	if err != nil {
		return nil, nil, nil, err
	}
	rows = append(rows, hrows...)
	guards[c19HeadDecision] = hguard
	sort.Slice(rows, func(i, j int) bool { return rows[i].String() < rows[j].String() })
	for k, v := range rguards {
		guards[k] = v
	}
	return rows, guards, s, nil
}

// ---------------------------------------------------------------- repair analysis (`hx c19-lockpaths`)
//
// For a candidate function f and a lock L, decide whether taking L inside f can self-deadlock
// (sync.Mutex / RWMutex are not re-entrant):
//   mayHeld(f)    = locks held on SOME call path into f (union over all call sites, every function of the
//                   module is a possible root holding nothing)  — L ∈ mayHeld(f) ⇒ a caller already holds L;
//   mayAcquire(f) = locks taken by f or anything it (transitively, statically/CHA) calls
//                   — L ∈ mayAcquire(callee of the new critical section) ⇒ the section would re-acquire L.
// Function values passed as callbacks are NOT followed into the callee (they are attributed to the
// function that defines them): callback-taking functions need a manual look at their call sites.

func init() { subs["c19-lockpaths"] = c19LockPaths }

func (s *c19Scan) acquired(fn *c19Fn) c19Mask {
	return fn.locksTaken
}

func c19LockPaths(c *Ctx) {
	s := &c19Scan{repo: c19Repo(), fset: token.NewFileSet(), pkgs: map[string]*c19Pkg{}, fake: map[string]*types.Package{}}
	for _, r := range c19Roots {
		if _, err := s.load(c19Mod + "/" + r); err != nil {
			panic(err)
		}
	}
	if err := s.index(); err != nil {
		panic(err)
	}
	s.collect()
	s.link()
	names := func(m c19Mask) string {
		var out []string
		for b, l := range s.locks {
			if m&(1<<uint(b)) != 0 {
				out = append(out, l)
			}
		}
		if len(out) == 0 {
			return "{}"
		}
		return "{" + strings.Join(out, ", ") + "}"
	}
	// mayHeld: union fixpoint; pred keeps one witness (caller, lock set at the call site)
	may := map[*c19Fn]c19Mask{}
	type wit struct {
		from *c19Fn
		add  c19Mask
	}
	pred := map[*c19Fn]map[c19Mask]wit{}
	changed := true
	for changed {
		changed = false
		for _, f := range s.all {
			for _, cl := range f.calls {
				for _, t := range cl.callees {
					nh := may[f] | cl.held
					if may[t]|nh != may[t] {
						if pred[t] == nil {
							pred[t] = map[c19Mask]wit{}
						}
						for b := range s.locks {
							bit := c19Mask(1) << uint(b)
							if nh&bit != 0 && may[t]&bit == 0 {
								pred[t][bit] = wit{f, cl.held & bit}
							}
						}
						may[t] |= nh
						changed = true
					}
				}
			}
		}
	}
	// mayAcquire: transitive
	acq := map[*c19Fn]c19Mask{}
	for _, f := range s.all {
		acq[f] = f.locksTaken
	}
	changed = true
	for changed {
		changed = false
		for _, f := range s.all {
			for _, cl := range f.calls {
				for _, t := range cl.callees {
					if acq[f]|acq[t] != acq[f] {
						acq[f] |= acq[t]
						changed = true
					}
				}
			}
		}
	}
	want := strings.Split(os.Getenv("C19_FUNCS"), ",")
	for _, f := range s.all {
		if !inList(f.name, want) {
			continue
		}
		fmt.Printf("%s (%s)\n  mayHeld    = %s\n  mayAcquire = %s\n", f.name, f.pkg, names(may[f]), names(acq[f]))
		for b, l := range s.locks {
			bit := c19Mask(1) << uint(b)
			if may[f]&bit == 0 {
				continue
			}
			// witness path backwards
			var path []string
			cur := f
			for i := 0; i < 12 && cur != nil; i++ {
				w, ok := pred[cur][bit]
				if !ok {
					break
				}
				mark := ""
				if w.add != 0 {
					mark = " [takes " + l + "]"
				}
				path = append(path, w.from.name+mark)
				if w.add != 0 {
					break
				}
				cur = w.from
			}
			fmt.Printf("  witness for %s: %s\n", l, strings.Join(path, " <- "))
		}
		var callers []string
		for _, g := range s.all {
			for _, cl := range g.calls {
				for _, t := range cl.callees {
					if t == f {
						callers = append(callers, g.name+names(cl.held))
					}
				}
			}
		}
		sort.Strings(callers)
		fmt.Printf("  call sites (%d): %s\n", len(callers), strings.Join(callers, " "))
	}
}

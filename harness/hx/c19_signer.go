package main

// c19_signer.go — ties the Lean signer model (LemoModel/Signer.lean) to the code.
//
//   sign <cacheHash> <cacheSig> <h>   REAL consensus.SignBlock, run alone, from a preset cache
//                                     (add-only hook VerifSetSigCache / VerifSigCache); hashes and
//                                     signatures are printed as small labels: label of a signature =
//                                     the label of the hash it verifies for under the node key.
//   sched <ch> <cs> <h0> <h1> <bits>  one merge of two unsynchronised calls: the Go side is a
//                                     line-by-line TRANSLITERATION of SignBlock stepped by the same
//                                     schedule (a consistency check of the model's step function,
//                                     NOT an execution of the real code: the real function cannot be
//                                     paused between two memory accesses).

import (
	"bytes"
	"fmt"
	"strings"

	"github.com/LemoFoundationLtd/lemochain-core/chain/consensus"
	"github.com/LemoFoundationLtd/lemochain-core/chain/deputynode"
	"github.com/LemoFoundationLtd/lemochain-core/chain/types"
	"github.com/LemoFoundationLtd/lemochain-core/common"
	"github.com/LemoFoundationLtd/lemochain-core/common/crypto"
)

const c19Labels = 4

func c19HashOf(l int) common.Hash {
	if l == 0 {
		return common.Hash{}
	}
	return crypto.Keccak256Hash([]byte(fmt.Sprintf("c19-hash-%d", l)))
}

func c19LabelOfHash(h common.Hash) int {
	for l := 0; l < c19Labels; l++ {
		if c19HashOf(l) == h {
			return l
		}
	}
	return -1
}

func c19LabelOfSig(sig []byte, self []byte) int {
	if len(sig) == 0 {
		return 0
	}
	for l := 1; l < c19Labels; l++ {
		id, err := types.BytesToSignData(sig).RecoverNodeID(c19HashOf(l))
		if err == nil && bytes.Equal(id, self) {
			return l
		}
	}
	return -1
}

// the transliteration used by `sched`
type c19sb struct {
	hash, sig int
	pc        [2]int
	ret       [2]int
}

func (m *c19sb) step(i, h int) {
	switch m.pc[i] {
	case 0: // if sigCache.Hash == blockHash
		if m.hash == h {
			m.pc[i] = 1
		} else {
			m.pc[i] = 2
		}
	case 1: // return sigCache.Sig
		m.ret[i] = m.sig
		m.pc[i] = 5
	case 2: // sigCache.Hash = blockHash
		m.hash = h
		m.pc[i] = 3
	case 3: // sigCache.Sig = sig
		m.sig = h
		m.pc[i] = 4
	case 4: // return sigCache.Sig
		m.ret[i] = m.sig
		m.pc[i] = 5
	}
}

func c19Signer(c *Ctx) {
	key := detKey("deputy-0")
	deputynode.SetSelfNodeKey(key)
	self := deputynode.GetSelfNodeID()
	sigs := make([][]byte, c19Labels)
	for l := 1; l < c19Labels; l++ {
		h := c19HashOf(l)
		s, err := crypto.Sign(h[:], key)
		if err != nil {
			panic(err)
		}
		sigs[l] = s
	}
	// exhaustive over cache states (consistent, empty, torn) and requests
	for ch := 0; ch < c19Labels; ch++ {
		for cs := 0; cs < c19Labels; cs++ {
			for h := 0; h < c19Labels; h++ {
				if h == 0 && ch != 0 {
					continue // a miss on the zero hash signs the zero hash: no label for that signature (block hashes are never zero)
				}
				op := fmt.Sprintf("sign %d %d %d", ch, cs, h)
				out := Safe(func() string {
					consensus.VerifSetSigCache(c19HashOf(ch), sigs[cs])
					sig, err := consensus.SignBlock(c19HashOf(h))
					if err != nil {
						return "err " + err.Error()
					}
					h2, s2 := consensus.VerifSigCache()
					r := c19LabelOfSig(sig, self)
					cls := "miss"
					if ch == h {
						cls = "hit"
					}
					state := "consistent-cache"
					if ch != cs {
						state = "torn-cache"
					}
					c.Count("sign:" + cls + ":" + state)
					if r != h {
						if ch == cs {
							c.Fail("c19/signblock-sequential-wrong", fmt.Sprintf("SignBlock(h%d) run alone from the consistent cache (h%d, sig over h%d) returned a signature over h%d", h, ch, cs, r), nil)
						} else {
							// the consequence of the race, reproduced deterministically on the real function
							c.Count("nontrivial:real-SignBlock-from-torn-cache-returns-signature-over-another-hash")
						}
					}
					return fmt.Sprintf("ret %d cache %d %d", r, c19LabelOfHash(h2), c19LabelOfSig(s2, self))
				})
				c.Op(op, out)
			}
		}
	}
	consensus.VerifSetSigCache(common.Hash{}, nil)
	// the transliteration against the model: all 70 merges of the two scenarios of the theorems + random ones
	var merges []string
	var gen func(pre string, a, b int)
	gen = func(pre string, a, b int) {
		if a == 0 && b == 0 {
			merges = append(merges, pre)
			return
		}
		if a > 0 {
			gen(pre+"0", a-1, b)
		}
		if b > 0 {
			gen(pre+"1", a, b-1)
		}
	}
	gen("", 4, 4)
	sched := func(ch, cs, h0, h1 int, bits string) {
		m := &c19sb{hash: ch, sig: cs, ret: [2]int{-1, -1}}
		for _, b := range bits {
			if b == '0' {
				m.step(0, h0)
			} else {
				m.step(1, h1)
			}
		}
		show := func(r int) string {
			if r < 0 {
				return "-"
			}
			return fmt.Sprint(r)
		}
		bad := (m.ret[0] >= 0 && m.ret[0] != h0) || (m.ret[1] >= 0 && m.ret[1] != h1)
		switch {
		case bad:
			c.Count("sched:wrong-signature-returned")
		case m.hash != m.sig:
			c.Count("sched:torn-cache-left")
		default:
			c.Count("sched:correct")
		}
		c.Op(fmt.Sprintf("sched %d %d %d %d %s", ch, cs, h0, h1, bits), fmt.Sprintf("ret %s %s cache %d %d", show(m.ret[0]), show(m.ret[1]), m.hash, m.sig))
	}
	for _, b := range merges {
		sched(0, 0, 1, 2, b)
	}
	for _, b := range merges {
		sched(1, 1, 2, 2, b)
	}
	// a few hundred random schedules are plenty for a consistency check of two hand-written step functions
	n := c.N / 5
	if n > 300 {
		n = 300
	}
	for i := 0; i < n; i++ {
		l := c.Rnd.Intn(10)
		var sb strings.Builder
		for j := 0; j < l; j++ {
			sb.WriteByte("01"[c.Rnd.Intn(2)])
		}
		if l == 0 {
			sb.WriteByte('0')
		}
		sched(c.Rnd.Intn(4), c.Rnd.Intn(4), c.Rnd.Intn(4), c.Rnd.Intn(4), sb.String())
	}
}

package main

// c19_verify.go — independent signature verification (clause 2 oracles).
//
// The harness SETS the node key (deputynode.SetSelfNodeKey), so it knows it: a signature the node emits is judged
// with the standard library's ecdsa.Verify (generic-curve path; only the curve arithmetic of secp256k1 comes from
// /repo's vendored BitCurve) against that key and a hash the harness holds itself — not with /repo's
// SignData.RecoverNodeID against /repo's GetSelfNodeID, and not through a memo of the object under test
// (Header.SignerNodeID caches).  /repo's verdict is still computed: a disagreement between the two is
// `c19/fed-fact/signature`.

import (
	"bytes"
	"crypto/ecdsa"
	"fmt"
	"math/big"

	"github.com/LemoFoundationLtd/lemochain-core/chain/types"
	"github.com/LemoFoundationLtd/lemochain-core/common"
	"github.com/LemoFoundationLtd/lemochain-core/common/crypto"
)

// c19SigBy: is sig (65 bytes r||s||v) a signature of key over hash, by the standard library
func c19SigBy(key *ecdsa.PrivateKey, hash common.Hash, sig []byte) bool {
	if key == nil || len(sig) != 65 {
		return false
	}
	r := new(big.Int).SetBytes(sig[:32])
	s := new(big.Int).SetBytes(sig[32:64])
	return ecdsa.Verify(&key.PublicKey, hash[:], r, s)
}

// c19NodeIDOf: the node id derived from the key without /repo's helpers (uncompressed point without the 0x04 prefix)
func c19NodeIDOf(key *ecdsa.PrivateKey) []byte {
	out := make([]byte, 64)
	x, y := key.PublicKey.X.Bytes(), key.PublicKey.Y.Bytes()
	copy(out[32-len(x):32], x)
	copy(out[64-len(y):], y)
	return out
}

// c19OwnSig judges a signature the node emitted.  Returns the independent verdict; reports a disagreement with
// /repo's recover-and-compare verdict.
func (h *c19Hammer) c19OwnSig(round int, what string, key *ecdsa.PrivateKey, hash common.Hash, sig []byte) bool {
	indep := c19SigBy(key, hash, sig)
	repo := false
	if len(sig) == 65 {
		if id, err := types.BytesToSignData(sig).RecoverNodeID(hash); err == nil && bytes.Equal(id, c19NodeIDOf(key)) {
			repo = true
		}
	}
	if indep != repo {
		h.fail(round, "c19/fed-fact/signature", fmt.Sprintf("%s: the standard library's ecdsa.Verify against the key the harness installed says valid=%v, /repo's RecoverNodeID says valid=%v (hash %x…)", what, indep, repo, hash[:4]))
	}
	// crypto.Sign is deterministic (RFC 6979): what the node emits for this hash is what the harness computes itself
	if indep {
		if want, err := crypto.Sign(hash[:], key); err == nil && !bytes.Equal(want, sig) {
			h.count("verify:valid-signature-with-other-bytes-than-crypto.Sign(key,hash)", 1)
		}
	}
	h.count("verify:own-signatures-checked-independently", 1)
	return indep
}

// c19SignerAmong: which of the keys signed (independent verifier), -1 if none
func c19SignerAmong(keys []*ecdsa.PrivateKey, hash common.Hash, sig []byte) int {
	for i, k := range keys {
		if c19SigBy(k, hash, sig) {
			return i
		}
	}
	return -1
}

package main

// c19_writerlag.go — reads and read-modify-writes of the store while the asynchronous writer LAGS (child `c19-writerlag`).
//
// Three threads touch one key of the store: the request threads (every ChainDatabase call), the sync goroutine
// (SyncFileDB.start: bitcask write, After hook, Done) and the done goroutine (FileQueue.start: afterPut → delIndex).
// Between a Put and the moment its record is on disk a read is answered from FileQueue.Index; the entry may only
// disappear when the NEWEST value of its key is on disk (refCnt = number of hand-overs delIndex has not seen).  No lock
// protects that protocol as a whole — IndexRW protects each map access, ChainDatabase.RW the requests among themselves —
// so the lock tables and the race detector say nothing about it.  This child enumerates SCHEDULES.
//
//   family `queue`  (op lines `lagq …`): the REAL FileQueue + bitcask files + LevelDB position index, detached
//       (store.VerifNewDetachedQueueDB): the harness itself performs the steps of the two goroutines with the real
//       functions (SyncFileDB.put; afterPut → delIndex), one at a time, at EVERY position of small scripts of Put / Get /
//       read-modify-write (exhaustive DFS over all effective interleavings, sampled when there are too many) and in random
//       schedules.
//   family `api`    (op lines `lagapi …`): the REAL ChainDatabase with its real goroutines; the sync goroutine is PACED
//       through the WriteExtend hook it calls after every record it has written (the gate blocks inside After): scripts
//       of SetBlock / SetStableBlock / SetConfirms / GetConfirms / GetBlockByHash / GetBlockByHeight / GetAccount
//       (+ GetActDatabase(stable).Get as a direct oracle) with the writer released record by record between the calls,
//       for every distribution of the releases over the gaps (sampled when there are too many).
//
// Oracles (direct, against the harness's own sequential reference — a plain map written synchronously):
//   c19/stale-read-after-ack/<api>       a read returned something else than the last acknowledged write of its key
//   c19/confirm-lost/writer-lag          after everything is flushed / after a restart an acknowledged confirm is missing
//   c19/index-refcnt-mismatch/writer-lag FileQueue.Index differs from {key: number of unacknowledged hand-overs}
// Every schedule is also an op line answered by the Lean model (LemoModel/QueueLin.lean: store_reads_linearizable,
// cdb_api_linearizable); the child writes them to lagops.tsv, the parent replays them into ops.txt / impl.txt.

import (
	"bufio"
	"bytes"
	"encoding/hex"
	"fmt"
	"math/big"
	"math/rand"
	"os"
	"path/filepath"
	"sort"
	"strconv"
	"strings"
	"time"

	"github.com/LemoFoundationLtd/lemochain-core/chain/types"
	"github.com/LemoFoundationLtd/lemochain-core/common"
	"github.com/LemoFoundationLtd/lemochain-core/store"
	"github.com/LemoFoundationLtd/lemochain-core/store/leveldb"
)

func init() { subs["c19-writerlag"] = c19WriterLagChild }

// ---------------------------------------------------------------- parent side

// c19WriterLag runs the child and replays its op lines into the parent's correspondence files.
func c19WriterLag(c *Ctx) {
	n := 1
	if c.Tier == "thorough" {
		n = 6
	}
	if v := os.Getenv("VERIF_C19_LAG_SCALE"); v != "" {
		fmt.Sscan(v, &n)
	}
	c19RunHammer(c, os.Args[0], "c19-writerlag", "writerlag", n, c19ChildLimit())
	f, err := os.Open(filepath.Join(c.Out, "hammer-writerlag", "lagops.tsv"))
	if err != nil {
		c.Count("hammer-writerlag:inconclusive:no-op-file")
		return
	}
	defer f.Close()
	sc := bufio.NewScanner(f)
	sc.Buffer(make([]byte, 1<<20), 1<<24)
	for sc.Scan() {
		line := sc.Text()
		i := strings.IndexByte(line, '\t')
		if i < 0 {
			continue // torn last line of a child that died
		}
		c.Op(line[:i], line[i+1:])
		c.Count("writerlag:op-lines:" + firstWord(line[:i]))
	}
}

// ---------------------------------------------------------------- child

type lagChild struct {
	h      *c19Hammer
	rnd    *rand.Rand
	out    *bufio.Writer
	scale  int
	tmp    string
	perSig map[string]int
	nfail  int // oracle failures so far that a caller of the store can see (wrong answers; not the index oracle)
	badSch int // schedules with at least one such failure (per script)
	nidx   int // index-oracle failures so far
	badIdx int // schedules with an index mismatch and no wrong answer (per script)
}

// lagStopAfter: a script's schedules stop after this many schedules with a wrong ANSWER (each is reported / counted; more say
// nothing new), or after 5x as many schedules whose only failure is an index mismatch.
const lagStopAfter = 12

func (l *lagChild) op(op, out string) { fmt.Fprintf(l.out, "%s\t%s\n", op, out) }

// fail reports at most 4 findings per signature (each with its own concrete schedule), counts the rest
func (l *lagChild) fail(sig, detail string) {
	l.perSig[sig]++
	if !strings.HasPrefix(sig, "c19/index-refcnt-mismatch") {
		l.nfail++
	} else {
		l.nidx++
	}
	l.h.count("writerlag:oracle:"+sig, 1)
	if l.perSig[sig] <= 4 {
		l.h.fail(0, sig, detail)
	}
}

func c19WriterLagChild(c *Ctx) {
	h := &c19Hammer{res: &c19HResult{Rounds: 2, Counts: map[string]int{}}, out: c.Out, rnd: c.Rnd, seen: map[string]bool{}}
	h.flush()
	f, err := os.Create(filepath.Join(c.Out, "lagops.tsv"))
	if err != nil {
		panic(err)
	}
	tmp, err := os.MkdirTemp("", "c19lag")
	if err != nil {
		panic(err)
	}
	defer os.RemoveAll(tmp)
	l := &lagChild{h: h, rnd: c.Rnd, out: bufio.NewWriterSize(f, 1<<16), scale: c.N, tmp: tmp, perSig: map[string]int{}}
	if l.scale < 1 {
		l.scale = 1
	}
	t0 := time.Now()
	h.runRound("c19-writerlag", 0, func() { l.queueFamily() })
	l.out.Flush()
	h.count("writerlag:queue:family-ms", int(time.Since(t0)/time.Millisecond))
	t0 = time.Now()
	h.runRound("c19-writerlag", 1, func() { l.apiFamily() })
	l.out.Flush()
	h.count("writerlag:api:family-ms", int(time.Since(t0)/time.Millisecond))
	f.Close()
	h.res.Done = true
	h.flush()
}

// ================================================================ family `queue`

type lagEv struct {
	kind  byte // 'p' put, 'g' get, 'm' read-modify-write, 'w' write step, 'a' ack step, 'i' index dump
	flag  uint32
	key   int
	val   []byte // abstract value (the real one carries a 0xEE prefix: the store rejects empty values)
	c     byte
	inner string
}

func lagHexVal(v []byte) string {
	if len(v) == 0 {
		return "-"
	}
	return hex.EncodeToString(v)
}

func (e lagEv) tok() string {
	switch e.kind {
	case 'p':
		return fmt.Sprintf("p:%d:%d:%s", e.flag, e.key, lagHexVal(e.val))
	case 'g':
		return fmt.Sprintf("g:%d:%d", e.flag, e.key)
	case 'm':
		in := e.inner
		if in == "" {
			in = "-"
		}
		return fmt.Sprintf("m:%d:%d:%s", e.key, e.c, in)
	case 'i':
		return "ix"
	}
	return string(e.kind)
}

func lagToks(evs []lagEv) string {
	t := make([]string, len(evs))
	for i, e := range evs {
		t[i] = e.tok()
	}
	return strings.Join(t, " ")
}

// lagShow renders a value the way the model driver does: `-` none, `e` empty, else hex
func lagShow(v []byte, present bool) string {
	if !present {
		return "-"
	}
	if len(v) == 0 {
		return "e"
	}
	return hex.EncodeToString(v)
}

func lagAddConfirm(v []byte, c byte) []byte {
	if bytes.IndexByte(v, c) >= 0 {
		return append([]byte{}, v...)
	}
	return append(append([]byte{}, v...), c)
}

// lagInnerOptions: the goroutine steps that can run between the read and the write back of a read-modify-write
var lagInnerOptions = []string{"", "w", "a", "wa", "aw", "ww", "aa", "waw", "wwa", "waa", "wawa", "wwaa"}

// lagEffective: does every step of `inner` do something with ch queued and ac written-unacknowledged records?
func lagEffective(inner string, ch, ac int) (bool, int, int) {
	for _, x := range inner {
		if x == 'w' {
			if ch == 0 {
				return false, 0, 0
			}
			ch--
			ac++
		} else {
			if ac == 0 {
				return false, 0, 0
			}
			ac--
		}
	}
	return true, ch, ac
}

// lagInterleavings: ALL schedules that interleave the request script with effective steps of the two goroutines and end
// with the queue drained (complete = false when the enumeration was cut at `limit`)
func lagInterleavings(script []lagEv, limit int) (out [][]lagEv, complete bool) {
	complete = true
	var rec func(i, ch, ac int, cur []lagEv)
	rec = func(i, ch, ac int, cur []lagEv) {
		if len(out) >= limit {
			complete = false
			return
		}
		if i == len(script) && ch == 0 && ac == 0 {
			out = append(out, append([]lagEv{}, cur...))
			return
		}
		if i < len(script) {
			e := script[i]
			switch e.kind {
			case 'p':
				rec(i+1, ch+1, ac, append(cur, e))
			case 'g':
				rec(i+1, ch, ac, append(cur, e))
			case 'm':
				for _, in := range lagInnerOptions {
					if ok, ch2, ac2 := lagEffective(in, ch, ac); ok {
						e2 := e
						e2.inner = in
						rec(i+1, ch2+1, ac2, append(cur, e2))
					}
				}
			}
		}
		if ch > 0 {
			rec(i, ch-1, ac+1, append(cur, lagEv{kind: 'w'}))
		}
		if ac > 0 {
			rec(i, ch, ac-1, append(cur, lagEv{kind: 'a'}))
		}
	}
	rec(0, 0, 0, nil)
	return
}

type lagQueue struct {
	dir  string
	ldb  *leveldb.LevelDBDatabase
	q    *store.FileQueue
	bdb  *store.BeansDB
	acks []*store.Inject
}

func lagNewQueue(dir string) *lagQueue {
	os.MkdirAll(dir, 0755)
	ldb := leveldb.NewLevelDBDatabase(filepath.Join(dir, "index"), 16, 16)
	q, err := store.VerifNewDetachedQueueDB(dir, ldb)
	if err != nil {
		panic("writer-lag: detached queue: " + err.Error())
	}
	return &lagQueue{dir: dir, ldb: ldb, q: q, bdb: &store.BeansDB{Home: dir, LevelDB: ldb, Queue: q}}
}

func (x *lagQueue) close() {
	x.q.Close()
	x.ldb.Close()
}

// write: what SyncFileDB.start does with the oldest record of WriteChan before it reports Done
func (x *lagQueue) write() {
	select {
	case op := <-x.q.SyncFileDB.WriteChan:
		if err := x.q.VerifWriterPut(op); err != nil {
			panic("writer-lag: bitcask put: " + err.Error())
		}
		x.acks = append(x.acks, op)
	default:
	}
}

// ack: what FileQueue.start does with the oldest Done (afterPut → delIndex); true = delIndex panicked
func (x *lagQueue) ack() bool {
	if len(x.acks) == 0 {
		return false
	}
	op := x.acks[0]
	x.acks = x.acks[1:]
	return Safe(func() string { x.q.VerifAfterPut(op); return "ok" }) == "panic"
}

func lagRealKey(n int, k int) []byte {
	key := make([]byte, 32)
	key[0], key[1], key[2], key[3] = byte(n>>24), byte(n>>16), byte(n>>8), byte(n)
	key[4] = byte(k)
	for i := 5; i < 32; i++ {
		key[i] = byte(0xC1 + i)
	}
	return key
}

// lagIdxAbstract maps the real index dump ("0xkey:flag:cnt") to "<name>:<cnt>" entries sorted by sort key
func lagIdxAbstract(dump []string, name func(hexKey string, flag string) (sortKey string, shown string)) string {
	type ent struct{ k, s string }
	var es []ent
	for _, d := range dump {
		p := strings.Split(d, ":")
		if len(p) != 3 {
			es = append(es, ent{"~" + d, "?" + d})
			continue
		}
		sk, shown := name(p[0], p[1])
		es = append(es, ent{sk, shown + ":" + p[2]})
	}
	sort.SliceStable(es, func(i, j int) bool { return es[i].k < es[j].k })
	out := make([]string, len(es))
	for i, e := range es {
		out[i] = e.s
	}
	return strings.Join(out, ",")
}

// runQueueSchedule executes one schedule on the real queue with fresh keys; returns the implementation's answer line.
// oracle = false for schedules outside the guard (one key under two flags): op line only.
func (l *lagChild) runQueueSchedule(x *lagQueue, n int, evs []lagEv, oracle bool) string {
	last := map[string][]byte{} // reference: (flag/key) -> last acknowledged value
	has := map[string]bool{}
	var queued []int // abstract keys of the hand-overs delIndex has not seen yet (acks ++ chan)
	keyOf := map[string]int{}
	var outs []string
	dead := false
	reported := map[string]bool{}
	toks := lagToks(evs)
	rk := func(k int) []byte {
		b := lagRealKey(n, k)
		keyOf[common.ToHex(b)] = k
		return b
	}
	put := func(flag uint32, k int, v []byte) {
		if err := x.bdb.Put(flag, rk(k), append([]byte{0xEE}, v...)); err != nil {
			panic("writer-lag: Put: " + err.Error())
		}
		id := fmt.Sprintf("%d/%d", flag, k)
		last[id], has[id] = append([]byte{}, v...), true
		queued = append(queued, k)
	}
	get := func(flag uint32, k int) ([]byte, bool) {
		v, err := x.bdb.Get(flag, rk(k))
		if err != nil {
			panic("writer-lag: Get: " + err.Error())
		}
		if v == nil {
			return nil, false
		}
		return v[1:], true
	}
	step := func(kind rune) {
		if kind == 'w' {
			x.write()
		} else {
			hadAck := len(x.acks) > 0
			if x.ack() {
				dead = true
			}
			if hadAck && len(queued) > 0 {
				queued = queued[1:]
			}
		}
	}
	idxName := func(hexKey, flag string) (string, string) {
		k, ok := keyOf[hexKey]
		if !ok {
			return "~" + hexKey, "?" + hexKey + ":" + flag
		}
		return fmt.Sprintf("%03d", k), fmt.Sprintf("%d:%s", k, flag)
	}
	checkIdx := func(at int) {
		if !oracle || reported["idx"] {
			return
		}
		want := map[int]int{}
		for _, k := range queued {
			want[k]++
		}
		got := map[int]int{}
		bad := false
		for _, d := range x.q.VerifIndexDump() {
			p := strings.Split(d, ":")
			k, ok := keyOf[p[0]]
			cnt, _ := strconv.Atoi(p[len(p)-1])
			if !ok {
				bad = true
				continue
			}
			got[k] = cnt
		}
		for k, v := range want {
			if got[k] != v {
				bad = true
			}
		}
		for k, v := range got {
			if want[k] != v {
				bad = true
			}
		}
		if bad {
			reported["idx"] = true
			l.fail("c19/index-refcnt-mismatch/writer-lag", fmt.Sprintf("queue schedule `%s`: after event %d (%s) FileQueue.Index holds {key:refCnt} = %v, the unacknowledged hand-overs per key are %v (an entry must stay until the NEWEST write of its key has been acknowledged)", toks, at, evs[at].tok(), got, want))
		}
	}
	for i, e := range evs {
		switch e.kind {
		case 'p':
			put(e.flag, e.key, e.val)
		case 'g':
			v, ok := get(e.flag, e.key)
			outs = append(outs, lagShow(v, ok))
			id := fmt.Sprintf("%d/%d", e.flag, e.key)
			if oracle && (ok != has[id] || !bytes.Equal(v, last[id])) && !reported["get"] {
				reported["get"] = true
				l.fail("c19/stale-read-after-ack/FileQueue.Get", fmt.Sprintf("queue schedule `%s`: event %d %s returned %s, the last acknowledged Put of that key wrote %s (p = Put flag:key:value, g = Get, m = read-append-write back, w = the sync goroutine writes the oldest queued record, a = the done goroutine runs delIndex for the oldest written record)", toks, i, e.tok(), lagShow(v, ok), lagShow(last[id], has[id])))
			}
		case 'm':
			v, ok := get(1, e.key)
			id := fmt.Sprintf("1/%d", e.key)
			if oracle && (ok != has[id] || !bytes.Equal(v, last[id])) && !reported["rmw"] {
				reported["rmw"] = true
				l.fail("c19/stale-read-after-ack/FileQueue.Get", fmt.Sprintf("queue schedule `%s`: the read of the read-modify-write at event %d (%s) returned %s, the last acknowledged Put of that key wrote %s: the write back drops what was acknowledged in between", toks, i, e.tok(), lagShow(v, ok), lagShow(last[id], has[id])))
			}
			for _, s := range e.inner {
				step(s)
			}
			if ok {
				nv := lagAddConfirm(v, e.c)
				put(1, e.key, nv)
				outs = append(outs, lagShow(nv, true))
			} else {
				outs = append(outs, "-")
			}
		case 'w', 'a':
			step(rune(e.kind))
		case 'i':
			outs = append(outs, "i:"+lagIdxAbstract(x.q.VerifIndexDump(), idxName))
		}
		checkIdx(i)
	}
	d := 0
	if dead {
		d = 1
	}
	outs = append(outs, fmt.Sprintf("| idx=%s dead=%d", lagIdxAbstract(x.q.VerifIndexDump(), idxName), d))
	return strings.Join(outs, " ")
}

// lagSprinkleIx inserts index dumps at random positions
func (l *lagChild) lagSprinkleIx(evs []lagEv, p float64) []lagEv {
	var out []lagEv
	for _, e := range evs {
		out = append(out, e)
		if l.rnd.Float64() < p {
			out = append(out, lagEv{kind: 'i'})
		}
	}
	return out
}

func (l *lagChild) queueFamily() {
	x := lagNewQueue(filepath.Join(l.tmp, "queue"))
	defer x.close()
	n := 0
	run := func(evs []lagEv, oracle bool, class string) {
		if oracle && (l.badSch >= lagStopAfter || l.badIdx >= 5*lagStopAfter) {
			l.h.count("writerlag:queue:schedules-skipped-after-"+strconv.Itoa(lagStopAfter)+"-failing-schedules", 1)
			return
		}
		n++
		before, beforeIdx := l.nfail, l.nidx
		defer func() {
			if l.nfail > before {
				l.badSch++
			} else if l.nidx > beforeIdx {
				l.badIdx++
			}
		}()
		out := l.runQueueSchedule(x, n, evs, oracle)
		l.op("lagq "+lagToks(evs), out)
		l.h.count("writerlag:queue:schedules:"+class, 1)
		if strings.HasSuffix(out, "dead=1") {
			l.h.count("writerlag:queue:delIndex-panicked:"+class, 1)
		}
	}
	p := func(k int, v ...byte) lagEv { return lagEv{kind: 'p', flag: 1, key: k, val: v} }
	g := func(k int) lagEv { return lagEv{kind: 'g', flag: 1, key: k} }
	m := func(k int, c byte) lagEv { return lagEv{kind: 'm', key: k, c: c} }
	scripts := map[string][]lagEv{
		// the promotion's block record, a confirm queued behind it, reads, one more confirm (seed C19i at queue level)
		"stable-then-confirms": {p(5), p(5, 0xa0), g(5), m(5, 0xb1), g(5)},
		// two keys, one overwritten
		"two-keys-overwrite": {p(5, 1), g(5), p(6, 2), p(5, 3), g(5), g(6)},
		// three confirms by read-modify-write on one record
		"confirm-burst": {p(5), m(5, 1), m(5, 2), g(5), m(5, 3), g(5)},
	}
	names := make([]string, 0, len(scripts))
	for k := range scripts {
		names = append(names, k)
	}
	sort.Strings(names)
	capPer := 300 * l.scale
	for _, name := range names {
		all, complete := lagInterleavings(scripts[name], 60000)
		l.h.count("writerlag:queue:interleavings-enumerated:"+name, len(all))
		l.badSch, l.badIdx = 0, 0 // the stop rule is per script
		if complete && len(all) <= 3*capPer {
			// all of them, in random order (so that an early stop has seen a sample, not the first DFS branches)
			l.h.count("writerlag:queue:exhaustive:"+name, 1)
			for _, i := range l.rnd.Perm(len(all)) {
				run(all[i], true, name)
			}
			continue
		}
		l.h.count("writerlag:queue:sampled:"+name, 1)
		for _, i := range l.rnd.Perm(len(all))[:capPer] {
			run(all[i], true, name)
		}
	}
	l.badSch, l.badIdx = 0, 0
	// random schedules: three keys (5, 6 block records, 7 an account record), ineffective goroutine steps included,
	// index dumps in between; drained at the end, then every key is read
	for it := 0; it < 250*l.scale; it++ {
		var evs []lagEv
		flagOf := map[int]uint32{5: 1, 6: 1, 7: 4}
		written := map[int]bool{}
		nev := 4 + l.rnd.Intn(14)
		ch, ac := 0, 0
		for i := 0; i < nev; i++ {
			k := 5 + l.rnd.Intn(3)
			switch r := l.rnd.Intn(10); {
			case r < 3:
				evs = append(evs, lagEv{kind: 'p', flag: flagOf[k], key: k, val: []byte{byte(1 + l.rnd.Intn(250))}})
				written[k] = true
				ch++
			case r < 5:
				evs = append(evs, lagEv{kind: 'g', flag: flagOf[k], key: k})
			case r < 6:
				k = 5 + l.rnd.Intn(2)
				in := lagInnerOptions[l.rnd.Intn(len(lagInnerOptions))]
				evs = append(evs, lagEv{kind: 'm', key: k, c: byte(1 + l.rnd.Intn(4)), inner: in})
				if written[k] {
					ch++ // the write back (the exact counts do not matter here: the drain below is generous)
				}
			case r < 8:
				evs = append(evs, lagEv{kind: 'w'})
			default:
				evs = append(evs, lagEv{kind: 'a'})
			}
		}
		for i := 0; i < ch+ac+2; i++ {
			evs = append(evs, lagEv{kind: 'w'})
		}
		for i := 0; i < ch+ac+2; i++ {
			evs = append(evs, lagEv{kind: 'a'})
		}
		for k := 5; k <= 7; k++ {
			evs = append(evs, lagEv{kind: 'g', flag: flagOf[k], key: k})
		}
		run(l.lagSprinkleIx(evs, 0.25), true, "random")
	}
	// (until /repo 14469b9 three schedules ran OUTSIDE the guard of store_reads_linearizable — one key under two flags — and the model
	// predicted the real queue's stale read and delIndex panic (flag_clash_refuted). The index is now keyed by flag and key, the model keeps
	// its guard; the schedules are gone and the crash is watched on the real engine by hx c15: c15/panic/file-queue-flag-clash.)
}

// ================================================================ family `api`

type lagRec struct {
	flg uint32
	key string
}

// lagGate is installed as SyncFileDB.Extend: the sync goroutine calls After for every record it has written, BEFORE it
// reports Done; it is held there until the harness hands out a token.
type lagGate struct {
	inner   store.WriteExtend
	arrived chan lagRec
	tokens  chan struct{}
}

func (g *lagGate) After(flg uint32, key []byte, val []byte) error {
	g.arrived <- lagRec{flg, string(key)}
	<-g.tokens
	return g.inner.After(flg, key, val)
}

// reference record: what the harness expects the store to have handed to the writer
type lagRef struct {
	flg  uint32
	key  []byte
	name string // "<flag>/<n>" as the model prints it
	sort string
}

type lagDB struct {
	l       *lagChild
	home    string
	db      *store.ChainDatabase
	gate    *lagGate
	enq     []lagRef // every record handed over since the last (re)open, in order
	written int      // records the sync goroutine has written (After reached)
	acked   int      // records released (Done sent, delIndex run)
	idxBad  bool     // an index mismatch was seen: do not wait long for the index any more
	broken  bool     // the pacing protocol itself failed: stop
}

func (x *lagDB) waitIdle() bool {
	q := x.db.Beansdb.Queue
	deadline := time.Now().Add(20 * time.Second)
	calm := 0 // consecutive polls that found nothing pending (the index is non-empty while any record is unacknowledged)
	for time.Now().Before(deadline) {
		if len(q.VerifIndexDump()) == 0 && len(q.DoneChan) == 0 && len(q.SyncFileDB.WriteChan) == 0 {
			calm++
			if calm >= 5 {
				return true
			}
		} else {
			calm = 0
		}
		time.Sleep(400 * time.Microsecond)
	}
	return false
}

func (x *lagDB) open() {
	x.db = store.NewChainDataBase(x.home)
	// start-up redelivers tmp.data to the (ungated) writer: wait until that is over; then the sync goroutine sleeps in
	// its select and reads Extend only after the next hand-over
	if !x.waitIdle() {
		x.idxBad = true
		x.l.h.count("writerlag:api:start-up-did-not-become-idle", 1)
	}
	x.gate = &lagGate{inner: x.db.Beansdb, arrived: make(chan lagRec, 4096), tokens: make(chan struct{}, 4096)}
	x.db.Beansdb.Queue.SyncFileDB.Extend = x.gate
	x.enq, x.written, x.acked = nil, 0, 0
}

func (x *lagDB) idxDump() []string { return x.db.Beansdb.Queue.VerifIndexDump() }

func (x *lagDB) idxWant() []string {
	type e struct {
		flg uint32
		cnt int
	}
	m := map[string]*e{}
	for _, r := range x.enq[x.acked:] {
		k := common.ToHex(r.key)
		if m[k] == nil {
			m[k] = &e{}
		}
		m[k].flg = r.flg
		m[k].cnt++
	}
	out := make([]string, 0, len(m))
	for k, v := range m {
		out = append(out, fmt.Sprintf("%s:%d:%d", k, v.flg, v.cnt))
	}
	sort.Strings(out)
	return out
}

// syncIdx waits until FileQueue.Index is what the reference says (the done goroutine runs delIndex asynchronously)
func (x *lagDB) syncIdx(ctx string) {
	want := strings.Join(x.idxWant(), ",")
	limit := 5 * time.Second
	if x.idxBad {
		limit = 3 * time.Millisecond
	}
	deadline := time.Now().Add(limit)
	got := ""
	for i := 0; ; i++ {
		got = strings.Join(x.idxDump(), ",")
		if got == want || time.Now().After(deadline) {
			break
		}
		if i < 200 {
			time.Sleep(20 * time.Microsecond)
		} else {
			time.Sleep(time.Millisecond)
		}
	}
	if got != want {
		x.idxBad = true
		x.l.fail("c19/index-refcnt-mismatch/writer-lag", fmt.Sprintf("%s: FileQueue.Index (hexkey:flag:refCnt) = [%s], the hand-overs delIndex has not seen yet are [%s]: the entry of a key must stay, with the NEWEST value, until its last queued write has been acknowledged", ctx, got, want))
	}
}

// arrive: the sync goroutine has written the next record and stands in the After hook
func (x *lagDB) arrive(ctx string) bool {
	select {
	case r := <-x.gate.arrived:
		want := x.enq[x.written]
		if r.flg != want.flg || r.key != string(want.key) {
			x.broken = true
			x.l.h.fail(0, "c19/harness/scenario-guarantee-broken", fmt.Sprintf("%s: the sync goroutine wrote record flag=%d key=%x, the reference expected flag=%d key=%x next", ctx, r.flg, r.key, want.flg, want.key))
			return false
		}
		x.written++
		return true
	case <-time.After(20 * time.Second):
		x.broken = true
		x.l.h.fail(0, "c19/harness/scenario-guarantee-broken", fmt.Sprintf("%s: the sync goroutine did not reach the After hook of record %d within 20 s", ctx, x.written))
		return false
	}
}

// afterCall: the request enqueued `recs`; an idle sync goroutine writes the first of them at once. Returns model tokens.
func (x *lagDB) afterCall(recs []lagRef, ctx string) []string {
	idle := x.written == x.acked
	x.enq = append(x.enq, recs...)
	var toks []string
	if idle && len(x.enq) > x.written {
		if x.arrive(ctx) {
			toks = append(toks, "w")
		}
	}
	x.syncIdx(ctx)
	return toks
}

// release lets the sync goroutine go on by one record: Done of the written record (→ delIndex), then the next write
func (x *lagDB) release(ctx string) []string {
	if x.written == x.acked || x.broken {
		return nil
	}
	x.gate.tokens <- struct{}{}
	x.acked++
	toks := []string{"a"}
	if len(x.enq) > x.written {
		if x.arrive(ctx) {
			toks = append(toks, "w")
		}
	}
	x.syncIdx(ctx)
	return toks
}

func (x *lagDB) pending() int { return len(x.enq) - x.acked }

// ---- the sequential reference of the API (a plain map, written synchronously)

type lagBlk struct {
	id, parent, height int
	confirms           []byte
	acct               *[2]int
}

type lagModel struct {
	unconf     []*lagBlk
	last       int
	lastHeight int
	kv         map[string][]byte // "1/<id>" confirms, "2/<h>" [id], "4/<a>" [v]
}

func (m *lagModel) find(id int) *lagBlk {
	for _, b := range m.unconf {
		if b.id == id {
			return b
		}
	}
	return nil
}

type lagCall struct {
	op                 string // sb st cf gc gh gt ga
	id, parent, height int
	acct               *[2]int
	c                  byte
}

func (c lagCall) tok() string {
	switch c.op {
	case "sb":
		a := "-"
		if c.acct != nil {
			a = fmt.Sprintf("%d=%d", c.acct[0], c.acct[1])
		}
		return fmt.Sprintf("sb:%d:%d:%d:%s", c.id, c.parent, c.height, a)
	case "cf":
		return fmt.Sprintf("cf:%d:%d", c.id, c.c)
	case "gt":
		return fmt.Sprintf("gt:%d", c.height)
	}
	return fmt.Sprintf("%s:%d", c.op, c.id)
}

// apply: expected answer (as the driver prints it) and the abstract records the call hands to the writer ("flag/n")
func (m *lagModel) apply(c lagCall) (string, []string) {
	bk := func(id int) string { return fmt.Sprintf("1/%d", id) }
	switch c.op {
	case "sb":
		if m.find(c.id) != nil {
			return "exist", nil
		}
		if _, ok := m.kv[bk(c.id)]; ok {
			return "exist", nil
		}
		if c.height <= m.lastHeight {
			return "invalid", nil
		}
		nb := &lagBlk{id: c.id, parent: c.parent, height: c.height, acct: c.acct}
		if p := m.find(c.parent); p == nil {
			if c.parent == m.last && c.height == m.lastHeight+1 {
				m.unconf = append(m.unconf, nb)
				return "ok", nil
			}
			return "invalid", nil
		} else if p.height+1 == c.height {
			m.unconf = append(m.unconf, nb)
			return "ok", nil
		}
		return "invalid", nil
	case "st":
		b := m.find(c.id)
		if b == nil {
			return "invalid", nil
		}
		var path []*lagBlk
		for it := b; it != nil && it.id != m.last; it = m.find(it.parent) {
			path = append([]*lagBlk{it}, path...)
		}
		var recs []string
		for _, x := range path {
			m.kv[bk(x.id)] = append([]byte{}, x.confirms...)
			m.kv[fmt.Sprintf("2/%d", x.height)] = []byte{byte(x.id)}
			recs = append(recs, bk(x.id), fmt.Sprintf("2/%d", x.height))
			if x.acct != nil {
				m.kv[fmt.Sprintf("4/%d", x.acct[0])] = []byte{byte(x.acct[1])}
				recs = append(recs, fmt.Sprintf("4/%d", x.acct[0]))
			}
			// prune: keep what descends from x
			keep := map[int]bool{x.id: true}
			for changed := true; changed; {
				changed = false
				for _, u := range m.unconf {
					if keep[u.parent] && !keep[u.id] {
						keep[u.id] = true
						changed = true
					}
				}
			}
			var nu []*lagBlk
			for _, u := range m.unconf {
				if keep[u.id] && u.id != x.id {
					nu = append(nu, u)
				}
			}
			m.unconf = nu
			m.last, m.lastHeight = x.id, x.height
		}
		return "ok", recs
	case "cf":
		if b := m.find(c.id); b != nil {
			b.confirms = lagAddConfirm(b.confirms, c.c)
			return "c:" + lagShow(b.confirms, true), nil
		}
		old, ok := m.kv[bk(c.id)]
		if !ok {
			return "notexist", nil
		}
		m.kv[bk(c.id)] = lagAddConfirm(old, c.c)
		return "c:" + lagShow(m.kv[bk(c.id)], true), []string{bk(c.id)}
	case "gc", "gh":
		var cs []byte
		if b := m.find(c.id); b != nil {
			cs = b.confirms
		} else if v, ok := m.kv[bk(c.id)]; ok {
			cs = v
		} else {
			return "notexist", nil
		}
		if c.op == "gc" {
			return "c:" + lagShow(cs, true), nil
		}
		return fmt.Sprintf("b%d:%s", c.id, lagShow(cs, true)), nil
	case "gt":
		v, ok := m.kv[fmt.Sprintf("2/%d", c.height)]
		if !ok {
			return "notexist", nil
		}
		cs, ok := m.kv[bk(int(v[0]))]
		if !ok {
			return "notexist", nil
		}
		return fmt.Sprintf("b%d:%s", v[0], lagShow(cs, true)), nil
	case "ga":
		v, ok := m.kv[fmt.Sprintf("4/%d", c.id)]
		if !ok {
			return "notexist", nil
		}
		return "v:" + lagShow(v, true), nil
	}
	panic("writer-lag: unknown call " + c.op)
}

// ---- one schedule on the real ChainDatabase

type lagWorld struct {
	x        *lagDB
	sched    int          // schedule number: makes hashes / addresses fresh
	base     *types.Block // the stable block the schedule builds on (abstract id 0, height 0)
	blocks   map[int]*types.Block
	idOf     map[common.Hash]int
	stableOf map[int]common.Hash // abstract id -> hash, for the blocks that became stable (kept for the restart check)
}

func lagSig(c byte) types.SignData {
	var s types.SignData
	for i := range s {
		s[i] = c
	}
	return s
}

func lagSigners(cs []types.SignData) []byte {
	out := make([]byte, len(cs))
	for i, s := range cs {
		out[i] = s[0]
	}
	return out
}

func (w *lagWorld) addr(a int) common.Address {
	var x common.Address
	x[0], x[1], x[2], x[3], x[4] = 0xAC, byte(w.sched>>16), byte(w.sched>>8), byte(w.sched), byte(a)
	return x
}

func (w *lagWorld) dummyHash(id int) common.Hash {
	var h common.Hash
	h[0], h[1], h[2], h[3], h[4], h[5] = 0xDD, byte(w.sched>>16), byte(w.sched>>8), byte(w.sched), byte(id), 0x77
	return h
}

func (w *lagWorld) hash(id int) common.Hash {
	if id == 0 {
		return w.base.Hash()
	}
	if b := w.blocks[id]; b != nil {
		return b.Hash()
	}
	return w.dummyHash(id)
}

func (w *lagWorld) block(c lagCall) *types.Block {
	if b := w.blocks[c.id]; b != nil {
		return b
	}
	hdr := &types.Header{Height: w.base.Height() + uint32(c.height), ParentHash: w.hash(c.parent), Time: uint32(1700000000 + w.sched)}
	hdr.VersionRoot[0], hdr.VersionRoot[1], hdr.VersionRoot[2], hdr.VersionRoot[3] = byte(w.sched>>24), byte(w.sched>>16), byte(w.sched>>8), byte(w.sched)
	hdr.VersionRoot[4] = byte(c.id)
	b := &types.Block{}
	b.SetHeader(hdr)
	w.blocks[c.id] = b
	w.idOf[b.Hash()] = c.id
	return b
}

// realKey of an abstract record name "flag/n"
func (w *lagWorld) ref(name string) lagRef {
	var flag, n int
	fmt.Sscanf(name, "%d/%d", &flag, &n)
	r := lagRef{flg: uint32(flag), name: name, sort: fmt.Sprintf("%03d%03d", flag, n)}
	switch flag {
	case 1:
		r.key = w.hash(n).Bytes()
	case 2:
		r.key = leveldb.EncodeNumber(w.base.Height() + uint32(n))
	case 4:
		r.key = w.addr(n).Bytes()
	}
	return r
}

func lagErr(err error) string {
	switch err {
	case store.ErrExist:
		return "exist"
	case store.ErrArgInvalid:
		return "invalid"
	case store.ErrBlockNotExist, store.ErrAccountNotExist:
		return "notexist"
	}
	return "err(" + c19FirstLine(err.Error()) + ")"
}

func (w *lagWorld) showBlock(b *types.Block) string {
	id, ok := w.idOf[b.Hash()]
	if !ok {
		return fmt.Sprintf("b?%x:%s", b.Hash().Bytes()[:4], lagShow(lagSigners(b.Confirms), true))
	}
	return fmt.Sprintf("b%d:%s", id, lagShow(lagSigners(b.Confirms), true))
}

// call runs one request on the real database; second result: GetActDatabase(stable).Get answer for `ga` ("" otherwise)
func (w *lagWorld) call(c lagCall) (out string, viaAct string) {
	db := w.x.db
	return Safe(func() string {
		switch c.op {
		case "sb":
			b := w.block(c)
			if err := db.SetBlock(b.Hash(), b); err != nil {
				return lagErr(err)
			}
			if c.acct != nil {
				act, err := db.GetActDatabase(b.Hash())
				if err != nil {
					return "err(" + err.Error() + ")"
				}
				act.Put(&types.AccountData{
					Address:       w.addr(c.acct[0]),
					Balance:       big.NewInt(int64(c.acct[1])),
					NewestRecords: map[types.ChangeLogType]types.VersionRecord{1: {Version: uint32(c.acct[1]), Height: b.Height()}},
					Candidate:     types.Candidate{Votes: new(big.Int), Profile: make(types.Profile)},
				}, b.Height())
			}
			return "ok"
		case "st":
			if _, err := db.SetStableBlock(w.hash(c.id)); err != nil {
				return lagErr(err)
			}
			return "ok"
		case "cf":
			b, err := db.SetConfirms(w.hash(c.id), []types.SignData{lagSig(c.c)})
			if err != nil {
				return lagErr(err)
			}
			return "c:" + lagShow(lagSigners(b.Confirms), true)
		case "gc":
			cs, err := db.GetConfirms(w.hash(c.id))
			if err != nil {
				return lagErr(err)
			}
			return "c:" + lagShow(lagSigners(cs), true)
		case "gh":
			b, err := db.GetBlockByHash(w.hash(c.id))
			if err != nil {
				return lagErr(err)
			}
			return w.showBlock(b)
		case "gt":
			b, err := db.GetBlockByHeight(w.base.Height() + uint32(c.height))
			if err != nil {
				return lagErr(err)
			}
			return w.showBlock(b)
		case "ga":
			a, err := db.GetAccount(w.addr(c.id))
			if err != nil {
				return lagErr(err)
			}
			return "v:" + lagShow([]byte{byte(a.Balance.Int64())}, true)
		}
		return "?"
	}), ""
}

// viaActDB: the account as the stable block's account database serves it (memory first, then the store)
func (w *lagWorld) viaActDB(stable common.Hash, a int) string {
	return Safe(func() string {
		act, err := w.x.db.GetActDatabase(stable)
		if err != nil {
			return "err(" + err.Error() + ")"
		}
		acc, err := act.Get(w.addr(a))
		if err != nil {
			return lagErr(err)
		}
		return "v:" + lagShow([]byte{byte(acc.Balance.Int64())}, true)
	})
}

var lagAPIName = map[string]string{"cf": "SetConfirms", "gc": "GetConfirms", "gh": "GetBlockByHash", "gt": "GetBlockByHeight", "ga": "GetAccount", "sb": "SetBlock", "st": "SetStableBlock"}

type lagStable struct {
	sched    int
	id       int
	hash     common.Hash
	height   uint32
	confirms []byte
	accts    map[common.Address]byte
}

// runAPISchedule: the script with rel[i] releases of the writer after call i; drained at the end, final reads appended.
// Returns false when the pacing protocol broke.
func (l *lagChild) runAPISchedule(x *lagDB, sched int, base *types.Block, script []lagCall, rel []int, class string, ixProb float64) (*lagWorld, *lagModel, bool) {
	w := &lagWorld{x: x, sched: sched, base: base, blocks: map[int]*types.Block{}, idOf: map[common.Hash]int{}, stableOf: map[int]common.Hash{}}
	m := &lagModel{kv: map[string][]byte{}}
	var toks, outs []string
	var plain []string // the requests alone, for messages
	for _, c := range script {
		plain = append(plain, c.tok())
	}
	ctx := func() string { return fmt.Sprintf("api schedule #%d `%s`", sched, strings.Join(toks, " ")) }
	// the real blocks of the script, parents first: a block's hash must not depend on the order of the calls
	shapes := map[int]lagCall{}
	for _, c := range script {
		if _, ok := shapes[c.id]; c.op == "sb" && !ok {
			shapes[c.id] = c
		}
	}
	for round := 0; round <= len(shapes); round++ {
		for id, c := range shapes {
			_, parentInScript := shapes[c.parent]
			if w.blocks[id] == nil && (c.parent == 0 || !parentInScript || w.blocks[c.parent] != nil || round == len(shapes)) {
				w.block(c)
			}
		}
	}
	ix := func() {
		if l.rnd.Float64() < ixProb {
			toks = append(toks, "ix")
			outs = append(outs, "i:"+lagIdxAbstract(x.idxDump(), func(hexKey, flag string) (string, string) {
				for _, r := range x.enq {
					if common.ToHex(r.key) == hexKey {
						return r.sort, r.name
					}
				}
				return "~" + hexKey, "?" + hexKey
			}))
		}
	}
	doCall := func(c lagCall, final bool) {
		want, recNames := m.apply(c)
		got, _ := w.call(c)
		toks = append(toks, c.tok())
		outs = append(outs, got)
		if got != want {
			sig := "c19/stale-read-after-ack/" + lagAPIName[c.op]
			if final && (c.op == "gc" || c.op == "gh" || c.op == "gt") {
				sig = "c19/confirm-lost/writer-lag"
			}
			l.fail(sig, fmt.Sprintf("%s: %s returned `%s`; in the sequential order of the calls (every one of which had returned) the answer is `%s`. Tokens: sb:id:parent:height:account=version SetBlock, st SetStableBlock, cf:id:signer SetConfirms, gc GetConfirms, gh GetBlockByHash, gt:height GetBlockByHeight, ga GetAccount; w = the sync goroutine has written the oldest queued record, a = its Done has been processed (delIndex)%s", ctx(), lagAPIName[c.op], got, want, map[bool]string{true: "; this read comes after EVERYTHING was flushed", false: ""}[final]))
		}
		if c.op == "ga" && m.last != 0 {
			if v := w.viaActDB(w.hash(m.last), c.id); v != want {
				l.fail("c19/stale-read-after-ack/GetActDatabase.Get", fmt.Sprintf("%s: GetActDatabase(stable block %d).Get(account %d) returned `%s`, sequential answer `%s`", ctx(), m.last, c.id, v, want))
			}
		}
		recs := make([]lagRef, len(recNames))
		for i, n := range recNames {
			recs[i] = w.ref(n)
		}
		if c.op == "st" && got == "ok" {
			for id := range w.blocks {
				if _, ok := m.kv[fmt.Sprintf("1/%d", id)]; ok {
					w.stableOf[id] = w.hash(id)
				}
			}
		}
		toks = append(toks, x.afterCall(recs, ctx())...)
		ix()
	}
	for i, c := range script {
		if x.broken {
			return w, m, false
		}
		doCall(c, false)
		for r := 0; r < rel[i]; r++ {
			toks = append(toks, x.release(ctx())...)
			ix()
		}
	}
	for x.pending() > 0 && !x.broken {
		toks = append(toks, x.release(ctx())...)
	}
	if x.broken {
		return w, m, false
	}
	// everything is flushed: every block that became stable, every height, every account once more
	ids := make([]int, 0, len(w.stableOf))
	for id := range w.stableOf {
		ids = append(ids, id)
	}
	sort.Ints(ids)
	for _, id := range ids {
		doCall(lagCall{op: "gc", id: id}, true)
		doCall(lagCall{op: "gt", height: int(w.blocks[id].Height() - base.Height())}, true)
	}
	d := 0
	outs = append(outs, fmt.Sprintf("| idx=%s dead=%d", lagIdxAbstract(x.idxDump(), func(hexKey, flag string) (string, string) { return "~" + hexKey, "?" + hexKey }), d))
	l.op("lagapi "+strings.Join(toks, " "), strings.Join(outs, " "))
	l.h.count("writerlag:api:schedules:"+class, 1)
	return w, m, true
}

// lagRecordCounts: how many records each call of the script hands to the writer (sequential reference)
func lagRecordCounts(script []lagCall) []int {
	m := &lagModel{kv: map[string][]byte{}}
	out := make([]int, len(script))
	for i, c := range script {
		_, recs := m.apply(c)
		out[i] = len(recs)
	}
	return out
}

// lagReleasePlans: every distribution of the writer's releases over the gaps after the calls (at most as many releases as
// unacknowledged records exist at that moment); complete = false when cut at `limit`
func lagReleasePlans(counts []int, limit int) (plans [][]int, complete bool) {
	complete = true
	cur := make([]int, len(counts))
	var rec func(i, pending int)
	rec = func(i, pending int) {
		if len(plans) >= limit {
			complete = false
			return
		}
		if i == len(counts) {
			plans = append(plans, append([]int{}, cur...))
			return
		}
		pending += counts[i]
		for r := 0; r <= pending; r++ {
			cur[i] = r
			rec(i+1, pending-r)
		}
	}
	rec(0, 0)
	return
}

func (l *lagChild) apiFamily() {
	x := &lagDB{l: l, home: filepath.Join(l.tmp, "chain")}
	x.open()
	defer func() {
		// let the goroutines finish before the directory disappears
		for i := 0; i < 4096; i++ {
			select {
			case x.gate.tokens <- struct{}{}:
			default:
			}
		}
		x.db.Close()
	}()
	// genesis: stable and flushed
	gen := &types.Block{}
	gen.SetHeader(&types.Header{Height: 0, Time: 1600000000})
	if err := x.db.SetBlock(gen.Hash(), gen); err != nil {
		panic("writer-lag: genesis SetBlock: " + err.Error())
	}
	x.enq = append(x.enq, lagRef{flg: 1, key: gen.Hash().Bytes(), name: "1/0"}, lagRef{flg: 2, key: leveldb.EncodeNumber(0), name: "2/0"})
	if _, err := x.db.SetStableBlock(gen.Hash()); err != nil {
		panic("writer-lag: genesis SetStableBlock: " + err.Error())
	}
	x.arrive("genesis")
	for x.pending() > 0 && !x.broken {
		x.release("genesis")
	}
	base := gen
	sched := 0
	var stable []lagStable
	acct := func(a, v int) *[2]int { return &[2]int{a, v} }
	templates := []struct {
		name   string
		script []lagCall
	}{
		// the promotion's block record, then confirms by different signers on the now stable block, reads in between
		{"stable-then-confirms", []lagCall{{op: "sb", id: 1, parent: 0, height: 1}, {op: "st", id: 1}, {op: "cf", id: 1, c: 0xa0}, {op: "gc", id: 1}, {op: "cf", id: 1, c: 0xb1}, {op: "gh", id: 1}, {op: "gt", height: 1}}},
		// the same with a third signer and more reads
		{"confirm-burst", []lagCall{{op: "sb", id: 1, parent: 0, height: 1}, {op: "st", id: 1}, {op: "cf", id: 1, c: 0xa0}, {op: "gc", id: 1}, {op: "gh", id: 1}, {op: "cf", id: 1, c: 0xb1}, {op: "gc", id: 1}, {op: "gt", height: 1}, {op: "cf", id: 1, c: 0xc2}, {op: "gc", id: 1}}},
		// one account rewritten by two consecutive stable blocks
		{"account-rewritten", []lagCall{{op: "sb", id: 1, parent: 0, height: 1, acct: acct(3, 7)}, {op: "sb", id: 2, parent: 1, height: 2, acct: acct(3, 8)}, {op: "st", id: 1}, {op: "ga", id: 3}, {op: "st", id: 2}, {op: "ga", id: 3}, {op: "cf", id: 1, c: 5}, {op: "ga", id: 3}, {op: "gc", id: 1}, {op: "gt", height: 2}}},
		// confirms collected in memory, a two-block promotion, then confirms on both stable blocks
		{"two-block-promotion", []lagCall{{op: "sb", id: 1, parent: 0, height: 1}, {op: "sb", id: 2, parent: 1, height: 2, acct: acct(4, 1)}, {op: "cf", id: 1, c: 1}, {op: "cf", id: 2, c: 2}, {op: "st", id: 2}, {op: "gc", id: 1}, {op: "cf", id: 1, c: 3}, {op: "gc", id: 2}, {op: "cf", id: 2, c: 4}, {op: "gc", id: 1}, {op: "gc", id: 2}, {op: "gt", height: 1}, {op: "gt", height: 2}, {op: "ga", id: 4}}},
		// a fork, a pruned sibling, error answers, a duplicate confirm, SetBlock of a stored block (reads the store)
		{"fork-and-errors", []lagCall{{op: "sb", id: 1, parent: 0, height: 1}, {op: "sb", id: 2, parent: 0, height: 1}, {op: "sb", id: 3, parent: 0, height: 5}, {op: "cf", id: 2, c: 8}, {op: "st", id: 1}, {op: "cf", id: 2, c: 9}, {op: "gc", id: 2}, {op: "sb", id: 1, parent: 0, height: 1}, {op: "cf", id: 1, c: 1}, {op: "cf", id: 1, c: 1}, {op: "gc", id: 1}, {op: "st", id: 7}, {op: "gt", height: 1}, {op: "gt", height: 9}, {op: "ga", id: 9}, {op: "gh", id: 1}}},
	}
	capPer := 150 * l.scale
	runOne := func(script []lagCall, plan []int, class string) bool {
		if l.badSch >= lagStopAfter || l.badIdx >= 5*lagStopAfter {
			l.h.count("writerlag:api:schedules-skipped-after-"+strconv.Itoa(lagStopAfter)+"-failing-schedules", 1)
			return true
		}
		before, beforeIdx := l.nfail, l.nidx
		defer func() {
			if l.nfail > before {
				l.badSch++
			} else if l.nidx > beforeIdx {
				l.badIdx++
			}
		}()
		sched++
		w, m, ok := l.runAPISchedule(x, sched, base, script, plan, class, 0.2)
		if !ok {
			return false
		}
		// the next schedule builds on the last stable block of this one
		for id, h := range w.stableOf {
			s := lagStable{sched: sched, id: id, hash: h, height: w.blocks[id].Height(), confirms: m.kv[fmt.Sprintf("1/%d", id)], accts: map[common.Address]byte{}}
			stable = append(stable, s)
		}
		for k, v := range m.kv {
			if strings.HasPrefix(k, "4/") {
				var a int
				fmt.Sscanf(k, "4/%d", &a)
				if len(stable) > 0 {
					stable[len(stable)-1].accts[w.addr(a)] = v[0]
				}
			}
		}
		if m.last != 0 {
			base = w.blocks[m.last]
		}
		return true
	}
	restart := func(when string) {
		if x.broken {
			return
		}
		x.db.Close()
		x.open()
		l.h.count("writerlag:api:restarts", 1)
		for _, s := range stable {
			cs, err := x.db.GetConfirms(s.hash)
			if err != nil || !bytes.Equal(lagSigners(cs), s.confirms) {
				l.fail("c19/confirm-lost/writer-lag", fmt.Sprintf("after a restart (%s; everything had been flushed) block %d of api schedule #%d (height %d) holds the confirms [%s] (err=%v); the acknowledged SetConfirms calls stored [%s]", when, s.id, s.sched, s.height, lagShow(lagSigners(cs), err == nil), err, lagShow(s.confirms, true)))
			}
			b, err := x.db.GetBlockByHeight(s.height)
			if err != nil || b.Hash() != s.hash || !bytes.Equal(lagSigners(b.Confirms), s.confirms) {
				l.fail("c19/confirm-lost/writer-lag", fmt.Sprintf("after a restart (%s) GetBlockByHeight(%d) does not return block %d of api schedule #%d with its confirms [%s] (err=%v)", when, s.height, s.id, s.sched, lagShow(s.confirms, true), err))
			}
			for a, v := range s.accts {
				// after a restart the account database of the stable block is empty: this read goes to the store
				act, err := x.db.GetActDatabase(x.db.LastConfirm.Block.Hash())
				if err == nil {
					acc, err2 := act.Get(a)
					if err2 != nil || acc.Balance.Int64() != int64(v) {
						l.fail("c19/stale-read-after-ack/GetActDatabase.Get", fmt.Sprintf("after a restart (%s) GetActDatabase(stable).Get(%x) of api schedule #%d does not return version %d (err=%v)", when, a.Bytes()[:5], s.sched, v, err2))
					}
				}
			}
		}
		stable = nil
	}
	for _, t := range templates {
		counts := lagRecordCounts(t.script)
		total := 0
		for _, n := range counts {
			total += n
		}
		plans, complete := lagReleasePlans(counts, 200000)
		l.h.count(fmt.Sprintf("writerlag:api:release-plans-enumerated:%s(writer-records=%d)", t.name, total), len(plans))
		idx := make([]int, len(plans))
		for i := range idx {
			idx[i] = i
		}
		l.badSch, l.badIdx = 0, 0 // the stop rule is per script
		if complete && len(plans) <= 3*capPer {
			// all of them, in random order (so that an early stop has seen a sample, not the plans without early releases)
			l.h.count("writerlag:api:exhaustive:"+t.name, 1)
			idx = l.rnd.Perm(len(plans))
		} else {
			l.h.count("writerlag:api:sampled:"+t.name, 1)
			idx = l.rnd.Perm(len(plans))[:capPer]
		}
		for _, i := range idx {
			if !runOne(t.script, plans[i], t.name) {
				return
			}
		}
		restart("after the schedules of " + t.name)
	}
	// random scripts
	l.badSch, l.badIdx = 0, 0
	for it := 0; it < 150*l.scale; it++ {
		script := l.randomScript()
		counts := lagRecordCounts(script)
		plan := make([]int, len(script))
		pend := 0
		for i := range script {
			pend += counts[i]
			if pend > 0 && l.rnd.Intn(3) > 0 {
				plan[i] = l.rnd.Intn(pend + 1)
				pend -= plan[i]
			}
		}
		if !runOne(script, plan, "random") {
			return
		}
		if it%60 == 59 {
			restart("random scripts")
		}
	}
	restart("end")
}

// randomScript: blocks 1..4 on top of the stable block (a chain with one fork), confirms, promotions, reads
func (l *lagChild) randomScript() []lagCall {
	type shape struct{ parent, height int }
	shapes := map[int]shape{1: {0, 1}, 2: {1, 2}, 3: {2, 3}, 4: {1, 2}}
	if l.rnd.Intn(3) == 0 {
		shapes[4] = shape{0, 1}
	}
	var out []lagCall
	n := 6 + l.rnd.Intn(12)
	made := 0
	for i := 0; i < n; i++ {
		id := 1 + l.rnd.Intn(4)
		switch r := l.rnd.Intn(20); {
		case r < 4 || made == 0:
			if made < 4 && l.rnd.Intn(4) > 0 {
				made++
				id = made
			}
			c := lagCall{op: "sb", id: id, parent: shapes[id].parent, height: shapes[id].height}
			if l.rnd.Intn(2) == 0 {
				c.acct = &[2]int{1 + id%2, 10*id + 1}
			}
			out = append(out, c)
		case r < 7:
			out = append(out, lagCall{op: "st", id: id})
		case r < 12:
			out = append(out, lagCall{op: "cf", id: id, c: byte(1 + l.rnd.Intn(5))})
		case r < 14:
			out = append(out, lagCall{op: "gc", id: id})
		case r < 16:
			out = append(out, lagCall{op: "gh", id: id})
		case r < 18:
			out = append(out, lagCall{op: "gt", height: 1 + l.rnd.Intn(3)})
		default:
			out = append(out, lagCall{op: "ga", id: 1 + l.rnd.Intn(2)})
		}
	}
	return out
}

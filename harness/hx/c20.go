package main

import (
	"crypto/ecdsa"
	"fmt"
	"math/big"
	"sort"
	"strings"
	"sync"
	"time"

	"github.com/LemoFoundationLtd/lemochain-core/chain/params"
	"github.com/LemoFoundationLtd/lemochain-core/chain/txpool"
	"github.com/LemoFoundationLtd/lemochain-core/chain/types"
	"github.com/LemoFoundationLtd/lemochain-core/common"
	"github.com/LemoFoundationLtd/lemochain-core/common/crypto"
	"github.com/LemoFoundationLtd/lemochain-core/common/rlp"
	"github.com/LemoFoundationLtd/lemochain-core/network"
	"github.com/LemoFoundationLtd/lemochain-core/network/p2p"
)

func init() { subs["c20"] = c20 }

// at most 6 records per signature, so that no defect class is crowded out of oracle.jsonl
var c20FailCount = map[string]int{}

func c20Fail(c *Ctx, sig, detail string, replay interface{}) {
	c20FailCount[sig]++
	c.Count("oracle-total:" + sig)
	if c20FailCount[sig] <= 6 {
		c.Fail(sig, detail, replay)
	}
}

// ---------------------------------------------------------------------------
// (a) BlockCache / ConfirmCache: real code vs Lean model + sorted-multimap oracle
// ---------------------------------------------------------------------------

// a cache block: only Height and Hash matter. label = height*1000+tag.
func c20Blk(h uint32, tag int) *types.Block {
	return &types.Block{Header: &types.Header{Height: h, Extra: fmt.Sprintf("t%d", tag)}}
}

func c20Label(b *types.Block) int {
	var tag int
	fmt.Sscanf(b.Header.Extra, "t%d", &tag)
	return int(b.Height())*1000 + tag
}

func c20JoinInts(l []int, sep string) string {
	s := make([]string, len(l))
	for i, v := range l {
		s[i] = fmt.Sprint(v)
	}
	return strings.Join(s, sep)
}

func c20DumpBC(c *network.BlockCache) string {
	gs := c.VerifC20Dump()
	parts := make([]string, 0, len(gs))
	for _, g := range gs {
		var ls []int
		for _, b := range g.Blocks {
			ls = append(ls, c20Label(b))
		}
		sort.Ints(ls)
		parts = append(parts, fmt.Sprintf("%d@%d[%s]", g.Height, g.Alias, c20JoinInts(ls, ",")))
	}
	return fmt.Sprintf("n=%d size=%d first=%d :: %s", len(gs), c.Size(), c.FirstHeight(), strings.Join(parts, " "))
}

// spec: sorted multimap height -> set of labels
type c20Spec map[uint32]map[int]bool

func (s c20Spec) add(h uint32, l int) {
	if s[h] == nil {
		s[h] = map[int]bool{}
	}
	s[h][l] = true
}
func (s c20Spec) remove(h uint32, l int) {
	if s[h] != nil {
		delete(s[h], l)
		if len(s[h]) == 0 {
			delete(s, h)
		}
	}
}
func (s c20Spec) clear(h uint32) {
	for k := range s {
		if k <= h {
			delete(s, k)
		}
	}
}
func (s c20Spec) count() int {
	n := 0
	for _, m := range s {
		n += len(m)
	}
	return n
}
func (s c20Spec) first() uint32 {
	var f uint32
	ok := false
	for h, m := range s {
		if len(m) > 0 && (!ok || h < f) {
			f, ok = h, true
		}
	}
	return f
}

// compare the real cache with the spec; returns the first discrepancy (sig, detail)
func c20CheckBC(c *network.BlockCache, spec c20Spec) (string, string) {
	gs := c.VerifC20Dump()
	seen := map[int]int{}
	var hs []uint32
	for _, g := range gs {
		hs = append(hs, g.Height)
		for _, b := range g.Blocks {
			seen[c20Label(b)]++
		}
	}
	for h, m := range spec {
		for l := range m {
			if seen[l] == 0 {
				return "c20/cache-lost-block", fmt.Sprintf("block %d (height %d) was added and never removed but is not in the cache", l, h)
			}
		}
	}
	for l, n := range seen {
		if !spec[uint32(l/1000)][l] {
			return "c20/cache-stale-block", fmt.Sprintf("block %d is still in the cache after it was removed/cleared", l)
		}
		if n > 1 {
			return "c20/cache-duplicate", fmt.Sprintf("block %d is reachable through %d entries", l, n)
		}
	}
	if c.Size() != spec.count() {
		return "c20/cache-duplicate", fmt.Sprintf("Size()=%d but %d distinct blocks are cached", c.Size(), spec.count())
	}
	for i := 1; i < len(hs); i++ {
		if hs[i-1] >= hs[i] {
			return "c20/cache-unsorted", fmt.Sprintf("entry heights not strictly ascending: %v", hs)
		}
	}
	return "", ""
}

type c20Pick struct {
	lo, hi uint32
}

func c20CacheCase(c *Ctx, mode int) {
	bc := network.NewBlockCache()
	spec := c20Spec{}
	c.Op("new", "ok")
	var trace []string
	oracleOn := true
	fail := func(sig, detail string) {
		if !oracleOn {
			return
		}
		oracleOn = false
		c20Fail(c, sig, detail+" | ops: "+strings.Join(trace, "; "), map[string]interface{}{"ops": trace})
	}
	nops := 6 + c.Rnd.Intn(18)
	maxH := uint32(4 + c.Rnd.Intn(9))
	present := func() []uint32 {
		var hs []uint32
		for _, g := range bc.VerifC20Dump() {
			hs = append(hs, g.Height)
		}
		return hs
	}
	for k := 0; k < nops; k++ {
		r := c.Rnd.Intn(100)
		if mode == 1 && r >= 55 && r < 70 {
			r = 0 // sorted-only stream: more adds
		}
		switch {
		case r < 55: // Add
			hs := present()
			var h uint32
			tag := c.Rnd.Intn(3)
			switch {
			case len(hs) == 0:
				h = 1 + uint32(c.Rnd.Intn(int(maxH)))
			case mode == 1: // never a strict-middle insert: below min, above max, or an existing height
				switch c.Rnd.Intn(3) {
				case 0:
					if hs[0] > 1 {
						h = hs[0] - 1
					} else {
						h = hs[c.Rnd.Intn(len(hs))]
					}
				case 1:
					h = hs[len(hs)-1] + 1 + uint32(c.Rnd.Intn(2))
				default:
					h = hs[c.Rnd.Intn(len(hs))]
				}
				// in mode 1 the cache is sorted, so min = hs[0], max = last
			default:
				h = 1 + uint32(c.Rnd.Intn(int(maxH)))
			}
			// class of this Add
			cls := "add:middle"
			exists := false
			for _, x := range hs {
				if x == h {
					exists = true
				}
			}
			switch {
			case len(hs) == 0:
				cls = "add:empty"
			case h < hs[0]:
				cls = "add:front"
			case h > hs[len(hs)-1]:
				cls = "add:back"
			case exists:
				if spec[h][int(h)*1000+tag] {
					cls = "add:dup-block"
				} else {
					cls = "add:existing-height"
				}
			default:
				// which entry does the loop stop at?
				for i, x := range hs {
					if x > h {
						if i+1 < len(hs) {
							cls = "add:middle-overwrite"
						} else {
							cls = "add:middle-after-last"
						}
						break
					}
				}
			}
			c.Count(cls)
			op := fmt.Sprintf("add %d %d", h, tag)
			trace = append(trace, op)
			bc.Add(c20Blk(h, tag))
			spec.add(h, int(h)*1000+tag)
			c.Op(op, c20DumpBC(bc))
		case r < 67: // Remove
			h := 1 + uint32(c.Rnd.Intn(int(maxH)))
			tag := c.Rnd.Intn(3)
			if spec[h][int(h)*1000+tag] {
				c.Count("rm:present")
			} else {
				c.Count("rm:absent")
			}
			op := fmt.Sprintf("rm %d %d", h, tag)
			trace = append(trace, op)
			bc.Remove(c20Blk(h, tag))
			spec.remove(h, int(h)*1000+tag)
			c.Op(op, c20DumpBC(bc))
		case r < 73: // Clear
			h := uint32(c.Rnd.Intn(int(maxH) + 1))
			c.Count("clear")
			op := fmt.Sprintf("clear %d", h)
			trace = append(trace, op)
			bc.Clear(h)
			spec.clear(h)
			c.Op(op, c20DumpBC(bc))
		case r < 86: // Iterate with a pure per-block decision
			m := []int{1, 1, 2, 3}[c.Rnd.Intn(4)]
			rr := c.Rnd.Intn(m + 1) // rr == m : never true
			c.Count(fmt.Sprintf("iter:m=%d", m))
			op := fmt.Sprintf("iter %d %d", m, rr)
			trace = append(trace, op)
			// visits: grouped by consecutive entries; we learn the entry boundaries from the dump taken before
			before := bc.VerifC20Dump()
			var visited []int
			bc.Iterate(func(b *types.Block) bool {
				l := c20Label(b)
				visited = append(visited, l)
				return l%m == rr
			})
			// regroup the flat visit list entry by entry: entry i is visited with the keys still live in it
			live := map[int]map[int]bool{} // alias root -> live labels
			for i, g := range before {
				if g.Alias == i {
					live[i] = map[int]bool{}
					for _, b := range g.Blocks {
						live[i][c20Label(b)] = true
					}
				}
			}
			pos := 0
			var vis []string
			okShape := true
			for _, g := range before {
				var ls []int
				for l := range live[g.Alias] {
					ls = append(ls, l)
				}
				sort.Ints(ls)
				got := append([]int{}, visited[pos:min(pos+len(ls), len(visited))]...)
				sort.Ints(got)
				if c20JoinInts(got, ",") != c20JoinInts(ls, ",") {
					okShape = false
				}
				pos += len(ls)
				for _, l := range ls {
					if l%m == rr {
						delete(live[g.Alias], l)
					}
				}
				vis = append(vis, fmt.Sprintf("%d[%s]", g.Height, c20JoinInts(ls, ",")))
			}
			if pos != len(visited) {
				okShape = false
			}
			out := "visit " + strings.Join(vis, " ") + " => " + c20DumpBC(bc)
			if !okShape {
				out = "visit-shape-mismatch " + c20JoinInts(visited, ",") + " => " + c20DumpBC(bc)
			}
			// oracle: every cached block visited exactly once, heights ascending
			if oracleOn {
				cnt := map[int]int{}
				for _, l := range visited {
					cnt[l]++
				}
				for h, mm := range spec {
					for l := range mm {
						if cnt[l] == 0 {
							fail("c20/cache-lost-block", fmt.Sprintf("Iterate did not visit cached block %d (height %d)", l, h))
						} else if cnt[l] > 1 {
							fail("c20/cache-duplicate", fmt.Sprintf("Iterate visited block %d %d times", l, cnt[l]))
						}
					}
				}
				for i := 1; i < len(visited); i++ {
					if visited[i-1]/1000 > visited[i]/1000 {
						fail("c20/cache-unsorted", fmt.Sprintf("Iterate visits heights out of order: %v", visited))
						break
					}
				}
			}
			for h, mm := range spec {
				for l := range mm {
					if l%m == rr {
						delete(mm, l)
					}
				}
				if len(mm) == 0 {
					delete(spec, h)
				}
			}
			c.Op(op, out)
		default: // IsExit
			h := 1 + uint32(c.Rnd.Intn(int(maxH)))
			tag := c.Rnd.Intn(3)
			qh := h
			if c.Rnd.Intn(5) == 0 {
				qh = 1 + uint32(c.Rnd.Intn(int(maxH)))
			}
			op := fmt.Sprintf("isexit %d %d %d", h, tag, qh)
			got := bc.IsExit(c20Blk(h, tag).Hash(), qh)
			want := spec[h][int(h)*1000+tag] && qh == h
			c.Count(fmt.Sprintf("isexit:want=%v,got=%v", want, got))
			c.Op(op, fmt.Sprintf("%v", got))
			if got != want && oracleOn {
				trace = append(trace, op)
				fail("c20/isexit-wrong", fmt.Sprintf("IsExit(block %d, height %d) = %v, the cache %s it", int(h)*1000+tag, qh, got, map[bool]string{true: "holds", false: "does not hold"}[want]))
			}
			continue
		}
		if oracleOn {
			if sig, detail := c20CheckBC(bc, spec); sig != "" {
				fail(sig, detail)
			} else if bc.FirstHeight() != spec.first() {
				fail("c20/firstheight-stale", fmt.Sprintf("FirstHeight()=%d but the lowest cached block is at height %d (0 = none): an emptied entry is still in the slice", bc.FirstHeight(), spec.first()))
			}
		}
	}
	if oracleOn {
		c.Count("case:oracle-clean")
	}
}

func c20HashOf(k int) common.Hash { return common.BigToHash(big.NewInt(int64(k))) }
func c20HashNum(h common.Hash) int { return int(new(big.Int).SetBytes(h[:]).Int64()) }

func c20DumpCC(cc *network.ConfirmCache) string {
	d := cc.VerifC20Dump()
	var hs []int
	for h := range d {
		hs = append(hs, int(h))
	}
	sort.Ints(hs)
	var parts []string
	for _, h := range hs {
		m := d[uint32(h)]
		var ks []int
		for k := range m {
			ks = append(ks, c20HashNum(k))
		}
		sort.Ints(ks)
		var es []string
		for _, k := range ks {
			var sg []int
			for _, x := range m[c20HashOf(k)] {
				sg = append(sg, int(x.SignInfo[0]))
			}
			es = append(es, fmt.Sprintf("%d=%s", k, c20JoinInts(sg, ",")))
		}
		parts = append(parts, fmt.Sprintf("%d:{%s}", h, strings.Join(es, ";")))
	}
	return fmt.Sprintf("n=%d size=%d :: %s", len(d), cc.Size(), strings.Join(parts, " "))
}

func c20ConfirmCase(c *Ctx) {
	cc := network.NewConfirmCache()
	c.Op("cnew", "ok")
	type key struct{ h, k int }
	spec := map[key][]int{}
	nops := 5 + c.Rnd.Intn(15)
	for i := 0; i < nops; i++ {
		r := c.Rnd.Intn(100)
		h := 1 + c.Rnd.Intn(4)
		k := 1 + c.Rnd.Intn(4)
		switch {
		case r < 55:
			sg := c.Rnd.Intn(5)
			d := &network.BlockConfirmData{Hash: c20HashOf(k), Height: uint32(h)}
			d.SignInfo[0] = byte(sg)
			cc.Push(d)
			spec[key{h, k}] = append(spec[key{h, k}], sg)
			c.Count("cpush")
			c.Op(fmt.Sprintf("cpush %d %d %d", k, h, sg), c20DumpCC(cc))
		case r < 85:
			res := cc.Pop(uint32(h), c20HashOf(k))
			var sg []int
			for _, x := range res {
				sg = append(sg, int(x.SignInfo[0]))
			}
			if len(res) > 0 {
				c.Count("cpop:hit")
			} else {
				c.Count("cpop:miss")
			}
			if c20JoinInts(sg, ",") != c20JoinInts(spec[key{h, k}], ",") {
				c20Fail(c, "c20/confirm-lost", fmt.Sprintf("Pop(%d,%d) returned %v, pushed %v", h, k, sg, spec[key{h, k}]), nil)
			}
			delete(spec, key{h, k})
			c.Op(fmt.Sprintf("cpop %d %d", h, k), "pop ["+c20JoinInts(sg, ",")+"] => "+c20DumpCC(cc))
		default:
			hh := c.Rnd.Intn(5)
			cc.Clear(uint32(hh))
			for kk := range spec {
				if kk.h <= hh {
					delete(spec, kk)
				}
			}
			c.Count("cclear")
			c.Op(fmt.Sprintf("cclear %d", hh), c20DumpCC(cc))
		}
		n := 0
		for _, l := range spec {
			n += len(l)
		}
		if cc.Size() != n {
			c20Fail(c, "c20/confirm-lost", fmt.Sprintf("ConfirmCache.Size()=%d, expected %d", cc.Size(), n), nil)
		}
	}
}

// Add / Push beyond 10240 entries: `c.Clear` is called with c.lock held.
func c20Deadlocks(c *Ctx) {
	// 10300 heights pass through the cache one after the other (each drained at once) while ONE block waits for
	// its parent: the size limit must count cached heights, not every height seen since the last Clear.
	{
		bc := network.NewBlockCache()
		lo, n := 100, 10300
		keeper := uint32(lo + n + 5)
		bc.Add(c20Blk(keeper, 0))
		for i := 0; i < n; i++ {
			bc.Add(c20Blk(uint32(lo+i), 0))
			bc.Iterate(func(b *types.Block) bool { return b.Height() < keeper })
		}
		out := fmt.Sprintf("len=%d size=%d", len(bc.VerifC20Dump()), bc.Size())
		c.Op(fmt.Sprintf("drainfill %d %d", lo, n), out)
		c.Count("drainfill")
		if bc.Size() != 1 {
			c20Fail(c, "c20/flush-live-blocks", fmt.Sprintf("a block waiting for its parent was discarded after %d other heights had passed through the cache one at a time (never more than 2 blocks cached): the slice kept the emptied entries, reached the 10240 limit and was flushed (%s)", n, out), nil)
		}
	}
	for _, n := range []int{10240, 10241} {
		bc := network.NewBlockCache()
		done := make(chan struct{})
		go func() {
			for h := 1; h <= n; h++ {
				bc.Add(c20Blk(uint32(h), 0))
			}
			close(done)
		}()
		out := ""
		select {
		case <-done:
			out = fmt.Sprintf("len=%d", len(bc.VerifC20Dump()))
		case <-time.After(4 * time.Second):
			out = "deadlock"
			c20Fail(c, "c20/add-deadlock", fmt.Sprintf("BlockCache.Add of the %d-th distinct height never returns: Add calls c.Clear while holding c.lock (non-reentrant mutex); rcvBlockLoop would hang for ever", n), map[string]interface{}{"distinct_heights": n})
		}
		c.Count("fill:" + firstWord(strings.Split(out, "=")[0]))
		c.Op(fmt.Sprintf("fill 1 %d", n), out)
	}
	for _, n := range []int{10240, 10241} {
		cc := network.NewConfirmCache()
		done := make(chan struct{})
		go func() {
			for h := 1; h <= n; h++ {
				cc.Push(&network.BlockConfirmData{Hash: c20HashOf(h), Height: uint32(h)})
			}
			close(done)
		}()
		out := ""
		select {
		case <-done:
			out = fmt.Sprintf("len=%d", len(cc.VerifC20Dump()))
		case <-time.After(4 * time.Second):
			out = "deadlock"
			c20Fail(c, "c20/confirm-push-deadlock", fmt.Sprintf("ConfirmCache.Push of a confirm for the %d-th distinct height never returns (Clear under the held lock); the peer's message loop hangs", n), map[string]interface{}{"distinct_heights": n})
		}
		c.Count("cfill:" + firstWord(strings.Split(out, "=")[0]))
		c.Op(fmt.Sprintf("cfill 1 %d", n), out)
	}
}

// ---------------------------------------------------------------------------
// (c) handleTxsMsg: every valid tx of a batch reaches the pool exactly once
// ---------------------------------------------------------------------------

type c20StubChain struct {
	mu      sync.Mutex
	genesis *types.Block
	known   map[common.Hash]*types.Block
	current *types.Block
	// confirms received for known blocks: block hash -> signer bytes
	attached map[common.Hash][]byte
	// bookkeeping of the `go pm.insertBlock` goroutines of the timer case (used by c20SyncChain)
	entered  int
	finished int
	confirmN int
}

func newC20StubChain(base uint32) *c20StubChain {
	g := &types.Block{Header: &types.Header{Height: base, Extra: "base"}}
	return &c20StubChain{genesis: g, current: g, known: map[common.Hash]*types.Block{g.Hash(): g}, attached: map[common.Hash][]byte{}}
}

func (s *c20StubChain) Genesis() *types.Block { return s.genesis }
func (s *c20StubChain) HasBlock(h common.Hash) bool {
	s.mu.Lock()
	defer s.mu.Unlock()
	_, ok := s.known[h]
	return ok
}
func (s *c20StubChain) GetBlockByHeight(height uint32) *types.Block {
	s.mu.Lock()
	defer s.mu.Unlock()
	for _, b := range s.known {
		if b.Height() == height {
			return b
		}
	}
	return nil
}
func (s *c20StubChain) GetBlockByHash(h common.Hash) *types.Block {
	s.mu.Lock()
	defer s.mu.Unlock()
	return s.known[h]
}
func (s *c20StubChain) CurrentBlock() *types.Block {
	s.mu.Lock()
	defer s.mu.Unlock()
	return s.current
}

// the stub never advances the stable block (no quorum): StableBlock is the base block
func (s *c20StubChain) StableBlock() *types.Block { return s.genesis }
func (s *c20StubChain) IsInBlackList(b *types.Block) bool { return false }
func (s *c20StubChain) InsertConfirms(height uint32, blockHash common.Hash, sigList []types.SignData) {
	s.mu.Lock()
	defer s.mu.Unlock()
	for _, sg := range sigList {
		s.attached[blockHash] = append(s.attached[blockHash], sg[0])
	}
	s.confirmN++
}

var errC20NoParent = fmt.Errorf("parent unknown")
var errC20Exists = fmt.Errorf("block exists")

// accept a block iff its parent is known and it is new
func (s *c20StubChain) InsertBlock(b *types.Block) error {
	s.mu.Lock()
	defer s.mu.Unlock()
	if _, ok := s.known[b.ParentHash()]; !ok {
		return errC20NoParent
	}
	if _, ok := s.known[b.Hash()]; ok {
		return errC20Exists
	}
	s.known[b.Hash()] = b
	for _, sg := range b.Confirms {
		s.attached[b.Hash()] = append(s.attached[b.Hash()], sg[0])
	}
	if b.Height() > s.current.Height() {
		s.current = b
	}
	return nil
}

type c20CountingPool struct {
	mu    sync.Mutex
	real  *txpool.TxPool
	calls []common.Hash
}

func (p *c20CountingPool) GetTxs(t uint32, size int) types.Transactions { return p.real.GetTxs(t, size) }
func (p *c20CountingPool) AddTx(tx *types.Transaction) error {
	p.mu.Lock()
	p.calls = append(p.calls, tx.Hash())
	p.mu.Unlock()
	return p.real.AddTx(tx)
}

// scripted connection: records what the node writes, never delivers anything by itself
type c20Conn struct {
	mu     sync.Mutex
	id     p2p.NodeID
	writes []p2p.MsgCode
	reqs   []uint32 // `From` of every GetBlocksMsg the node wrote to this peer (From == To in all sync requests)
}

func (c *c20Conn) ReadMsg() (*p2p.Msg, error) { select {} }
func (c *c20Conn) WriteMsg(code p2p.MsgCode, msg []byte) error {
	c.mu.Lock()
	c.writes = append(c.writes, code)
	if code == p2p.GetBlocksMsg {
		var q network.GetBlocksData
		if err := rlp.DecodeBytes(msg, &q); err == nil {
			c.reqs = append(c.reqs, q.From)
		}
	}
	c.mu.Unlock()
	return nil
}
func (c *c20Conn) requests() []int {
	c.mu.Lock()
	defer c.mu.Unlock()
	r := make([]int, len(c.reqs))
	for i, v := range c.reqs {
		r[i] = int(v)
	}
	return r
}
func (c *c20Conn) SetWriteDeadline(time.Duration)                     {}
func (c *c20Conn) RNodeID() *p2p.NodeID                               { return &c.id }
func (c *c20Conn) RAddress() string                                   { return "10.0.0.1:7001" }
func (c *c20Conn) LAddress() string                                   { return "10.0.0.2:7001" }
func (c *c20Conn) DoHandshake(*ecdsa.PrivateKey, *p2p.NodeID) error   { return nil }
func (c *c20Conn) Run() error                                         { return nil }
func (c *c20Conn) NeedReConnect() bool                                { return false }
func (c *c20Conn) SetStatus(int32)                                    {}
func (c *c20Conn) Close()                                             {}

var c20Key, _ = crypto.HexToECDSA("432a86ab8765d82415a803e29864dcfc1ed93dac949abf6f95a583179f27e4bb")

const c20ChainID uint16 = 200

func c20Tx(i int, valid bool) *types.Transaction {
	from := crypto.PubkeyToAddress(c20Key.PublicKey)
	exp := uint64(time.Now().Unix() + 600)
	chainID := c20ChainID
	if !valid {
		chainID = c20ChainID + 1 // VerifyTxBody: ErrTxChainID
	}
	tx := types.NewTransaction(from, common.BigToAddress(big.NewInt(int64(1000+i))), big.NewInt(int64(i+1)), 1000000, big.NewInt(1000000000), []byte{}, params.OrdinaryTx, chainID, exp, "", fmt.Sprintf("m%d", i))
	stx, err := types.DefaultSigner{}.SignTx(tx, c20Key)
	if err != nil {
		panic(err)
	}
	return stx
}

func c20NewPM(chain network.BlockChain, pool network.TxPool) *network.ProtocolManager {
	return c20NewPMGuard(chain, pool, txpool.NewTxGuard(uint32(time.Now().Unix())))
}

func c20NewPMGuard(chain network.BlockChain, pool network.TxPool, guard *txpool.TxGuard) *network.ProtocolManager {
	return network.NewProtocolManager(c20ChainID, p2p.NodeID{}, chain, nil, pool, guard, p2p.NewDiscoverManager(""), 1, params.VersionUint(), "")
}

// one TxsMsg through the real handler into a real pool; compared with the model (driver op `txs`) and checked
// directly: every valid, not-yet-packaged tx occurrence gets exactly one AddTx call, the pool holds each such tx
// exactly once, one NewTx event per tx that entered the pool, nothing else enters.
// kinds: 0 = fails VerifyTxBody, 1 = valid, 2 = valid but already packaged on the current branch (txGuard.ExistTx)
func c20TxsCase(c *Ctx, idx int) {
	n := 1 + c.Rnd.Intn(8)
	lastInvalid := c.Rnd.Intn(3) == 0
	type item struct {
		id, kind int
		tx       *types.Transaction
	}
	var items []item
	for i := 0; i < n; i++ {
		kind := 1
		switch c.Rnd.Intn(8) {
		case 0:
			kind = 0
		case 1:
			kind = 2
		}
		if i == n-1 {
			if lastInvalid {
				kind = 0
			} else if kind == 0 {
				kind = 1
			}
		}
		items = append(items, item{id: i + 1, kind: kind, tx: c20Tx(idx*100+i, kind != 0)})
	}
	// duplicates of earlier elements inside the batch
	for d := c.Rnd.Intn(3); d > 0 && c.Rnd.Intn(2) == 0; d-- {
		items = append(items, items[c.Rnd.Intn(len(items))])
		c.Count("txs:batch-with-duplicate")
	}
	idOf := map[common.Hash]int{}
	kindOf := map[int]int{}
	var txs types.Transactions
	var words []string
	for _, it := range items {
		idOf[it.tx.Hash()] = it.id
		kindOf[it.id] = it.kind
		txs = append(txs, it.tx)
		words = append(words, fmt.Sprintf("%d:%d", it.id, it.kind))
		c.Count(fmt.Sprintf("txs:kind=%d", it.kind))
	}
	// the pool may already hold some of the valid txs
	pool := &c20CountingPool{real: txpool.NewTxPool()}
	var pre []int
	for _, it := range items {
		if it.kind == 1 && c.Rnd.Intn(6) == 0 && !containsInt(pre, it.id) {
			pool.real.AddTx(it.tx)
			pre = append(pre, it.id)
			c.Count("txs:already-in-pool")
		}
	}
	chain := newC20StubChain(5)
	guard := txpool.NewTxGuard(uint32(time.Now().Unix()))
	// the current block carries the kind-2 txs
	cur := &types.Block{Header: &types.Header{Height: 6, ParentHash: chain.genesis.Hash(), Time: uint32(time.Now().Unix()), Extra: "cur"}}
	for _, it := range items {
		if it.kind == 2 {
			cur.Txs = append(cur.Txs, it.tx)
		}
	}
	guard.SaveBlock(cur)
	chain.current = cur
	chain.known[cur.Hash()] = cur
	pm := c20NewPMGuard(chain, pool, guard)
	defer pm.Stop()
	// NewTx events: pm.txCh is the only subscriber (txConfirmLoop is not running, so they queue up; <= 10 per case).
	// Do NOT add a second subscriber: subscribe.send shifts the shared case list in place (see report).
	peer := network.VerifNewPeer(&c20Conn{})
	buf, err := rlp.EncodeToBytes(&txs)
	if err != nil {
		panic(err)
	}
	if err := pm.VerifWork(&p2p.Msg{Code: p2p.TxsMsg, Content: buf}, peer); err != nil {
		c20Fail(c, "c20/txs-handler-error", err.Error(), nil)
		return
	}
	wantCalls := 0
	wantPool := map[int]bool{}
	for _, id := range pre {
		wantPool[id] = true
	}
	wantEvents := 0
	for _, it := range items {
		if it.kind == 1 {
			wantCalls++
			if !wantPool[it.id] {
				wantPool[it.id] = true
				wantEvents++
			}
		}
	}
	deadline := time.Now().Add(2 * time.Second)
	for time.Now().Before(deadline) {
		pool.mu.Lock()
		k := len(pool.calls)
		pool.mu.Unlock()
		if k >= wantCalls && pm.VerifC20TxQueueLen() >= wantEvents {
			break
		}
		time.Sleep(2 * time.Millisecond)
	}
	time.Sleep(10 * time.Millisecond)
	var calls, inPool []int
	pool.mu.Lock()
	for _, h := range pool.calls {
		calls = append(calls, idOf[h])
	}
	pool.mu.Unlock()
	sort.Ints(calls)
	for _, tx := range pool.real.GetTxs(uint32(time.Now().Unix()), 10000) {
		inPool = append(inPool, idOf[tx.Hash()])
	}
	sort.Ints(inPool)
	nEvents := pm.VerifC20TxQueueLen()
	preS := "-"
	if len(pre) > 0 {
		sort.Ints(pre)
		preS = c20JoinInts(pre, ",")
	}
	c.Op("txs pool:"+preS+" "+strings.Join(words, " "), fmt.Sprintf("calls=%s pool=%s events=%d", c20JoinInts(calls, ","), c20JoinInts(inPool, ","), nEvents))
	c.Count(fmt.Sprintf("txs:batch=%d", len(txs)))
	if lastInvalid {
		c.Count("txs:last-invalid")
	}
	// direct oracle
	missing, foreign, dupSlots := 0, 0, 0
	seen := map[int]int{}
	for _, id := range inPool {
		seen[id]++
		if !wantPool[id] {
			foreign++
		}
		if seen[id] > 1 {
			dupSlots++
		}
	}
	for id := range wantPool {
		if seen[id] == 0 {
			missing++
		}
	}
	var wantCallList []int
	for _, it := range items {
		if it.kind == 1 {
			wantCallList = append(wantCallList, it.id)
		}
	}
	sort.Ints(wantCallList)
	switch {
	case missing > 0 || foreign > 0:
		c.Count("txs:violation")
		sig := "c20/txs-batch-loopvar"
		if foreign > 0 {
			sig = "c20/txs-batch-loopvar/unverified-in-pool"
		}
		c20Fail(c, sig, fmt.Sprintf("TxsMsg %v (id:kind, 0=fails VerifyTxBody 1=valid 2=already packaged), pool before %v: %d valid txs never reached the pool, %d txs that must not enter are in the pool; pool now %v", words, pre, missing, foreign, inPool),
			map[string]interface{}{"batch": words, "pre": pre})
	case c20JoinInts(calls, ",") != c20JoinInts(wantCallList, ",") || dupSlots > 0 || nEvents != wantEvents:
		c.Count("txs:violation")
		c20Fail(c, "c20/txs-multiplicity", fmt.Sprintf("TxsMsg %v, pool before %v: AddTx calls %v (want %v), pool %v (%d duplicate slots), NewTx events %d (want %d)", words, pre, calls, wantCallList, inPool, dupSlots, nEvents, wantEvents),
			map[string]interface{}{"batch": words, "pre": pre})
	default:
		c.Count("txs:ok")
	}
}

func containsInt(l []int, v int) bool {
	for _, x := range l {
		if x == v {
			return true
		}
	}
	return false
}

func c20(c *Ctx) {
	nCache := c.N
	for i := 0; i < nCache; i++ {
		mode := 0
		if i%3 == 1 {
			mode = 1
		}
		c20CacheCase(c, mode)
	}
	for i := 0; i < c.N/4+1; i++ {
		c20ConfirmCase(c)
	}
	c20Deadlocks(c)
	nTx := 40
	if c.Tier == "thorough" {
		nTx = 400
	}
	for i := 0; i < nTx; i++ {
		c20TxsCase(c, i)
	}
	c20Races(c)
	c20PM(c)
	c20Fork(c) // block trees (forks) on the real ProtocolManager, incl. the real stableBlockLoop
	c20Real(c) // last: no other ProtocolManager may be alive (process-wide event bus)
	c20RealFork(c)
}

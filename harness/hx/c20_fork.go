package main

// (b') convergence over a block TREE on the real ProtocolManager: competing blocks at the same height (forks,
// several miners).  Same machinery as c20_pm.go (real rcvBlockLoop / handleBlocksMsg / handleConfirmMsg /
// mergeConfirmsFromCache / BlockCache / ConfirmCache over the stub chain that accepts a block iff its parent is
// known and the block is new), plus the real stableBlockLoop fed with stable events.  The delivered universe is
// a generator-chosen tree above the base block: 2–4 siblings at random heights, subtrees under each, equal-height
// floods, two competing chains; delivered in any order (a sibling before / after its parent, children first,
// duplicates, one message per block or whole sibling groups in one message), interleaved with confirms (early /
// late / wrong height), drain ticks and stable events.
//
// Every step is replayed on the Lean model (ops fnode / fblocks / ftick / fconfirm / fstable / reqs: the op line
// carries the generator's block ids, heights and parents — nothing read back from the code under test) and the
// final node is judged directly: when no block of the tree collected q distinct signers (the guard NoQuorum of
// LemoProofs.C20.converges_tree) the node must know EXACTLY the tree, hold nothing in the block cache and stand at
// the height of the highest block: signature c20/sync-diverged/fork.

import (
	"fmt"
	"math/rand"
	"sort"
	"strings"
	"sync"
	"time"

	"github.com/LemoFoundationLtd/lemochain-core/chain/deputynode"
	"github.com/LemoFoundationLtd/lemochain-core/chain/params"
	"github.com/LemoFoundationLtd/lemochain-core/chain/txpool"
	"github.com/LemoFoundationLtd/lemochain-core/chain/types"
	"github.com/LemoFoundationLtd/lemochain-core/common"
	"github.com/LemoFoundationLtd/lemochain-core/common/merkle"
	"github.com/LemoFoundationLtd/lemochain-core/common/rlp"
	"github.com/LemoFoundationLtd/lemochain-core/network"
	"github.com/LemoFoundationLtd/lemochain-core/network/p2p"
	"github.com/LemoFoundationLtd/lemochain-core/store"
)

// a deputy manager without any term: every peer is a "delay node" for stableBlockLoop
type c20NoBlocks struct{}

func (c20NoBlocks) GetBlockByHeight(uint32) (*types.Block, error) { return nil, store.ErrBlockNotExist }

// tree node: id = index (0 = base block), parent id < id, depth = height above the base block
type c20FNode struct {
	parent int
	depth  int
}

// c20ForkTree returns (shape name, nodes); nodes[0] is the base block
func c20ForkTree(rnd *rand.Rand) (string, []c20FNode) {
	t := []c20FNode{{parent: -1, depth: 0}}
	add := func(parent int) int {
		t = append(t, c20FNode{parent: parent, depth: t[parent].depth + 1})
		return len(t) - 1
	}
	chainFrom := func(parent, n int) int {
		for i := 0; i < n; i++ {
			parent = add(parent)
		}
		return parent
	}
	switch rnd.Intn(5) {
	case 0: // a trunk with 2–4 siblings at one or two random heights, a short subtree under each sibling
		l := 2 + rnd.Intn(3)
		trunk := []int{0}
		for i := 0; i < l; i++ {
			trunk = append(trunk, add(trunk[len(trunk)-1]))
		}
		for f := 1 + rnd.Intn(2); f > 0; f-- {
			at := rnd.Intn(l) // siblings of trunk[at+1]: children of trunk[at]
			for s := 1 + rnd.Intn(3); s > 0; s-- {
				chainFrom(add(trunk[at]), rnd.Intn(3))
			}
		}
		return "siblings", t
	case 1: // equal-height flood: 4–6 children of one block, one or two of them continue
		p := chainFrom(0, rnd.Intn(2))
		var kids []int
		for s := 4 + rnd.Intn(3); s > 0; s-- {
			kids = append(kids, add(p))
		}
		for c := 1 + rnd.Intn(2); c > 0; c-- {
			chainFrom(kids[rnd.Intn(len(kids))], 1+rnd.Intn(2))
		}
		return "flood", t
	case 2: // random recursive tree, depth capped
		for m := 4 + rnd.Intn(6); m > 0; m-- {
			p := rnd.Intn(len(t))
			for t[p].depth >= 5 {
				p = t[p].parent
			}
			add(p)
		}
		return "random", t
	case 3: // two (or three) competing chains from the base block
		for k := 2 + rnd.Intn(2); k > 0; k-- {
			chainFrom(0, 2+rnd.Intn(3))
		}
		return "competing-chains", t
	default: // a fork at the first height that competes all the way up, same heights on both sides
		l := 3 + rnd.Intn(3)
		chainFrom(0, l)
		chainFrom(0, l)
		return "deep-fork", t
	}
}

type c20FMsg struct {
	kind string // "blocks" | "confirm" | "ticks" | "stable"
	ids  []int
	id   int
	sig  int
	off  int
	n    int
}

func c20ForkPlan(rnd *rand.Rand, t []c20FNode) (string, []c20FMsg) {
	m := len(t) - 1
	var order []int
	name := ""
	switch rnd.Intn(5) {
	case 0: // parent before child
		name = "parent-first"
		for i := 1; i <= m; i++ {
			order = append(order, i)
		}
	case 1: // every child before its parent
		name = "children-first"
		for i := m; i >= 1; i-- {
			order = append(order, i)
		}
	case 2: // highest blocks first, siblings adjacent
		name = "top-down-by-height"
		for i := 1; i <= m; i++ {
			order = append(order, i)
		}
		sort.SliceStable(order, func(a, b int) bool { return t[order[a]].depth > t[order[b]].depth })
	default:
		name = "random"
		order = rnd.Perm(m)
		for i := range order {
			order[i]++
		}
	}
	for d := rnd.Intn(4); d > 0; d-- {
		pos := rnd.Intn(len(order) + 1)
		dup := 1 + rnd.Intn(m)
		order = append(order[:pos], append([]int{dup}, order[pos:]...)...)
	}
	var plan []c20FMsg
	batch := rnd.Intn(3) // 0: one block per message, 1: mixed, 2: big messages
	for i := 0; i < len(order); {
		sz := 1
		switch batch {
		case 1:
			if rnd.Intn(3) == 0 {
				sz = 2 + rnd.Intn(3)
			}
		case 2:
			sz = 2 + rnd.Intn(4)
		}
		if i+sz > len(order) {
			sz = len(order) - i
		}
		plan = append(plan, c20FMsg{kind: "blocks", ids: append([]int{}, order[i:i+sz]...)})
		i += sz
	}
	insert := func(x c20FMsg) {
		pos := rnd.Intn(len(plan) + 1)
		plan = append(plan[:pos], append([]c20FMsg{x}, plan[pos:]...)...)
	}
	for cnum := rnd.Intn(2 * m); cnum > 0; cnum-- {
		x := c20FMsg{kind: "confirm", id: 1 + rnd.Intn(m), sig: 1 + rnd.Intn(3)}
		if rnd.Intn(12) == 0 {
			x.off = 1
		}
		insert(x)
	}
	for k := rnd.Intn(3); k > 0; k-- {
		insert(c20FMsg{kind: "ticks", n: 1 + rnd.Intn(2)})
	}
	for k := rnd.Intn(3); k > 0; k-- {
		insert(c20FMsg{kind: "stable"})
	}
	return name, plan
}

func c20ForkCase(seed int64) (res c20PMOut) {
	rnd := rand.New(rand.NewSource(seed))
	base := uint32(1 + rnd.Intn(5))
	async := rnd.Intn(3) != 0
	q := 1 + rnd.Intn(3)
	if rnd.Intn(5) < 2 {
		q = 9 // more than the three signers there are: the stable block stays at the base block
	}
	shape, tree := c20ForkTree(rnd)
	m := len(tree) - 1
	orderName, plan := c20ForkPlan(rnd, tree)
	maxDepth := 0
	perHeight := map[int]int{}
	for _, nd := range tree[1:] {
		if nd.depth > maxDepth {
			maxDepth = nd.depth
		}
		perHeight[nd.depth]++
	}
	maxSib := 0
	for _, n := range perHeight {
		if n > maxSib {
			maxSib = n
		}
	}
	var planText []string
	for _, x := range plan {
		switch x.kind {
		case "blocks":
			planText = append(planText, fmt.Sprintf("blocks%v", x.ids))
		case "confirm":
			if x.off != 0 {
				planText = append(planText, fmt.Sprintf("confirm(%d,s%d,height+%d)", x.id, x.sig, x.off))
			} else {
				planText = append(planText, fmt.Sprintf("confirm(%d,s%d)", x.id, x.sig))
			}
		case "ticks":
			planText = append(planText, fmt.Sprintf("ticks(%d)", x.n))
		default:
			planText = append(planText, "stable")
		}
	}
	var treeText []string
	for i, nd := range tree[1:] {
		treeText = append(treeText, fmt.Sprintf("%d<-%d@%d", nd.parent, i+1, int(base)+nd.depth))
	}
	replay := map[string]interface{}{"seed": seed, "base": base, "async": async, "q": q, "shape": shape,
		"tree(parent<-id@height)": strings.Join(treeText, " "), "plan": strings.Join(planText, " ")}
	count := func(k string) { res.counts = append(res.counts, k) }
	fail := func(sig, detail string) {
		res.fails = append(res.fails, c20PMFail{sig, detail + " | tree (parent<-id@height): " + strings.Join(treeText, " ") + " | delivery: " + strings.Join(planText, " "), replay})
	}

	chain := newC20SyncChain(base, async, q)
	blocks := []*types.Block{chain.genesis}
	idx := map[common.Hash]int{chain.genesis.Hash(): 0}
	for i := 1; i <= m; i++ {
		b := &types.Block{Header: &types.Header{Height: base + uint32(tree[i].depth), ParentHash: blocks[tree[i].parent].Hash(),
			Extra: fmt.Sprintf("f%d", i), TxRoot: merkle.EmptyTrieHash, LogRoot: merkle.EmptyTrieHash}}
		blocks = append(blocks, b)
		idx[b.Hash()] = i
	}
	if len(idx) != m+1 {
		panic("c20 fork: block hashes collide")
	}
	dm := deputynode.NewManager(5, c20NoBlocks{})
	pm := network.NewProtocolManager(c20ChainID, p2p.NodeID{}, chain, dm, nil, txpool.NewTxGuard(uint32(time.Now().Unix())), p2p.NewDiscoverManager(""), 1, params.VersionUint(), "")
	tokens := pm.VerifC20SetTest()
	bc := pm.VerifBlockCache()
	cc := pm.VerifC20ConfirmCache()
	conns := []*c20Conn{{}, {}, {}}
	var peers []*network.VerifPeer
	for i, cn := range conns {
		cn.id[0] = byte(17 + i)
		p := network.VerifNewPeer(cn)
		pm.VerifRegister(p)
		peers = append(peers, p)
	}
	peer := peers[0]
	show := func() string {
		chain.mu.Lock()
		var ks []int
		for h := range chain.known {
			ks = append(ks, idx[h])
		}
		var att []int
		for h, l := range chain.attached {
			for _, s := range l {
				att = append(att, idx[h]*1000+int(s))
			}
		}
		cur := chain.current.Height()
		st := chain.stableHeightLocked()
		chain.mu.Unlock()
		sort.Ints(ks)
		sort.Ints(att)
		attS := make([]string, len(att))
		for i, a := range att {
			attS[i] = fmt.Sprintf("%d:%d", a/1000, a%1000)
		}
		var cached []int
		for _, g := range bc.VerifC20Dump() {
			for _, b := range g.Blocks {
				cached = append(cached, idx[b.Hash()])
			}
		}
		sort.Ints(cached)
		return fmt.Sprintf("cur=%d stable=%d known=%s cached=%s first=%d att=%s confirms=%d", cur, st, c20JoinInts(ks, ","),
			c20JoinInts(cached, ","), bc.FirstHeight(), strings.Join(attS, ","), cc.Size())
	}
	emit := func(op, out string) {
		res.ops = append(res.ops, op)
		res.outs = append(res.outs, out)
	}
	emit(fmt.Sprintf("fnode %d %d", base, q), show())

	type tok struct {
		t  int
		at time.Time
	}
	toks := make(chan tok, 256)
	windowStart := time.Now()
	go pm.VerifRcvBlockLoop()
	go pm.VerifC20StableBlockLoop()
	go func() {
		for t := range tokens {
			toks <- tok{t, time.Now()}
		}
	}()
	defer pm.Stop()

	var pendingBlocks []string
	nTicks := 0
	racy := false
	prevSpawned := 0
	handleTick := func(at time.Time) int {
		if len(pendingBlocks) > 0 {
			racy = true
		}
		chain.mu.Lock()
		spawnedAll := chain.spawned
		spawnDeadline := time.Now().Add(3 * time.Second)
		for chain.entered < spawnedAll && time.Now().Before(spawnDeadline) {
			chain.mu.Unlock()
			time.Sleep(200 * time.Microsecond)
			chain.mu.Lock()
		}
		if chain.entered < spawnedAll {
			chain.lostSpawns += spawnedAll - chain.entered
			chain.spawned = chain.entered
			spawnedAll = chain.entered
		}
		chain.released = chain.entered
		chain.cond.Broadcast()
		for chain.finished < spawnedAll {
			chain.cond.Wait()
		}
		chain.mu.Unlock()
		nTicks++
		windowStart = at
		emit(fmt.Sprintf("ftick %v", async), show())
		sp := spawnedAll - prevSpawned
		prevSpawned = spawnedAll
		return sp
	}
	readToken := func() (tok, bool) {
		select {
		case t := <-toks:
			return t, true
		case <-time.After(3 * time.Second):
			return tok{}, false
		}
	}
	waitRcv := func() bool {
		for len(pendingBlocks) > 0 {
			t, ok := readToken()
			if !ok {
				return false
			}
			switch t.t {
			case network.VerifC20QueueTimer:
				handleTick(t.at)
			case network.VerifC20RcvBlocks:
				op := pendingBlocks[0]
				pendingBlocks = pendingBlocks[1:]
				emit(op, show())
			}
		}
		return true
	}
	waitTick := func() (int, bool) {
		for {
			t, ok := readToken()
			if !ok {
				return 0, false
			}
			if t.t == network.VerifC20QueueTimer {
				return handleTick(t.at), true
			}
		}
	}
	ensureWindow := func() bool {
		if time.Since(windowStart) > 300*time.Millisecond {
			if _, ok := waitTick(); !ok {
				return false
			}
		}
		return true
	}
	delivered := map[int]bool{}
	sigsByBlock := map[int]map[int]bool{} // every confirm by block id, well formed or not: what `attached` can hold
	wellFormed := map[int]map[int]bool{}
	malformed := false
	stalled := false
	nStable := 0
	for _, x := range plan {
		switch x.kind {
		case "blocks":
			var bl types.Blocks
			var words []string
			seenH := map[uint32]int{}
			for _, id := range x.ids {
				bl = append(bl, blocks[id])
				delivered[id] = true
				words = append(words, fmt.Sprintf("%d:%d:%d", blocks[id].Height(), id, tree[id].parent))
				seenH[blocks[id].Height()]++
			}
			for _, n := range seenH {
				if n > 1 {
					count("fork:message-with-siblings")
					break
				}
			}
			buf, err := rlp.EncodeToBytes(&bl)
			if err != nil {
				panic(err)
			}
			if !ensureWindow() {
				stalled = true
				break
			}
			// classes: how does each block meet its parent / its siblings?
			for _, id := range x.ids {
				hasParent := chain.c20StubChain.HasBlock(blocks[tree[id].parent].Hash())
				hasSelf := chain.c20StubChain.HasBlock(blocks[id].Hash())
				switch {
				case hasSelf:
					count("fork:block-already-known")
				case bc.IsExit(blocks[id].Hash(), blocks[id].Height()):
					count("fork:block-already-cached")
				case hasParent:
					count("fork:block-after-parent")
				default:
					count("fork:block-before-parent")
				}
			}
			peer = peers[rnd.Intn(len(peers))]
			pendingBlocks = append(pendingBlocks, "fblocks "+strings.Join(words, " "))
			if err := pm.VerifWork(&p2p.Msg{Code: p2p.BlocksMsg, Content: buf}, peer); err != nil {
				fail("c20/pm-handler-error", "handleBlocksMsg: "+err.Error())
				return
			}
			count(fmt.Sprintf("fork:blocks-msg-size=%d", len(x.ids)))
			if !waitRcv() {
				stalled = true
			}
		case "confirm":
			if !ensureWindow() {
				stalled = true
				break
			}
			has := chain.c20StubChain.HasBlock(blocks[x.id].Hash())
			chain.mu.Lock()
			cn := chain.confirmN
			chain.mu.Unlock()
			d := &network.BlockConfirmData{Hash: blocks[x.id].Hash(), Height: blocks[x.id].Height() + uint32(x.off)}
			d.SignInfo[0] = byte(x.sig)
			buf, _ := rlp.EncodeToBytes(d)
			if err := pm.VerifWork(&p2p.Msg{Code: p2p.ConfirmMsg, Content: buf}, peer); err != nil {
				fail("c20/pm-handler-error", "handleConfirmMsg: "+err.Error())
				return
			}
			if x.off != 0 {
				malformed = true
				count("fork:confirm-wrong-height")
			}
			if has {
				count("fork:confirm-after-block")
				for i := 0; i < 5000; i++ {
					chain.mu.Lock()
					done := chain.confirmN > cn
					chain.mu.Unlock()
					if done {
						break
					}
					time.Sleep(200 * time.Microsecond)
				}
			} else {
				count("fork:confirm-before-block")
			}
			if sigsByBlock[x.id] == nil {
				sigsByBlock[x.id] = map[int]bool{}
			}
			sigsByBlock[x.id][x.sig] = true
			if x.off == 0 {
				if wellFormed[x.id] == nil {
					wellFormed[x.id] = map[int]bool{}
				}
				wellFormed[x.id][x.sig] = true
			}
			emit(fmt.Sprintf("fconfirm %d %d %d", x.id, int(blocks[x.id].Height())+x.off, x.sig), show())
		case "ticks":
			for i := 0; i < x.n; i++ {
				if _, ok := waitTick(); !ok {
					stalled = true
				}
			}
		case "stable":
			if !ensureWindow() {
				stalled = true
				break
			}
			chain.mu.Lock()
			st := chain.stableHeightLocked()
			chain.mu.Unlock()
			sizeBefore := bc.Size()
			// stableBlockLoop clears the two caches on a goroutine of its own; a sentinel block of height 0, which every
			// Clear(h) removes last (confirm cache first, then block cache), makes its completion observable
			sentinel := &types.Block{Header: &types.Header{Height: 0, Extra: "sentinel"}}
			bc.Add(sentinel)
			pm.VerifC20PushStable(&types.Block{Header: &types.Header{Height: st, Extra: "stable-event"}})
			done := false
			for i := 0; i < 15000 && !done; i++ {
				done = !bc.IsExit(sentinel.Hash(), 0)
				if !done {
					time.Sleep(200 * time.Microsecond)
				}
			}
			if !done {
				fail("c20/pm-stalled", "stableBlockLoop did not clear the block cache within 3 s of a stable event")
				return
			}
			if time.Since(windowStart) > 480*time.Millisecond {
				racy = true // the timer may have fired while the sentinel was cached
			}
			nStable++
			switch {
			case st == 0:
				count("fork:stable-event-at-base")
			case bc.Size() < sizeBefore:
				count("fork:stable-event-drops-cached-blocks")
			default:
				count("fork:stable-event")
			}
			emit("fstable", show())
		}
		if stalled {
			break
		}
	}
	if stalled {
		fail("c20/pm-stalled", "rcvBlockLoop stopped reporting (no token for 3 s)")
		return
	}
	// drain fixpoint: ticks until one tick spawns nothing
	drainTicks := 0
	for i := 0; i < maxDepth+3; i++ {
		sp, ok := waitTick()
		if !ok {
			fail("c20/pm-stalled", "rcvBlockLoop stopped reporting during the drain")
			return
		}
		drainTicks++
		if sp == 0 {
			break
		}
	}
	time.Sleep(40 * time.Millisecond)
	var reqs []int
	for _, cn := range conns {
		reqs = append(reqs, cn.requests()...)
	}
	sort.Ints(reqs)
	emit("reqs", "reqs "+c20JoinInts(reqs, ","))
	if racy {
		res.racy = true
		res.ops, res.outs = nil, nil
		count("fork:interleaving-not-observable(correspondence skipped)")
	}
	count("fork:shape=" + shape)
	count("fork:order=" + orderName)
	count(fmt.Sprintf("fork:async=%v", async))
	count(fmt.Sprintf("fork:depth=%d", maxDepth))
	count(fmt.Sprintf("fork:max-siblings=%d", maxSib))
	count(fmt.Sprintf("fork:stable-events=%d", nStable))

	// direct oracle
	noQuorum := true
	for _, sg := range sigsByBlock {
		if len(sg) >= q {
			noQuorum = false
		}
	}
	chain.mu.Lock()
	if chain.lostSpawns > 0 {
		chain.mu.Unlock()
		fail("c20/timer-drops-block", fmt.Sprintf("the drain timer's callback found the parent of %d cached block(s) in the chain and took them out of the cache (returned true), but never handed them to pm.insertBlock", chain.lostSpawns))
		chain.mu.Lock()
	}
	cur := chain.current.Height()
	var missing []int
	for i := 1; i <= m; i++ {
		if _, ok := chain.known[blocks[i].Hash()]; !ok {
			missing = append(missing, i)
		}
	}
	foreign := len(chain.known) - 1 - (m - len(missing))
	var lostConf []string
	for id, sg := range wellFormed {
		got := map[int]bool{}
		for _, s := range chain.attached[blocks[id].Hash()] {
			got[int(s)] = true
		}
		for s := range sg {
			if !got[s] {
				lostConf = append(lostConf, fmt.Sprintf("(%d,s%d)", id, s))
			}
		}
	}
	chain.mu.Unlock()
	cached := bc.Size()
	if !noQuorum {
		// a block of the tree reached the quorum: blocks at or below the stable height that arrive later are stale
		// by design (stale check, Clear on the stable event); which ones depends on the order. Judged by the
		// correspondence only.
		count("fork:quorum-reached(order-dependent by design, correspondence only)")
		if len(missing) > 0 {
			count("fork:quorum-reached:blocks-dropped")
		}
		return
	}
	count("fork:no-quorum(oracle applies)")
	if len(missing) > 0 || foreign != 0 || cached != 0 || cur != base+uint32(maxDepth) {
		fail("c20/sync-diverged/fork", fmt.Sprintf("every block of the tree (%d blocks, %d heights, up to %d competing at one height) was delivered at least once, no block reached the quorum of %d signers, the drain reached its fixpoint after %d ticks, but the node does not know exactly the tree: blocks never inserted: %v; unknown extra blocks in the chain: %d; block cache still holds %d blocks; CurrentBlock height %d (highest block of the tree: %d)",
			m, maxDepth, maxSib, q, drainTicks, missing, foreign, cached, cur, base+uint32(maxDepth)))
	} else if !malformed && len(lostConf) > 0 {
		sort.Strings(lostConf)
		fail("c20/sync-confirm-lost/fork", fmt.Sprintf("confirms not attached to their block: %v", lostConf))
	} else {
		count("fork:converged")
	}
	return
}

// `hx c20fork`: the fork scenarios alone (stub-chain sweep with model ops + real-chain fork oracle), for replay
func init() {
	subs["c20fork"] = func(c *Ctx) {
		c20Fork(c)
		c20RealFork(c)
	}
}

func c20Fork(c *Ctx) {
	cases := 40
	par := 40
	if c.Tier == "thorough" {
		cases = 480
		par = 60
	}
	seeds := make([]int64, cases)
	for i := range seeds {
		seeds[i] = c.Rnd.Int63()
	}
	results := make([]c20PMOut, cases)
	for lo := 0; lo < cases; lo += par {
		var wg sync.WaitGroup
		for i := lo; i < lo+par && i < cases; i++ {
			wg.Add(1)
			go func(i int) {
				defer wg.Done()
				results[i] = c20ForkCase(seeds[i])
			}(i)
		}
		wg.Wait()
	}
	nRacy := 0
	for _, r := range results {
		if r.racy {
			nRacy++
		}
	}
	if nRacy*5 > cases {
		c20Fail(c, "c20/harness/unobservable-interleavings", fmt.Sprintf("%d of %d fork cases had a message in flight when the timer fired (machine too slow?): their correspondence was skipped, which is more than the 20%% this harness tolerates", nRacy, cases), nil)
	}
	for _, r := range results {
		for i := range r.ops {
			c.Op(r.ops[i], r.outs[i])
		}
		for _, k := range r.counts {
			c.Count(k)
		}
		for _, f := range r.fails {
			c20Fail(c, f.sig, f.detail, f.replay)
		}
	}
}

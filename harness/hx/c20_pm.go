package main

// (b) convergence on the real ProtocolManager: the real rcvBlockLoop / handleBlocksMsg / handleConfirmMsg /
// mergeConfirmsFromCache / BlockCache / ConfirmCache run over a stub chain that accepts a block iff its
// parent is known (the abstract chain of the Lean model).  pm's built-in test mode reports every processed
// blocks message and every drain-timer tick, which makes the interleaving observable: the same sequence
// is replayed on the Lean receive-loop model (correspondence) and the final node is compared with the
// in-order node (direct oracle).

import (
	"fmt"
	"math/rand"
	"runtime"
	"sort"
	"strings"
	"sync"
	"time"

	"github.com/LemoFoundationLtd/lemochain-core/chain/types"
	"github.com/LemoFoundationLtd/lemochain-core/common"
	"github.com/LemoFoundationLtd/lemochain-core/common/merkle"
	"github.com/LemoFoundationLtd/lemochain-core/common/rlp"
	"github.com/LemoFoundationLtd/lemochain-core/network"
	"github.com/LemoFoundationLtd/lemochain-core/network/p2p"
)

// where is the chain stub being called from?
//   loop: on the rcvBlockLoop goroutine;  tick: inside the timer case's processBlock callback
func c20Where() (loop bool, tick bool) {
	pc := make([]uintptr, 48)
	n := runtime.Callers(2, pc)
	frames := runtime.CallersFrames(pc[:n])
	cb := false
	for {
		f, more := frames.Next()
		if strings.HasSuffix(f.Function, ").rcvBlockLoop") {
			loop = true
		}
		if strings.Contains(f.Function, ").rcvBlockLoop.func") {
			cb = true
		}
		if !more {
			break
		}
	}
	return loop, loop && cb
}

// is a function whose name ends in `name` on the stack?
func c20InHandler(name string) bool {
	pc := make([]uintptr, 48)
	n := runtime.Callers(2, pc)
	frames := runtime.CallersFrames(pc[:n])
	for {
		f, more := frames.Next()
		if strings.HasSuffix(f.Function, ")."+name) {
			return true
		}
		if !more {
			break
		}
	}
	return false
}

// chain stub for the PM-level runs: abstract chain + deterministic scheduling of `go pm.insertBlock`
type c20SyncChain struct {
	*c20StubChain
	cond     *sync.Cond
	async    bool // true: spawned inserts run after Iterate returned; false: each runs before the next callback
	q        int
	spawned  int // processBlock callbacks that returned true so far
	released int
	// HasBlock(parent) answered true inside a processBlock callback, but no pm.insertBlock followed within 3 s
	lostSpawns int
}

func newC20SyncChain(base uint32, async bool, q int) *c20SyncChain {
	s := &c20SyncChain{c20StubChain: newC20StubChain(base), async: async, q: q}
	s.genesis.Header.TxRoot = merkle.EmptyTrieHash
	s.genesis.Header.LogRoot = merkle.EmptyTrieHash
	s.known = map[common.Hash]*types.Block{s.genesis.Hash(): s.genesis}
	s.cond = sync.NewCond(&s.mu)
	return s
}

func (s *c20SyncChain) HasBlock(h common.Hash) bool {
	_, tick := c20Where()
	s.mu.Lock()
	defer s.mu.Unlock()
	if tick && !s.async {
		// bounded: code that takes a block out of the cache without inserting it must not hang the harness
		deadline := time.Now().Add(3 * time.Second)
		for s.finished < s.spawned && time.Now().Before(deadline) {
			s.mu.Unlock()
			time.Sleep(100 * time.Microsecond)
			s.mu.Lock()
		}
		if s.finished < s.spawned {
			s.lostSpawns += s.spawned - s.finished
			s.spawned = s.finished
		}
	}
	_, ok := s.known[h]
	if tick && ok {
		s.spawned++
	}
	return ok
}

func (s *c20SyncChain) stableHeightLocked() uint32 {
	var best uint32
	for h, b := range s.known {
		d := map[byte]bool{}
		for _, x := range s.attached[h] {
			d[x] = true
		}
		if len(d) >= s.q && b.Height() > best && b != s.genesis {
			best = b.Height()
		}
	}
	return best
}

// highest known block with >= q distinct confirmations (height 0 when there is none, like the model)
func (s *c20SyncChain) StableBlock() *types.Block {
	s.mu.Lock()
	defer s.mu.Unlock()
	return &types.Block{Header: &types.Header{Height: s.stableHeightLocked()}}
}

func (s *c20SyncChain) InsertConfirms(height uint32, blockHash common.Hash, sigList []types.SignData) {
	s.c20StubChain.InsertConfirms(height, blockHash, sigList)
}

func (s *c20SyncChain) InsertBlock(b *types.Block) error {
	loop, _ := c20Where()
	if !loop {
		s.mu.Lock()
		s.entered++
		my := s.entered
		if s.async {
			for s.released < my {
				s.cond.Wait()
			}
		}
		s.mu.Unlock()
		defer func() {
			s.mu.Lock()
			s.finished++
			s.cond.Broadcast()
			s.mu.Unlock()
		}()
	}
	s.mu.Lock()
	defer s.mu.Unlock()
	if _, ok := s.known[b.ParentHash()]; !ok {
		return errC20NoParent
	}
	if _, ok := s.known[b.Hash()]; ok {
		return errC20Exists
	}
	s.known[b.Hash()] = b
	for _, sg := range b.Confirms {
		s.attached[b.Hash()] = append(s.attached[b.Hash()], sg[0])
	}
	if b.Height() > s.current.Height() {
		s.current = b
	}
	return nil
}

type c20PMFail struct {
	sig, detail string
	replay      interface{}
}

type c20PMOut struct {
	racy      bool
	ops, outs []string
	fails     []c20PMFail
	counts    []string
}

type c20PMMsg struct {
	kind string // "blocks" | "confirm" | "ticks"
	ks   []int
	k    int
	sig  int
	n    int
	off  int // confirm: error in the Height field (0 = well formed)
}

func c20PMPlan(rnd *rand.Rand, n int) []c20PMMsg {
	// delivery order of the blocks: a permutation with duplicates
	var order []int
	switch rnd.Intn(4) {
	case 0: // in order
		for k := 1; k <= n; k++ {
			order = append(order, k)
		}
	case 1: // reversed
		for k := n; k >= 1; k-- {
			order = append(order, k)
		}
	default:
		order = rnd.Perm(n)
		for i := range order {
			order[i]++
		}
	}
	for d := rnd.Intn(3); d > 0; d-- {
		pos := rnd.Intn(len(order) + 1)
		dup := 1 + rnd.Intn(n)
		order = append(order[:pos], append([]int{dup}, order[pos:]...)...)
	}
	var plan []c20PMMsg
	for i := 0; i < len(order); {
		sz := 1
		if rnd.Intn(4) == 0 {
			sz = 1 + rnd.Intn(3)
		}
		if i+sz > len(order) {
			sz = len(order) - i
		}
		plan = append(plan, c20PMMsg{kind: "blocks", ks: append([]int{}, order[i:i+sz]...)})
		i += sz
	}
	// confirms at random positions (before or after their block)
	for cnum := rnd.Intn(2 * n); cnum > 0; cnum-- {
		pos := rnd.Intn(len(plan) + 1)
		m := c20PMMsg{kind: "confirm", k: 1 + rnd.Intn(n), sig: 1 + rnd.Intn(3)}
		if rnd.Intn(12) == 0 {
			m.off = 1 // a malformed confirm: right hash, wrong height
		}
		plan = append(plan[:pos], append([]c20PMMsg{m}, plan[pos:]...)...)
	}
	// let the drain timer fire in the middle of the delivery sometimes
	for t := rnd.Intn(3); t > 0; t-- {
		pos := rnd.Intn(len(plan) + 1)
		m := c20PMMsg{kind: "ticks", n: 1 + rnd.Intn(2)}
		plan = append(plan[:pos], append([]c20PMMsg{m}, plan[pos:]...)...)
	}
	return plan
}

func c20PMCase(seed int64, maxN int) (res c20PMOut) {
	rnd := rand.New(rand.NewSource(seed))
	n := 2 + rnd.Intn(maxN-1)
	base := uint32(1 + rnd.Intn(5))
	async := rnd.Intn(3) != 0
	q := 1 + rnd.Intn(3)
	plan := c20PMPlan(rnd, n)
	var planText []string
	for _, m := range plan {
		switch m.kind {
		case "blocks":
			planText = append(planText, fmt.Sprintf("blocks%v", m.ks))
		case "confirm":
			if m.off != 0 {
				planText = append(planText, fmt.Sprintf("confirm(%d,s%d,height+%d)", m.k, m.sig, m.off))
			} else {
				planText = append(planText, fmt.Sprintf("confirm(%d,s%d)", m.k, m.sig))
			}
		default:
			planText = append(planText, fmt.Sprintf("ticks(%d)", m.n))
		}
	}
	replay := map[string]interface{}{"seed": seed, "n": n, "base": base, "async": async, "q": q, "plan": strings.Join(planText, " ")}
	count := func(k string) { res.counts = append(res.counts, k) }
	fail := func(sig, detail string) {
		res.fails = append(res.fails, c20PMFail{sig, detail + " | delivery: " + strings.Join(planText, " "), replay})
	}

	chain := newC20SyncChain(base, async, q)
	// the segment: block k has parent k-1; block 0 is the base block
	blocks := []*types.Block{chain.genesis}
	idx := map[common.Hash]int{chain.genesis.Hash(): 0}
	for k := 1; k <= n; k++ {
		b := &types.Block{Header: &types.Header{Height: base + uint32(k), ParentHash: blocks[k-1].Hash(), Extra: fmt.Sprintf("k%d", k), TxRoot: merkle.EmptyTrieHash, LogRoot: merkle.EmptyTrieHash}}
		blocks = append(blocks, b)
		idx[b.Hash()] = k
	}
	pm := c20NewPM(chain, nil)
	tokens := pm.VerifC20SetTest()
	bc := pm.VerifBlockCache()
	cc := pm.VerifC20ConfirmCache()
	// two peers; each message comes from one of them
	conns := []*c20Conn{{}, {}}
	var peers []*network.VerifPeer
	for i, cn := range conns {
		cn.id[0] = byte(7 + i)
		p := network.VerifNewPeer(cn)
		pm.VerifRegister(p)
		peers = append(peers, p)
	}
	peer := peers[0]
	show := func() string {
		chain.mu.Lock()
		var ks []int
		for h := range chain.known {
			ks = append(ks, idx[h])
		}
		cur := chain.current.Height()
		st := chain.stableHeightLocked()
		chain.mu.Unlock()
		sort.Ints(ks)
		return fmt.Sprintf("cur=%d stable=%d known=%s cache=%d confirms=%d", cur, st, c20JoinInts(ks, ","), bc.Size(), cc.Size())
	}
	emit := func(op, out string) {
		res.ops = append(res.ops, op)
		res.outs = append(res.outs, out)
	}
	emit(fmt.Sprintf("node %d %d", base, q), show())

	type tok struct {
		t  int
		at time.Time
	}
	toks := make(chan tok, 256)
	windowStart := time.Now() // fire time of the last tick (or loop start): no tick before windowStart + 500ms
	go pm.VerifRcvBlockLoop()
	go func() {
		for t := range tokens { // read at once, so that the loop never waits for us and fire times are exact
			toks <- tok{t, time.Now()}
		}
	}()
	defer pm.Stop()

	var pendingBlocks [][]int // blocks messages pushed and not yet reported as processed
	nTicks := 0
	racy := false
	prevSpawned := 0
	// after a tick token: let the spawned inserts run, then log the tick; returns the number of spawned inserts
	handleTick := func(at time.Time) int {
		if len(pendingBlocks) > 0 {
			racy = true // a message was in flight while the timer fired: order of effects not observable
		}
		chain.mu.Lock()
		spawnedAll := chain.spawned
		spawnDeadline := time.Now().Add(3 * time.Second)
		for chain.entered < spawnedAll && time.Now().Before(spawnDeadline) {
			chain.mu.Unlock()
			time.Sleep(200 * time.Microsecond)
			chain.mu.Lock()
		}
		if chain.entered < spawnedAll {
			chain.lostSpawns += spawnedAll - chain.entered
			chain.spawned = chain.entered
			spawnedAll = chain.entered
		}
		chain.released = chain.entered
		chain.cond.Broadcast()
		for chain.finished < spawnedAll {
			chain.cond.Wait()
		}
		chain.mu.Unlock()
		nTicks++
		windowStart = at
		emit(fmt.Sprintf("tick %v", async), show())
		sp := spawnedAll - prevSpawned
		prevSpawned = spawnedAll
		return sp
	}
	readToken := func() (tok, bool) {
		select {
		case t := <-toks:
			return t, true
		case <-time.After(3 * time.Second):
			return tok{}, false
		}
	}
	// process tokens until every pushed blocks message has been reported; returns false on a stall
	waitRcv := func() bool {
		for len(pendingBlocks) > 0 {
			t, ok := readToken()
			if !ok {
				return false
			}
			if t.t == network.VerifC20QueueTimer {
				handleTick(t.at)
				continue
			}
			ks := pendingBlocks[0]
			pendingBlocks = pendingBlocks[1:]
			emit(fmt.Sprintf("blocks %d %s", base, c20JoinInts(ks, " ")), show())
		}
		return true
	}
	waitTick := func() (int, bool) {
		for {
			t, ok := readToken()
			if !ok {
				return 0, false
			}
			if t.t == network.VerifC20QueueTimer {
				return handleTick(t.at), true
			}
		}
	}
	// messages are only handed over while no tick can fire (the loop must be idle, see report: observed race)
	ensureWindow := func() bool {
		if time.Since(windowStart) > 300*time.Millisecond {
			if _, ok := waitTick(); !ok {
				return false
			}
		}
		return true
	}
	malformed := false // a confirm with a wrong height was sent: early it is never merged, late it is accepted (by design of the caches); the in-order comparison of confirms/stable is skipped, the correspondence is not
	delivered := map[int]bool{}
	sentConfirms := map[int]map[int]bool{}
	stalled := false
	for _, m := range plan {
		switch m.kind {
		case "blocks":
			var bl types.Blocks
			for _, k := range m.ks {
				bl = append(bl, blocks[k])
				delivered[k] = true
			}
			buf, err := rlp.EncodeToBytes(&bl)
			if err != nil {
				panic(err)
			}
			if !ensureWindow() {
				stalled = true
				break
			}
			peer = peers[rnd.Intn(len(peers))]
			pendingBlocks = append(pendingBlocks, m.ks)
			if err := pm.VerifWork(&p2p.Msg{Code: p2p.BlocksMsg, Content: buf}, peer); err != nil {
				fail("c20/pm-handler-error", "handleBlocksMsg: "+err.Error())
				return
			}
			count(fmt.Sprintf("pm:blocks-msg-size=%d", len(m.ks)))
			if !waitRcv() {
				stalled = true
			}
		case "confirm":
			if !ensureWindow() {
				stalled = true
				break
			}
			has := chain.c20StubChain.HasBlock(blocks[m.k].Hash())
			chain.mu.Lock()
			cn := chain.confirmN
			chain.mu.Unlock()
			d := &network.BlockConfirmData{Hash: blocks[m.k].Hash(), Height: blocks[m.k].Height() + uint32(m.off)}
			d.SignInfo[0] = byte(m.sig)
			buf, _ := rlp.EncodeToBytes(d)
			if err := pm.VerifWork(&p2p.Msg{Code: p2p.ConfirmMsg, Content: buf}, peer); err != nil {
				fail("c20/pm-handler-error", "handleConfirmMsg: "+err.Error())
				return
			}
			if m.off != 0 {
				malformed = true
				count("pm:confirm-wrong-height")
			}
			if has {
				count("pm:confirm-after-block")
				for i := 0; i < 5000; i++ {
					chain.mu.Lock()
					done := chain.confirmN > cn
					chain.mu.Unlock()
					if done {
						break
					}
					time.Sleep(200 * time.Microsecond)
				}
			} else {
				count("pm:confirm-before-block")
			}
			if m.off == 0 {
				if sentConfirms[m.k] == nil {
					sentConfirms[m.k] = map[int]bool{}
				}
				sentConfirms[m.k][m.sig] = true
			}
			emit(fmt.Sprintf("confirm %d %d %d %d", base, m.k, m.sig, m.off), show())
		case "ticks":
			for i := 0; i < m.n; i++ {
				if _, ok := waitTick(); !ok {
					stalled = true
				}
			}
		}
		if stalled {
			break
		}
	}
	if stalled {
		fail("c20/pm-stalled", "rcvBlockLoop stopped reporting (no token for 3 s)")
		return
	}
	// drain fixpoint: ticks until one tick spawns nothing
	for i := 0; i < n+3; i++ {
		sp, ok := waitTick()
		if !ok {
			fail("c20/pm-stalled", "rcvBlockLoop stopped reporting during the drain")
			return
		}
		if sp == 0 {
			break
		}
	}
	// every parent request the node wrote to its peers (sender on arrival, BestToSync peer on the timer)
	time.Sleep(40 * time.Millisecond)
	var reqs []int
	for _, cn := range conns {
		reqs = append(reqs, cn.requests()...)
	}
	sort.Ints(reqs)
	emit("reqs", "reqs "+c20JoinInts(reqs, ","))
	if racy {
		res.racy = true
		res.ops, res.outs = nil, nil
		count("pm:interleaving-not-observable(correspondence skipped)")
	}
	count(fmt.Sprintf("pm:n=%d", n))
	count(fmt.Sprintf("pm:async=%v", async))
	count(fmt.Sprintf("pm:ticks=%d", nTicks))
	// direct oracle: same node as the in-order delivery
	chain.mu.Lock()
	if chain.lostSpawns > 0 {
		chain.mu.Unlock()
		fail("c20/timer-drops-block", fmt.Sprintf("the drain timer's callback found the parent of %d cached block(s) in the chain and took them out of the cache (returned true), but never handed them to pm.insertBlock", chain.lostSpawns))
		chain.mu.Lock()
	}
	cur := chain.current.Height()
	var missing []int
	for k := 1; k <= n; k++ {
		if _, ok := chain.known[blocks[k].Hash()]; !ok {
			missing = append(missing, k)
		}
	}
	var lostConf []string
	for k, sg := range sentConfirms {
		got := map[int]bool{}
		for _, x := range chain.attached[blocks[k].Hash()] {
			got[int(x)] = true
		}
		for s := range sg {
			if !got[s] {
				lostConf = append(lostConf, fmt.Sprintf("(%d,s%d)", k, s))
			}
		}
	}
	stable := chain.stableHeightLocked()
	chain.mu.Unlock()
	// in-order node: all blocks known, every confirm attached
	wantStable := uint32(0)
	for k, sg := range sentConfirms {
		if len(sg) >= q && base+uint32(k) > wantStable {
			wantStable = base + uint32(k)
		}
	}
	if cur != base+uint32(n) || len(missing) > 0 {
		fail("c20/sync-diverged", fmt.Sprintf("every block of the segment 1..%d was delivered at least once, the drain reached its fixpoint, but CurrentBlock height is %d (in-order node: %d); blocks never inserted: %v; block cache now holds %d blocks", n, cur, base+uint32(n), missing, bc.Size()))
	} else if !malformed && (len(lostConf) > 0 || stable != wantStable) {
		sort.Strings(lostConf)
		fail("c20/sync-confirm-lost", fmt.Sprintf("confirms not attached to their block: %v; StableBlock height %d, in-order node %d", lostConf, stable, wantStable))
	} else {
		count("pm:converged")
	}
	return
}

func c20PM(c *Ctx) {
	// RLP round trip must preserve the hash of the synthetic blocks (else handleBlocksMsg would see other blocks)
	{
		b := &types.Block{Header: &types.Header{Height: 3, Extra: "x", TxRoot: merkle.EmptyTrieHash, LogRoot: merkle.EmptyTrieHash}}
		buf, err := rlp.EncodeToBytes(&types.Blocks{b})
		var back types.Blocks
		if err == nil {
			err = rlp.DecodeBytes(buf, &back)
		}
		if err != nil || len(back) != 1 || back[0].Hash() != b.Hash() {
			panic(fmt.Sprintf("synthetic block does not survive RLP: %v", err))
		}
	}
	cases := 48
	par := 48
	maxN := 6
	if c.Tier == "thorough" {
		cases = 600
		par = 60
		maxN = 8
	}
	seeds := make([]int64, cases)
	for i := range seeds {
		seeds[i] = c.Rnd.Int63()
	}
	results := make([]c20PMOut, cases)
	for lo := 0; lo < cases; lo += par {
		var wg sync.WaitGroup
		for i := lo; i < lo+par && i < cases; i++ {
			wg.Add(1)
			go func(i int) {
				defer wg.Done()
				results[i] = c20PMCase(seeds[i], maxN)
			}(i)
		}
		wg.Wait()
	}
	nRacy := 0
	for _, r := range results {
		if r.racy {
			nRacy++
		}
	}
	if nRacy*5 > cases {
		c20Fail(c, "c20/harness/unobservable-interleavings", fmt.Sprintf("%d of %d ProtocolManager cases had a message in flight when the timer fired (machine too slow?): their correspondence was skipped, which is more than the 20%% this harness tolerates", nRacy, cases), nil)
	}
	for _, r := range results {
		for i := range r.ops {
			c.Op(r.ops[i], r.outs[i])
		}
		for _, k := range r.counts {
			c.Count(k)
		}
		for _, f := range r.fails {
			c20Fail(c, f.sig, f.detail, f.replay)
		}
	}
}

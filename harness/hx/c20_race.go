package main

// Scripted schedules on the real ProtocolManager (stub chain with hooks):
//   H2  a confirm is delivered while chain.InsertBlock of its block is running  (c20/sync-confirm-lost/confirm-during-insert)
//   M1  the timer's `go pm.insertBlock(k)` wins against the loop's insert of a re-delivered k in a message [k, m]
//       (c20/sync-diverged/duplicate-insert-break)
//   M4  what the drain timer asks the peers for (c20/request-wrong-parent, c20/parent-request-skipped)

import (
	"fmt"
	"sort"
	"sync"
	"time"

	"github.com/LemoFoundationLtd/lemochain-core/chain/types"
	"github.com/LemoFoundationLtd/lemochain-core/common"
	"github.com/LemoFoundationLtd/lemochain-core/common/merkle"
	"github.com/LemoFoundationLtd/lemochain-core/common/rlp"
	"github.com/LemoFoundationLtd/lemochain-core/network"
	"github.com/LemoFoundationLtd/lemochain-core/network/p2p"
)

type c20RaceChain struct {
	*c20StubChain
	hmu sync.Mutex
	// called at the entry of InsertBlock (the block is not known yet); fromLoop = on the rcvBlockLoop goroutine
	onInsert func(b *types.Block, fromLoop bool)
	// called inside HasBlock when it is about to answer `false` to handleConfirmMsg
	onConfirmMiss func(h common.Hash)
}

func (s *c20RaceChain) InsertBlock(b *types.Block) error {
	loop, _ := c20Where()
	s.hmu.Lock()
	f := s.onInsert
	s.hmu.Unlock()
	if f != nil {
		f(b, loop)
	}
	return s.c20StubChain.InsertBlock(b)
}

func (s *c20RaceChain) HasBlock(h common.Hash) bool {
	ok := s.c20StubChain.HasBlock(h)
	if !ok && c20InHandler("handleConfirmMsg") {
		s.hmu.Lock()
		f := s.onConfirmMiss
		s.hmu.Unlock()
		if f != nil {
			f(h)
		}
	}
	return ok
}

type c20RaceEnv struct {
	chain  *c20RaceChain
	pm     *network.ProtocolManager
	conn   *c20Conn
	peer   *network.VerifPeer
	blocks []*types.Block
	toks   chan int
	base   uint32
}

func newC20RaceEnv(base uint32, n int) *c20RaceEnv {
	e := &c20RaceEnv{base: base}
	e.chain = &c20RaceChain{c20StubChain: newC20StubChain(base)}
	g := e.chain.genesis
	g.Header.TxRoot, g.Header.LogRoot = merkle.EmptyTrieHash, merkle.EmptyTrieHash
	e.chain.known = map[common.Hash]*types.Block{g.Hash(): g}
	e.blocks = []*types.Block{g}
	for k := 1; k <= n; k++ {
		e.blocks = append(e.blocks, &types.Block{Header: &types.Header{Height: base + uint32(k), ParentHash: e.blocks[k-1].Hash(), Extra: fmt.Sprintf("k%d", k), TxRoot: merkle.EmptyTrieHash, LogRoot: merkle.EmptyTrieHash}})
	}
	e.pm = c20NewPM(e.chain, nil)
	tokens := e.pm.VerifC20SetTest()
	e.conn = &c20Conn{}
	e.conn.id[0] = 9
	e.peer = network.VerifNewPeer(e.conn)
	e.pm.VerifRegister(e.peer)
	e.toks = make(chan int, 256)
	go e.pm.VerifRcvBlockLoop()
	go func() {
		for t := range tokens {
			e.toks <- t
		}
	}()
	return e
}

func (e *c20RaceEnv) stop() { e.pm.Stop() }

// wait for the next token of the given kind (other tokens are skipped)
func (e *c20RaceEnv) wait(kind int) bool {
	for {
		select {
		case t := <-e.toks:
			if t == kind {
				return true
			}
		case <-time.After(3 * time.Second):
			return false
		}
	}
}

func (e *c20RaceEnv) sendBlocks(ks ...int) {
	var bl types.Blocks
	for _, k := range ks {
		bl = append(bl, e.blocks[k])
	}
	buf, err := rlp.EncodeToBytes(&bl)
	if err != nil {
		panic(err)
	}
	if err := e.pm.VerifWork(&p2p.Msg{Code: p2p.BlocksMsg, Content: buf}, e.peer); err != nil {
		panic(err)
	}
}

func (e *c20RaceEnv) sendConfirm(k, sig int) {
	d := &network.BlockConfirmData{Hash: e.blocks[k].Hash(), Height: e.blocks[k].Height()}
	d.SignInfo[0] = byte(sig)
	buf, _ := rlp.EncodeToBytes(d)
	if err := e.pm.VerifWork(&p2p.Msg{Code: p2p.ConfirmMsg, Content: buf}, e.peer); err != nil {
		panic(err)
	}
}

func (e *c20RaceEnv) attached(k int) []int {
	e.chain.mu.Lock()
	defer e.chain.mu.Unlock()
	var r []int
	for _, x := range e.chain.attached[e.blocks[k].Hash()] {
		r = append(r, int(x))
	}
	sort.Ints(r)
	return r
}

func (e *c20RaceEnv) knownList(n int) []int {
	var r []int
	for k := 0; k <= n; k++ {
		if e.chain.c20StubChain.HasBlock(e.blocks[k].Hash()) {
			r = append(r, k)
		}
	}
	return r
}

// poll until cond or 1.5 s
func c20Until(cond func() bool) bool {
	for i := 0; i < 1500; i++ {
		if cond() {
			return true
		}
		time.Sleep(time.Millisecond)
	}
	return cond()
}

// H2: variant 0 = block inserted by the loop (parent known on arrival), confirm arrives during InsertBlock
//     variant 1 = block inserted by the timer's goroutine, confirm arrives during InsertBlock
//     variant 2 = handleConfirmMsg has read HasBlock=false, then the whole pm.insertBlock finishes, then it pushes
func c20ConfirmDuringInsert(c *Ctx, variant int) {
	e := newC20RaceEnv(5, 2)
	defer e.stop()
	target := 1
	if variant == 1 {
		target = 2
	}
	var once sync.Once
	delivered := make(chan struct{})
	switch variant {
	case 0, 1:
		e.chain.onInsert = func(b *types.Block, fromLoop bool) {
			if b.Hash() != e.blocks[target].Hash() {
				return
			}
			once.Do(func() {
				// the peer goroutine handles a ConfirmMsg for this block while InsertBlock is running
				go func() { e.sendConfirm(target, 7); close(delivered) }()
				<-delivered
			})
		}
	case 2:
		gate := make(chan struct{})
		inserting := make(chan struct{})
		e.chain.onInsert = func(b *types.Block, fromLoop bool) {
			if b.Hash() == e.blocks[target].Hash() {
				close(inserting)
				<-gate
			}
		}
		e.chain.onConfirmMiss = func(h common.Hash) {
			if h != e.blocks[target].Hash() {
				return
			}
			once.Do(func() {
				// HasBlock has answered false; before the handler pushes, the insert runs to completion
				close(gate)
				c20Until(func() bool { return e.chain.c20StubChain.HasBlock(h) })
				time.Sleep(30 * time.Millisecond) // let pm.insertBlock return (including anything it does after InsertBlock)
			})
		}
		go func() {
			<-inserting
			e.sendConfirm(target, 7)
			close(delivered)
		}()
	}
	op := fmt.Sprintf("race confirm-during-insert %d", variant)
	if variant == 1 {
		e.sendBlocks(2)
		e.wait(network.VerifC20RcvBlocks)
		e.sendBlocks(1)
		e.wait(network.VerifC20RcvBlocks)
		e.wait(network.VerifC20QueueTimer)
	} else {
		e.sendBlocks(1)
		e.wait(network.VerifC20RcvBlocks)
	}
	select {
	case <-delivered:
	case <-time.After(3 * time.Second):
	}
	c20Until(func() bool { return len(e.attached(target)) > 0 })
	_, cc := e.pm.VerifBlockCache(), e.pm.VerifC20ConfirmCache()
	got := e.attached(target)
	out := fmt.Sprintf("known=%s attached=%s confirms-cached=%d", c20JoinInts(e.knownList(2), ","), c20JoinInts(got, ","), cc.Size())
	c.Op(op, out)
	c.Count(fmt.Sprintf("race:confirm-during-insert-%d", variant))
	if len(got) != 1 {
		c20Fail(c, "c20/sync-confirm-lost/confirm-during-insert", fmt.Sprintf("variant %d: the confirmation (signer 7) for block %d was delivered while chain.InsertBlock of that block was running (HasBlock still false, early confirms already popped): it is in the confirm cache (%d entries) and was never handed to the chain; the in-order node has it attached", variant, target, cc.Size()), map[string]interface{}{"variant": variant})
	}
}

// M1
func c20DuplicateInsertBreak(c *Ctx) {
	e := newC20RaceEnv(5, 3)
	defer e.stop()
	gate := make(chan struct{})
	goroutineDone := make(chan struct{})
	var once sync.Once
	e.chain.onInsert = func(b *types.Block, fromLoop bool) {
		if b.Hash() != e.blocks[2].Hash() {
			return
		}
		if !fromLoop {
			<-gate // the timer's goroutine is inside InsertBlock(2) (holds the chain lock in the real engine)
			return
		}
		// the loop's own InsertBlock(2) queues behind it
		once.Do(func() {
			close(gate)
			<-goroutineDone
		})
	}
	// the goroutine's insert finishes when block 2 becomes known
	go func() {
		c20Until(func() bool { return e.chain.c20StubChain.HasBlock(e.blocks[2].Hash()) })
		close(goroutineDone)
	}()
	e.sendBlocks(2) // cached, parent unknown
	e.wait(network.VerifC20RcvBlocks)
	e.sendBlocks(1) // inserted
	e.wait(network.VerifC20RcvBlocks)
	e.wait(network.VerifC20QueueTimer) // go pm.insertBlock(2) spawned, waits at the gate; 2 left the cache
	e.sendBlocks(2, 3)                 // a peer answers our request with [2,3]
	e.wait(network.VerifC20RcvBlocks)
	e.wait(network.VerifC20QueueTimer)
	e.wait(network.VerifC20QueueTimer)
	bc := e.pm.VerifBlockCache()
	known := e.knownList(3)
	out := fmt.Sprintf("known=%s cache=%d", c20JoinInts(known, ","), bc.Size())
	c.Op("race duplicate-insert-break", out)
	c.Count("race:duplicate-insert-break")
	if len(known) != 4 {
		c20Fail(c, "c20/sync-diverged/duplicate-insert-break", fmt.Sprintf("blocks 1,2,3 were all delivered (2 twice); the timer's `go pm.insertBlock(2)` and the loop's insert of the re-delivered 2 in message [2,3] raced, the loop lost (block exists), took it for a verification failure and dropped block 3: known=%v, block cache holds %d blocks, nothing left to drain", known, bc.Size()), nil)
	}
}

// M4: what the timer asks for after the drain emptied the first entry
func c20TimerRequests(c *Ctx) {
	e := newC20RaceEnv(5, 5)
	defer e.stop()
	e.sendBlocks(3) // cached, asks 7 (= height of block 2)
	e.wait(network.VerifC20RcvBlocks)
	e.sendBlocks(5) // cached, asks 9
	e.wait(network.VerifC20RcvBlocks)
	e.sendBlocks(1, 2) // inserted
	e.wait(network.VerifC20RcvBlocks)
	e.wait(network.VerifC20QueueTimer) // 3 drained; 5 stays (4 missing)
	c20Until(func() bool { return e.chain.c20StubChain.HasBlock(e.blocks[3].Hash()) })
	time.Sleep(20 * time.Millisecond)
	before := len(e.conn.requests())
	e.wait(network.VerifC20QueueTimer) // a tick with cache = {5}: must re-request height base+4
	time.Sleep(30 * time.Millisecond)
	reqs := e.conn.requests()
	timerReqs := reqs[min(before, len(reqs)):]
	bc := e.pm.VerifBlockCache()
	out := fmt.Sprintf("known=%s cache=%d first=%d timer-requests=%s", c20JoinInts(e.knownList(5), ","), bc.Size(), bc.FirstHeight(), c20JoinInts(timerReqs, ","))
	c.Op("race timer-requests", out)
	c.Count("race:timer-requests")
	want := int(e.base) + 4
	if len(timerReqs) == 0 {
		c20Fail(c, "c20/parent-request-skipped", fmt.Sprintf("cache holds only block 5 (height %d), its parent (height %d) is missing, the only peer's head is height %d: the drain timer asked nobody (BestToSync(FirstHeight) needs a peer strictly above the cached block, although any peer at that height has the parent)", e.base+5, want, e.base+5), nil)
	} else {
		for _, r := range timerReqs {
			if r != want {
				c20Fail(c, "c20/request-wrong-parent", fmt.Sprintf("cache holds only block 5 (height %d); the drain timer requested height %d (already inserted) instead of the missing parent at height %d: FirstHeight()=%d names an entry the drain has emptied", e.base+5, r, want, bc.FirstHeight()), nil)
				break
			}
		}
	}
}

func c20Races(c *Ctx) {
	for v := 0; v < 3; v++ {
		c20ConfirmDuringInsert(c, v)
	}
	c20DuplicateInsertBreak(c)
	c20TimerRequests(c)
}

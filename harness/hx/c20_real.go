package main

// (b') convergence on the REAL engine: a real chain.BlockChain (real InsertBlock, real UpdateStable, real
// InsertConfirms with signature checks) behind the real, fully started ProtocolManager (rcvBlockLoop,
// stableBlockLoop, txConfirmLoop, peerLoop).  Node A receives the blocks of a segment in order, each
// confirmation after its block; node B receives the same blocks permuted/duplicated/batched through
// handleBlocksMsg and the confirmations through handleConfirmMsg before or after their blocks.
// Oracle: B ends with A's current and stable block.  Serial: the node key and the event bus are process-wide.

import (
	"fmt"
	"math/rand"
	"time"

	"github.com/LemoFoundationLtd/lemochain-core/chain/deputynode"
	"github.com/LemoFoundationLtd/lemochain-core/chain/params"
	"github.com/LemoFoundationLtd/lemochain-core/chain/types"
	"github.com/LemoFoundationLtd/lemochain-core/common/rlp"
	"github.com/LemoFoundationLtd/lemochain-core/network"
	"github.com/LemoFoundationLtd/lemochain-core/network/p2p"
)

type c20RealConfirm struct {
	k   int // block index 1..n
	sig types.SignData
	who int
}

func c20RealCase(c *Ctx, seed int64, maxN int) {
	rnd := rand.New(rand.NewSource(seed))
	n := 3 + rnd.Intn(maxN-2)
	nDep := 3 + rnd.Intn(3)
	now := uint32(time.Now().Unix())
	w := NewWorld(nDep, now-500000, 10000)
	outsider := detKey("c20-outsider")
	a := w.NewNode(nDep)
	defer a.Close()
	// the segment, built and inserted in order on A
	blocks := []*types.Block{a.BC.CurrentBlock()}
	t := blocks[0].Time() + 1
	for k := 1; k <= n; k++ {
		blk, _, err := a.Build(blocks[k-1], t, nil, nil)
		if err != nil {
			panic(err)
		}
		deputynode.SetSelfNodeKey(outsider) // the nodes under test are not deputies: they never sign themselves
		if err := a.Insert(CloneBlock(blk)); err != nil {
			panic(fmt.Sprintf("in-order insert of block %d failed: %v", k, err))
		}
		blocks = append(blocks, blk)
		t += uint32(1 + rnd.Intn(12))
	}
	// confirmations by deputies other than the miner
	var confirms []c20RealConfirm
	for k := 1; k <= n; k++ {
		for i, key := range w.DeputyKeys {
			if keyAddr(key) == blocks[k].MinerAddress() || rnd.Intn(3) == 0 {
				continue
			}
			confirms = append(confirms, c20RealConfirm{k: k, sig: Confirm(blocks[k], key), who: i})
		}
	}
	for _, cf := range confirms {
		a.BC.InsertConfirms(blocks[cf.k].Height(), blocks[cf.k].Hash(), []types.SignData{cf.sig})
	}
	wantCur, wantStable := a.BC.CurrentBlock(), a.BC.StableBlock()

	// node B behind the real ProtocolManager
	b := w.NewNode(nDep)
	defer b.Close()
	pm := network.NewProtocolManager(nodeChainID, p2p.NodeID{}, b.BC, b.DM, b.Pool, b.BC.TxGuard(), p2p.NewDiscoverManager(b.Dir), 1, params.VersionUint(), b.Dir)
	pm.Start()
	defer pm.Stop()
	conn := &c20Conn{}
	conn.id[0] = 11
	peer := network.VerifNewPeer(conn)
	pm.VerifRegister(peer)

	plan := c20PMPlan(rnd, n) // blocks messages (permutation with duplicates, batches), `confirm`/`ticks` entries ignored
	type ev struct {
		blocks []int
		cf     *c20RealConfirm
		pause  bool
	}
	var evs []ev
	for _, m := range plan {
		switch m.kind {
		case "blocks":
			evs = append(evs, ev{blocks: m.ks})
		case "ticks":
			evs = append(evs, ev{pause: true})
		}
	}
	for i := range confirms {
		pos := rnd.Intn(len(evs) + 1)
		evs = append(evs[:pos], append([]ev{{cf: &confirms[i]}}, evs[pos:]...)...)
	}
	var planText []string
	early := 0
	for _, e := range evs {
		switch {
		case e.pause:
			planText = append(planText, "pause")
			time.Sleep(600 * time.Millisecond)
		case e.cf != nil:
			planText = append(planText, fmt.Sprintf("confirm(%d,d%d)", e.cf.k, e.cf.who))
			if !b.BC.HasBlock(blocks[e.cf.k].Hash()) {
				early++
			}
			d := &network.BlockConfirmData{Hash: blocks[e.cf.k].Hash(), Height: blocks[e.cf.k].Height(), SignInfo: e.cf.sig}
			buf, _ := rlp.EncodeToBytes(d)
			if err := pm.VerifWork(&p2p.Msg{Code: p2p.ConfirmMsg, Content: buf}, peer); err != nil {
				c20Fail(c, "c20/pm-handler-error", "handleConfirmMsg (real chain): "+err.Error(), nil)
				return
			}
		default:
			planText = append(planText, fmt.Sprintf("blocks%v", e.blocks))
			var bl types.Blocks
			for _, k := range e.blocks {
				bl = append(bl, blocks[k])
			}
			buf, err := rlp.EncodeToBytes(&bl)
			if err != nil {
				panic(err)
			}
			if err := pm.VerifWork(&p2p.Msg{Code: p2p.BlocksMsg, Content: buf}, peer); err != nil {
				c20Fail(c, "c20/pm-handler-error", "handleBlocksMsg (real chain): "+err.Error(), nil)
				return
			}
			if rnd.Intn(2) == 0 {
				time.Sleep(time.Duration(rnd.Intn(30)) * time.Millisecond)
			}
		}
	}
	// drain: the timer needs up to n ticks
	deadline := time.Now().Add(time.Duration(n+4) * 600 * time.Millisecond)
	for time.Now().Before(deadline) {
		if b.BC.CurrentBlock().Hash() == wantCur.Hash() && b.BC.StableBlock().Hash() == wantStable.Hash() {
			break
		}
		time.Sleep(20 * time.Millisecond)
	}
	gotCur, gotStable := b.BC.CurrentBlock(), b.BC.StableBlock()
	c.Count("real:cases")
	c.Count(fmt.Sprintf("real:n=%d", n))
	c.Count(fmt.Sprintf("real:deputies=%d", nDep))
	c.Count(fmt.Sprintf("real:stable-advanced=%v", wantStable.Height() > 0))
	if early > 0 {
		c.Count("real:cases-with-early-confirms")
	}
	detail := fmt.Sprintf("real chain, %d deputies, segment 1..%d, delivery: %v; in-order node: current %d stable %d; this node: current %d stable %d, block cache %d, confirm cache %d", nDep, n, planText, wantCur.Height(), wantStable.Height(), gotCur.Height(), gotStable.Height(), pm.VerifBlockCache().Size(), pm.VerifC20ConfirmCache().Size())
	switch {
	case gotCur.Hash() != wantCur.Hash():
		c20Fail(c, "c20/sync-diverged/real-chain", detail, map[string]interface{}{"seed": seed})
	case gotStable.Hash() != wantStable.Hash():
		c20Fail(c, "c20/sync-confirm-lost/real-chain", detail, map[string]interface{}{"seed": seed})
	default:
		c.Count("real:converged")
	}
}

func c20Real(c *Ctx) {
	cases, maxN := 4, 5
	if c.Tier == "thorough" {
		cases, maxN = 40, 7
	}
	for i := 0; i < cases; i++ {
		c20RealCase(c, c.Rnd.Int63(), maxN)
	}
}

package main

// (b'') block TREES on the REAL engine: a real chain.BlockChain (real InsertBlock with its own parent / exists /
// stable checks and fork choice) behind the real, fully started ProtocolManager.  Node A builds a tree with the
// real miner path — a trunk plus competing blocks of OTHER deputies (later time slots) on the same parents, some
// of them extended — and inserts it parent before child.  Node B receives the same blocks permuted / duplicated /
// batched through handleBlocksMsg (children before parents, siblings before and after each other).  No
// confirmation is delivered, so no block reaches the quorum (the guard of LemoProofs.C20.converges_tree).
// Oracle: B ends up knowing EVERY block of the tree (both forks, not only the winning one), with an empty block
// cache and the stable block still at genesis.  Which block is `current` is the real chain's fork choice
// (ForkManager), which is order dependent even in HEIGHT under forks: only counted here.  Direct oracle only (no Lean diff).  Serial: the node key and the event bus are process-wide.

import (
	"fmt"
	"math/rand"
	"time"

	"github.com/LemoFoundationLtd/lemochain-core/chain/deputynode"
	"github.com/LemoFoundationLtd/lemochain-core/chain/params"
	"github.com/LemoFoundationLtd/lemochain-core/chain/types"
	"github.com/LemoFoundationLtd/lemochain-core/common/rlp"
	"github.com/LemoFoundationLtd/lemochain-core/network"
	"github.com/LemoFoundationLtd/lemochain-core/network/p2p"
)

func c20RealForkCase(c *Ctx, seed int64) {
	rnd := rand.New(rand.NewSource(seed))
	nDep := 3 + rnd.Intn(3)
	now := uint32(time.Now().Unix())
	w := NewWorld(nDep, now-500000, 10000)
	outsider := detKey("c20-outsider")
	a := w.NewNode(nDep)
	defer a.Close()
	type fb struct {
		blk    *types.Block
		parent int
		depth  int
	}
	tree := []fb{{blk: a.BC.CurrentBlock(), parent: -1}}
	// slot d = the deputy at distance d from the parent's miner is in turn (10 s slots)
	build := func(parent, slot int) int {
		p := tree[parent].blk
		t := p.Time() + uint32(10*(slot-1)) + 1 + uint32(rnd.Intn(8))
		blk, _, err := a.Build(p, t, nil, nil)
		if err != nil {
			panic(fmt.Sprintf("c20 real fork: build on %d slot %d: %v", parent, slot, err))
		}
		deputynode.SetSelfNodeKey(outsider) // the nodes under test are not deputies: they never sign themselves
		if err := a.Insert(CloneBlock(blk)); err != nil {
			panic(fmt.Sprintf("c20 real fork: parent-first insert of a block on %d slot %d failed: %v (stable height %d, block height %d time %d, known already %v, deputies %d)", parent, slot, err, a.BC.StableBlock().Height(), blk.Height(), blk.Time(), a.BC.HasBlock(blk.Hash()), nDep))
		}
		tree = append(tree, fb{blk, parent, tree[parent].depth + 1})
		return len(tree) - 1
	}
	l := 2 + rnd.Intn(3)
	trunk := []int{0}
	for i := 0; i < l; i++ {
		trunk = append(trunk, build(trunk[len(trunk)-1], 1))
	}
	nextSlot := map[int]int{} // per parent: the next unused time slot (one block per deputy and parent: a deputy with two is "evil")
	for f := 1 + rnd.Intn(2); f > 0; f-- {
		at := rnd.Intn(l)
		for s := 1 + rnd.Intn(2); s > 0; s-- {
			if nextSlot[trunk[at]] == 0 {
				nextSlot[trunk[at]] = 2
			}
			if nextSlot[trunk[at]] > nDep {
				break
			}
			sib := build(trunk[at], nextSlot[trunk[at]]) // another deputy's block on the same parent
			nextSlot[trunk[at]]++
			for e := rnd.Intn(3); e > 0; e-- {
				sib = build(sib, 1)
			}
		}
	}
	m := len(tree) - 1
	maxDepth := 0
	perDepth := map[int]int{}
	for _, x := range tree[1:] {
		if x.depth > maxDepth {
			maxDepth = x.depth
		}
		perDepth[x.depth]++
	}
	maxSib := 0
	for _, n := range perDepth {
		if n > maxSib {
			maxSib = n
		}
	}
	wantCur, wantStable := a.BC.CurrentBlock(), a.BC.StableBlock()

	b := w.NewNode(nDep)
	defer b.Close()
	pm := network.NewProtocolManager(nodeChainID, p2p.NodeID{}, b.BC, b.DM, b.Pool, b.BC.TxGuard(), p2p.NewDiscoverManager(b.Dir), 1, params.VersionUint(), b.Dir)
	pm.Start()
	defer pm.Stop()
	conn := &c20Conn{}
	conn.id[0] = 12
	peer := network.VerifNewPeer(conn)
	pm.VerifRegister(peer)

	nodes := make([]c20FNode, len(tree))
	for i, x := range tree {
		nodes[i] = c20FNode{parent: x.parent, depth: x.depth}
	}
	orderName, plan := c20ForkPlan(rnd, nodes) // `confirm` and `stable` entries are ignored, `ticks` = a pause
	var planText []string
	for _, x := range plan {
		switch x.kind {
		case "ticks":
			planText = append(planText, "pause")
			time.Sleep(600 * time.Millisecond)
		case "blocks":
			planText = append(planText, fmt.Sprintf("blocks%v", x.ids))
			var bl types.Blocks
			for _, id := range x.ids {
				bl = append(bl, tree[id].blk)
			}
			buf, err := rlp.EncodeToBytes(&bl)
			if err != nil {
				panic(err)
			}
			if err := pm.VerifWork(&p2p.Msg{Code: p2p.BlocksMsg, Content: buf}, peer); err != nil {
				c20Fail(c, "c20/pm-handler-error", "handleBlocksMsg (real chain, fork): "+err.Error(), nil)
				return
			}
			if rnd.Intn(2) == 0 {
				time.Sleep(time.Duration(rnd.Intn(30)) * time.Millisecond)
			}
		}
	}
	missingOf := func() []int {
		var missing []int
		for i := 1; i <= m; i++ {
			if !b.BC.HasBlock(tree[i].blk.Hash()) {
				missing = append(missing, i)
			}
		}
		return missing
	}
	deadline := time.Now().Add(time.Duration(maxDepth+4) * 600 * time.Millisecond)
	for time.Now().Before(deadline) {
		if len(missingOf()) == 0 && pm.VerifBlockCache().Size() == 0 {
			break
		}
		time.Sleep(20 * time.Millisecond)
	}
	missing := missingOf()
	gotCur, gotStable := b.BC.CurrentBlock(), b.BC.StableBlock()
	var treeText []string
	for i, x := range tree[1:] {
		treeText = append(treeText, fmt.Sprintf("%d<-%d@%d", x.parent, i+1, x.blk.Height()))
	}
	c.Count("real-fork:cases")
	c.Count("real-fork:order=" + orderName)
	c.Count(fmt.Sprintf("real-fork:blocks=%d", m))
	c.Count(fmt.Sprintf("real-fork:max-siblings=%d", maxSib))
	// CurrentBlock under forks is the real chain's fork choice (ForkManager.needSwitchFork: a longer competing fork
	// only takes over at heights that are a multiple of 2/3 of the deputies above the stable block), so even the
	// current HEIGHT of two nodes that know the same tree depends on the arrival order. Counted, not judged here.
	c.Count(fmt.Sprintf("real-fork:same-current-block-as-parent-first-node=%v", gotCur.Hash() == wantCur.Hash()))
	c.Count(fmt.Sprintf("real-fork:same-current-height-as-parent-first-node=%v", gotCur.Height() == wantCur.Height()))
	if gotCur.Height() != uint32(maxDepth) || wantCur.Height() != uint32(maxDepth) {
		c.Count("real-fork:a-node-knows-a-higher-block-than-its-current-block(fork choice)")
	}
	detail := fmt.Sprintf("real chain, %d deputies, tree (parent<-id@height) %v, delivery: %v; parent-first node: current %d stable %d; this node: current %d stable %d, blocks of the tree it does not know: %v, block cache %d",
		nDep, treeText, planText, wantCur.Height(), wantStable.Height(), gotCur.Height(), gotStable.Height(), missing, pm.VerifBlockCache().Size())
	switch {
	case wantStable.Height() != 0:
		c.Count("real-fork:stable-advanced(oracle skipped)")
	case len(missing) > 0 || pm.VerifBlockCache().Size() != 0 || gotStable.Height() != 0:
		c20Fail(c, "c20/sync-diverged/fork/real-chain", detail, map[string]interface{}{"seed": seed})
	default:
		c.Count("real-fork:converged")
	}
}

// Scripted, deterministic: what `current` means under forks on the REAL chain.  Tree: trunk 1-2-3-4 (heights 1..4)
// and a competing fork 2-5-6-7 (heights 3..5) mined by other deputies; 4 deputies (fork choice switches to a longer
// competing fork only when its head is a multiple of ceil(4*2/3) = 3 above the stable block).  Both nodes get every
// block PARENT BEFORE CHILD straight through chain.InsertBlock, no network involved:
//   node A: 1 2 3 4 | 5 6 7      node B: 1 2 5 6 7 | 3 4
// Both know the same 7 blocks; their CurrentBlock differs, in height too.  Counted as a class (by design of
// ForkManager.needSwitchFork, see the final report), not judged: C20's theorems speak about the SET of known blocks.
func c20RealForkChoiceWitness(c *Ctx) {
	nDep := 4
	now := uint32(time.Now().Unix())
	w := NewWorld(nDep, now-500000, 10000)
	outsider := detKey("c20-outsider")
	src := w.NewNode(nDep)
	defer src.Close()
	blocks := []*types.Block{src.BC.CurrentBlock()}
	build := func(parent, slot int) int {
		p := blocks[parent]
		blk, _, err := src.Build(p, p.Time()+uint32(10*(slot-1))+3, nil, nil)
		if err != nil {
			panic(fmt.Sprintf("c20 fork-choice witness: build: %v", err))
		}
		deputynode.SetSelfNodeKey(outsider)
		if err := src.Insert(CloneBlock(blk)); err != nil {
			panic(fmt.Sprintf("c20 fork-choice witness: insert: %v", err))
		}
		blocks = append(blocks, blk)
		return len(blocks) - 1
	}
	b1 := build(0, 1)
	b2 := build(b1, 1)
	b3 := build(b2, 1)
	build(b3, 1)       // 4
	b5 := build(b2, 2) // competes with 3
	b6 := build(b5, 1)
	build(b6, 1) // 7, height 5
	run := func(order []int) (uint32, int) {
		n := w.NewNode(nDep)
		defer n.Close()
		deputynode.SetSelfNodeKey(outsider)
		for _, k := range order {
			if err := n.Insert(CloneBlock(blocks[k])); err != nil {
				panic(fmt.Sprintf("c20 fork-choice witness: parent-first insert of %d: %v", k, err))
			}
		}
		known := 0
		for k := 1; k <= 7; k++ {
			if n.BC.HasBlock(blocks[k].Hash()) {
				known++
			}
		}
		return n.BC.CurrentBlock().Height(), known
	}
	curA, knownA := run([]int{1, 2, 3, 4, 5, 6, 7})
	curB, knownB := run([]int{1, 2, 5, 6, 7, 3, 4})
	c.Count(fmt.Sprintf("real-fork:choice-witness:trunk-first-node-current-height=%d,fork-first-node-current-height=%d,blocks-known=%d/%d-of-7", curA, curB, knownA, knownB))
	if knownA != 7 || knownB != 7 {
		c20Fail(c, "c20/sync-diverged/fork/real-chain", fmt.Sprintf("scripted tree 1-2-3-4 + 2-5-6-7 inserted parent before child: node A knows %d, node B %d of the 7 blocks", knownA, knownB), nil)
	}
}

func c20RealFork(c *Ctx) {
	c20RealForkChoiceWitness(c)
	cases := 3
	if c.Tier == "thorough" {
		cases = 30
	}
	for i := 0; i < cases; i++ {
		c20RealForkCase(c, c.Rnd.Int63())
	}
}

// hx: correspondence + oracle harness (tie T3 of DESIGN.md).
// One sub-command per property; each writes, into -out DIR:
//   ops.txt     one operation per line (input of the Lean driver)
//   impl.txt    the real code's canonicalised answer, one line per op
//   oracle.jsonl  direct property-oracle failures on the implementation
//   stats.json  input distribution (op kinds, outcomes, branches)
package main

import (
	"bufio"
	"encoding/json"
	"flag"
	"fmt"
	"math/rand"
	"os"
	"path/filepath"
	"sort"
	"strings"

	"github.com/LemoFoundationLtd/lemochain-core/common/log"
)

type Ctx struct {
	Seed    int64
	N       int
	Tier    string
	Out     string
	Rnd     *rand.Rand
	ops     *bufio.Writer
	impl    *bufio.Writer
	oracle  *bufio.Writer
	Stats   map[string]int
	Samples []string
	nops    int
	nfail   int
	files   []*os.File
}

func (c *Ctx) open(name string) *bufio.Writer {
	f, err := os.Create(filepath.Join(c.Out, name))
	if err != nil {
		panic(err)
	}
	c.files = append(c.files, f)
	return bufio.NewWriterSize(f, 1<<20)
}

// Op records one operation line and the implementation's answer.
func (c *Ctx) Op(op string, out string) {
	if strings.ContainsAny(op, "\n") || strings.ContainsAny(out, "\n") {
		panic("newline in op/out")
	}
	c.ops.WriteString(op)
	c.ops.WriteByte('\n')
	c.impl.WriteString(out)
	c.impl.WriteByte('\n')
	c.nops++
	if len(c.Samples) < 8 && c.Rnd.Intn(50) == 0 || c.nops <= 2 {
		c.Samples = append(c.Samples, op+" => "+out)
	}
}

// Fail records a direct violation of the property observed on the implementation.
func (c *Ctx) Fail(sig string, detail string, replay interface{}) {
	c.nfail++
	if c.nfail > 200 {
		return
	}
	b, _ := json.Marshal(map[string]interface{}{"sig": sig, "detail": detail, "replay": replay, "at": c.nops})
	c.oracle.Write(b)
	c.oracle.WriteByte('\n')
}

func (c *Ctx) Count(k string) { c.Stats[k]++ }

func (c *Ctx) Close() {
	c.ops.Flush()
	c.impl.Flush()
	c.oracle.Flush()
	keys := make([]string, 0, len(c.Stats))
	for k := range c.Stats {
		keys = append(keys, k)
	}
	sort.Strings(keys)
	st := map[string]interface{}{"ops": c.nops, "oracle_failures": c.nfail, "counts": c.Stats, "samples": c.Samples}
	b, _ := json.MarshalIndent(st, "", " ")
	os.WriteFile(filepath.Join(c.Out, "stats.json"), b, 0644)
	for _, f := range c.files {
		f.Close()
	}
}

// Safe runs f and maps a panic to the string "panic".
func Safe(f func() string) (out string) {
	defer func() {
		if r := recover(); r != nil {
			out = "panic"
		}
	}()
	return f()
}

// SafeMsg is Safe but keeps the panic message (for replays).
func SafeMsg(f func() string) (out string, msg string) {
	defer func() {
		if r := recover(); r != nil {
			out = "panic"
			msg = fmt.Sprint(r)
		}
	}()
	return f(), ""
}

var subs = map[string]func(*Ctx){}

func main() {
	if len(os.Args) < 2 {
		fmt.Println("usage: hx <sub> [-seed N] [-n N] [-tier quick|thorough] [-out DIR]")
		os.Exit(2)
	}
	sub := os.Args[1]
	fs := flag.NewFlagSet(sub, flag.ExitOnError)
	seed := fs.Int64("seed", 1, "")
	n := fs.Int("n", 1000, "")
	tier := fs.String("tier", "quick", "")
	out := fs.String("out", ".", "")
	fs.Parse(os.Args[2:])
	f, ok := subs[sub]
	if !ok {
		fmt.Println("unknown sub-command", sub)
		os.Exit(2)
	}
	log.Setup(log.LevelCrit, false, false)
	os.MkdirAll(*out, 0755)
	c := &Ctx{Seed: *seed, N: *n, Tier: *tier, Out: *out, Rnd: rand.New(rand.NewSource(*seed)), Stats: map[string]int{}}
	c.ops = c.open("ops.txt")
	c.impl = c.open("impl.txt")
	c.oracle = c.open("oracle.jsonl")
	f(c)
	c.Close()
}

package main

// Shared in-process node toolkit for the engine-level properties (C01–C06, C10, C11, C12, C19).
// A Node is a full engine (store + deputynode.Manager + tx pool + chain.BlockChain) in its own
// data directory.  The node identity is a package-level global in /repo (deputynode self key), so
// everything here is synchronous and the key is switched between calls.

import (
	"crypto/ecdsa"
	"fmt"
	"math/big"
	"os"
	"time"

	"github.com/LemoFoundationLtd/lemochain-core/chain"
	"github.com/LemoFoundationLtd/lemochain-core/chain/account"
	"github.com/LemoFoundationLtd/lemochain-core/chain/consensus"
	"github.com/LemoFoundationLtd/lemochain-core/chain/deputynode"
	"github.com/LemoFoundationLtd/lemochain-core/chain/params"
	"github.com/LemoFoundationLtd/lemochain-core/chain/transaction"
	"github.com/LemoFoundationLtd/lemochain-core/chain/txpool"
	"github.com/LemoFoundationLtd/lemochain-core/chain/types"
	"github.com/LemoFoundationLtd/lemochain-core/common"
	"github.com/LemoFoundationLtd/lemochain-core/common/crypto"
	"github.com/LemoFoundationLtd/lemochain-core/common/flag"
	"github.com/LemoFoundationLtd/lemochain-core/common/rlp"
	"github.com/LemoFoundationLtd/lemochain-core/store"
)

const nodeChainID uint16 = 200

// detKey derives a deterministic private key from a label.
func detKey(label string) *ecdsa.PrivateKey {
	h := crypto.Keccak256([]byte("verif-key-" + label))
	k, err := crypto.ToECDSA(h)
	if err != nil {
		panic(err)
	}
	return k
}

func keyAddr(k *ecdsa.PrivateKey) common.Address { return crypto.PubkeyToAddress(k.PublicKey) }

type World struct {
	DeputyKeys []*ecdsa.PrivateKey
	FounderKey *ecdsa.PrivateKey
	GenesisT   uint32
	Timeout    uint64 // mine timeout, ms
	genesis    *chain.Genesis
}

// NewWorld fixes the genesis configuration shared by all nodes of a scenario.
func NewWorld(nDeputies int, genesisTime uint32, timeoutMs uint64) *World {
	w := &World{FounderKey: detKey("founder"), GenesisT: genesisTime, Timeout: timeoutMs}
	var infos []*chain.CandidateInfo
	for i := 0; i < nDeputies; i++ {
		k := detKey(fmt.Sprintf("deputy-%d", i))
		w.DeputyKeys = append(w.DeputyKeys, k)
		infos = append(infos, &chain.CandidateInfo{
			MinerAddress:  keyAddr(k),
			IncomeAddress: keyAddr(detKey(fmt.Sprintf("income-%d", i))),
			NodeID:        crypto.PrivateKeyToNodeID(k),
			Host:          "127.0.0.1",
			Port:          fmt.Sprintf("%d", 7001+i),
			Introduction:  fmt.Sprintf("verif deputy %d", i),
		})
	}
	w.genesis = &chain.Genesis{Time: genesisTime, ExtraData: "verif", GasLimit: params.GenesisGasLimit, Founder: keyAddr(w.FounderKey), DeputyNodesInfo: infos}
	return w
}

func (w *World) KeyOfMiner(addr common.Address) *ecdsa.PrivateKey {
	for _, k := range w.DeputyKeys {
		if keyAddr(k) == addr {
			return k
		}
	}
	return nil
}

type Node struct {
	W    *World
	Dir  string
	DB   *store.ChainDatabase
	DM   *deputynode.Manager
	Pool *txpool.TxPool
	BC   *chain.BlockChain
}

func (w *World) NewNode(deputyCount int) *Node {
	dir, err := os.MkdirTemp("", "hx-node-")
	if err != nil {
		panic(err)
	}
	n := &Node{W: w, Dir: dir}
	n.DB = store.NewChainDataBase(dir)
	chain.SetupGenesisBlock(n.DB, w.genesis)
	n.open(deputyCount)
	return n
}

func (n *Node) open(deputyCount int) {
	n.DM = deputynode.NewManager(deputyCount, n.DB)
	n.Pool = txpool.NewTxPool()
	bc, err := chain.NewBlockChain(chain.Config{ChainID: nodeChainID, MineTimeout: n.W.Timeout}, n.DM, n.DB, flag.CmdFlags{}, n.Pool)
	if err != nil {
		panic(err)
	}
	n.BC = bc
}

// Reopen simulates a clean restart of the process on the same data directory.
func (n *Node) Reopen() {
	dc := n.DM.DeputyCount
	n.BC.Stop()
	n.DB.Close()
	n.DB = store.NewChainDataBase(n.Dir)
	n.open(dc)
}

func (n *Node) Close() {
	n.BC.Stop()
	n.DB.Close()
	os.RemoveAll(n.Dir)
}

// InTurn returns the deputy key entitled to mine on `parent` at unix second `t`.
func (n *Node) InTurn(parent *types.Block, t uint32) (*ecdsa.PrivateKey, error) {
	if n.DM.GetDeputiesCount(parent.Height()+1) == 0 {
		// a term without deputies: GetCorrectMiner would divide by zero — report it as an error to the scenario
		return nil, fmt.Errorf("no deputies for height %d (term list empty)", parent.Height()+1)
	}
	addr, err := consensus.GetCorrectMiner(parent.Header, int64(t)*1000, int64(n.W.Timeout), n.DM)
	if err != nil {
		return nil, err
	}
	k := n.W.KeyOfMiner(addr)
	if k == nil {
		return nil, fmt.Errorf("no key for miner %s", addr.String())
	}
	return k, nil
}

// MineReal mines on the node's current head through the real engine (real clock for the stamp),
// acting as whichever deputy is in turn right now. txs are offered through the real pool.
func (n *Node) MineReal(txs types.Transactions) (*types.Block, error) {
	head := n.BC.CurrentBlock()
	now := uint32(time.Now().Unix())
	if now < head.Time() {
		now = head.Time()
	}
	k, err := n.InTurn(head, now)
	if err != nil {
		return nil, err
	}
	deputynode.SetSelfNodeKey(k)
	for _, tx := range txs {
		n.Pool.AddTx(tx)
	}
	n.BC.MineBlock(60000)
	nh := n.BC.CurrentBlock()
	if nh.Hash() == head.Hash() {
		return nil, fmt.Errorf("head did not advance")
	}
	return nh, nil
}

type topLoader struct {
	n  *Node
	am *account.Manager
}

// LoadTopCandidates / LoadRefundCandidates: the engine's own loader is bound to the engine's shared
// account manager; blocks assembled outside the engine need one bound to their own manager. This is a
// copy of DPoVP.LoadTopCandidates / LoadRefundCandidates (the engine's originals run on the validating side).
func (l topLoader) LoadTopCandidates(blockHash common.Hash) types.DeputyNodes {
	result := make(types.DeputyNodes, 0, l.n.DM.DeputyCount)
	list := l.n.DB.GetCandidatesTop(blockHash)
	if len(list) > l.n.DM.DeputyCount {
		list = list[:l.n.DM.DeputyCount]
	}
	for i, c := range list {
		acc := l.am.GetAccount(c.GetAddress())
		candidate := acc.GetCandidate()
		dn := types.NewDeputyNode(acc.GetVotes(), uint32(i), c.GetAddress(), candidate[types.CandidateKeyNodeID])
		result = append(result, dn)
	}
	return result
}

func (l topLoader) LoadRefundCandidates(height uint32) ([]common.Address, error) {
	result := make([]common.Address, 0)
	addrList, err := l.n.DB.GetAllCandidates()
	if err != nil {
		return nil, err
	}
	for _, addr := range addrList {
		acc := l.am.GetAccount(addr)
		if acc.GetCandidateState(types.CandidateKeyIsCandidate) == types.NotCandidateNode && acc.GetCandidateState(types.CandidateKeyDepositAmount) != "" {
			if !l.n.DM.IsNodeDeputy(height, common.FromHex(acc.GetCandidateState(types.CandidateKeyNodeID))) {
				result = append(result, addr)
			}
		}
	}
	return result, nil
}

type parentLoader struct{ n *Node }

func (p parentLoader) GetParentByHeight(height uint32, sonBlockHash common.Hash) *types.Block {
	block, err := p.n.DB.GetUnConfirmByHeight(height, sonBlockHash)
	if err == store.ErrBlockNotExist {
		block, err = p.n.DB.GetBlockByHeight(height)
	}
	if err != nil {
		return nil
	}
	return block
}

// Build assembles (miner path: ApplyTxs with discards, Finalize, Seal) a block on `parent` stamped
// `t`, mined and signed by the deputy in turn at `t` (or by `forceKey`, with the header naming
// `forceKey`'s address, when given). The block is NOT stored; feed it to InsertBlock.
func (n *Node) Build(parent *types.Block, t uint32, txs types.Transactions, forceKey *ecdsa.PrivateKey) (*types.Block, types.Transactions, error) {
	return n.BuildGas(parent, t, txs, forceKey, 0)
}

// BuildGas is Build with a block gas limit chosen by the miner (0 = the engine's calcGasLimit). The gas limit
// is miner strategy, not a consensus rule: validators accept any value.
func (n *Node) BuildGas(parent *types.Block, t uint32, txs types.Transactions, forceKey *ecdsa.PrivateKey, gasLimit uint64) (*types.Block, types.Transactions, error) {
	k := forceKey
	if k == nil {
		var err error
		k, err = n.InTurn(parent, t)
		if err != nil {
			return nil, nil, err
		}
	}
	deputynode.SetSelfNodeKey(k)
	am := account.NewManager(parent.Hash(), n.DB)
	proc := transaction.NewTxProcessor(keyAddr(n.W.FounderKey), nodeChainID, parentLoader{n}, am, n.DB, n.DM)
	asm := consensus.NewBlockAssembler(am, n.DM, proc, topLoader{n, am})
	header, err := asm.PrepareHeader(parent.Header, "")
	if err != nil {
		// forceKey may not be a deputy: build the header by hand
		header = &types.Header{ParentHash: parent.Hash(), MinerAddress: keyAddr(k), Height: parent.Height() + 1, GasLimit: parent.GasLimit()}
	}
	header.Time = t
	if gasLimit != 0 {
		header.GasLimit = gasLimit
	}
	block, invalid, err := asm.MineBlock(header, txs, 60000)
	if err != nil {
		return nil, invalid, err
	}
	return block, invalid, nil
}

// Resign replaces the header signature by `k`'s over the block's current hash.
func Resign(b *types.Block, k *ecdsa.PrivateKey) {
	h := b.Hash()
	sig, err := crypto.Sign(h[:], k)
	if err != nil {
		panic(err)
	}
	b.Header.SignData = sig
}

// CloneBlock round-trips a block through its RLP encoding (what a peer would receive).
func CloneBlock(b *types.Block) *types.Block {
	buf, err := rlp.EncodeToBytes(b)
	if err != nil {
		panic(err)
	}
	var nb types.Block
	if err := rlp.DecodeBytes(buf, &nb); err != nil {
		panic(err)
	}
	return &nb
}

func (n *Node) Insert(b *types.Block) error { return n.BC.InsertBlock(b) }

// Confirm signs `b` with deputy key `k`.
func Confirm(b *types.Block, k *ecdsa.PrivateKey) types.SignData {
	h := b.Hash()
	sig, err := crypto.Sign(h[:], k)
	if err != nil {
		panic(err)
	}
	return types.BytesToSignData(sig)
}

// ---- transactions -------------------------------------------------------------

func signTx(tx *types.Transaction, k *ecdsa.PrivateKey) *types.Transaction {
	stx, err := types.MakeSigner().SignTx(tx, k)
	if err != nil {
		panic(err)
	}
	return stx
}

func transferTx(from *ecdsa.PrivateKey, to common.Address, amount *big.Int, gasLimit uint64, gasPrice *big.Int, exp uint64, msg string) *types.Transaction {
	tx := types.NewTransaction(keyAddr(from), to, amount, gasLimit, gasPrice, nil, params.OrdinaryTx, nodeChainID, exp, "", msg)
	return signTx(tx, from)
}

var oneGwei = big.NewInt(1000000000)

func lemo(n int64) *big.Int { return new(big.Int).Mul(big.NewInt(n), big.NewInt(1000000000000000000)) }

// balanceAt reads an account balance in the view of block `h`.
func (n *Node) balanceAt(h common.Hash, a common.Address) *big.Int {
	am := account.NewManager(h, n.DB)
	return am.GetAccount(a).GetBalance()
}

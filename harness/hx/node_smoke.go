package main

import (
	"fmt"
	"time"

	"github.com/LemoFoundationLtd/lemochain-core/chain/types"
)

func init() { subs["node-smoke"] = nodeSmoke }

// node-smoke: two nodes, a few blocks with transfers built on A (miner path) and inserted on A and B.
func nodeSmoke(c *Ctx) {
	now := uint32(time.Now().Unix())
	w := NewWorld(3, now-500000, 10000)
	a := w.NewNode(3)
	defer a.Close()
	b := w.NewNode(3)
	defer b.Close()
	users := []string{"u0", "u1", "u2"}
	parent := a.BC.CurrentBlock()
	t := parent.Time() + 1
	for i := 0; i < 6; i++ {
		var txs types.Transactions
		for j, u := range users {
			txs = append(txs, txTransfer(w.FounderKey, keyAddr(detKey(u)), lemo(int64(1000+i*10+j)), TxOpt{Exp: uint64(t) + 100, Msg: fmt.Sprintf("b%d-%d", i, j)}))
		}
		blk, invalid, err := a.Build(parent, t, txs, nil)
		if err != nil {
			panic(err)
		}
		ea := a.Insert(CloneBlock(blk))
		eb := b.Insert(CloneBlock(blk))
		c.Op(fmt.Sprintf("block %d txs=%d invalid=%d", blk.Height(), len(blk.Txs), len(invalid)), fmt.Sprintf("A=%v B=%v headA=%d headB=%d stableA=%d", ea, eb, a.BC.CurrentBlock().Height(), b.BC.CurrentBlock().Height(), a.BC.StableBlock().Height()))
		parent = blk
		t += uint32(1 + (i%3)*10)
	}
	fmt.Println("balance u0 on A:", a.balanceAt(parent.Hash(), keyAddr(detKey("u0"))), "on B:", b.balanceAt(parent.Hash(), keyAddr(detKey("u0"))))
}

package main

// Transaction constructors for all 11 tx types (shared by the engine-level sub-commands).

import (
	"crypto/ecdsa"
	"encoding/json"
	"fmt"
	"math/big"

	"github.com/LemoFoundationLtd/lemochain-core/chain/params"
	"github.com/LemoFoundationLtd/lemochain-core/chain/types"
	"github.com/LemoFoundationLtd/lemochain-core/common"
	"github.com/LemoFoundationLtd/lemochain-core/common/crypto"
)

type TxOpt struct {
	GasLimit uint64
	GasPrice *big.Int
	Exp      uint64
	Msg      string
	Payer    *ecdsa.PrivateKey // gas payer (reimbursement tx) when set
}

func (o TxOpt) norm(defGas uint64) TxOpt {
	if o.GasLimit == 0 {
		o.GasLimit = defGas
	}
	if o.GasPrice == nil {
		o.GasPrice = new(big.Int).Set(oneGwei)
	}
	return o
}

// mkTx builds and signs a tx of any type. `to == nil` means no receiver.
func mkTx(from *ecdsa.PrivateKey, to *common.Address, amount *big.Int, data []byte, txType uint16, o TxOpt) *types.Transaction {
	o = o.norm(2000000)
	if amount == nil {
		amount = new(big.Int)
	}
	if o.Payer != nil {
		var tx *types.Transaction
		toA := common.Address{}
		if to != nil {
			toA = *to
		}
		tx = types.NewReimbursementTransaction(keyAddr(from), toA, keyAddr(o.Payer), amount, data, txType, nodeChainID, o.Exp, "", o.Msg)
		stx, err := types.MakeReimbursementTxSigner().SignTx(tx, from)
		if err != nil {
			panic(err)
		}
		stx = types.GasPayerSignatureTx(stx, o.GasPrice, o.GasLimit)
		ptx, err := types.MakeGasPayerSigner().SignTx(stx, o.Payer)
		if err != nil {
			panic(err)
		}
		return ptx
	}
	var tx *types.Transaction
	if to == nil {
		tx = types.NoReceiverTransaction(keyAddr(from), amount, o.GasLimit, o.GasPrice, data, txType, nodeChainID, o.Exp, "", o.Msg)
	} else {
		tx = types.NewTransaction(keyAddr(from), *to, amount, o.GasLimit, o.GasPrice, data, txType, nodeChainID, o.Exp, "", o.Msg)
	}
	return signTx(tx, from)
}

func txTransfer(from *ecdsa.PrivateKey, to common.Address, amount *big.Int, o TxOpt) *types.Transaction {
	return mkTx(from, &to, amount, nil, params.OrdinaryTx, o)
}

func txCall(from *ecdsa.PrivateKey, to common.Address, amount *big.Int, input []byte, o TxOpt) *types.Transaction {
	return mkTx(from, &to, amount, input, params.OrdinaryTx, o)
}

func txCreate(from *ecdsa.PrivateKey, amount *big.Int, initCode []byte, o TxOpt) *types.Transaction {
	o = o.norm(3000000)
	if amount == nil {
		amount = new(big.Int)
	}
	tx := types.NewContractCreation(keyAddr(from), amount, o.GasLimit, o.GasPrice, initCode, params.CreateContractTx, nodeChainID, o.Exp, "", o.Msg)
	return signTx(tx, from)
}

func txVote(from *ecdsa.PrivateKey, candidate common.Address, o TxOpt) *types.Transaction {
	return mkTx(from, &candidate, nil, nil, params.VoteTx, o)
}

// txRegister registers / updates / unregisters a candidate. nodeKey provides the node id.
func txRegister(from *ecdsa.PrivateKey, deposit *big.Int, nodeKey *ecdsa.PrivateKey, unregister bool, extra map[string]string, o TxOpt) *types.Transaction {
	p := types.Profile{
		types.CandidateKeyNodeID: common.ToHex(crypto.PrivateKeyToNodeID(nodeKey))[2:],
		types.CandidateKeyHost:   "127.0.0.1",
		types.CandidateKeyPort:   "7100",
	}
	if unregister {
		p[types.CandidateKeyIsCandidate] = types.NotCandidateNode
	}
	for k, v := range extra {
		p[k] = v
	}
	data, _ := json.Marshal(p)
	return mkTx(from, nil, deposit, data, params.RegisterTx, o)
}

func txCreateAsset(from *ecdsa.PrivateKey, category uint32, divisible, replenishable bool, o TxOpt) *types.Transaction {
	a := &types.Asset{Category: category, IsDivisible: divisible, Decimal: 2, IsReplenishable: replenishable,
		Profile: types.Profile{types.AssetName: "A", types.AssetSymbol: "A", types.AssetDescription: "d", types.AssetFreeze: "false", types.AssetSuggestedGasLimit: "60000"}}
	data, _ := json.Marshal(a)
	return mkTx(from, nil, nil, data, params.CreateAssetTx, o)
}

func txIssueAsset(from *ecdsa.PrivateKey, to common.Address, code common.Hash, amount string, meta string, o TxOpt) *types.Transaction {
	data := []byte(fmt.Sprintf(`{"assetCode":"%s","metaData":"%s","supplyAmount":"%s"}`, code.Hex(), meta, amount))
	return mkTx(from, &to, nil, data, params.IssueAssetTx, o)
}

func txReplenishAsset(from *ecdsa.PrivateKey, to common.Address, code, id common.Hash, amount string, o TxOpt) *types.Transaction {
	data := []byte(fmt.Sprintf(`{"assetCode":"%s","assetId":"%s","replenishAmount":"%s"}`, code.Hex(), id.Hex(), amount))
	return mkTx(from, &to, nil, data, params.ReplenishAssetTx, o)
}

func txModifyAsset(from *ecdsa.PrivateKey, code common.Hash, prof map[string]string, o TxOpt) *types.Transaction {
	pj, _ := json.Marshal(prof)
	data := []byte(fmt.Sprintf(`{"assetCode":"%s","updateProfile":%s}`, code.Hex(), string(pj)))
	return mkTx(from, nil, nil, data, params.ModifyAssetTx, o)
}

func txTransferAsset(from *ecdsa.PrivateKey, to common.Address, id common.Hash, amount string, o TxOpt) *types.Transaction {
	data := []byte(fmt.Sprintf(`{"assetId":"%s","transferAmount":"%s"}`, id.Hex(), amount))
	return mkTx(from, &to, nil, data, params.TransferAssetTx, o)
}

func txModifySigners(from *ecdsa.PrivateKey, to common.Address, signers types.Signers, o TxOpt) *types.Transaction {
	data, _ := json.Marshal(struct {
		Signers types.Signers `json:"signers"`
	}{signers})
	return mkTx(from, &to, nil, data, params.ModifySignersTx, o)
}

func txBox(from *ecdsa.PrivateKey, subs types.Transactions, o TxOpt) *types.Transaction {
	data, err := types.MarshalBoxData(subs)
	if err != nil {
		panic(err)
	}
	o = o.norm(uint64(100000 + 2100000*len(subs)))
	return mkTx(from, nil, nil, data, params.BoxTx, o)
}

// malleate returns the equivalent signature (r, n-s, v^1): it recovers to the same public key.
func malleate(sig []byte) []byte {
	n, _ := new(big.Int).SetString("fffffffffffffffffffffffffffffffebaaedce6af48a03bbfd25e8cd0364141", 16)
	out := make([]byte, 65)
	copy(out, sig)
	s := new(big.Int).SetBytes(sig[32:64])
	s.Sub(n, s)
	sb := s.Bytes()
	for i := 32; i < 64; i++ {
		out[i] = 0
	}
	copy(out[64-len(sb):64], sb)
	out[64] = sig[64] ^ 1
	return out
}


// signWithNonce: a textbook ECDSA signature [R || S || V] (canonical low s) over hash with the caller's nonce k.
// /repo's crypto.Sign derives k from (key, hash) (RFC 6979) and always yields the same bytes; any key holder can sign
// the same hash again with another k: a DIFFERENT, individually valid signature by the SAME signer.
func signWithNonce(hash []byte, prv *ecdsa.PrivateKey, k *big.Int) []byte {
	curve := crypto.S256()
	n := curve.Params().N
	k = new(big.Int).Mod(k, n)
	if k.Sign() == 0 {
		k.SetInt64(7)
	}
	rx, _ := curve.ScalarBaseMult(k.Bytes())
	r := new(big.Int).Mod(rx, n)
	z := new(big.Int).SetBytes(hash)
	s := new(big.Int).Mul(r, prv.D)
	s.Add(s, z)
	s.Mul(s, new(big.Int).ModInverse(k, n))
	s.Mod(s, n)
	if s.Cmp(new(big.Int).Rsh(n, 1)) > 0 {
		s.Sub(n, s)
	}
	if r.Sign() == 0 || s.Sign() == 0 {
		return nil
	}
	want := crypto.PubkeyToAddress(prv.PublicKey)
	for v := byte(0); v < 2; v++ {
		sig := make([]byte, 65)
		copy(sig[32-len(r.Bytes()):32], r.Bytes())
		copy(sig[64-len(s.Bytes()):64], s.Bytes())
		sig[64] = v
		pub, err := crypto.Ecrecover(hash, sig)
		if err == nil && crypto.PubToAddress(pub) == want {
			return sig
		}
	}
	return nil
}

// ---- tiny EVM assembler -------------------------------------------------------

func push(v int64) []byte {
	if v < 256 {
		return []byte{0x60, byte(v)}
	}
	b := big.NewInt(v).Bytes()
	return append([]byte{byte(0x60 + len(b) - 1)}, b...)
}

func pushAddr(a common.Address) []byte { return append([]byte{0x73}, a[:]...) }

func cat(parts ...[]byte) []byte {
	var out []byte
	for _, p := range parts {
		out = append(out, p...)
	}
	return out
}

// initCodeFor wraps runtime code in an init program that returns it.
func initCodeFor(runtime []byte) []byte {
	n := len(runtime)
	// PUSH n, DUP1, PUSH off, PUSH 0, CODECOPY, PUSH 0, RETURN
	hdr := cat(push(int64(n)), []byte{0x80}, []byte{0x60, 0x00}, []byte{0x60, 0x00}, []byte{0x39}, []byte{0x60, 0x00}, []byte{0xf3})
	hdr[len(push(int64(n)))+2] = byte(len(hdr)) // offset operand
	return append(hdr, runtime...)
}

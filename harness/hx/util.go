package main

import "os"

// shared helpers for all sub-commands

func firstWord(s string) string {
	for i := 0; i < len(s); i++ {
		if s[i] == ' ' {
			return s[:i]
		}
	}
	return s
}

// repoRoot is the source tree the harness was built against (VERIF_REPO, default /repo).
func repoRoot() string {
	if r := os.Getenv("VERIF_REPO"); r != "" {
		return r
	}
	return "/repo"
}

package main

// shared helpers for all sub-commands

func firstWord(s string) string {
	for i := 0; i < len(s); i++ {
		if s[i] == ' ' {
			return s[:i]
		}
	}
	return s
}

import Driver.Util
import Driver.C13

import Driver.Util
import Driver.C05
import LemoModel.MergeOrder
/-
  Driver of the C01 stream: the ledger lines go to `Driver.C05.step` unchanged; the `mo-…` lines (harness/hx/c01_merge.go)
  drive `LemoModel.MergeOrder`: setter calls build the raw journal, `mo-refund` / `mo-votes` are the two map-ordered phases
  of Finalize, `mo-publish` is MergeChangeLogs + Finalise, `mo-commit` is Save + a new Manager on the new block.
  The model runs with its own enumeration of every map (`keysOf`); by `C01Order.finalize_order_independent` any other
  order gives the same answer.
-/
namespace Driver.C01
open LemoModel.MergeOrder Driver

structure M where
  s : JS := {}
  rate : Int := 10
  pool : Nat := 4097
  pub : List Log × List Log := ([], [])
  mark : JS := {}

structure D where
  led : Driver.C05.D := {}
  mo : M := {}

def isRootTy (t : Nat) : Bool := t == 3 || t == 6 || t == 9 || t == 11

def showLog (l : Log) : String :=
  s!"{l.addr}:{l.ty}:{l.extra}:{l.ver}:" ++ (if isRootTy l.ty then "R" else toString l.new)

/-- OldVal is printed for the cell-like types only (a CodeLog / AddEventLog has none, the others hold other objects) -/
def showRaw (l : Log) : String :=
  let old := if l.ty == 12 || l.ty == 14 || l.ty == 15 || l.ty == 19 then "_" else toString l.old
  s!"{l.addr}:{l.ty}:{l.extra}:{l.ver}:{old}>{l.new}"

def joinS (l : List String) : String := if l.isEmpty then "-" else ";".intercalate l

/-- "-" = empty, else comma separated `key:label` -/
def parseProfile (w : String) : Option (List (Nat × Int)) :=
  if w == "-" then some []
  else
    (w.splitOn ",").foldr (fun x acc =>
      match acc, x.splitOn ":" with
      | some r, [k, v] =>
        match k.toNat?, parseInt? v with
        | some k, some v => some ((k, v) :: r)
        | _, _ => none
      | _, _ => none) (some [])

def pairsOf (l : List Log) : List (Nat × Nat) :=
  l.foldl (fun acc x => if acc.contains (x.addr, x.ty) then acc else acc ++ [(x.addr, x.ty)]) []

def stepMo (m : M) (w : List String) : M × String :=
  match w with
  | ["mo-new", rate, pool] =>
    match parseInt? rate, pool.toNat? with
    | some r, some p => ({ s := {}, rate := r, pool := p }, "ok")
    | _, _ => (m, "bad-op")
  | ["mo-needmerge", t, b] =>
    match t.toNat? with
    | some t => (m, if needMerge t == (b == "1") then "ok" else "table-mismatch")
    | none => (m, "bad-op")
  | ["mo-w", a, t, e, v] =>
    match a.toNat?, t.toNat?, e.toNat?, parseInt? v with
    | some a, some t, some e, some v => ({ m with s := m.s.write a t e v }, "ok")
    | _, _, _, _ => (m, "bad-op")
  | ["mo-prof", a, p] =>
    match a.toNat?, parseProfile p with
    | some a, some p => ({ m with s := m.s.writeProfile a p }, "ok")
    | _, _ => (m, "bad-op")
  | ["mo-refund", x] =>
    match x.toNat? with
    | some x =>
      match refund m.pool m.s x with
      | none => (m, "panic")
      | some s' => ({ m with s := s' }, "ok")
    | none => (m, "bad-op")
  | ["mo-votes"] =>
    let s' := (voteChanges m.rate m.s.logs).foldl voteStep m.s
    ({ m with s := s' }, s!"ok n={s'.logs.length}")
  | ["mo-journal"] => (m, joinS (m.s.logs.map showRaw))
  | "mo-publish" :: extra =>
    let ks := keysOf m.s.logs
    let merged := mergeChangeLogs sortNat ks ks m.s.logs
    let cache := ks ++ (dedup (extra.filterMap (·.toNat?))).filter (fun a => !ks.contains a)
    let parts := finaliseParts sortNat cache m.s merged
    let all := parts.1 ++ parts.2
    let recs := (pairsOf all).map (fun p => s!"{p.1}:{p.2}={recordAfter m.s parts.1 p.1 p.2}")
    ({ m with pub := parts }, joinS (all.map showLog) ++ " | " ++ joinS recs)
  | ["mo-commit"] => ({ m with s := m.s.commit m.pub.1, pub := ([], []) }, "ok")
  | ["mo-mark"] => ({ m with mark := m.s }, "ok")
  | ["mo-back"] => ({ m with s := m.mark, pub := ([], []) }, "ok")
  | _ => (m, "bad-op")

def step (d : D) (w : List String) : D × String :=
  match w with
  | op :: _ =>
    if op.startsWith "mo-" then
      let (m, o) := stepMo d.mo w
      ({ d with mo := m }, o)
    else
      let (l, o) := Driver.C05.step d.led w
      ({ d with led := l }, o)
  | [] =>
    let (l, o) := Driver.C05.step d.led w
    ({ d with led := l }, o)

end Driver.C01

import Driver.Util
import Driver.C05
import LemoModel.MergeOrder
import LemoModel.MapRangeSites
/-
  Driver of the C01 stream: the ledger lines go to `Driver.C05.step` unchanged; the `mo-…` lines (harness/hx/c01_merge.go)
  drive `LemoModel.MergeOrder`: setter calls build the raw journal, `mo-refund` / `mo-votes` are the two map-ordered phases
  of Finalize, `mo-publish` is MergeChangeLogs + Finalise (event logs with the Index of `eventIndices`), `mo-commit` is Save +
  a new Manager on the new block; `mo-asset` / `mo-astate` / `mo-supply` / `mo-suicide` are the asset-record setters and
  SetSuicide, `mo-modprof` is the tx handler ModifyAssetProfileTx (`modifyProfile sortKV`, fed the entries in reversed order),
  `mo-site` / `mo-sites` compare the map-range inventory of the sources with LemoModel.MapRangeSites.
  The model runs with its own enumeration of every map (`keysOf`); by `C01Order.finalize_order_independent` any other
  order gives the same answer.
-/
namespace Driver.C01
open LemoModel.MergeOrder Driver

structure M where
  s : JS := {}
  rate : Int := 10
  pool : Nat := 4097
  pub : List Log × List Log := ([], [])
  mark : JS := {}

structure D where
  led : Driver.C05.D := {}
  mo : M := {}

def isRootTy (t : Nat) : Bool := t == 3 || t == 6 || t == 9 || t == 11

def showLog (l : Log) : String :=
  s!"{l.addr}:{l.ty}:{l.extra}:{l.ver}:" ++ (if isRootTy l.ty then "R" else toString l.new)

/-- a published log with the event Index `updateVersion` assigned (AddEventLog only) -/
def showLogIdx (l : Log) (i : Option Nat) : String :=
  match i with
  | some k => showLog l ++ s!"#{k}"
  | none => showLog l

/-- asset-profile arguments: key labels 1..99, value labels never 0 (the empty string is not modelled) -/
def profOk (p : List (Nat × Int)) : Bool := p.all (fun x => 1 ≤ x.1 && x.1 < 100 && x.2 != 0)

/-- OldVal is printed for the cell-like types only (a CodeLog / AddEventLog has none, the others hold other objects) -/
def showRaw (l : Log) : String :=
  let old := if l.ty == 12 || l.ty == 14 || l.ty == 15 || l.ty == 19 then "_" else toString l.old
  s!"{l.addr}:{l.ty}:{l.extra}:{l.ver}:{old}>{l.new}"

def joinS (l : List String) : String := if l.isEmpty then "-" else ";".intercalate l

/-- "-" = empty, else comma separated `key:label` -/
def parseProfile (w : String) : Option (List (Nat × Int)) :=
  if w == "-" then some []
  else
    (w.splitOn ",").foldr (fun x acc =>
      match acc, x.splitOn ":" with
      | some r, [k, v] =>
        match k.toNat?, parseInt? v with
        | some k, some v => some ((k, v) :: r)
        | _, _ => none
      | _, _ => none) (some [])

def pairsOf (l : List Log) : List (Nat × Nat) :=
  l.foldl (fun acc x => if acc.contains (x.addr, x.ty) then acc else acc ++ [(x.addr, x.ty)]) []

def stepMo (m : M) (w : List String) : M × String :=
  match w with
  | ["mo-new", rate, pool] =>
    match parseInt? rate, pool.toNat? with
    | some r, some p => ({ s := {}, rate := r, pool := p }, "ok")
    | _, _ => (m, "bad-op")
  | ["mo-needmerge", t, b] =>
    match t.toNat? with
    | some t => (m, if needMerge t == (b == "1") then "ok" else "table-mismatch")
    | none => (m, "bad-op")
  | ["mo-w", a, t, e, v] =>
    match a.toNat?, t.toNat?, e.toNat?, parseInt? v with
    | some a, some t, some e, some v =>
      if t == 4 || t == 5 || t == 7 || t == 16 || t ≥ 20 then (m, "bad-op")      -- own ops / not a setter
      else if t == 2 || t == 8 || t == 10 then ({ m with s := m.s.writeT a t e v }, "ok")
      else ({ m with s := m.s.write a t e v }, "ok")
    | _, _, _, _ => (m, "bad-op")
  | ["mo-asset", a, c, id, sup, p] =>
    match a.toNat?, c.toNat?, id.toNat?, sup.toNat?, parseProfile p with
    | some a, some c, some id, some sup, some p =>
      if !profOk p then (m, "bad-op") else ({ m with s := m.s.setAsset a c id sup p }, "ok")
    | _, _, _, _, _ => (m, "bad-op")
  | ["mo-astate", a, c, k, v] =>
    match a.toNat?, c.toNat?, k.toNat?, parseInt? v with
    | some a, some c, some k, some v =>
      if !profOk [(k, v)] then (m, "bad-op")
      else
        let r := m.s.setAState a c k v
        ({ m with s := r.1 }, if r.2 then "ok" else "err")
    | _, _, _, _ => (m, "bad-op")
  | ["mo-supply", a, c, v] =>
    match a.toNat?, c.toNat?, v.toNat? with
    | some a, some c, some v =>
      let r := m.s.setSupply a c v
      ({ m with s := r.1 }, if r.2 then "ok" else "panic")
    | _, _, _ => (m, "bad-op")
  | ["mo-suicide", a] =>
    match a.toNat? with
    | some a => ({ m with s := m.s.suicide a }, "ok")
    | none => (m, "bad-op")
  | ["mo-modprof", a, c, p] =>
    match a.toNat?, c.toNat?, parseProfile p with
    | some a, some c, some p =>
      if !profOk p then (m, "bad-op")
      else
        -- the op line lists the map's entries in SOME order (reversed here on purpose); the handler sorts
        let r := modifyProfile sortKV m.s a c p.reverse
        ({ m with s := r.1 }, if r.2 then "ok" else "err")
    | _, _, _ => (m, "bad-op")
  | ["mo-site", row] => (m, if LemoModel.MapRangeSites.known row then "ok" else "table-mismatch")
  | ["mo-sites", n] => (m, if n.toNat? == some LemoModel.MapRangeSites.table.length then "ok" else "table-mismatch")
  | ["mo-prof", a, p] =>
    match a.toNat?, parseProfile p with
    | some a, some p => ({ m with s := m.s.writeProfile a p }, "ok")
    | _, _ => (m, "bad-op")
  | ["mo-refund", x] =>
    match x.toNat? with
    | some x =>
      match refund m.pool m.s x with
      | none => (m, "panic")
      | some s' => ({ m with s := s' }, "ok")
    | none => (m, "bad-op")
  | ["mo-votes"] =>
    let s' := (voteChanges m.rate m.s.logs).foldl voteStep m.s
    ({ m with s := s' }, s!"ok n={s'.logs.length}")
  | ["mo-journal"] => (m, joinS (m.s.logs.map showRaw))
  | "mo-publish" :: extra =>
    let ks := keysOf m.s.logs
    let merged := mergeChangeLogs sortNat ks ks m.s.logs
    let cache := ks ++ (dedup (extra.filterMap (·.toNat?))).filter (fun a => !ks.contains a)
    let parts := finaliseParts sortNat cache m.s merged
    let all := parts.1 ++ parts.2
    let recs := (pairsOf all).map (fun p => s!"{p.1}:{p.2}={recordAfter m.s parts.1 p.1 p.2}")
    let idx := eventIndices sortNat cache parts.1
    let shown := (List.zipWith showLogIdx parts.1 idx) ++ parts.2.map showLog
    ({ m with pub := parts }, joinS shown ++ " | " ++ joinS recs)
  | ["mo-commit"] => ({ m with s := m.s.commit m.pub.1, pub := ([], []) }, "ok")
  | ["mo-mark"] => ({ m with mark := m.s }, "ok")
  | ["mo-back"] => ({ m with s := m.mark, pub := ([], []) }, "ok")
  | _ => (m, "bad-op")

def step (d : D) (w : List String) : D × String :=
  match w with
  | op :: _ =>
    if op.startsWith "mo-" then
      let (m, o) := stepMo d.mo w
      ({ d with mo := m }, o)
    else
      let (l, o) := Driver.C05.step d.led w
      ({ d with led := l }, o)
  | [] =>
    let (l, o) := Driver.C05.step d.led w
    ({ d with led := l }, o)

end Driver.C01

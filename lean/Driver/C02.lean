import Driver.Util
import LemoModel.Validator
namespace Driver.C02
open LemoModel LemoModel.Validator Driver

structure St where
  term : Nat := 1000000
  interim : Nat := 1000
  timeout : Int := 10000

def kv (w : List String) : List (String × String) :=
  w.filterMap (fun t => match t.splitOn "=" with
    | [k, v] => some (k, v)
    | _ => none)

def get (m : List (String × String)) (k : String) : Option String :=
  (m.find? (fun p => p.1 == k)).map (·.2)

def nats (s : String) (sep : String) : Option (List Nat) :=
  (s.splitOn sep).mapM (fun x => x.toNat?)

def parseDeputies (s : String) : Option (List Deputy) :=
  if s == "-" then some []
  else (s.splitOn ";").mapM (fun p => match p.splitOn ":" with
    | [a, b] => match a.toNat?, b.toNat? with
      | some a, some b => some { nodeId := a, miner := b }
      | _, _ => none
    | _ => none)

def parseTxs (s : String) : Option (List Tx) :=
  if s == "-" then some []
  else (s.splitOn ",").mapM (fun p => match p.splitOn ":" with
    | [e, ok, ids] =>
      match e.toNat?, ids.splitOn "+" with
      | some e, i :: subs =>
        match i.toNat?, subs.mapM (fun w => match w.splitOn "@" with
            | [h, x] => do some ((← h.toNat?), (← x.toNat?))
            | _ => none) with
        | some i, some ss => some { id := i, exp := e, bodyOk := ok == "1", subs := ss.map (·.1), subExps := ss.map (·.2),
                                    bodyPanics := ok == "p" }
        | _, _ => none
      | _, _ => none
    | _ => none)

def parseExec (s : String) : Option ExecRes :=
  match s.splitOn ":" with
  | ["panic"] => some .panic
  | ["na"] => some .panic
  | ["err"] => some .err
  | ["ok", a, b, c, d, e] =>
    match a.toNat?, b.toNat?, c.toNat?, d.toNat?, e.toNat? with
    | some a, some b, some c, some d, some e => some (.ok a b c d e)
    | _, _, _, _, _ => none
  | _ => none

/-- an injective encoding of the hashed tuple (every field `< 2^70`, fixed arity; the driver's `extra` is
    `replicate len id`, so (length, first element) determines it) -/
def encode (h : Header) : Nat :=
  ([h.parentHash, h.miner, h.versionRoot, h.txRoot, h.logRoot, h.height, h.gasLimit, h.gasUsed, h.time,
    h.signData, h.deputyRoot, h.extra.length, h.extra.headD 0]).foldl (fun acc x => acc * 1180591620717411303424 + x + 1) 1

def ins (s : St) (m : List (String × String)) : Option String := do
  let ex ← get m "ex"
  let sh ← (← get m "sh").toNat?
  let hd ← nats (← get m "hd") ","
  let sig ← parseInt? (← get m "sig")
  let par ← get m "par"
  let depp ← parseDeputies (← get m "depp")
  let dep ← parseDeputies (← get m "dep")
  let now ← parseInt? (← get m "now")
  let txr ← (← get m "txr").toNat?
  let txs ← parseTxs (← get m "txs")
  let anc ← get m "anc"
  let exec ← parseExec (← get m "exec")
  let blr ← get m "blr"
  let bdr ← (← get m "bdr").toNat?
  match hd with
  | [ph, mi, vr, tr, lr, h, gl, gu, t, dr, el, eid] =>
    let header : Header := {
      parentHash := ph
      miner := mi
      versionRoot := vr
      txRoot := tr
      logRoot := lr
      height := h
      gasLimit := gl
      gasUsed := gu
      time := t
      signData := 1
      deputyRoot := dr
      extra := List.replicate el eid }
    let parent : Option Header ←
      if par == "-" then some none
      else match nats par "," with
        | some [pH, pT, pM] => some (some { (default : Header) with height := pH, time := pT, miner := pM })
        | _ => none
    let logsRoot : Option Nat ← if blr == "-" then some none else (blr.toNat?).map some
    let b : Block := { header := header, txs := txs, logsRoot := logsRoot, deputyNodesRoot := bdr, confirms := [] }
    let c : Ctx := {
      stored := fun _ => ex == "1"
      stableHeight := sh
      load := fun x => if x == ph then parent else none
      deputies := fun x => if x == h then dep
        else match parent with
          | some p => if x == GoSem.uadd u32 p.height 1 then depp else []
          | none => []
      now := now
      mineTimeout := s.timeout
      termDuration := s.term
      interimDuration := s.interim
      hash := encode
      recover := fun _ _ => if sig < 0 then none else some sig.toNat
      merkleRoot := fun _ => txr
      onAncestor := fun _ _ => if anc == "p" then none else some (anc == "1")
      reexec := fun _ => exec }
    -- `sv=fail`: the harness injected a storage fault, `saveNewBlock` returns an error
    let svOk := (get m "sv").getD "ok" != "fail"
    let r := insertBlock (σ := Unit) (fun _ => c) (fun u _ => (u, svOk)) { durable := (), scratch := none } b
    some (r.2.show ++ " pre=" ++ (verifyBefore c b).pre)
  | _ => none

def vm (s : St) (n ph : Nat) (pr : Int) (pts ts : Nat) (T : Int) (mr : Int) : String :=
  let ds : List Deputy := (List.range n).map (fun i => { nodeId := i, miner := i })
  let c : Ctx := {
    stored := fun _ => false, stableHeight := 0, load := fun _ => none
    deputies := fun _ => ds
    now := 0, mineTimeout := T, termDuration := s.term, interimDuration := s.interim
    hash := encode, recover := fun _ _ => none, merkleRoot := fun _ => 0, onAncestor := fun _ _ => some false
    reexec := fun _ => .err }
  let parent : Header := { (default : Header) with height := ph, time := pts, miner := if pr < 0 then 1000 else pr.toNat }
  let h : Header := { (default : Header) with height := ph + 1, time := ts, miner := if mr < 0 then 1001 else mr.toNat }
  (verifyMiner c h parent).show

def step (s : St) (w : List String) : St × String :=
  match w with
  | ["params", t, i, T] =>
    match t.toNat?, i.toNat?, parseInt? T with
    | some t, some i, some T => ({ term := t, interim := i, timeout := T }, "ok")
    | _, _, _ => (s, "bad-op")
  | ["hashfield", name] =>
    match headerFields.find? (fun p => p.1 == name) with
    | some p => (s, toString p.2)
    | none => (s, "unknown-field")
  | ["const", "MaxExtraDataLen"] => (s, toString maxExtraDataLen)
  | ["const", "MaxTxLifeTime"] => (s, toString LemoGen.TxWindow.MaxTxLifeTime)
  | ["hashfields-all"] =>
    (s, ",".intercalate ((headerFields.map (·.1)).toArray.qsort (· < ·)).toList)
  | ["vm", n, ph, pr, pts, ts, T, mr] =>
    match n.toNat?, ph.toNat?, parseInt? pr, pts.toNat?, ts.toNat?, parseInt? T, parseInt? mr with
    | some n, some ph, some pr, some pts, some ts, some T, some mr => (s, vm s n ph pr pts ts T mr)
    | _, _, _, _, _, _, _ => (s, "bad-op")
  | "ins" :: rest =>
    match ins s (kv rest) with
    | some o => (s, o)
    | none => (s, "bad-op")
  | _ => (s, "bad-op")

end Driver.C02

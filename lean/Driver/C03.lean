import Driver.Util
import LemoModel.Stable
namespace Driver.C03
open LemoModel LemoModel.Stable Driver

/-- `x.1` = unrecoverable signature number 1, `2.0` = node 2 canonical, `2.1` = node 2 re-encoded. -/
def sig? (w : String) : Option Sig :=
  match w.splitOn "." with
  | [a, b] =>
    match b.toNat? with
    | none => none
    | some v => if a == "x" then some ⟨none, v⟩ else (a.toNat?).map (fun d => ⟨some d, v⟩)
  | _ => none

def sigs? (w : String) : Option (List Sig) :=
  if w == "-" then some [] else (w.splitOn ",").mapM sig?

def nats? (w : String) : Option (List Nat) :=
  if w == "-" then some [] else (w.splitOn ",").mapM (fun x => x.toNat?)

def showSig (s : Sig) : String :=
  match s.signer with
  | some d => s!"{d}.{s.variant}"
  | none => s!"x.{s.variant}"

def showBlks (l : List Blk) : String :=
  let t := (l.map (fun b => (b.id, "+".intercalate (b.confirms.map showSig)))).toArray.qsort (fun a b => a.1 < b.1)
  if t.isEmpty then "-" else ",".intercalate (t.toList.map (fun p => s!"{p.1}:{p.2}"))

def showTerms (t : List (List Nat)) : String :=
  "|".intercalate (t.map (fun l => ".".intercalate (l.map toString)))

/-- the canonical state line: stable, head, the unconfirmed tree and the committed blocks above
    genesis with the signatures stored for them, the known terms, Confirmer.lastSig. -/
def showState (s : St) : String :=
  s!"stable={s.stable.id}@{s.stable.height} head={s.headId}@{s.headHeight} tree={showBlks s.tree} cm={showBlks (s.committed.filter (fun b => b.height != 0))} terms={showTerms s.terms} ls={s.lastSigH}/{s.lastSigId}"

def finish (old : St) (r : St × String) : St × String :=
  let q := if r.1.stable.id ≠ old.stable.id then
      s!" q={distinctCount (depsAt r.1 r.1.stable.height) r.1.stable}/{twoThirds (depsAt r.1 r.1.stable.height).length}" else ""
  (r.1, s!"{r.2} {showState r.1}{q}")

/-- driver state: the engine state and which variant of the two "is this signature new?" tests runs.
    Default = the live model (`cfgSigner`: validator.go since d34eb0a, TryConfirm/tryConfirmStable since
    262c027). `mode before-d34eb0a` / `mode before-262c027` (harness env C03_ASIS, only with VERIF_REPO
    pointing at a tree where the commit(s) are reverted) select the old code. -/
structure DSt where
  st : St := init 0 1 0 0 0 []
  cfg : Cfg := cfgSigner

def stepSt (C : Cfg) (s : St) (w : List String) : St × String :=
  match w with
  | ["new", dc, t, i, self, gr, term0] =>
    match dc.toNat?, t.toNat?, i.toNat?, self.toNat?, gr.toNat?, nats? term0 with
    | some dc, some t, some i, some self, some gr, some term0 => (init dc t i self gr term0, "ok")
    | _, _, _, _, _, _ => (s, "bad-op")
  | ["tt", n] =>
    match n.toNat? with
    | some n => (s, toString (twoThirds n))
    | none => (s, "bad-op")
  | ["blk", id, parent, height, miner, rank, hdr, valid, sigs, nd, bad] =>
    match id.toNat?, parent.toNat?, height.toNat?, miner.toNat?, rank.toNat?, sig? hdr, valid.toNat?, sigs? sigs, nats? nd, bad.toNat? with
    | some id, some parent, some height, some miner, some rank, some hdr, some valid, some sigs, some nd, some bad =>
      finish s (Stable.step C s (.block ⟨id, parent, height, miner, rank, hdr, sigs, nd, bad != 0⟩ (valid != 0)))
    | _, _, _, _, _, _, _, _, _, _ => (s, "bad-op")
  | ["mine", id, parent, height, miner, rank, nd, bad] =>
    match id.toNat?, parent.toNat?, height.toNat?, miner.toNat?, rank.toNat?, nats? nd, bad.toNat? with
    | some id, some parent, some height, some miner, some rank, some nd, some bad =>
      -- the model derives parent / height / miner of a mined block itself; the line must agree
      if parent ≠ s.headId ∨ height ≠ s.headHeight + 1 ∨ miner ≠ s.self then (s, "mine-mismatch")
      else finish s (Stable.step C s (.mine ⟨id, parent, height, miner, rank, ⟨some miner, 0⟩, [], nd, bad != 0⟩))
    | _, _, _, _, _, _, _ => (s, "bad-op")
  | ["cf", id, height, sigs] =>
    match id.toNat?, height.toNat?, sigs? sigs with
    | some id, some height, some sigs => finish s (Stable.step C s (.confirms id height sigs))
    | _, _, _ => (s, "bad-op")
  | ["reopen"] => finish s (Stable.step C s .reopen)
  | _ => (s, "bad-op")

def step (d : DSt) (w : List String) : DSt × String :=
  match w with
  | ["mode", "before-d34eb0a"] => ({ d with cfg := cfgBytes }, "ok")
  | ["mode", "before-262c027"] => ({ d with cfg := cfgVerifierFixed }, "ok")
  | _ =>
    let r := stepSt d.cfg d.st w
    ({ d with st := r.1 }, r.2)

end Driver.C03

import Driver.Util
import LemoModel.Stable
namespace Driver.C03
open LemoModel LemoModel.Stable Driver

/-- `x.1` = unrecoverable signature number 1, `2.0` = deputy 2 canonical, `2.1` = deputy 2 re-encoded. -/
def sig? (w : String) : Option Sig :=
  match w.splitOn "." with
  | [a, b] =>
    match b.toNat? with
    | none => none
    | some v => if a == "x" then some ⟨none, v⟩ else (a.toNat?).map (fun d => ⟨some d, v⟩)
  | _ => none

def sigs? (w : String) : Option (List Sig) :=
  if w == "-" then some [] else (w.splitOn ",").mapM sig?

def showState (s : St) : String :=
  let t := (s.tree.map (fun b => (b.id, b.confirms.length))).toArray.qsort (fun a b => a.1 < b.1)
  let ts := if t.isEmpty then "-" else ",".intercalate (t.toList.map (fun p => s!"{p.1}:{p.2}"))
  s!"stable={s.stable.id}@{s.stable.height} head={s.headId}@{s.headHeight} tree={ts}"

def finish (old : St) (r : St × String) : St × String :=
  let q := if r.1.stable.id ≠ old.stable.id then s!" q={distinctCount r.1.n r.1.stable}" else ""
  (r.1, s!"{r.2} {showState r.1}{q}")

/-- driver state: the engine state and which verifier runs. The live model is
    `verifyNewConfirmsFixed` (= validator.go since /repo commit d34eb0a); the line `mode asis`
    (harness env C03_ASIS=1, only with VERIF_REPO pointing at a tree where that commit is reverted)
    selects the old bytes-only verifier. -/
structure DSt where
  st : St := init 0 0 0
  asis : Bool := false

def stepSt (V : Verifier) (s : St) (w : List String) : St × String :=
  match w with
  | ["new", dc, n, gr] =>
    match dc.toNat?, n.toNat?, gr.toNat? with
    | some dc, some n, some gr => (init dc n gr, "ok")
    | _, _, _ => (s, "bad-op")
  | ["tt", n] =>
    match n.toNat? with
    | some n => (s, toString (twoThirds n))
    | none => (s, "bad-op")
  | ["blk", id, parent, height, miner, rank, hdr, valid, sigs] =>
    match id.toNat?, parent.toNat?, height.toNat?, miner.toNat?, rank.toNat?, sig? hdr, valid.toNat?, sigs? sigs with
    | some id, some parent, some height, some miner, some rank, some hdr, some valid, some sigs =>
      finish s (Stable.step V s (.block ⟨id, parent, height, miner, rank, hdr, sigs⟩ (valid != 0)))
    | _, _, _, _, _, _, _, _ => (s, "bad-op")
  | ["cf", id, height, sigs] =>
    match id.toNat?, height.toNat?, sigs? sigs with
    | some id, some height, some sigs => finish s (Stable.step V s (.confirms id height sigs))
    | _, _, _ => (s, "bad-op")
  | _ => (s, "bad-op")

def step (d : DSt) (w : List String) : DSt × String :=
  match w with
  | ["mode", "asis"] => ({ d with asis := true }, "ok")
  | _ =>
    let r := stepSt (if d.asis then verifyNewConfirms else verifyNewConfirmsFixed) d.st w
    ({ d with st := r.1 }, r.2)

end Driver.C03

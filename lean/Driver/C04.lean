import Driver.Util
import LemoModel.TxGuard
import LemoModel.PoolGuard
namespace Driver.C04
open LemoModel LemoModel.TxGuard Driver

structure St where
  g : Guard := newTxGuard 0
  univ : List Block := []
  fixed : Bool := true
  /-- the combined pool × guard machine of LemoModel/PoolGuard.lean (`pg …` ops), pinned to `Cfg.live` -/
  pg : Option PoolGuard.State := none

def core? (s : String) : Option Core :=
  match s.splitOn ":" with
  | [a, b, c] =>
    match a.toNat?, b.toNat?, c.toNat? with
    | some a, some b, some c => some ⟨a, b, c, 0⟩
    | _, _, _ => none
  | [a, b, c, d] =>   -- reimbursement tx: sender content and payer content
    match a.toNat?, b.toNat?, c.toNat?, d.toNat? with
    | some a, some b, some c, some d => some ⟨a, b, c, d⟩
    | _, _, _, _ => none
  | _ => none

def tx? (s : String) : Option Tx :=
  match s.splitOn "/" with
  | [] => none
  | h :: rest =>
    match core? h, rest.mapM core? with
    | some c, some subs => some { txId := c.txId, content := c.content, exp := c.exp, subs := subs, payer := c.payer }
    | _, _ => none

def blockOf (s : St) (id : Nat) : Option Block := s.univ.find? (fun b => b.hash == id)

/-- ancestors-or-self of `id` through the declared parents (most recent first) -/
def chainOf (s : St) : Nat → Nat → List Block
  | 0, _ => []
  | fuel + 1, id =>
    match blockOf s id with
    | none => []
    | some b => b :: chainOf s fuel b.parent

def showOutBool : Out Bool → String
  | .ok true => "true"
  | .ok false => "false"
  | .panic => "panic"
  | .hang => "hang"

def ids (txs : List Tx) : String := joinWith "," (txs.map (fun t => toString t.txId))

/-! ### `pg …`: the combined machine (real engine: DPoVP + TxPool + TxGuard) -/

open PoolGuard in
def pgReply (s : St) (res : String) (r : Option PoolGuard.State) : St × String :=
  match r with
  | some p => ({ s with pg := some p }, res ++ " ; " ++ p.dump)
  | none => (s, "panic")

def showAddRes : Pool.Out → String
  | .ok => "ok"
  | .err .errTxIsExist => "ErrTxIsExist"
  | .err .errInvalidTx => "ErrInvalidTx"
  | .err .ok => "ok"
  | _ => "?"

def natList? (x : String) : Option (List Nat) :=
  if x == "-" then some [] else (x.splitOn ",").mapM String.toNat?

open PoolGuard in
def pgStep (s : St) (p : PoolGuard.State) (w : List String) : St × String :=
  let cfg := Cfg.live
  let env (op : Op) (k : Unit → St × String) : St × String :=
    if envB p op then k () else (s, "ENV-VIOLATED")
  match w with
  | ["ask", now, tx] =>
    match now.toNat?, tx? tx with
    | some now, some tx =>
      env (.ask now tx) fun _ =>
        let res := if !(validBody cfg tx now) then "invalid" else
          match p.g.existTxs p.head.hash [tx] with
          | .ok false => "ok"
          | .ok true => "exists"
          | _ => "panic"
        pgReply s res (step cfg p (.ask now tx))
    | _, _ => (s, "bad-op")
  | ["add", tx] =>
    match tx? tx with
    | some tx =>
      let res := if p.asked.contains tx then showAddRes (Pool.step true p.pool (.add (some (toPool tx)))).2 else "not-asked"
      pgReply s res (step cfg p (.add tx))
    | none => (s, "bad-op")
  | ["recv", now, tx] =>   -- the whole of SendTx in one go: ask, then add when the answer was `false`
    match now.toNat?, tx? tx with
    | some now, some tx =>
      env (.ask now tx) fun _ =>
        if !(validBody cfg tx now) then pgReply s "invalid" (some p) else
        match p.g.existTxs p.head.hash [tx] with
        | .ok true => pgReply s "exists" (some p)
        | .ok false =>
          match step cfg p (.ask now tx) with
          | some p1 =>
            pgReply s (showAddRes (Pool.step true p1.pool (.add (some (toPool tx)))).2) (step cfg p1 (.add tx))
          | none => (s, "panic")
        | _ => (s, "panic")
    | _, _ => (s, "bad-op")
  | ["pending", now, size] =>
    match now.toNat?, parseInt? size with
    | some now, some size =>
      let res := match poolGet p.pool now size with
        | some (_, l) => showIds (l.map (·.hash))
        | none => "panic"
      pgReply s res (step cfg p (.pending now size))
    | _, _ => (s, "bad-op")
  | "insert" :: id :: par :: h :: t :: stab :: nh :: txs =>
    match id.toNat?, par.toNat?, h.toNat?, t.toNat?, parseBool? stab, nh.toNat?, txs.mapM tx? with
    | some id, some par, some h, some t, some stab, some nh, some txs =>
      let b : Block := ⟨id, par, h, t, txs⟩
      match findBlock (b :: p.blocks) nh with
      | some nhb =>
        let verdict := match verifyTxs true p.g b with
          | .ok true => "accept"
          | .ok false => "reject"
          | _ => "panic"
        if verdict == "accept" then
          env (.insert b stab nhb) fun _ => pgReply s verdict (step cfg p (.insert b stab nhb))
        else pgReply s verdict (step cfg p (.insert b stab nhb))
      | none => (s, "bad-op unknown head")
    | _, _, _, _, _, _, _ => (s, "bad-op")
  | ["confirm", st, nh] =>
    match st.toNat?.bind (findBlock p.blocks), nh.toNat?.bind (findBlock p.blocks) with
    | some st, some nh => env (.confirm st nh) fun _ => pgReply s "ok" (step cfg p (.confirm st nh))
    | _, _ => (s, "bad-op")
  | ["mine", hash, now, stab, invalid] =>
    match hash.toNat?, now.toNat?, parseBool? stab, natList? invalid with
    | some hash, some now, some stab, some invalid =>
      env (.mine hash now [] invalid stab) fun _ =>
        match assemble cfg p hash now [] invalid with
        | some (_, b) =>
          let verdict := match verifyTxs true p.g b with
            | .ok true => "accept"
            | .ok false => "reject"
            | _ => "panic"
          pgReply s s!"t={b.time} txs={showIds (b.txs.map (·.txId))} peer={verdict}" (step cfg p (.mine hash now [] invalid stab))
        | none => (s, "panic")
    | _, _, _, _ => (s, "bad-op")
  | _ => (s, "bad-op")

def step (s : St) (w : List String) : St × String :=
  match w with
  | ["pg", "new", id, t] =>
    match id.toNat?, t.toNat? with
    | some id, some t =>
      let gen : Block := ⟨id, 0, 0, t, []⟩
      if PoolGuard.genOK gen then pgReply s "ok" (PoolGuard.init gen) else (s, "bad-genesis")
    | _, _ => (s, "bad-op")
  | "pg" :: rest =>
    match s.pg with
    | some p => pgStep s p rest
    | none => (s, "bad-op no-machine")
  -- the model is PINNED to the repaired code (fix 828f704): the harness still reports what its probe of the
  -- implementation saw, and anything but `fixed` is a correspondence difference
  | ["variant", v] => (s, if v == "fixed" then "ok" else "model-is-pinned-to-fixed")
  | ["new", t] | ["enew", t] =>
    match t.toNat? with
    | some t => ({ s with g := newTxGuard t, univ := [] }, "ok")   -- a new node / case: earlier blocks are never referenced again
    | none => (s, "bad-op")
  | "blk" :: id :: p :: h :: t :: txs =>
    match id.toNat?, p.toNat?, h.toNat?, t.toNat?, txs.mapM tx? with
    | some id, some p, some h, some t, some txs =>
      ({ s with univ := ⟨id, p, h, t, txs⟩ :: s.univ }, "ok")
    | _, _, _, _, _ => (s, "bad-op")
  | ["save", id] =>
    match id.toNat?.bind (blockOf s) with
    | some b =>
      match s.g.saveBlock b with
      | .ok g => ({ s with g := g }, "ok")
      | .panic => (s, "panic")
      | .hang => (s, "hang")
    | none => (s, "bad-op")
  | ["del", t] =>
    match t.toNat? with
    | some t =>
      match s.g.delOldBlocks t with
      | .ok g => ({ s with g := g }, "ok")
      | .panic => (s, "panic")
      | .hang => (s, "hang")
    | none => (s, "bad-op")
  | "exist" :: p :: txs =>
    match p.toNat?, txs.mapM tx? with
    | some p, some txs => (s, showOutBool (s.g.existTxs p txs))
    | _, _ => (s, "bad-op")
  | ["branch", a, b] =>
    match a.toNat?.bind (blockOf s), b.toNat?.bind (blockOf s) with
    | some a, some b =>
      match s.g.getTxsByBranch a.hash a.height b.hash b.height with
      | .ok t1 t2 => (s, s!"ok {ids t1}|{ids t2}")
      | .errNotFound => (s, "err NotFoundBlockCache")
      | .errDifferentGenesis => (s, "err DifferentGenesis")
      | .hang => (s, "hang")
    | _, _ => (s, "bad-op")
  | ["restart", id] =>
    match id.toNat?.bind (blockOf s) with
    | some st =>
      let chain := chainOf s (st.hash + 1) st.hash
      match initTxPool (fun h => chain.find? (fun b => b.height == h)) st with
      | .ok g => ({ s with g := g }, "ok")
      | .panic => (s, "panic")
      | .hang => (s, "hang")
    | none => (s, "bad-op")
  | ["window", t, tx] =>   -- VerifyTxBody's time rule (own window; box: every sub-tx no earlier than the box and inside the window)
    match t.toNat?, tx? tx with
    | some t, some tx => (s, toString (tx.validAt t))
    | _, _ => (s, "bad-op")
  | ["dump"] => (s, s.g.dump)
  | ["verify", id] =>
    match id.toNat?.bind (blockOf s) with
    | some b =>
      match verifyTxs s.fixed s.g b with
      | .ok true => (s, "accept")
      | .ok false => (s, "reject")
      | .panic => (s, "panic")
      | .hang => (s, "hang")
    | none => (s, "bad-op")
  | _ => (s, "bad-op")

end Driver.C04

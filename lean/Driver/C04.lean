import Driver.Util
import LemoModel.TxGuard
namespace Driver.C04
open LemoModel LemoModel.TxGuard Driver

structure St where
  g : Guard := newTxGuard 0
  univ : List Block := []
  fixed : Bool := true

def core? (s : String) : Option Core :=
  match s.splitOn ":" with
  | [a, b, c] =>
    match a.toNat?, b.toNat?, c.toNat? with
    | some a, some b, some c => some ⟨a, b, c, 0⟩
    | _, _, _ => none
  | [a, b, c, d] =>   -- reimbursement tx: sender content and payer content
    match a.toNat?, b.toNat?, c.toNat?, d.toNat? with
    | some a, some b, some c, some d => some ⟨a, b, c, d⟩
    | _, _, _, _ => none
  | _ => none

def tx? (s : String) : Option Tx :=
  match s.splitOn "/" with
  | [] => none
  | h :: rest =>
    match core? h, rest.mapM core? with
    | some c, some subs => some { txId := c.txId, content := c.content, exp := c.exp, subs := subs, payer := c.payer }
    | _, _ => none

def blockOf (s : St) (id : Nat) : Option Block := s.univ.find? (fun b => b.hash == id)

/-- ancestors-or-self of `id` through the declared parents (most recent first) -/
def chainOf (s : St) : Nat → Nat → List Block
  | 0, _ => []
  | fuel + 1, id =>
    match blockOf s id with
    | none => []
    | some b => b :: chainOf s fuel b.parent

def showOutBool : Out Bool → String
  | .ok true => "true"
  | .ok false => "false"
  | .panic => "panic"
  | .hang => "hang"

def ids (txs : List Tx) : String := joinWith "," (txs.map (fun t => toString t.txId))

def step (s : St) (w : List String) : St × String :=
  match w with
  -- the model is PINNED to the repaired code (fix 828f704): the harness still reports what its probe of the
  -- implementation saw, and anything but `fixed` is a correspondence difference
  | ["variant", v] => (s, if v == "fixed" then "ok" else "model-is-pinned-to-fixed")
  | ["new", t] | ["enew", t] =>
    match t.toNat? with
    | some t => ({ s with g := newTxGuard t, univ := [] }, "ok")   -- a new node / case: earlier blocks are never referenced again
    | none => (s, "bad-op")
  | "blk" :: id :: p :: h :: t :: txs =>
    match id.toNat?, p.toNat?, h.toNat?, t.toNat?, txs.mapM tx? with
    | some id, some p, some h, some t, some txs =>
      ({ s with univ := ⟨id, p, h, t, txs⟩ :: s.univ }, "ok")
    | _, _, _, _, _ => (s, "bad-op")
  | ["save", id] =>
    match id.toNat?.bind (blockOf s) with
    | some b =>
      match s.g.saveBlock b with
      | .ok g => ({ s with g := g }, "ok")
      | .panic => (s, "panic")
      | .hang => (s, "hang")
    | none => (s, "bad-op")
  | ["del", t] =>
    match t.toNat? with
    | some t =>
      match s.g.delOldBlocks t with
      | .ok g => ({ s with g := g }, "ok")
      | .panic => (s, "panic")
      | .hang => (s, "hang")
    | none => (s, "bad-op")
  | "exist" :: p :: txs =>
    match p.toNat?, txs.mapM tx? with
    | some p, some txs => (s, showOutBool (s.g.existTxs p txs))
    | _, _ => (s, "bad-op")
  | ["branch", a, b] =>
    match a.toNat?.bind (blockOf s), b.toNat?.bind (blockOf s) with
    | some a, some b =>
      match s.g.getTxsByBranch a.hash a.height b.hash b.height with
      | .ok t1 t2 => (s, s!"ok {ids t1}|{ids t2}")
      | .errNotFound => (s, "err NotFoundBlockCache")
      | .errDifferentGenesis => (s, "err DifferentGenesis")
      | .hang => (s, "hang")
    | _, _ => (s, "bad-op")
  | ["restart", id] =>
    match id.toNat?.bind (blockOf s) with
    | some st =>
      let chain := chainOf s (st.hash + 1) st.hash
      match initTxPool (fun h => chain.find? (fun b => b.height == h)) st with
      | .ok g => ({ s with g := g }, "ok")
      | .panic => (s, "panic")
      | .hang => (s, "hang")
    | none => (s, "bad-op")
  | ["window", t, tx] =>   -- VerifyTxBody's time rule (own window; box: every sub-tx no earlier than the box and inside the window)
    match t.toNat?, tx? tx with
    | some t, some tx => (s, toString (tx.validAt t))
    | _, _ => (s, "bad-op")
  | ["dump"] => (s, s.g.dump)
  | ["verify", id] =>
    match id.toNat?.bind (blockOf s) with
    | some b =>
      match verifyTxs s.fixed s.g b with
      | .ok true => (s, "accept")
      | .ok false => (s, "reject")
      | .panic => (s, "panic")
      | .hang => (s, "hang")
    | none => (s, "bad-op")
  | _ => (s, "bad-op")

end Driver.C04

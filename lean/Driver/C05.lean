import Driver.Util
import LemoModel.Ledger
import LemoModel.HashFacts
import Driver.EvmValue
import Driver.C11Guard
import LemoModel.LedgerDeposit
import Driver.C06
namespace Driver.C05
open LemoModel.Ledger Driver

structure D where
  p : Params := {}
  accts : Nat → Acct := fun _ => {}
  univ : List Nat := []
  height : Nat := 0
  miner : Nat := 0
  gp : Nat := 0
  txs : List Tx := []       -- candidates of the block being described, newest first
  dedup : Bool := true
  rf : Option RewardFacts := none   -- the `reward` line of the block being described
  votesLast : Bool := true
  flagCheck : Bool := true
  paid : Nat → Int := fun _ => 0   -- the deposit book kept by construction (LemoModel.LedgerDeposit)

def parseSigners (s : String) : Option (Option (List Nat)) :=
  if s == "!" then some none
  else if s == "-" then some (some [])
  else
    let parts := s.splitOn ","
    let ns := parts.filterMap (·.toNat?)
    if ns.length == parts.length then some (some ns) else none

def parsePairs : List String → Option (List (Nat × Nat))
  | [] => some []
  | x :: xs =>
    match x.splitOn ":" with
    | [a, w] =>
      match a.toNat?, w.toNat?, parsePairs xs with
      | some a, some w, some r => some ((a, w) :: r)
      | _, _, _ => none
    | _ => none

/-- the deposit entry a RegisterTx carries under the protected key: "-" = key absent, "x" = present but not a decimal
    numeral, "n<v>" = the numeral v -/
def parseTxDeposit (s : String) : Option (Option (Option Int)) :=
  if s == "-" then some none
  else if s == "x" then some (some none)
  else if s.startsWith "n" then (parseInt? (s.drop 1).toString).map (fun v => some (some v))
  else none

/-- "-" = empty, else comma separated `key:value` labels -/
def parseProfPairs (s : String) : Option (List (Nat × Nat)) :=
  if s == "-" then some [] else parsePairs (s.splitOn ",")

def insertPair (x : Nat × Nat) : List (Nat × Nat) → List (Nat × Nat)
  | [] => [x]
  | y :: ys => if x.1 ≤ y.1 then x :: y :: ys else y :: insertPair x ys

/-- the opaque profile keys of an account, sorted by key label (a Go map has no order) -/
def showProf (l : List (Nat × Nat)) : String :=
  if l.isEmpty then "-"
  else ";".intercalate ((l.foldl (fun acc x => insertPair x acc) []).map fun (k, v) => s!"{k}={v}")

def parseKind : List String → Option Kind
  | ["transfer", to, v] => do some (.transfer (← to.toNat?) (← parseInt? v))
  | ["vote", c] => do some (.vote (← c.toNat?))
  | ["register", amt, flag, inc, nd] => do some (.register (← parseInt? amt) (← flag.toNat?) (← inc.toNat?) ((← nd.toNat?) == 1))
  | ["register", amt, flag, inc, nd, dep, oth] => do
    some (.register (← parseInt? amt) (← flag.toNat?) (← inc.toNat?) ((← nd.toNat?) == 1)
      { deposit := (← parseTxDeposit dep), others := (← parseProfPairs oth) })
  | "setsigners" :: tg :: tok :: "-" :: rest => do some (.setSigners (← tg.toNat?) (← parsePairs rest) (← Driver.C06.tempTok tok))   -- tok = `<from hex>:<to hex>`: tempOk is LemoModel.TempAddr.verifyOk of the two addresses
  | ["box", _] => some .box
  | ["other"] => some .other
  | _ => none

def parseTx : List String → Option Tx
  | id :: fr :: payer :: gl :: gpz :: ty :: ml :: nz :: z :: fs :: ps :: kind => do
    some { id := (← id.toNat?), sender := (← fr.toNat?), payer := (← payer.toNat?), gasLimit := (← gl.toNat?),
           gasPrice := (← parseInt? gpz), txType := (← ty.toNat?), msgLen := (← ml.toNat?), nzData := (← nz.toNat?),
           zData := (← z.toNat?), fromSigners := (← parseSigners fs), payerSigners := (← parseSigners ps),
           kind := (← parseKind kind) }
  | _ => none

def dump (d : D) (s : St) (paid : Nat → Int) : String :=
  String.join (d.univ.map fun a =>
    let x := s.accts a
    let dep := match x.deposit with | none => "-" | some v => toString v
    -- the book entry (deposit PAID by construction) of a registered candidate, next to the RECORDED deposit
    let pd := if x.isCand == 1 then toString (paid a) else "-"
    s!"{a}:{x.bal},{x.votes},{x.voteFor},{x.isCand},{dep},{x.income},{showProf x.prof},{pd} ")

def joinC (l : List String) : String := ",".intercalate l

/-- "-" = empty, else comma separated naturals -/
def parseNatList (s : String) : Option (List Nat) :=
  if s == "-" then some []
  else
    let parts := s.splitOn ","
    let ns := parts.filterMap (·.toNat?)
    if ns.length == parts.length then some ns else none

/-- "-" = empty, else comma separated `miner:votes` -/
def parseNodes (s : String) : Option (List (Nat × Int)) :=
  if s == "-" then some []
  else
    (s.splitOn ",").foldr (fun x acc =>
      match acc, x.splitOn ":" with
      | some r, [a, v] =>
        match a.toNat?, parseInt? v with
        | some a, some v => some ((a, v) :: r)
        | _, _ => none
      | _, _ => none) (some [])

def insertSorted (x : Nat) : List Nat → List Nat
  | [] => [x]
  | y :: ys => if x ≤ y then x :: y :: ys else y :: insertSorted x ys

/-- what stands behind the names in the hashed literals (extracted from tx.go / tx_signing.go on every run):
    `hashData` = getHashData(tx) = tx.data.Data, or for a decodable box with sub-txs the list of the sub-txs' hashes;
    `firstSignData` = tx.data.Sigs; the accessors return the txdata fields of the same name. -/
def hashDataExpected : List (List String) :=
  [ ["accessor", "ChainID", "tx.data.ChainID"], ["accessor", "Type", "tx.data.Type"], ["accessor", "Version", "tx.data.Version"],
    ["append", "calcBoxSubTxHashSet", "subTx.Hash()"],
    ["cond", "getHashData", "err!=nil"], ["cond", "getHashData", "len(box.SubTxList)>0"], ["cond", "getHashData", "tx.Type()==params.BoxTx"],
    ["local", "DefaultSigner", "hashData", "getHashData(tx)"], ["local", "GasPayerSigner", "firstSignData", "tx.data.Sigs"],
    ["local", "ReimbursementTxSigner", "hashData", "getHashData(tx)"], ["local", "Transaction", "hashData", "getHashData(tx)"],
    ["range", "calcBoxSubTxHashSet", "subTxList"],
    ["return", "calcBoxSubTxHashSet", "subTxHashSet"], ["return", "getHashData", "calcBoxSubTxHashSet(box.SubTxList)"],
    ["return", "getHashData", "tx.data.Data"] ]

def step (d : D) (w : List String) : D × String :=
  match w with
  | ["hashcover", fn, field, bit] =>
    if LemoModel.HashFacts.covers fn field == (bit == "1") && LemoModel.HashFacts.fields.contains field
    then (d, "ok") else (d, "table-mismatch")
  | ["hashdata", "count", n] => (d, if n == "16" then "ok" else "table-mismatch")
  | "hashdata" :: rest => (d, if hashDataExpected.contains rest then "ok" else "table-mismatch")
  | ["hashfns", n] => (d, if n == toString LemoModel.HashFacts.expected.length then "ok" else "table-mismatch")
  | "c06" :: rest => (d, Driver.C06.answer rest)   -- C06 additions: temp addresses bytewise, gate table (stateless)
  | "evmv" :: rest => (d, Driver.EvmValue.answer rest)   -- EVM value flow: LemoModel.EvmValue (stateless, one block per line)
  | ["rate", "vote", v, "deposit", dr, "precision", pr] =>
    -- the rates the property states literally = the defaults of `Ledger.Params`; anything else is a changed protocol constant
    let p0 : Params := {}
    (d, if parseInt? v == some p0.voteRate && parseInt? dr == some p0.depositRate && parseInt? pr == some p0.rewardPrecision
        then "ok" else "table-mismatch")
  | ["reset"] => ({ d with accts := fun _ => {}, univ := [], txs := [], rf := none, paid := fun _ => 0 }, "ok")
  | ["params", vr, dr, md, td, idur, pool, prec] =>
    match parseInt? vr, parseInt? dr, parseInt? md, td.toNat?, idur.toNat?, pool.toNat?, parseInt? prec with
    | some vr, some dr, some md, some td, some idur, some pool, some prec =>
      ({ d with p := { voteRate := vr, depositRate := dr, minDeposit := md, termDuration := td, interimDuration := idur, pool := pool,
                       rewardPrecision := prec } }, "ok")
    | _, _, _, _, _, _, _ => (d, "bad-op")
  | "universe" :: ls =>
    ({ d with univ := ls.filterMap (·.toNat?) }, "ok")
  | ["mode", "legacy-signers"] => ({ d with dedup := false }, "ok")
  | ["mode", "votes-before-reward"] => ({ d with votesLast := false }, "ok")
  | ["mode", "legacy-flag"] => ({ d with flagCheck := false }, "ok")
  | ["acct", l, bal, votes, vf, ic, dep, inc, isDep] =>
    match l.toNat?, parseInt? bal, parseInt? votes, vf.toNat?, ic.toNat?, inc.toNat?, isDep.toNat? with
    | some l, some bal, some votes, some vf, some ic, some inc, some isDep =>
      let dp := if dep == "-" then none else parseInt? dep
      -- (the book of a described state — genesis, re-synchronisation — opens with the recorded deposit: trusted initial state)
      ({ d with accts := upd d.accts l { bal := bal, votes := votes, voteFor := vf, isCand := ic, deposit := dp, income := inc, isDeputy := isDep == 1 },
                paid := upd d.paid l (dp.getD 0) }, "ok")
    | _, _, _, _, _, _, _ => (d, "bad-op")
  | ["prof", l, oth] =>
    -- the opaque profile keys of an account of the described state (genesis / re-synchronisation; follows its `acct` line)
    match l.toNat?, parseProfPairs oth with
    | some l, some ps => ({ d with accts := upd d.accts l { d.accts l with prof := ps } }, "ok")
    | _, _ => (d, "bad-op")
  | "signers" :: l :: "-" :: rest =>
    match l.toNat?, parsePairs rest with
    | some l, some ps => ({ d with accts := upd d.accts l { d.accts l with signers := ps } }, "ok")
    | _, _ => (d, "bad-op")
  | ["block", h, m, gl, deps] =>
    -- deps: the universe accounts whose registered node is a deputy at this height (IsNodeDeputy)
    match h.toNat?, m.toNat?, gl.toNat?, parseNatList deps with
    | some h, some m, some gl, some deps =>
      let accts := fun a => if d.univ.contains a then { d.accts a with isDeputy := deps.contains a } else d.accts a
      ({ d with height := h, miner := m, gp := gl, txs := [], rf := none, accts := accts }, "ok")
    | _, _, _, _ => (d, "bad-op")
  | ["reward", total, nodes, refunds] =>
    match parseInt? total, parseNodes nodes, parseNatList refunds with
    | some total, some nodes, some refunds => ({ d with rf := some { total := total, nodes := nodes, refunds := refunds } }, "ok")
    | _, _, _ => (d, "bad-op")
  | "tx" :: rest =>
    match parseTx rest with
    | some t => ({ d with txs := t :: d.txs }, "ok")
    | none => (d, "bad-op")
  | "sub" :: rest =>
    match parseTx rest, d.txs with
    | some t, b :: bs => ({ d with txs := { b with subs := b.subs ++ [t] } :: bs }, "ok")
    | _, _ => (d, "bad-op")
  | ["guard"] => (d, Driver.C11Guard.answer d.p d.accts d.univ d.height d.miner d.gp d.txs.reverse d.dedup d.rf d.votesLast d.flagCheck)
  | ["end"] =>
    let c : Ctx := { p := d.p, miner := d.miner, height := d.height, dedup := d.dedup, rf := d.rf.getD {}, votesLast := d.votesLast, flagCheck := d.flagCheck }
    -- the reward facts must be given exactly at the heights the GENERATED IsRewardBlock names
    if isRewardBlock c != d.rf.isSome then (d, "reward-schedule-mismatch") else
    let s0 : St := { accts := d.accts }
    let r := mine c s0 d.gp d.txs.reverse
    if finalizePanics c (chargeForGas r.st c.miner r.fee) then (d, "panic") else
    let (s, sel, inv, g) := mineBlock c s0 d.gp d.txs.reverse d.univ
    -- a negative final vote count cannot be RLP-encoded: the real assembler panics when it seals the block
    if d.univ.any (fun a => decide ((s.accts a).votes < 0)) then (d, "panic") else
    let selS := joinC (sel.map fun (i, g) => s!"{i}:{g}")
    let invS := joinC ((inv.foldl (fun acc (i, _) => insertSorted i acc) []).map toString)
    let paid := paidBlock c s0 d.gp d.txs.reverse d.paid
    ({ d with accts := s.accts, txs := [], rf := none, paid := paid }, s!"sel={selS} inv={invS} gas={g} | {dump d s paid}")
  | _ => (d, "bad-op")

end Driver.C05

import LemoModel.TempAddr
import LemoModel.GateFacts
/-! driver of the C06 additions (stateless): `c06 tempaddr …` (LemoModel.TempAddr), `c06 gate …` (LemoModel.GateFacts),
    and the `from:to` token of a `setsigners` tx line (tempOk computed by the model from the two addresses) -/
namespace Driver.C06
open LemoModel

def hexVal (c : Char) : Option Nat :=
  if '0' ≤ c ∧ c ≤ '9' then some (c.toNat - '0'.toNat)
  else if 'a' ≤ c ∧ c ≤ 'f' then some (c.toNat - 'a'.toNat + 10)
  else none

def hexBytes : List Char → Option (List Nat)
  | [] => some []
  | a :: b :: r =>
    match hexVal a, hexVal b, hexBytes r with
    | some x, some y, some t => some ((x * 16 + y) :: t)
    | _, _, _ => none
  | _ => none

/-- "-" = no bytes -/
def parseHex (s : String) : Option (List Nat) := if s == "-" then some [] else hexBytes s.toList

def hexDigit (n : Nat) : Char := if n < 10 then Char.ofNat ('0'.toNat + n) else Char.ofNat ('a'.toNat + n - 10)

def toHex (l : List Nat) : String := String.ofList (l.foldr (fun b acc => hexDigit (b / 16) :: hexDigit (b % 16) :: acc) [])

def errName : Option TempAddr.TErr → String
  | none => "ok"
  | some e => e.name

/-- the tempOk of a `setsigners` line: `<from hex>:<to hex>` (20 bytes each) -/
def tempTok (s : String) : Option Bool :=
  match s.splitOn ":" with
  | [a, b] =>
    match parseHex a, parseHex b with
    | some a, some b => if a.length == 20 && b.length == 20 then some (TempAddr.verifyOk a b) else none
    | _, _ => none
  | _ => none

def answer : List String → String
  | ["tempaddr", "verify", c, t] =>
    match parseHex c, parseHex t with
    | some c, some t => errName (TempAddr.verifyTemp (TempAddr.bytesToAddress c) (TempAddr.bytesToAddress t))
    | _, _ => "bad-op"
  | ["tempaddr", "create", c, u] =>
    match parseHex c, parseHex u with
    | some c, some u =>
      let cr := TempAddr.bytesToAddress c
      let t := TempAddr.createTemp cr u
      s!"{toHex t} {errName (TempAddr.verifyTemp cr t)}"
    | _, _ => "bad-op"
  | ["tempaddr", "b2a", b] =>
    match parseHex b with
    | some b => toHex (TempAddr.bytesToAddress b)
    | none => "bad-op"
  | ["gate", "count", n] => if n == toString GateFacts.rows.length then "ok" else "table-mismatch"
  | ["gate", "wrapper", fn] => if GateFacts.known "wrapper" fn "-" "-" true then "ok" else "table-mismatch"
  | ["gate", "type", name, num] =>
    if GateFacts.TxType.all.any (fun t => t.name == name && toString t.num == num) then "ok" else "table-mismatch"
  | ["gate", "types", n] => if n == toString GateFacts.TxType.all.length then "ok" else "table-mismatch"
  | ["gate", kind, fn, ctx, callee, dom] =>
    let d := if dom == "dominated=true" then some true else if dom == "dominated=false" then some false else none
    match d with
    | some d => if GateFacts.known kind fn ctx callee d then "ok" else "table-mismatch"
    | none => "bad-op"
  | _ => "bad-op"

end Driver.C06

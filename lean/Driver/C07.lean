import Driver.Util
import LemoModel.Journal
import LemoModel.JournalDirty
import LemoModel.MergeLogs
import LemoModel.CopyHeap
import LemoModel.CopySlice
namespace Driver.C07
open LemoModel.Journal LemoModel.JournalDirty Driver

structure D where
  init : Nat → Acct := fun _ => {}
  /-- the journal with its pending-write layer (LemoModel.JournalDirty); `ds.st` is the Journal model's state -/
  ds : DSt := { st := { accts := fun _ => {} } }
  /-- mirrors the code under test: undo of a storage / asset-id / equity write leaves no pending write (fix 3a69bc7) -/
  xu : Bool := true
  -- counter restore (5712ccd) and nil-equity undo (1ec51f5) are in the current tree: `revertD` runs `revert true true`
  codes : List Nat := []

def joinWith (sep : String) (l : List String) : String := sep.intercalate l

def showCodeHash (h : Nat) : String := if h = 0 ∨ h = 1 then "E" else s!"h{h - 10}"
def showCode (a : Acct) : String :=
  match a.getCode with
  | none => "err"
  | some 0 => "-"
  | some id => s!"c{id}"
def r (b : Bool) : String := if b then "R" else "0"
/-- raw profile slot (0 = key absent, n+1 = present with value n) as the harness prints it -/
def slot (p : Nat) : String := if p = 0 then "-" else toString (p - 1)
def slot? (w : String) : Option Nat := if w == "-" then some 0 else w.toNat?.map (· + 1)

def dumpAcct (i : Nat) (a : Acct) : String :=
  let p := s!"a{i}."
  let ac := joinWith "," ([1, 2].map fun k => match a.getAssetCode k with
    | none => "-"
    | some as => s!"{as.supply};{slot as.p1};{slot as.p2}")
  let ai := joinWith "," ([1, 2].map fun k => toString (a.getAssetId k))
  let eq := joinWith "," ([1, 2].map fun k => match a.getEquity k with
    | none => "-"
    | some v => toString v)
  let prof := joinWith "," ([1, 2, 3].map fun k => toString (a.profile k))
  let sg := joinWith "," (a.signers.map fun (x, w) => s!"{x}:{w}")
  let sto := joinWith "," ([1, 2, 3].map fun k => toString (a.getStorage k))
  s!"{p}assetcode={ac} {p}assetid={ai} {p}bal={a.balance} {p}code={showCode a} {p}codehash={showCodeHash a.codeHash} {p}equity={eq} {p}profile={prof} {p}roots={r a.sRoot}{r a.acRoot}{r a.aiRoot}{r a.eRoot} {p}signers={sg} {p}storage={sto} {p}sui={a.suicided} {p}votefor={a.voteFor} {p}votes={a.votes} "

def showKeys (l : List Nat) : String := joinWith "," (l.map toString)

/-- the key sets of the four `dirty` maps of every account, as `VerifDirtyKeys` returns them -/
def dumpDirty (d : Nat → Dirty) : String :=
  String.join ([0, 1, 2, 3].map fun i =>
    let x := d i
    s!"{i}[{showKeys x.s}|{showKeys x.ac}|{showKeys x.ai}|{showKeys x.e}]")

def dump (ds : DSt) : String :=
  let s := ds.st
  let accts := String.join ([0, 1, 2, 3].map fun i => dumpAcct i (s.accts i))
  let j := String.join (s.logs.map fun l => s!"{l.addr}.{l.ty}.{l.ver},")
  "D:" ++ dumpDirty ds.dirty ++ " " ++ accts ++ "J:" ++ j

/-- label of the NEW root of a published root log: the trie now holds exactly what the getters return.
    E = the empty trie's hash, R = the root the account was loaded with, X = anything else.
    The harness' key universe is 1..3; queued keys are looked at too. -/
def newRootLabel (a : Acct) (d : Dirty) (ty : Nat) : String :=
  let lab (ks : List Nat) (empty same : Nat → Bool) : String :=
    if ks.all empty then "E" else if ks.all same then "R" else "X"
  if ty = tStorageRoot then lab ([1, 2, 3] ++ d.s) (fun k => a.storage k == 0) (fun k => a.storage k == a.com.storage k)
  else if ty = tAssetCodeRoot then lab ([1, 2, 3] ++ d.ac) (fun k => a.assetCode k == none) (fun k => a.assetCode k == a.com.assetCode k)
  else if ty = tAssetIdRoot then lab ([1, 2, 3] ++ d.ai) (fun k => a.assetId k == 0) (fun k => a.assetId k == a.com.assetId k)
  else lab ([1, 2, 3] ++ d.e) (fun k => a.equity k == none) (fun k => a.equity k == a.com.equity k)

def showPLog (ds : DSt) (l : PLog) : String :=
  match l.root with
  | none => s!"{l.addr}.{l.ty}.{l.ver}"
  | some old => s!"{l.addr}.{l.ty}.{l.ver}:{if old then "R" else "0"}>{newRootLabel (ds.st.accts l.addr) (ds.dirty l.addr) l.ty}"

def parseSigners : List String → Option (List (Nat × Nat))
  | [] => some []
  | x :: xs =>
    match x.splitOn ":" with
    | [a, w] =>
      match a.toNat?, w.toNat?, parseSigners xs with
      | some a, some w, some r => some ((a, w) :: r)
      | _, _, _ => none
    | _ => none

def parseWrite : List String → Option Write
  | ["bal", v] => (parseInt? v).map .balance
  | ["votes", v] => (parseInt? v).map .votes
  | ["votefor", v] => v.toNat?.map .voteFor
  | "signers" :: "-" :: rest => (parseSigners rest).map .signers
  | ["sto", k, v] => do some (.storage (← k.toNat?) (← v.toNat?))
  | ["aid", k, v] => do some (.assetId (← k.toNat?) (← v.toNat?))
  | ["eq", k, v] => do some (.equity (← k.toNat?) (some (← parseInt? v)))
  | ["eqnil", k] => do some (.equity (← k.toNat?) none)
  | ["ac", k, s, p1] => do some (.assetCode (← k.toNat?) (some { supply := (← parseInt? s), p1 := (← p1.toNat?) + 1, p2 := 0 }))
  | ["acnil", k] => do some (.assetCode (← k.toNat?) none)
  | ["acs", c, k, v] => do some (.assetCodeState (← c.toNat?) (← k.toNat?) (← v.toNat?))
  | ["act", c, v] => do some (.assetCodeSupply (← c.toNat?) (← parseInt? v))
  | ["cand", v1, v2] => do
    let v1 ← v1.toNat?; let v2 ← v2.toNat?
    some (.candidate (fun k => if k = 1 then v1 else if k = 2 then v2 else 0))
  | ["cs", k, v] => do some (.candidateState (← k.toNat?) (← v.toNat?))
  | ["code", id] => id.toNat?.map .code
  | ["ev"] => some .event
  | ["sui"] => some .suicide
  | _ => none

def setInit (d : D) (i : Nat) (f : Acct → Acct) : D := { d with init := upd d.init i (f (d.init i)) }

/-- `init` lines describe the base block's state as read from the real manager -/
def stepInit (d : D) : List String → Option D
  | [i, "bal", v] => do let v ← parseInt? v; some (setInit d (← i.toNat?) fun a => { a with balance := v })
  | [i, "votes", v] => do let v ← parseInt? v; some (setInit d (← i.toNat?) fun a => { a with votes := v })
  | [i, "votefor", v] => do let v ← v.toNat?; some (setInit d (← i.toNat?) fun a => { a with voteFor := v })
  | [i, "profile", k, v] => do
    let k ← k.toNat?; let v ← v.toNat?
    some (setInit d (← i.toNat?) fun a => { a with profile := upd a.profile k v })
  | i :: "signers" :: "-" :: rest => do
    let ss ← parseSigners rest
    some (setInit d (← i.toNat?) fun a => { a with signers := ss })
  | [i, "code", id] => do
    let id ← id.toNat?
    let d := setInit d (← i.toNat?) fun a => { a with codeHash := 10 + id }
    some { d with codes := id :: d.codes }
  | [i, "storage", k, v] => do
    let k ← k.toNat?; let v ← v.toNat?
    some (setInit d (← i.toNat?) fun a => { a with sRoot := true, storage := upd a.storage k v, com := { a.com with storage := upd a.com.storage k v } })
  | [i, "assetcode", k, s, p1, p2] => do
    let k ← k.toNat?; let s ← parseInt? s; let p1 ← slot? p1; let p2 ← slot? p2
    some (setInit d (← i.toNat?) fun a => { a with acRoot := true, assetCode := upd a.assetCode k (some { supply := s, p1 := p1, p2 := p2 }), com := { a.com with assetCode := upd a.com.assetCode k (some { supply := s, p1 := p1, p2 := p2 }) } })
  | [i, "assetid", k, v] => do
    let k ← k.toNat?; let v ← v.toNat?
    some (setInit d (← i.toNat?) fun a => { a with aiRoot := true, assetId := upd a.assetId k v, com := { a.com with assetId := upd a.com.assetId k v } })
  | [i, "equity", k, v] => do
    let k ← k.toNat?; let v ← parseInt? v
    some (setInit d (← i.toNat?) fun a => { a with eRoot := true, equity := upd a.equity k (some v), com := { a.com with equity := upd a.com.equity k (some v) } })
  | [i, "base", t, v] => do
    let t ← t.toNat?; let v ← v.toNat?
    some (setInit d (← i.toNat?) fun a => { a with baseVer := upd a.baseVer t v, nextVer := upd a.nextVer t v })
  | _ => none

def showOut : Out → String
  | .ok => "ok"
  | .err => "err"
  | .snap id => s!"snap {id}"
  | .panic => "panic"

def parseLog (w : String) : Option LemoModel.MergeLogs.L :=
  match w.splitOn ":" with
  | [t, e, v] => do some (LemoModel.MergeLogs.mkL (← t.toNat?) (← e.toNat?) (← parseInt? v))
  | _ => none

def showLog (l : LemoModel.MergeLogs.L) : String :=
  match l.writes with
  | [(_, v)] => s!"{l.key / 100}:{l.key % 100}:{v}"
  | _ => "?"

/-! `copy` ops: LemoModel.CopyHeap against the real AccountData.Copy -/
open LemoModel.CopyHeap in
def copyShape (h : Heap) (s : String) : Option (Heap × Ref) :=
  if s == "nil" then some (h, none)
  else if s == "e" then some (h ++ [[]], some h.length)
  else match (s.drop 1).toNat? with
    | some n => if s.take 1 == "n" then some (h ++ [((List.range n).map (fun i => (i + 1, 7))).reverse], some h.length) else none
    | none => none

def parseW (w : String) : Option (Nat × Nat × Nat) :=
  match w.splitOn ":" with
  | [f, k, v] => do some ((← f.toNat?), (← k.toNat?), (← v.toNat?))
  | _ => none

/-- canonical content of a map: latest binding per key, sorted by the key's decimal text like the harness does -/
def showMap (m : List (Nat × Nat)) : String :=
  let keys := (m.map (·.1)).eraseDups
  let ents := keys.map (fun k => (toString k, toString ((m.find? (fun e => e.1 == k)).map (·.2) |>.getD 0)))
  let sorted := ents.toArray.qsort (fun a b => a.1 < b.1) |>.toList
  "{" ++ ",".intercalate (sorted.map (fun e => e.1 ++ "=" ++ e.2)) ++ "}"

open LemoModel.CopyHeap in
def copyOp (ps rs : String) (ws : List String) : Option String := do
  let (h1, p) ← copyShape [] ps
  let (h2, r) ← copyShape h1 rs
  let ws ← ws.mapM parseW
  let src : AD := { profile := p, records := r }
  let c := copy true h2 src
  let w := writes c.1 c.2 ws
  some s!"src.profile={showMap (rd w.1 src.profile)} src.records={showMap (rd w.1 src.records)} cpy.profile={showMap (rd w.1 w.2.profile)} cpy.records={showMap (rd w.1 w.2.records)}"

/-- `copysig n v1 v2 …` (each v = comma list, `-` = empty): LemoModel.CopySlice against Copy + SetSingers -/
def parseList (w : String) : Option (List Nat) :=
  if w == "-" then some [] else (w.splitOn ",").mapM (·.toNat?)

open LemoModel.CopySlice in
def copySigOp (n : String) (vs : List String) : Option String := do
  let n ← n.toNat?
  let vs ← vs.mapM parseList
  let src : Option Slice := if n = 0 then none else some ⟨0, n⟩
  let h : Heap := if n = 0 then [] else [(List.range n).map (· + 1)]
  let r := sets false h src vs
  let sh := fun (l : List Nat) => "[" ++ ",".intercalate (l.map toString) ++ "]"
  some s!"src={sh (rd r.1 src)} cpy={sh (rd r.1 r.2)}"

def step (d : D) (w : List String) : D × String :=
  match w with
  | "copysig" :: n :: vs =>
    match copySigOp n vs with
    | some o => (d, o)
    | none => (d, "bad-op")
  | "copy" :: ps :: rs :: ws =>
    match copyOp ps rs ws with
    | some o => (d, o)
    | none => (d, "bad-op")
  | ["needmerge", t, b] =>
    match t.toNat? with
    | some t => (d, if toString (LemoModel.MergeLogs.needMerge t) == b then "ok" else "table-mismatch")
    | none => (d, "bad-op")
  | ["needmerge-stop", n] => (d, if n.toNat? == some LemoModel.MergeLogs.logTypeStop then "ok" else "table-mismatch")
  | "merge" :: ws =>
    match ws.mapM parseLog with
    | some logs => (d, " ".intercalate ("merged" :: (LemoModel.MergeLogs.merge logs).map showLog))
    | none => (d, "bad-op")
  | "init" :: rest =>
    match stepInit d rest with
    | some d' => (d', "ok")
    | none => (d, "bad-op")
  | ["reset"] =>
    let s : St := { accts := fun i => { d.init i with com := { (d.init i).com with codes := d.codes } } }
    let ds : DSt := { st := s }
    ({ d with ds := ds }, "ok | " ++ dump ds)
  | ["snap"] =>
    let (s, o) := snapshotD d.ds
    ({ d with ds := s }, showOut o ++ " | " ++ dump s)
  | ["rev", id] =>
    match id.toNat? with
    | none => (d, "bad-op")
    | some id =>
      let (s, o) := revertD d.xu d.ds id
      if o == .panic then (d, "panic") else ({ d with ds := s }, showOut o ++ " | " ++ dump s)
  | "w" :: i :: rest =>
    match i.toNat?, parseWrite rest with
    | some i, some wr =>
      let (s, o) := writeD d.ds i wr
      if o == .panic then (d, "panic") else ({ d with ds := s }, showOut o ++ " | " ++ dump s)
    | _, _ => (d, "bad-op")
  | ["fin"] =>
    -- MergeChangeLogs + Finalise on the manager as it is (the script ends here: the harness resets next)
    (d, "fin " ++ joinWith "," ((publish d.ds).map (showPLog d.ds)))
  | _ => (d, "bad-op")

end Driver.C07

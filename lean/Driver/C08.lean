import Driver.Util
import LemoModel.Wal
namespace Driver.C08
open LemoModel LemoModel.Wal Driver

structure St where
  file : Bytes := []

def hexDigit (n : Nat) : Char :=
  if n < 10 then Char.ofNat (48 + n) else Char.ofNat (87 + n)

def hexOf (b : Bytes) : String :=
  String.ofList (b.foldr (fun x acc => hexDigit (x.toNat / 16) :: hexDigit (x.toNat % 16) :: acc) [])

def hexOrDash (b : Bytes) : String := if b.isEmpty then "-" else hexOf b

def nibble? (c : Char) : Option Nat :=
  if '0' ≤ c ∧ c ≤ '9' then some (c.toNat - 48)
  else if 'a' ≤ c ∧ c ≤ 'f' then some (c.toNat - 87)
  else none

partial def parseHexAux : List Char → Bytes → Option Bytes
  | [], acc => some acc.reverse
  | [_], _ => none
  | a :: b :: rest, acc =>
    match nibble? a, nibble? b with
    | some x, some y => parseHexAux rest (UInt8.ofNat (x * 16 + y) :: acc)
    | _, _ => none

def parseHex? (s : String) : Option Bytes :=
  if s == "-" then some [] else parseHexAux s.toList []

def fnv32 (b : Bytes) : Nat :=
  b.foldl (fun h x => ((h ^^^ x.toNat) * 16777619) % 4294967296) 2166136261

def recStr (r : Record) : String :=
  s!"{r.flg}:{hexOrDash r.key}:{r.val.length}:{fnv32 r.val}"

def showScan (o : ScanOut) : String :=
  let tail := o.recs.foldl (fun acc r => acc ++ " " ++ recStr r) ""
  match o.stop with
  | .eof => s!"eof ret={o.off} off={o.off} n={o.recs.length}{tail}"
  | .err e => s!"err:{e} ret=-1 off={o.off} n={o.recs.length}{tail}"
  | .hang => s!"hang off={o.off}"
  | .fuel => s!"model-fuel off={o.off}"

def step (s : St) (w : List String) : St × String :=
  match w with
  | ["headlen"] => (s, toString (encodeHead 0 0 0 0).length)
  | ["enc", f, k, v] =>
    match f.toNat?, parseHex? k, parseHex? v with
    | some f, some k, some v => (s, hexOf (fileUtilsEncode 0 ⟨f, k, v⟩))
    | _, _, _ => (s, "bad-op")
  | ["file", h] =>
    match parseHex? h with
    | some b => ({ file := b }, s!"len {b.length}")
    | none => (s, "bad-op")
  | ["scan", cut, zt] =>
    match cut.toNat?, zt.toNat? with
    | some cut, some zt => (s, showScan (scan (s.file.take cut ++ zeros zt)))
    | _, _ => (s, "bad-op")
  | ["ctxproto"] =>
    -- the context.data protocol the model is about: `ctxCrash` never changes `main` except by the rename,
    -- and `ctxLoad` never looks at the temp file
    let fs : CtxFs := ⟨some [1], none⟩
    let atomic := (ctxLoad (ctxCrash fs [2, 3] (.tmpWritten 1)) == some [1]) && (ctxLoad (ctxCrash fs [2, 3] .renamed) == some [2, 3])
    (s, if atomic then "rename tmp-ignored" else "inplace")
  | ["scanlegacy", cut, zt] =>
    match cut.toNat?, zt.toNat? with
    | some cut, some zt => (s, showScan (scanLegacy (s.file.take cut ++ zeros zt)))
    | _, _ => (s, "bad-op")
  | _ => (s, "bad-op")

end Driver.C08

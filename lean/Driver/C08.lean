import Driver.Util
import LemoModel.Wal
import LemoModel.Bitcask
namespace Driver.C08
open LemoModel LemoModel.Wal LemoModel.Bitcask Driver

structure St where
  file : Bytes := []
  q : QState := QState.init
  wfile : Bytes := []
  woff : Nat := 0
  wpend : Nat := 0
  b : Sys := Sys.init      -- queue + one bitcask at durable-step granularity (LemoModel.Bitcask)

def hexDigit (n : Nat) : Char :=
  if n < 10 then Char.ofNat (48 + n) else Char.ofNat (87 + n)

def hexOf (b : Bytes) : String :=
  String.ofList (b.foldr (fun x acc => hexDigit (x.toNat / 16) :: hexDigit (x.toNat % 16) :: acc) [])

def hexOrDash (b : Bytes) : String := if b.isEmpty then "-" else hexOf b

def nibble? (c : Char) : Option Nat :=
  if '0' ≤ c ∧ c ≤ '9' then some (c.toNat - 48)
  else if 'a' ≤ c ∧ c ≤ 'f' then some (c.toNat - 87)
  else none

partial def parseHexAux : List Char → Bytes → Option Bytes
  | [], acc => some acc.reverse
  | [_], _ => none
  | a :: b :: rest, acc =>
    match nibble? a, nibble? b with
    | some x, some y => parseHexAux rest (UInt8.ofNat (x * 16 + y) :: acc)
    | _, _ => none

def parseHex? (s : String) : Option Bytes :=
  if s == "-" then some [] else parseHexAux s.toList []

def fnv32 (b : Bytes) : Nat :=
  b.foldl (fun h x => ((h ^^^ x.toNat) * 16777619) % 4294967296) 2166136261

def recStr (r : Record) : String :=
  s!"{r.flg}:{hexOrDash r.key}:{r.val.length}:{fnv32 r.val}"

def showScan (o : ScanOut) : String :=
  let tail := o.recs.foldl (fun acc r => acc ++ " " ++ recStr r) ""
  match o.stop with
  | .eof => s!"eof ret={o.off} off={o.off} n={o.recs.length}{tail}"
  | .err e => s!"err:{e} ret=-1 off={o.off} n={o.recs.length}{tail}"
  | .hang => s!"hang off={o.off}"
  | .fuel => s!"model-fuel off={o.off}"

def insertSorted (x : String) : List String → List String
  | [] => [x]
  | y :: ys => if x < y then x :: y :: ys else y :: insertSorted x ys

def sortStrings (l : List String) : List String := l.foldl (fun acc x => insertSorted x acc) []

def showIdx (idx : Index) : String :=
  String.intercalate "," (sortStrings (idx.map (fun e => s!"0x{hexOf e.key}:{e.flg}:{e.cnt}")))

def showQ (q : QState) : String :=
  let w := q.wal.foldl (fun acc r => acc ++ " " ++ recStr r) ""
  s!"idx=[{showIdx q.index}] pending={q.pending.length} wal={q.wal.length}{w}"

def showVal : Option Bytes → String
  | none => "none"
  | some v => s!"{v.length}:{fnv32 v}"

/-- what a restart after a crash now would serve, key by key, and which promised values are lost -/
def showCrash (q : QState) : String :=
  let keys := ((q.done ++ q.pending).map (fun r => (r.flg, r.key))).eraseDups
  let lines := keys.map (fun k => s!"{k.1}:{hexOrDash k.2}={showVal (q.recovered k)}")
  let lost := keys.filter (fun k => q.recovered k != q.promised k)
  let lostS := lost.map (fun k => s!"{k.1}:{hexOrDash k.2}")
  s!"rec=[{String.intercalate "," (sortStrings lines)}] lost=[{String.intercalate "," (sortStrings lostS)}]"

def parseRec? (w : String) : Option Record :=
  match w.splitOn ":" with
  | [f, k, v] =>
    match f.toNat?, parseHex? k, parseHex? v with
    | some f, some k, some v => some ⟨f, k, v⟩
    | _, _, _ => none
  | _ => none

def parseRecs? : List String → Option (List Record)
  | [] => some []
  | w :: ws =>
    match parseRec? w, parseRecs? ws with
    | some r, some rs => some (r :: rs)
    | _, _ => none

def parseKey? (w : String) : Option (Nat × Bytes) :=
  match w.splitOn ":" with
  | [f, k] =>
    match f.toNat?, parseHex? k with
    | some f, some k => some (f, k)
    | _, _ => none
  | _ => none

def showGet : GetRes → String
  | .notFound => "none"
  | .err e => s!"err:{e}"
  | .ok v => s!"ok {v.length}:{fnv32 v}"

def showPos : Option Nat → String
  | none => "none"
  | some o => toString o

def showBC (b : Sys) : String := s!"cur={b.bc.cur} size={b.bc.file.length}"

/-- `n` durable steps of the writer -/
def bSteps (b : Sys) (n : Nat) : Sys := (List.replicate n (Op.step 0)).foldl (Bitcask.step false) b

def headKey (b : Sys) : Option StoreKey := b.q.pending.head?.map (fun r => (r.flg, r.key))

def showHeadPos (b : Sys) (k : Option StoreKey) : String :=
  match k with
  | none => "none"
  | some k => showPos (b.bc.pos k)

def step (s : St) (w : List String) : St × String :=
  match w with
  | ["bnew"] => ({ s with b := Sys.init }, "ok")
  | ["bput", w1] =>
    match parseRec? w1 with
    | some r =>
      let b := Bitcask.step false s.b (.put r)
      ({ s with b := b }, s!"pend={b.q.pending.length} wal={b.q.wal.length}")
    | none => (s, "bad-op")
  | ["bdone"] =>
    -- the writer stores the oldest pending record completely (three durable steps) and reports Done
    let k := headKey s.b
    let b := bSteps s.b 3
    ({ s with b := b }, s!"{showBC b} pos={showHeadPos b k}")
  | ["bcrash", n] =>
    -- the process dies after `n` durable steps of the put of the oldest pending record; restart
    match n.toNat? with
    | some n =>
      let k := headKey s.b
      let b := Bitcask.step false (bSteps s.b (min n 3)) .crash
      ({ s with b := b }, s!"{showBC b} pend={b.q.pending.length} pos={showHeadPos b k}")
    | none => (s, "bad-op")
  | ["btorn", c] =>
    -- the process dies in the middle of the data-file write of the oldest pending record: `c` bytes written; restart
    match c.toNat? with
    | some c =>
      let k := headKey s.b
      let b := Bitcask.step false s.b (.torn 0 c)
      ({ s with b := b }, s!"{showBC b} pend={b.q.pending.length} pos={showHeadPos b k}")
    | none => (s, "bad-op")
  | ["bget", w1] =>
    match parseKey? w1 with
    | some (f, k) => (s, showGet (bcGet s.b.bc f k))
    | none => (s, "bad-op")
  | ["bdrain"] =>
    let b := drain false s.b
    ({ s with b := b }, s!"{showBC b} pend={b.q.pending.length}")
  | ["bputd", w1] =>
    match parseRec? w1 with
    | some r =>
      let b := drain false (Bitcask.step false s.b (.put r))
      ({ s with b := b }, s!"{showBC b} pos={showPos (b.bc.pos (r.flg, r.key))}")
    | none => (s, "bad-op")
  | ["brestart"] =>
    let b := drain false (Bitcask.step false s.b .crash)
    ({ s with b := b }, s!"{showBC b} pend={b.q.pending.length}")
  | ["headlen"] => (s, toString (encodeHead 0 0 0 0).length)
  | ["enc", f, k, v] =>
    match f.toNat?, parseHex? k, parseHex? v with
    | some f, some k, some v => (s, hexOf (fileUtilsEncode 0 ⟨f, k, v⟩))
    | _, _, _ => (s, "bad-op")
  | ["file", h] =>
    match parseHex? h with
    | some b => ({ file := b }, s!"len {b.length}")
    | none => (s, "bad-op")
  | ["scan", cut, zt] =>
    match cut.toNat?, zt.toNat? with
    | some cut, some zt => (s, showScan (scan (s.file.take cut ++ zeros zt)))
    | _, _ => (s, "bad-op")
  | ["wload", h] =>
    match parseHex? h with
    | some b => ({ s with wfile := b, woff := 0, wpend := 0 }, s!"len {b.length}")
    | none => (s, "bad-op")
  | ["wrestart"] =>
    match checkFile s.wfile with
    | some (f, off, recs) =>
      let tail := recs.foldl (fun acc r => acc ++ " " ++ recStr r) ""
      ({ s with wfile := f, woff := off, wpend := recs.length }, s!"ok off={off} size={f.length} n={recs.length}{tail}")
    | none =>
      match (scan s.wfile).stop with
      | .err e => (s, s!"fail:err:{e}")
      | _ => (s, "fail:hang")
  | ["wdrain"] => ({ s with wpend := 0 }, "ok idx=0")
  | ["wput", w1] =>
    match parseRec? w1 with
    | some r =>
      -- emptyFile (file emptied only when nothing is pending), then write at the write position
      let enc := fileUtilsEncode 0 r
      let (f1, o1) := putBytes emptyFileBytes (s.wpend == 0) s.wfile s.woff enc
      ({ s with wfile := f1, woff := o1, wpend := s.wpend + 1 }, s!"ok off={o1} size={f1.length}")
    | none => (s, "bad-op")
  | ["qnew"] => ({ s with q := QState.init }, "ok")
  | "qput" :: ws =>
    match parseRecs? ws with
    | some [r] => let (q, _) := qStep false s.q (.put r); ({ s with q := q }, showQ q)
    | _ => (s, "bad-op")
  | "qbatch" :: ws =>
    match parseRecs? ws with
    | some rs => let (q, _) := qStep false s.q (.batch rs); ({ s with q := q }, showQ q)
    | none => (s, "bad-op")
  | ["qdone"] =>
    let (q, p) := qStep false s.q .done
    ({ s with q := q }, if p then "panic " ++ showQ q else showQ q)
  | ["qcrash"] => (s, showCrash s.q)
  | ["qrestart"] =>
    -- FileQueue.Start on a copy of the directory: what start-up hands to the writer again (the state is not changed)
    let q := qRestart false s.q
    let w := q.pending.foldl (fun acc r => acc ++ " " ++ recStr r) ""
    (s, s!"idx=[{showIdx q.index}] redelivered={q.pending.length}{w}")
  | ["steps"] => (s, String.intercalate " " commitSteps)
  | ["ctxproto"] =>
    -- the context.data protocol the model is about: `ctxCrash` never changes `main` except by the rename,
    -- and `ctxLoad` never looks at the temp file
    let fs : CtxFs := ⟨some [1], none⟩
    let atomic := (ctxLoad (ctxCrash fs [2, 3] (.tmpWritten 1)) == some [1]) && (ctxLoad (ctxCrash fs [2, 3] .renamed) == some [2, 3])
    (s, if atomic then "rename tmp-ignored" else "inplace")
  | ["scanlegacy", cut, zt] =>
    match cut.toNat?, zt.toNat? with
    | some cut, some zt => (s, showScan (scanLegacy (s.file.take cut ++ zeros zt)))
    | _, _ => (s, "bad-op")
  | _ => (s, "bad-op")

end Driver.C08

import Driver.Util
import LemoModel.UTree
namespace Driver.C09
open LemoModel.CowTrie LemoModel.UTree Driver

structure DSt where
  st : St := {}
  keys : List Key := []
  labels : List Nat := []     -- every label mentioned by a `block` op of this case, ascending
  /-- which `put` the model runs: PINNED to `true` = the code in /repo since fix fb6e64c (split case copies the
      children slice).  `variant asis` (the code before the fix) is only used by legacy witness scripts; the harness
      never sends it — a code under test that aliases again breaks the correspondence instead of being followed. -/
  fixed : Bool := true

def keyOfHex (hex : String) : Key := ("0x" ++ hex).toList.map (·.toNat)

def keyStr (k : Key) : String := String.ofList (k.map Char.ofNat)

def insertSorted (l : Nat) : List Nat → List Nat
  | [] => [l]
  | x :: xs => if l < x then l :: x :: xs else if l = x then x :: xs else x :: insertSorted l xs

def showOpt : Option Nat → String
  | some v => toString v
  | none => "none"

def showResOpt : Res (Option Nat) → String
  | .ok v => showOpt v
  | .panic => "panic"
  | .stuck => "stuck"

def parseParent (s : String) : Option (Option Nat) :=
  if s == "-" then some none else s.toNat?.map some

/-! canonical dump of the node/array graph, same text as `store.VerifTrieShape` -/

structure Vis where
  nodes : List (Nat × Nat) := []
  arrs : List (Nat × Nat) := []

def shapeNode : Nat → Heap → Vis → Nat → Vis × String
  | 0, _, v, _ => (v, "stuck")
  | fuel + 1, h, v, id =>
    match v.nodes.lookup id with
    | some pid => (v, s!"n{pid}")
    | none =>
      match h.nodes[id]? with
      | none => (v, "stuck")
      | some n =>
        let pid := v.nodes.length
        let v := { v with nodes := (id, pid) :: v.nodes }
        let cap := (cellsOf h n.arr).length
        let (v, arr) :=
          if cap = 0 then (v, "a-")
          else match v.arrs.lookup n.arr with
            | some aid => (v, s!"a{aid}")
            | none =>
              let aid := v.arrs.length + 1
              ({ v with arrs := (n.arr, aid) :: v.arrs }, s!"a{aid}")
        let cells := (cellsOf h n.arr).take n.len
        let (v, parts) := cells.foldl (fun (acc : Vis × List String) c =>
            match c with
            | none => (acc.1, acc.2 ++ ["nil"])
            | some c =>
              let (v', s) := shapeNode fuel h acc.1 c
              (v', acc.2 ++ [s])) (v, [])
        let term := if n.terminal then "T" else "-"
        let data := match n.data with
          | some d => toString d.val
          | none => "_"
        (v, s!"n{pid}\{{keyStr n.key}|{n.dye}|{term}|{data}|{arr}:{n.len}/{cap}[{" ".intercalate parts}]}")

def shape (s : St) (labels : List Nat) : String :=
  let roots := s.stableRoot :: (labels.filterMap (fun l => (findBlk s l).map (·.root)))
  let (_, parts) := roots.foldl (fun (acc : Vis × List String) r =>
      let (v', str) := shapeNode (s.heap.nodes.length + 1) s.heap acc.1 r
      (v', acc.2 ++ [str])) (({} : Vis), [])
  " ".intercalate parts

def idxKeys (keys : List Key) : List (Nat × Key) := (List.range keys.length).zip keys

def dump (d : DSt) : String :=
  let s := d.st
  let ks := idxKeys d.keys
  let st := match s.stable with
    | some (l, _) => toString l
    | none => "-"
  let it := ",".intercalate ((iterate s).map toString)
  let disk := ",".intercalate (ks.map (fun (i, _) => showOpt ((diskGet s i).map (·.val))))
  let per := d.labels.map (fun l =>
    let e := if isExist s l then "E" else "-"
    let u := if (findBlk s l).isSome then "U" else "-"
    let viewable := (findBlk s l).isSome || stableLabel s == some l
    if viewable then
      let views := ",".intercalate (ks.map (fun (i, k) => showResOpt (peekAcct s l k i)))
      let ht := match findBlk s l with
        | some b => b.height
        | none => match s.stable with
          | some (_, h) => h
          | none => 0
      let coll := match rootOf s l with
        | .ok r => match collectTop s.heap r ht with
          | .ok ds => ",".intercalate (ds.map (fun (x : Data) => s!"{x.addr}:{x.val}"))
          | .panic => "panic"
          | .stuck => "stuck"
        | _ => "panic"
      s!" | {l}:{e}{u} {views} c={coll}"
    else s!" | {l}:{e}{u}")
  s!"st={st} it={it} disk={disk}" ++ String.join per

/-- the pinned SYNTACTIC call-site list next to the usage guard of `Put` (`PutGuardU`).  It is a string equality in this
    driver, not a Lean fact, and the list is built by a go/ast scan of the harness (c09_boot.go, syntax only, no types, no
    control flow).  What it pins: the textual callers of a 2-argument `Put` / of a 3-argument `Put` on a receiver spelled
    `*.trie` (today: `Manager.Save`, `CBlock.dye`, the two wrappers in act_database.go) and the textual callers of
    `am.Save(x)` / `*.am.Save(x)` with the tag `after-SetBlock` = "an EARLIER `SetBlock` call in the same function has the same
    first-argument TEXT".  What it does NOT show: that the `Save` only runs when that `SetBlock` SUCCEEDED (the pinned entry
    `test_chain.go:saveBlock` goes on after `store.ErrExist`, i.e. it Saves onto a block that already exists — exactly the
    unproved late-write case; the two production callers `saveToStore` and `SetupGenesisBlock` do return / panic on every
    `SetBlock` error, by reading), the dye argument of any `Put`, the number of `Save`s per `SetBlock`, `Put`s reached through
    `adb.GetTrie().Put` / a local variable / a method value, `AccountTrieDB.Set` / `SetTrie` / `DelDye`.  A new textual caller
    changes the string and breaks the correspondence here; nothing more is claimed. -/
def expectedPutSites : String :=
  "chain/account/manager.go:Save:acctDatabase,store/act_database.go:Put:db.trie,store/act_database.go:Put:db.trie,store/cblock.go:dye:block.CandidateTrieDB | chain/consensus/dpovp.go:saveToStore:after-SetBlock,chain/genesis.go:SetupGenesisBlock:after-SetBlock,chain/testchain/test_chain.go:saveBlock:after-SetBlock"

def step (d : DSt) (w : List String) : DSt × String :=
  match w with
  | "putsites" :: rest =>
    (d, if " ".intercalate rest == expectedPutSites then "ok" else "changed: the callers of Put / Manager.Save differ from the pinned expectation")
  | ["variant", "asis"] => ({ d with fixed := false }, "ok")
  | ["variant", "fixed"] => ({ d with fixed := true }, "ok")
  | ["open"] => ({ st := openDb [] [] none, fixed := d.fixed }, "ok")
  | ["reopen"] => ({ d with st := d.st.reopen }, "ok")
  | ["key", i, hex] =>
    match i.toNat? with
    | some i => if i = d.keys.length then ({ d with keys := d.keys ++ [keyOfHex hex] }, "ok") else (d, "bad-op")
    | none => (d, "bad-op")
  | ["block", l, p, h] =>
    match l.toNat?, parseParent p, h.toNat? with
    | some l, some p, some h =>
      let d := { d with labels := insertSorted l d.labels }
      match setBlock d.st l p h with
      | .ok s => ({ d with st := s }, "ok")
      | .error .exist => (d, "err exist")
      | .error .argInvalid => (d, "err arg")
    | _, _, _ => (d, "bad-op")
  | ["put", l, k, v] =>
    match l.toNat?, k.toNat?, v.toNat? with
    | some l, some k, some v =>
      match d.keys[k]? with
      | none => (d, "bad-op")
      | some key =>
        match putAcct d.fixed d.st l key k v with
        | .ok s => ({ d with st := s }, "ok")
        | .panic => (d, "panic")
        | .stuck => (d, "stuck")
    | _, _, _ => (d, "bad-op")
  | ["get", l, k] =>
    match l.toNat?, k.toNat? with
    | some l, some k =>
      match d.keys[k]? with
      | none => (d, "bad-op")
      | some key =>
        match getAcct d.st l key k with
        | .ok (s, v) => ({ d with st := s }, showOpt v)
        | .panic => (d, "panic")
        | .stuck => (d, "stuck")
    | _, _ => (d, "bad-op")
  | ["stable", l] =>
    match l.toNat? with
    | some l =>
      match setStable d.st l with
      | .ok none => (d, "err arg")
      | .ok (some (s, rm)) => ({ d with st := s }, "ok " ++ ",".intercalate (rm.map toString))
      | .panic => (d, "panic")
      | .stuck => (d, "stuck")
    | none => (d, "bad-op")
  | ["anc", h, leaf] =>
    match h.toNat?, leaf.toNat? with
    | some h, some leaf => (d, showResOpt (unconfirmByHeight d.st h leaf))
    | _, _ => (d, "bad-op")
  | ["dump"] => (d, dump d)
  | ["shape"] => (d, shape d.st d.labels)
  | _ => (d, "bad-op")

end Driver.C09

import Driver.Util
import LemoModel.Ranking
import LemoModel.CandCache

/-! `cc` ops: the byte-level model of store.CandidateCache / RunContext.load (LemoModel/CandCache.lean) -/
namespace Driver.C10.CC
open LemoModel.CandCache

def hexVal (c : Char) : Option Nat :=
  if '0' ≤ c ∧ c ≤ '9' then some (c.toNat - 48)
  else if 'a' ≤ c ∧ c ≤ 'f' then some (c.toNat - 87)
  else none

def hexChars : List Char → Option (List UInt8)
  | [] => some []
  | [_] => none
  | a :: b :: r => do
    let x ← hexVal a
    let y ← hexVal b
    let t ← hexChars r
    some (UInt8.ofNat (x * 16 + y) :: t)

def parseHex (s : String) : Option (List UInt8) := if s == "-" then some [] else hexChars s.toList
def showHex (l : List UInt8) : String := if l.isEmpty then "-" else LemoModel.Rlp.hexOf l

def ltB : List UInt8 → List UInt8 → Bool
  | [], [] => false
  | [], _ => true
  | _, [] => false
  | x :: xs, y :: ys => if x.toNat < y.toNat then true else if y.toNat < x.toNat then false else ltB xs ys

def insBy {α : Type} (lt : α → α → Bool) (x : α) : List α → List α
  | [] => [x]
  | y :: ys => if lt x y then x :: y :: ys else y :: insBy lt x ys
def sortBy {α : Type} (lt : α → α → Bool) (l : List α) : List α := l.foldr (insBy lt) []

def showMap (m : PosMap) : String :=
  if m.isEmpty then "-" else
  ",".intercalate ((sortBy (fun (a b : Addr × Pos) => ltB a.1 b.1) m).map fun e => s!"{showHex e.1}:{e.2.pos}:{e.2.len}")

def showState (c : Cache) : String :=
  s!"cur={c.cur} cap={c.cap} len={c.buf.length} map={showMap c.cands} buf={showHex (persist c)}"

def showList (l : List (Addr × Nat)) : String :=
  if l.isEmpty then "ok -" else
  "ok " ++ " ".intercalate ((sortBy (fun (a b : Addr × Nat) => ltB a.1 b.1 || (a.1 == b.1 && a.2 < b.2)) l).map
    fun e => s!"{showHex e.1}:{e.2}")

def parseInt (s : String) : Option Int :=
  if s.startsWith "-" then (s.drop 1).toNat?.map (fun n => - (n : Int)) else s.toNat?.map (fun n => (n : Int))

def outCache (r : Out Cache) : Cache × String :=
  match r with
  | .ok c => (c, "ok " ++ showState c)
  | .err e => (fresh, "err:" ++ e)
  | .panic s => (fresh, "panic:" ++ s)

def step (c : Cache) (w : List String) : Cache × String :=
  match w with
  | ["new"] => (fresh, "ok")
  | ["set", a, t] =>
    match parseHex a, parseInt t with
    | some a, some t =>
      match setI c a t with
      | .ok c' => (c', "ok " ++ showState c')
      | .err e => (c, "err:" ++ e ++ " " ++ showState c)
      | .panic s => (fresh, "panic:" ++ s)
    | _, _ => (c, "bad-op")
  | ["list"] =>
    match getCandidates c with
    | .ok l => (c, showList l)
    | _ => (c, "fail")
  | ["reload"] =>
    -- Encode + encodeBody's copy, then Decode into a fresh cache as load does (an empty list is not decoded at all)
    let n := u32 c.cur
    if n = 0 then (fresh, "fresh " ++ showState fresh)
    else
      match decode fresh (persist c) n n with
      | .done c' => (c', "done " ++ showState c')
      | .failed c' => (c', "failed " ++ showState c')
      | .panic s => (fresh, "panic:" ++ s)
  | ["reopen"] =>
    let file := flushFile c 0
    let (c', o) := outCache (loadFile file)
    (c', o ++ " file=" ++ showHex file)
  | ["load", f] =>
    match parseHex f with
    | some f => outCache (loadFile f)
    | none => (c, "bad-op")
  | ["decode", blen, len, arr] =>
    match blen.toNat?, len.toNat?, parseHex arr with
    | some blen, some len, some arr =>
      if arr.length < blen then (c, "bad-op")
      else
        match decode fresh arr blen len with
        | .done c' => (c', "done " ++ showState c')
        | .failed c' => (c', "failed " ++ showState c')
        | .panic s => (fresh, "panic:" ++ s)
    | _, _, _ => (c, "bad-op")
  | _ => (c, "bad-op")

end Driver.C10.CC

namespace Driver.C10
open LemoModel LemoModel.Ranking Driver

structure St where
  max : Nat := 20
  blocks : List (Nat × Blk) := []     -- LastConfirm + UnConfirmBlocks, keyed by the harness' block id
  stable : Nat := 0                   -- id of LastConfirm
  persist : List Cand := []           -- Context.Candidates
  cc : LemoModel.CandCache.Cache := {} -- the byte-level candidate cache of the `cc` ops

def getBlk (s : St) (id : Nat) : Option Blk := (s.blocks.find? (fun p => p.1 == id)).map (·.2)

/-- insertion sort by address, for canonical printing of map contents -/
def insAddr (c : Cand) : List Cand → List Cand
  | [] => [c]
  | x :: xs => if x.addr ≤ c.addr then x :: insAddr c xs else c :: x :: xs
def sortAddr (l : List Cand) : List Cand := l.foldr insAddr []

def showCands (l : List Cand) : String :=
  if l.isEmpty then "-" else " ".intercalate (l.map fun c => s!"{c.addr}:{c.votes}")

def showDeps (l : List Deputy) : String :=
  if l.isEmpty then "-" else " ".intercalate (l.map fun d => s!"{d.addr}:{d.votes}:{d.rank}")

def parseCand (t : String) : Option Cand :=
  match t.splitOn ":" with
  | [a, v] => do some ⟨← a.toNat?, ← v.toNat?⟩
  | _ => none

def parseCands : List String → Option (List Cand)
  | [] => some []
  | t :: ts => do
    let c ← parseCand t
    let r ← parseCands ts
    some (c :: r)

def parseFlag (f : String) : Option Flag :=
  if f == "n" then some Flag.none else if f == "y" then some Flag.yes else if f == "u" then some Flag.no
  else if f == "o" then some Flag.other else none

/-- block tokens: `a:f:v:l` = changed account, `xa:v` = extra raw vote log -/
def parseToks : List String → Option (List Change × List Cand)
  | [] => some ([], [])
  | t :: ts => do
    let (cs, xs) ← parseToks ts
    if t.startsWith "x" then
      let c ← parseCand (String.ofList (t.toList.drop 1))
      some (cs, c :: xs)
    else
      match t.splitOn ":" with
      | [a, f, v, l] =>
        let ch : Change := ⟨← a.toNat?, ← parseFlag f, ← v.toNat?, l == "1"⟩
        some (ch :: cs, xs)
      | _ => none

/-- is `anc` an ancestor-or-self of `id` among the live blocks? -/
def isAnc (s : St) (anc : Nat) : Nat → Nat → Bool
  | 0, _ => false
  | fuel + 1, id =>
    if id == anc then true
    else if id == s.stable then false
    else match getBlk s id with
      | some b => isAnc s anc fuel b.parent
      | none => false

/-- ids from `id` up to (excluding) the stable block, child first -/
def pathUp (s : St) : Nat → Nat → List Nat
  | 0, _ => []
  | fuel + 1, id =>
    if id == s.stable then []
    else match getBlk s id with
      | some b => id :: pathUp s fuel b.parent
      | none => []

def showBlk (b : Blk) : String := s!"top={showCands b.top} idx={showCands (sortAddr b.index)}"

def splitAt (sep : String) : List String → List String × List String
  | [] => ([], [])
  | t :: ts => if t == sep then ([], ts) else let r := splitAt sep ts; (t :: r.1, r.2)

def step (s : St) (w : List String) : St × String :=
  match w with
  | "cc" :: rest =>
    let (cc', o) := CC.step s.cc rest
    ({ s with cc := cc' }, o)
  | ["max", m] =>
    match m.toNat? with
    | some m => ({ s with max := m }, "ok")
    | none => (s, "bad-op")
  | ["genesis"] => ({ s with blocks := [(0, {})], stable := 0, persist := [] }, "ok")
  | "blk" :: id :: pid :: toks =>
    match id.toNat?, pid.toNat?, parseToks toks with
    | some id, some pid, some (chs, extra) =>
      match getBlk s pid with
      | none => (s, "bad-parent")
      | some p =>
        match applyBlock true s.max pid p chs extra with
        | .ok b => ({ s with blocks := (id, b) :: s.blocks }, showBlk b)
        | .err e => (s, "err " ++ e)
        | .panic => (s, "panic")
    | _, _, _ => (s, "bad-op")
  | ["top", id] =>
    match id.toNat? with
    | some id =>
      match getBlk s id with
      | some b => (s, showBlk b)
      | none => (s, "panic")
    | none => (s, "bad-op")
  | ["stable", id] =>
    match id.toNat? with
    | some id =>
      if id == s.stable then (s, "err")
      else match getBlk s id with
        | none => (s, "err")
        | some _ =>
          let fuel := s.blocks.length + 1
          let path := (pathUp s fuel id).reverse     -- oldest first
          let persist := path.foldl (fun p i =>
            match getBlk s i with
            | some b => commitPersist p b.changes
            | none => p) s.persist
          let keep := s.blocks.filter (fun p => isAnc s id fuel p.1)
          let s' := { s with blocks := keep, stable := id, persist := persist }
          (s', s!"persist={showCands (sortAddr persist)}")
    | none => (s, "bad-op")
  | ["stablecrash", id] =>
    -- SetStableBlock(id), the process dies in the commit of `id` between SetCurrentBlock and
    -- Context.Flush, and the node is started again: stable = id, candidate list without id's changes
    match id.toNat? with
    | some id =>
      if id == s.stable then (s, "err")
      else match getBlk s id with
        | none => (s, "err")
        | some b =>
          let fuel := s.blocks.length + 1
          let path := (pathUp s fuel id).reverse
          let persist := (path.dropLast).foldl (fun p i =>
            match getBlk s i with
            | some b => commitPersist p b.changes
            | none => p) s.persist
          let nb := restartBlk true s.max persist b
          ({ s with blocks := [(id, nb)], stable := id, persist := persist },
           s!"persist={showCands (sortAddr persist)} {showBlk nb}")
    | none => (s, "bad-op")
  | ["reopen"] =>
    match getBlk s s.stable with
    | some b =>
      let nb := restartBlk true s.max s.persist b
      ({ s with blocks := [(s.stable, nb)] }, showBlk nb)
    | none => (s, "bad-op")
  | "rank" :: m :: toks =>
    match m.toNat?, parseCands toks with
    | some m, some cs => (s, showCands (ranking m cs))
    | _, _ => (s, "bad-op")
  | "seal" :: dc :: td :: h :: rest =>
    let (topT, votesT) := splitAt "/" rest
    match dc.toNat?, td.toNat?, h.toNat?, parseCands topT, parseCands votesT with
    | some dc, some td, some h, some top, some votes =>
      let votesAt := fun a => match votes.find? (fun c => c.addr == a) with
        | some c => c.votes
        | none => 0
      let ds := sealDeputies dc top votesAt
      let r := match newTermRecord td h ds with
        | .ok => "ok"
        | .panic e => "panic " ++ e
      (s, s!"{showDeps ds} => {r}")
    | _, _, _, _, _ => (s, "bad-op")
  | _ => (s, "bad-op")

end Driver.C10

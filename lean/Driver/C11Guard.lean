import LemoModel.LedgerGuard
/-
  Driver side of the `guard` op (C11, mixed blocks): the verdicts of `LemoModel.Ledger.guardX` for the block the ledger
  driver (`Driver.C05`) has been told so far (`block` / `tx` / `sub` / `reward` lines), printed BEFORE `end` executes it.
  Called from `Driver.C05.step` with the fields of its state (this file must not import Driver.C05).
-/
namespace Driver.C11Guard
open LemoModel.Ledger

/-- `votes=<id>:<voter>:<old>.<flag>><new>.<flag>:<weight at block start>/<weight moved>,…` (the executed vote txs, in
    order) `ok=` / `bad=` (the accounts registered after the block for which the guard holds / does not hold)
    `typical=` `fresh=` (the two sufficient conditions) -/
def answer (p : Params) (accts : Nat → Acct) (univ : List Nat) (height miner gp : Nat) (txs : List Tx) (dedup : Bool)
    (rf : Option RewardFacts) (votesLast flagCheck : Bool) : String :=
  let c : Ctx := { p := p, miner := miner, height := height, dedup := dedup, rf := rf.getD {}, votesLast := votesLast, flagCheck := flagCheck }
  if isRewardBlock c != rf.isSome then "reward-schedule-mismatch" else
  guardAnswer c { accts := accts } gp txs univ

end Driver.C11Guard

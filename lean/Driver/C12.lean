import Driver.Util
import LemoModel.Assets
namespace Driver.C12
open LemoModel.Assets Driver

structure D where
  fixed : Bool := true
  nAddrs : Nat := 0
  stable : St := St.empty
  cur : St := St.empty

/-- amount token of the harness: `s:<text>` a JSON string (parsed by the MODEL's parser), anything else is rejected -/
def amount (tok : String) : Option Int :=
  if tok.startsWith "s:" then parseAmount (tok.toList.drop 2) else none

def bit (s : String) : Option Bool :=
  if s == "1" then some true else if s == "0" then some false else none

def parseOp : List String → Option Op
  | ["create", sd, h, cat, dv, rp, dc, fz] => do
    some (.create (← sd.toNat?) (← h.toNat?) (← cat.toNat?) (← bit dv) (← bit rp) (← dc.toNat?) (fz == "true"))
  | ["issue", sd, rc, h, c, m, a] => do
    some (.issue (← sd.toNat?) (← rc.toNat?) (← h.toNat?) (← c.toNat?) (← m.toNat?) (amount a))
  | ["replenish", sd, rc, c, i, a] => do
    some (.replenish (← sd.toNat?) (← rc.toNat?) (← c.toNat?) (← i.toNat?) (amount a))
  | ["modify", sd, c, fz] => do
    some (.modify (← sd.toNat?) (← c.toNat?) (if fz == "none" then .empty else if fz == "-" then .otherKey else .set (fz == "true")))
  -- an empty freeze value arrives as a missing word
  | ["modify", sd, c] => do some (.modify (← sd.toNat?) (← c.toNat?) (.set false))
  | ["transfer", sd, rc, i, ck, a] => do
    some (.transfer (← sd.toNat?) (← rc.toNat?) (← i.toNat?) (← ck.toNat?) (amount a))
  | _ => none

def dump (d : D) (nh : Nat) : String :=
  let s := d.cur
  let codes := (List.range nh).filterMap fun c =>
    match s.assets c with
    | some r => some s!"c{c}={r.supply}/{if r.frozen then 1 else 0} "
    | none => none
  let ents := (List.range d.nAddrs).flatMap fun a =>
    (List.range nh).filterMap fun i =>
      if i == 0 then none else
      match s.equity a i with
      | some (c, e) => some s!" {a}:{i}={c},{e},{if s.idMeta a i then 1 else 0}"
      | none => none
  String.join codes ++ "|" ++ String.join ents

def step (d : D) (w : List String) : D × String :=
  match w with
  | ["init", n, variant] =>
    match n.toNat? with
    | some n => ({ nAddrs := n, fixed := variant != "asis", stable := St.empty, cur := St.empty }, "ok")
    | none => (d, "bad-op")
  | ["block", _] => ({ d with stable := d.cur }, "ok")
  | "tx" :: rest =>
    match parseOp rest with
    | none => (d, "bad-op")
    | some op =>
      match apply d.fixed d.stable d.cur op with
      | .ok s' => ({ d with cur := s' }, "ok")
      | .error e => (d, "err " ++ e.name)
  | ["end", nh] =>
    match nh.toNat? with
    | some nh => (d, dump d nh)
    | none => (d, "bad-op")
  | _ => (d, "bad-op")

end Driver.C12

import Driver.Util
import LemoModel.Assets
namespace Driver.C12
open LemoModel.Assets Driver

/-- the LIVE model is the repaired transfer (`fixed = true`); the driver has no way to select the legacy variant -/
structure D where
  nAddrs : Nat := 0
  stable : St := St.empty
  cur : St := St.empty
  height : Nat := 0
  hist : List (Nat × St) := []      -- state after each described block, newest first
  box : Option (List Op) := none    -- sub-transactions of the box being described, newest first

/-- amount token of the harness: `s:<text>` a JSON string (parsed by the MODEL's parser), anything else is rejected -/
def amount (tok : String) : Option Int :=
  if tok.startsWith "s:" then parseAmount (tok.toList.drop 2) else none

def bit (s : String) : Option Bool :=
  if s == "1" then some true else if s == "0" then some false else none

def fzOf (fz : String) : Fz :=
  if fz == "none" then .empty else if fz == "-" then .otherKey else if fz == "big" then .tooLong else .set (fz == "true")

def parseOp : List String → Option Op
  | ["create", sd, h, cat, dv, rp, dc, fz, big] => do
    some (.create (← sd.toNat?) (← h.toNat?) (← cat.toNat?) (← bit dv) (← bit rp) (← dc.toNat?) (fz == "true") (← bit big))
  | ["issue", sd, rc, h, c, m, a] => do
    some (.issue (← sd.toNat?) (← rc.toNat?) (← h.toNat?) (← c.toNat?) (← m.toNat?) (amount a))
  | ["replenish", sd, rc, c, i, a] => do
    some (.replenish (← sd.toNat?) (← rc.toNat?) (← c.toNat?) (← i.toNat?) (amount a))
  | ["modify", sd, c, fz] => do
    some (.modify (← sd.toNat?) (← c.toNat?) (fzOf fz))
  -- an empty freeze value arrives as a missing word
  | ["modify", sd, c] => do some (.modify (← sd.toNat?) (← c.toNat?) (.set false))
  | ["transfer", sd, rc, i, ck, a] => do
    some (.transfer (← sd.toNat?) (← rc.toNat?) (← i.toNat?) (← ck.toNat?) (amount a))
  | _ => none

def b01 (b : Bool) : String := if b then "1" else "0"

def dump (d : D) (nh : Nat) : String :=
  let s := d.cur
  let codes := (List.range nh).filterMap fun c =>
    match s.assets c with
    | some r => some s!"c{c}={r.supply}/{b01 r.frozen}/{r.issuer}/{r.category}/{b01 r.divisible}/{b01 r.replenishable} "
    | none => none
  let ents := (List.range d.nAddrs).flatMap fun a =>
    (List.range nh).filterMap fun i =>
      match s.equity a i with
      | some (c, e) => some s!" {a}:{i}={c},{e},{b01 (s.idMeta a i)}"
      | none => none
  String.join codes ++ "|" ++ String.join ents

def stateAt (d : D) (h : Nat) : St :=
  match d.hist.find? (fun p => p.1 == h) with
  | some p => p.2
  | none => St.empty

def step (d : D) (w : List String) : D × String :=
  match w with
  | ["init", n, h0] =>
    match n.toNat?, h0.toNat? with
    | some n, some h0 => ({ nAddrs := n, height := h0 }, "ok")
    | _, _ => (d, "bad-op")
  -- `block h sh`: block at height h, executed while the node's latest stable block is the one at height sh
  | ["block", h, sh] =>
    match h.toNat?, sh.toNat? with
    | some h, some sh => ({ d with height := h, stable := stateAt d sh, box := none }, "ok")
    | _, _ => (d, "bad-op")
  | "tx" :: rest =>
    match parseOp rest with
    | none => (d, "bad-op")
    | some op =>
      match apply true d.stable d.cur op with
      | .ok s' => ({ d with cur := s' }, "ok")
      | .error e => (d, "err " ++ e.name)
  | ["box", _] => ({ d with box := some [] }, "ok")
  | "sub" :: rest =>
    match parseOp rest, d.box with
    | some op, some l => ({ d with box := some (op :: l) }, "ok")
    | _, _ => (d, "bad-op")
  | ["boxend"] =>
    match d.box with
    | none => (d, "bad-op")
    | some l =>
      match applyBox true d.stable d.cur l.reverse with
      | .ok s' => ({ d with cur := s', box := none }, "ok")
      | .error e => ({ d with box := none }, "err " ++ e.name)
  | ["end", nh] =>
    match nh.toNat? with
    | some nh => ({ d with hist := (d.height, d.cur) :: d.hist }, dump d nh)
    | none => (d, "bad-op")
  | _ => (d, "bad-op")

end Driver.C12

import Driver.Util
import LemoModel.Sched
namespace Driver.C13
open LemoModel LemoModel.Sched LemoGen.Schedule Driver

structure St where
  term : Nat := 1000000
  interim : Nat := 1000

def rank? (s : String) : Option (Option Nat) :=
  match parseInt? s with
  | some i => if i < 0 then some none else some (some i.toNat)
  | none => none

def step (s : St) (w : List String) : St × String :=
  match w with
  | ["params", t, i] =>
    match t.toNat?, i.toNat? with
    | some t, some i => ({ term := t, interim := i }, "ok")
    | _, _ => (s, "bad-op")
  | ["special", h] =>
    match h.toNat? with
    | some h => (s, toString (isSpecial h s.term s.interim))
    | none => (s, "bad-op")
  | ["cm", n, sp, pr, pts, ph, mt, T] =>
    match n.toNat?, parseBool? sp, rank? pr, pts.toNat?, ph.toNat?, parseInt? mt, parseInt? T with
    | some n, some sp, some pr, some pts, some ph, some mt, some T =>
      (s, showRes toString (correctMinerGo n sp pr pts ph mt T))
    | _, _, _, _, _, _, _ => (s, "bad-op")
  | ["md", n, sp, pr, me] =>
    match n.toNat?, parseBool? sp, rank? pr, me.toNat? with
    | some n, some sp, some pr, some me => (s, showRes toString (minerDistance n sp pr (some me)))
    | _, _, _, _ => (s, "bad-op")
  | ["dd", n, sp, pr, d] =>
    match n.toNat?, parseBool? sp, rank? pr, d.toNat? with
    | some n, some sp, some pr, some d => (s, showRes toString (deputyByDistance n sp pr d))
    | _, _, _, _ => (s, "bad-op")
  | ["win", n, d, pt, now, T] =>
    match n.toNat?, d.toNat?, parseInt? pt, parseInt? now, parseInt? T with
    | some n, some d, some pt, some now, some T =>
      let w := GetNextMineWindow (nextHeight := 0) (distance := d) (parentTime := pt) (currentTime := now)
        (mineTimeout := T) (nodeCount := (n : Int))
      (s, s!"{w.1} {w.2}")
    | _, _, _, _, _ => (s, "bad-op")
  | ["sleep", n, d, pt, now, T, bi] =>
    match n.toNat?, d.toNat?, parseInt? pt, parseInt? now, parseInt? T, parseInt? bi with
    | some n, some d, some pt, some now, some T, some bi =>
      let r := getSleepTime (mineHeight := 0) (distance := d) (parentTime := pt) (currentTime := now)
        (m_timeoutTime := T) (nodeCount := (n : Int)) (m_blockInterval := bi)
      (s, s!"{r.1} {r.2}")
    | _, _, _, _, _, _ => (s, "bad-op")
  | ["terms", h] =>
    match h.toNat? with
    | some h =>
      (s, s!"{IsSnapshotBlock (height := h) (params_TermDuration := s.term)} {IsRewardBlock (height := h) (params_TermDuration := s.term) (params_InterimDuration := s.interim)} {GetSignerTermIndexByHeight (height := h) (params_TermDuration := s.term) (params_InterimDuration := s.interim)} {GetDeputyTermIndexByHeight (height := h) (params_TermDuration := s.term)}")
    | none => (s, "bad-op")
  | _ => (s, "bad-op")

end Driver.C13

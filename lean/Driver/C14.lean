import Driver.Util
import LemoModel.Rlp
import LemoModel.Base26
import LemoModel.RlpSchema
import LemoModel.RlpCustom
import LemoModel.RlpAccount
namespace Driver.C14
open LemoModel LemoModel.Rlp LemoModel.RlpSchema LemoModel.RlpCustom LemoModel.RlpAccount Driver

def hexVal (c : Char) : Option Nat :=
  if '0' ≤ c ∧ c ≤ '9' then some (c.toNat - 48)
  else if 'a' ≤ c ∧ c ≤ 'f' then some (c.toNat - 87)
  else if 'A' ≤ c ∧ c ≤ 'F' then some (c.toNat - 55)
  else none

def parseHexChars : List Char → Option (List UInt8)
  | [] => some []
  | a :: b :: cs =>
    match hexVal a, hexVal b, parseHexChars cs with
    | some x, some y, some r => some (UInt8.ofNat (x * 16 + y) :: r)
    | _, _, _ => none
  | _ => none

/-- "-" is the empty byte string -/
def parseHex (s : String) : Option (List UInt8) :=
  if s == "-" then some [] else parseHexChars s.toList

def showHex (l : List UInt8) : String := if l.isEmpty then "-" else hexOf l

mutual
  partial def parseItem : List Char → Option (Item × List Char)
    | 'x' :: cs =>
      let hs := cs.takeWhile (fun c => (hexVal c).isSome)
      let rest := cs.dropWhile (fun c => (hexVal c).isSome)
      match parseHexChars hs with
      | some b => some (.bytes b, rest)
      | none => none
    | '[' :: ']' :: cs => some (.list [], cs)
    | '[' :: cs => parseItems cs []
    | _ => none
  partial def parseItems (cs : List Char) (acc : List Item) : Option (Item × List Char) :=
    match parseItem cs with
    | some (it, ',' :: rest) => parseItems rest (it :: acc)
    | some (it, ']' :: rest) => some (.list (it :: acc).reverse, rest)
    | _ => none
end

def showE {α} (f : α → String) : Except Err α → String
  | .ok a => "ok " ++ f a
  | .error e => "err " ++ e.name

mutual
  partial def showSchema : Schema → String
    | .bytes => "bytes"
    | .fixed n => s!"fixed{n}"
    | .uint b => s!"uint{b}"
    | .big => "big"
    | .listOf s => "list(" ++ showSchema s ++ ")"
    | .struct fs => "struct[" ++ ",".intercalate (fs.map showSchema) ++ "]"
    | .optFixed n => s!"optfixed{n}"
end

def showPDec : PDec → String
  | .strict s => "strict:" ++ showSchema s
  | .emptyIface => "emptyiface"
  | .fixedN n => s!"fixedN{n}"
  | .nilOr fs => "nilor:" ++ showSchema (.struct fs)
  | .signers => "signers:" ++ showSchema signersSchema
  | .asset => "asset"
  | .candidate => "candidate"

def schemaByName : String → Option Schema
  | "rlpHeader" => some headerSchema
  | "txdata" => some txSchema
  | "DeputyNode" => some deputyNodeSchema
  | "BlockConfirmData" => some blockConfirmSchema
  | "BlockConfirms" => some blockConfirmsSchema
  | "ProtocolHandshake" => some handshakeSchema
  | "rlpEvent" => some eventSchema
  | "AssetEquity" => some assetEquitySchema
  | "AssetFields" => some (.struct assetFields)
  | "GetBlocksData" => some getBlocksSchema
  | _ => none

/-- layout of the wire struct `rlpAccountData` as the model's decoder reads it (`?map` = the custom Profile codec) -/
def acctLayout : String :=
  let sh := showSchema
  "struct[" ++ ",".intercalate [sh address, sh .big, sh hash, sh hash, sh hash, sh hash, sh hash, sh (.listOf hash), sh address,
    "struct[" ++ sh .big ++ ",?map]", sh (.uint 32), sh (.listOf (.struct [.uint 32, .uint 32, .uint 32])),
    sh (.listOf (.struct [.fixed 20, .uint 8]))] ++ "]"

/-! account values on the op lines: `nil` = Go nil, `{}` / `[]` = empty map / slice -/

def showOptNat : Option Nat → String
  | none => "nil"
  | some n => toString n

def showProf : Option (List KV) → String
  | none => "nil"
  | some [] => "{}"
  | some ps => ",".intercalate (ps.map (fun p => showHex p.1 ++ ":" ++ showHex p.2))

def showRecs : Option (List Rec) → String
  | none => "nil"
  | some [] => "{}"
  | some rs => ",".intercalate (rs.map (fun r => s!"{r.1}.{r.2.1}.{r.2.2}"))

def showSigners : Option (List Signer) → String
  | none => "nil"
  | some [] => "[]"
  | some ss => ",".intercalate (ss.map (fun x => showHex x.1 ++ "." ++ toString x.2))

def showAcct (v : AccountV) : String :=
  s!"addr={showHex v.address} bal={showOptNat v.balance} code={showHex v.codeHash} sr={showHex v.storageRoot} " ++
  s!"acr={showHex v.assetCodeRoot} air={showHex v.assetIdRoot} er={showHex v.equityRoot} vf={showHex v.voteFor} " ++
  s!"votes={showOptNat v.votes} prof={showProf v.profile} recs={showRecs v.records} sig={showSigners v.signers}"

def parseOptNat (s : String) : Option (Option Nat) :=
  if s == "nil" then some none else s.toNat?.map some

def allSome {α : Type} : List (Option α) → Option (List α)
  | [] => some []
  | none :: _ => none
  | some a :: r => (allSome r).map (a :: ·)

/-- the pairs in ANY order: the Go map is built by assignment -/
def parseProf (s : String) : Option (Option (List KV)) :=
  if s == "nil" then some none
  else if s == "{}" then some (some [])
  else
    (allSome ((s.splitOn ",").map (fun kv =>
      match kv.splitOn ":" with
      | [k, v] =>
        match parseHex k, parseHex v with
        | some kb, some vb => some (kb, vb)
        | _, _ => none
      | _ => none))).map (fun ps => some (ps.foldl (fun m p => insertKV p m) []))

/-- the records in the order of the op line: the iteration order handed to the encoder -/
def parseRecs (s : String) : Option (Option (List Rec)) :=
  if s == "nil" then some none
  else if s == "{}" then some (some [])
  else
    (allSome ((s.splitOn ",").map (fun r =>
      match (r.splitOn ".").map String.toNat? with
      | [some t, some v, some h] => some (t, v, h)
      | _ => none))).map some

def parseSigners (s : String) : Option (Option (List Signer)) :=
  if s == "nil" then some none
  else if s == "[]" then some (some [])
  else
    (allSome ((s.splitOn ",").map (fun r =>
      match r.splitOn "." with
      | [a, w] =>
        match parseHex a, w.toNat? with
        | some ab, some wn => some (ab, wn)
        | _, _ => none
      | _ => none))).map some

/-- `acctenc`: the account built from the fields of the line, encoded with the records enumerated in the line's order -/
def acctEnc (w : List String) : Option String :=
  match w with
  | [addr, bal, code, sr, acr, air, er, vf, votes, prof, recs, sig] =>
    match parseHex addr, parseOptNat bal, parseHex code, parseHex sr, parseHex acr, parseHex air, parseHex er,
          parseHex vf, parseOptNat votes, parseProf prof, parseRecs recs, parseSigners sig with
    | some addr, some bal, some code, some sr, some acr, some air, some er, some vf, some votes, some prof, some ord,
      some sig =>
      let v : AccountV := { address := addr, balance := bal, codeHash := code, storageRoot := sr, assetCodeRoot := acr,
                            assetIdRoot := air, equityRoot := er, voteFor := vf, votes := votes, profile := prof,
                            records := ord.map recsToMap, signers := sig }
      some (match encodeAccountWith sortRecs (ord.getD []) v with
            | some it => showHex (encode it)
            | none => "err")
    | _, _, _, _, _, _, _, _, _, _, _, _ => none
  | _ => none

/-- the code as it is: every decoder of the typed layer with the strictness fixes (`fx = true`) -/
def fx : Bool := true

/-- typed decode followed by typed encode: "ok <hex of the re-encoding>" or "err" -/
def typedRe (name : String) (b : List UInt8) : Option String :=
  let fin (r : Option Item) : Option String :=
    some (match r with | some it' => "ok " ++ showHex (encode it') | none => "err")
  let plain (s : Schema) : Option String :=
    match decode b with
    | .error _ => some "err"
    | .ok it => fin ((decodeS fx s it).bind (encodeS s))
  match name with
  | "header" =>
    match decode b with
    | .error _ => some "err"
    | .ok it => fin ((decodeHeader fx emptyTrieHash it).bind (encodeHeader emptyTrieHash))
  | "tx" => plain txSchema
  | "deputynode" => plain deputyNodeSchema
  | "blockconfirm" => plain blockConfirmSchema
  | "blockconfirms" => plain blockConfirmsSchema
  | "handshake" => plain handshakeSchema
  | "event" => plain eventSchema
  | "assetequity" => plain assetEquitySchema
  | "asset" =>
    match decode b with
    | .error _ => some "err"
    | .ok it => fin ((decodeAsset fx it).bind encodeAsset)
  | "changelog" =>
    match decode b with
    | .error _ => some "err"
    | .ok it => fin ((decodeChangeLog fx it).bind encodeChangeLog)
  | "block" =>
    match decode b with
    | .error _ => some "err"
    | .ok it => fin ((decodeBlock emptyTrieHash it).bind (encodeBlock emptyTrieHash))
  | "changelogs" =>
    match decode b with
    | .error _ => some "err"
    | .ok it => fin ((decodeLogSlice fx it).bind encodeLogSlice)
  | "accountdata" =>
    match decode b with
    | .error _ => some "err"
    | .ok it => fin ((decodeAccount it).bind encodeAccount)
  | "blocksmsg" =>
    match decode b with
    | .error _ => some "err"
    | .ok it => fin ((decodeBlocks emptyTrieHash it).bind (encodeBlocks emptyTrieHash))
  | "getblocks" => plain getBlocksSchema
  | _ => none

def step (s : Unit) (w : List String) : Unit × String :=
  match w with
  | ["dec", h] =>
    match parseHex h with
    | some b => (s, showE render (decode b))
    | none => (s, "bad-op")
  | ["enc", t] =>
    match parseItem t.toList with
    | some (it, []) => (s, showHex (encode it))
    | _ => (s, "bad-op")
  | ["uint", bits, h] =>
    match bits.toNat?, parseHex h with
    | some bits, some b => (s, showE toString (decodeUintTop bits b))
    | _, _ => (s, "bad-op")
  | ["encuint", n] =>
    match n.toNat? with
    | some n => (s, showHex (encodeUint n))
    | none => (s, "bad-op")
  | ["big", h] =>
    match parseHex h with
    | some b => (s, showE toString (decodeBigTop b))
    | none => (s, "bad-op")
  | ["encbig", n] =>
    match n.toNat? with
    | some n => (s, showHex (encodeBig n))
    | none => (s, "bad-op")
  | ["rsplit", h] =>
    match parseHex h with
    | some b => (s, showE (fun (k, c, r) => s!"{k} {showHex c} {showHex r}") (rawSplit b))
    | none => (s, "bad-op")
  | ["rcount", h] =>
    match parseHex h with
    | some b => (s, showE toString (rawCount b))
    | none => (s, "bad-op")
  | ["typed", name, h] =>
    match parseHex h with
    | some b => (s, (typedRe name b).getD "bad-op")
    | none => (s, "bad-op")
  | ["schema", "rlpAccountData"] => (s, acctLayout)
  | ["schema", name] =>
    match schemaByName name with
    | some sc => (s, showSchema sc)
    | none => (s, "bad-op")
  | ["acctval", h] =>
    match parseHex h with
    | some b =>
      (s, match decodeAccountBytes b with
          | some v => "ok " ++ showAcct v
          | none => "err")
    | none => (s, "bad-op")
  | "acctenc" :: rest => (s, (acctEnc rest).getD "bad-op")
  | ["logdec", n] =>
    match n.toNat? with
    | some n =>
      (s, match logDecoders n with
          | some (p, q) => showPDec p ++ " " ++ showPDec q
          | none => "none")
    | none => (s, "bad-op")
  | ["addr", h] =>
    match parseHex h with
    | some b => (s, Base26.addressString b)
    | none => (s, "bad-op")
  | ["addrdec", t] => (s, match Base26.addressDecode t with
      | .ok b => "ok " ++ showHex b
      | .error e => "err " ++ e)
  | _ => (s, "bad-op")

end Driver.C14

import Driver.Util
import LemoModel.Rlp
import LemoModel.Base26
import LemoModel.RlpSchema
import LemoModel.RlpCustom
namespace Driver.C14
open LemoModel LemoModel.Rlp LemoModel.RlpSchema LemoModel.RlpCustom Driver

def hexVal (c : Char) : Option Nat :=
  if '0' ≤ c ∧ c ≤ '9' then some (c.toNat - 48)
  else if 'a' ≤ c ∧ c ≤ 'f' then some (c.toNat - 87)
  else if 'A' ≤ c ∧ c ≤ 'F' then some (c.toNat - 55)
  else none

def parseHexChars : List Char → Option (List UInt8)
  | [] => some []
  | a :: b :: cs =>
    match hexVal a, hexVal b, parseHexChars cs with
    | some x, some y, some r => some (UInt8.ofNat (x * 16 + y) :: r)
    | _, _, _ => none
  | _ => none

/-- "-" is the empty byte string -/
def parseHex (s : String) : Option (List UInt8) :=
  if s == "-" then some [] else parseHexChars s.toList

def showHex (l : List UInt8) : String := if l.isEmpty then "-" else hexOf l

mutual
  partial def parseItem : List Char → Option (Item × List Char)
    | 'x' :: cs =>
      let hs := cs.takeWhile (fun c => (hexVal c).isSome)
      let rest := cs.dropWhile (fun c => (hexVal c).isSome)
      match parseHexChars hs with
      | some b => some (.bytes b, rest)
      | none => none
    | '[' :: ']' :: cs => some (.list [], cs)
    | '[' :: cs => parseItems cs []
    | _ => none
  partial def parseItems (cs : List Char) (acc : List Item) : Option (Item × List Char) :=
    match parseItem cs with
    | some (it, ',' :: rest) => parseItems rest (it :: acc)
    | some (it, ']' :: rest) => some (.list (it :: acc).reverse, rest)
    | _ => none
end

def showE {α} (f : α → String) : Except Err α → String
  | .ok a => "ok " ++ f a
  | .error e => "err " ++ e.name

mutual
  partial def showSchema : Schema → String
    | .bytes => "bytes"
    | .fixed n => s!"fixed{n}"
    | .uint b => s!"uint{b}"
    | .big => "big"
    | .listOf s => "list(" ++ showSchema s ++ ")"
    | .struct fs => "struct[" ++ ",".intercalate (fs.map showSchema) ++ "]"
    | .optFixed n => s!"optfixed{n}"
end

def showPDec : PDec → String
  | .strict s => "strict:" ++ showSchema s
  | .emptyIface => "emptyiface"
  | .fixedN n => s!"fixedN{n}"
  | .nilOr fs => "nilor:" ++ showSchema (.struct fs)
  | .signers => "signers:" ++ showSchema signersSchema
  | .asset => "asset"
  | .candidate => "candidate"

def schemaByName : String → Option Schema
  | "rlpHeader" => some headerSchema
  | "txdata" => some txSchema
  | "DeputyNode" => some deputyNodeSchema
  | "BlockConfirmData" => some blockConfirmSchema
  | "BlockConfirms" => some blockConfirmsSchema
  | "ProtocolHandshake" => some handshakeSchema
  | "rlpEvent" => some eventSchema
  | "AssetEquity" => some assetEquitySchema
  | "AssetFields" => some (.struct assetFields)
  | _ => none

/-- the code as it is: every decoder of the typed layer with the strictness fixes (`fx = true`) -/
def fx : Bool := true

/-- typed decode followed by typed encode: "ok <hex of the re-encoding>" or "err" -/
def typedRe (name : String) (b : List UInt8) : Option String :=
  let fin (r : Option Item) : Option String :=
    some (match r with | some it' => "ok " ++ showHex (encode it') | none => "err")
  let plain (s : Schema) : Option String :=
    match decode b with
    | .error _ => some "err"
    | .ok it => fin ((decodeS fx s it).bind (encodeS s))
  match name with
  | "header" =>
    match decode b with
    | .error _ => some "err"
    | .ok it => fin ((decodeHeader fx emptyTrieHash it).bind (encodeHeader emptyTrieHash))
  | "tx" => plain txSchema
  | "deputynode" => plain deputyNodeSchema
  | "blockconfirm" => plain blockConfirmSchema
  | "blockconfirms" => plain blockConfirmsSchema
  | "handshake" => plain handshakeSchema
  | "event" => plain eventSchema
  | "assetequity" => plain assetEquitySchema
  | "asset" =>
    match decode b with
    | .error _ => some "err"
    | .ok it => fin ((decodeAsset fx it).bind encodeAsset)
  | "changelog" =>
    match decode b with
    | .error _ => some "err"
    | .ok it => fin ((decodeChangeLog fx it).bind encodeChangeLog)
  | "block" =>
    match decode b with
    | .error _ => some "err"
    | .ok it => fin ((decodeBlock emptyTrieHash it).bind (encodeBlock emptyTrieHash))
  | "changelogs" =>
    match decode b with
    | .error _ => some "err"
    | .ok it => fin ((decodeLogSlice fx it).bind encodeLogSlice)
  | _ => none

def step (s : Unit) (w : List String) : Unit × String :=
  match w with
  | ["dec", h] =>
    match parseHex h with
    | some b => (s, showE render (decode b))
    | none => (s, "bad-op")
  | ["enc", t] =>
    match parseItem t.toList with
    | some (it, []) => (s, showHex (encode it))
    | _ => (s, "bad-op")
  | ["uint", bits, h] =>
    match bits.toNat?, parseHex h with
    | some bits, some b => (s, showE toString (decodeUintTop bits b))
    | _, _ => (s, "bad-op")
  | ["encuint", n] =>
    match n.toNat? with
    | some n => (s, showHex (encodeUint n))
    | none => (s, "bad-op")
  | ["big", h] =>
    match parseHex h with
    | some b => (s, showE toString (decodeBigTop b))
    | none => (s, "bad-op")
  | ["encbig", n] =>
    match n.toNat? with
    | some n => (s, showHex (encodeBig n))
    | none => (s, "bad-op")
  | ["rsplit", h] =>
    match parseHex h with
    | some b => (s, showE (fun (k, c, r) => s!"{k} {showHex c} {showHex r}") (rawSplit b))
    | none => (s, "bad-op")
  | ["rcount", h] =>
    match parseHex h with
    | some b => (s, showE toString (rawCount b))
    | none => (s, "bad-op")
  | ["typed", name, h] =>
    match parseHex h with
    | some b => (s, (typedRe name b).getD "bad-op")
    | none => (s, "bad-op")
  | ["schema", name] =>
    match schemaByName name with
    | some sc => (s, showSchema sc)
    | none => (s, "bad-op")
  | ["logdec", n] =>
    match n.toNat? with
    | some n =>
      (s, match logDecoders n with
          | some (p, q) => showPDec p ++ " " ++ showPDec q
          | none => "none")
    | none => (s, "bad-op")
  | ["addr", h] =>
    match parseHex h with
    | some b => (s, Base26.addressString b)
    | none => (s, "bad-op")
  | ["addrdec", t] => (s, match Base26.addressDecode t with
      | .ok b => "ok " ++ showHex b
      | .error e => "err " ++ e)
  | _ => (s, "bad-op")

end Driver.C14

import Driver.Util
import LemoModel.Frame
/-
  Line protocol of the C15 model (see harness/hx/c15.go for the implementation side).

  The driver runs the model of THE CODE AS IT IS NOW: `runFixed` / `runFixedC` / `frameStepFixed` /
  `hsStepFixed` (= `eciesOpenFixed` + the MaxPackageLength bound).  The pre-repair model (`run`,
  `hsStep`, …) is only the subject of the refutation theorems in LemoProofs/C15.lean.

  The AES parameter of the model is instantiated with the identity: the harness puts on the op
  line the stream in which every frame's content is replaced by its raw CBC decryption (the
  padded plaintext, same length) whenever the content length is a multiple of 16 (otherwise the
  bytes are irrelevant: CryptBlocks panics before looking at them), and feeds the real parser
  the corresponding wire bytes.

    consts                         -> constants of the model
    run <hex>                      -> events of the read loop on a flat stream, `;`-separated
    runc <hex>,<hex>,...           -> same on a segmented connection (`-` = empty segment)
    allocz <declared> <provided>   -> first outcome + MiB requested for `header ++ provided zero bytes`
    hs <pointOk> <macOk> <hex>     -> readHandshakeBuf outcome
    hsc <pointOk> <macOk> <chunks> -> same, segmented
    hsalloc <declared>             -> MiB requested after the 6-byte handshake prefix alone
    closefacts <n>                 -> `ok` iff the fact table Close.closeSites has n rows, else `table-mismatch`
    closefact <row>                -> `ok` iff <row> (stmt|function|guard) is a row of the table, else `table-mismatch`
    closehammer <k>                -> outcome of k simultaneous closers under the table's locking discipline
    sigorder <n> / sigorderrow <row> -> statement order over sigs[i] in types.recoverSigners (SigGuard.order)
    sitefacts <n> / sitefact <row> -> same for the panic-site inventory Sites.table (function|kind|expression);
                                      duplicate rows are matched with multiplicity through the count
-/
namespace Driver.C15
open LemoModel.Frame Driver

def hexVal (c : Char) : Option Nat :=
  if '0' ≤ c ∧ c ≤ '9' then some (c.toNat - '0'.toNat)
  else if 'a' ≤ c ∧ c ≤ 'f' then some (c.toNat - 'a'.toNat + 10)
  else none

def hexBytes : List Char → Option Bytes
  | [] => some []
  | [_] => none
  | a :: b :: rest =>
    match hexVal a, hexVal b, hexBytes rest with
    | some x, some y, some r => some (UInt8.ofNat (x * 16 + y) :: r)
    | _, _, _ => none

def parseHex (s : String) : Option Bytes :=
  if s == "-" then some [] else hexBytes s.toList

def parseChunks (s : String) : Option (List Bytes) :=
  (s.splitOn ",").foldr (fun w acc =>
    match parseHex w, acc with
    | some b, some l => some (b :: l)
    | _, _ => none) (some [])

def showEvs (l : List Ev) : String := ";".intercalate (l.map Ev.show)

def flag? (s : String) : Option Bool :=
  if s == "1" then some true else if s == "0" then some false else none

def mib : Nat := 1048576

structure St where
  cfg : Cfg := realCfg

def step (s : St) (w : List String) : St × String :=
  match w with
  | ["consts"] =>
    (s, s!"max={s.cfg.maxLen} hsmax={s.cfg.hsMaxLen} magic={magic0.toNat}:{magic1.toNat} maxcode={maxCode} hb={heartbeatCode}")
  | ["run", h] =>
    match parseHex h with
    | some b => (s, showEvs (runFixed id s.cfg b))
    | none => (s, "bad-op")
  | ["runc", h] =>
    match parseChunks h with
    | some cs => (s, showEvs (runFixedC id s.cfg cs))
    | none => (s, "bad-op")
  | ["allocz", d, p] =>
    match d.toNat?, p.toNat? with
    | some d, some p =>
      let st := frameStepFixed id flat s.cfg (header d ++ List.replicate p (0 : UInt8))
      let o := match st.out with
        | .needMore => Ev.needMore
        | .err e => Ev.err e
        | .panic x => Ev.panic x
        | .heartbeat _ => Ev.hb
        | .deliver c pl _ => Ev.msg c pl.length (chk pl)
      (s, s!"{o.show} mib={st.alloc / mib}")
    | _, _ => (s, "bad-op")
  | ["hs", p, m, h] =>
    match flag? p, flag? m, parseHex h with
    | some p, some m, some b => (s, (hsStepFixed (fun _ => p) (fun _ => m) s.cfg flat b).out.show)
    | _, _, _ => (s, "bad-op")
  | ["hsc", p, m, h] =>
    match flag? p, flag? m, parseChunks h with
    | some p, some m, some cs => (s, (hsStepFixed (fun _ => p) (fun _ => m) s.cfg chunked cs).out.show)
    | _, _, _ => (s, "bad-op")
  | ["hsalloc", d] =>
    match d.toNat? with
    | some d =>
      let st := hsStepFixed (fun _ => false) (fun _ => false) s.cfg flat (header d)
      (s, s!"{st.out.show} mib={st.alloc / mib}")
    | none => (s, "bad-op")
  | ["closefacts", n] =>
    match n.toNat? with
    | some n => (s, if n = Close.closeSites.length then "ok" else "table-mismatch")
    | none => (s, "bad-op")
  | ["closefact", row] =>
    (s, if (Close.closeSites.map Close.CloseSite.row).contains row then "ok" else "table-mismatch")
  | ["sitefacts", n] =>
    match n.toNat? with
    | some n => (s, if n = Sites.table.length then "ok" else "table-mismatch")
    | none => (s, "bad-op")
  | ["sitefact", row] =>
    (s, if (Sites.table.map Sites.Row.row).contains row then "ok" else "table-mismatch")
  | ["sigorder", n] =>
    match n.toNat? with
    | some n => (s, if n = SigGuard.order.length then "ok" else "table-mismatch")
    | none => (s, "bad-op")
  | ["sigorderrow", row] =>
    (s, if (SigGuard.order.map SigGuard.Row.row).contains row then "ok" else "table-mismatch")
  | ["closehammer", k] =>
    match k.toNat? with
    | some k =>
      let r := Close.run Close.mutexOfTable Close.init (Close.roundRobin k)
      (s, s!"panicked={r.panicked} closed={r.closed}")
    | none => (s, "bad-op")
  | _ => (s, "bad-op")

end Driver.C15

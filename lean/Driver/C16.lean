import Driver.Util
import LemoModel.Evm
import LemoModel.EvmTable
import LemoModel.ModExp
import LemoModel.EvmGas
import LemoModel.JumpAnalysis
import LemoModel.MemRange
namespace Driver.C16
open LemoModel LemoModel.Evm Driver

structure St where
  m : Machine := Machine.init
  /-- words of memory of every live frame, innermost first (parallel to `m.frames`) -/
  mem : List Nat := []
  /-- the persistent `destinations` map of the `jdc` ops -/
  cache : JumpAnalysis.Cache := []

def T : Table := EvmTable.table

def b? (s : String) : Option Bool :=
  if s == "1" then some true else if s == "0" then some false else none

def b01 (b : Bool) : String := if b then "1" else "0"

def paramOf (P : Params) (name : String) : Option Nat :=
  match name with
  | "callCreateDepth" => some P.callCreateDepth
  | "stackLimit" => some P.stackLimit
  | "callStipend" => some P.callStipend
  | "callValueTransferGas" => some P.callValueTransferGas
  | "callNewAccountGas" => some P.callNewAccountGas
  | "createDataGas" => some P.createDataGas
  | "maxCodeSize" => some P.maxCodeSize
  | "createBySuicide" => some P.createBySuicide
  | "opCreate" => some P.opCreate
  | "opCall" => some P.opCall
  | "opCallCode" => some P.opCallCode
  | "opDelegateCall" => some P.opDelegateCall
  | "opStaticCall" => some P.opStaticCall
  | "logBalance" => some P.logBalance
  | "logCode" => some P.logCode
  | "logEvent" => some P.logEvent
  | "memoryGas" => some P.memoryGas
  | "quadCoeffDiv" => some P.quadCoeffDiv
  | "memLimit" => some P.memLimit
  | "expByteGas" => some P.expByteGas
  | "sstoreSetGas" => some P.sstoreSetGas
  | _ => none

/-- "-" or a comma separated list of ChangeLogType numbers -/
def tags? (s : String) : Option (List Nat) :=
  if s == "-" then some [] else (s.splitOn ",").mapM (·.toNat?)

def entryType (P : Params) : Entry → Nat
  | .write t => t
  | .transfer _ => P.logBalance
  | .code => P.logCode
  | .event _ => P.logEvent

/-- run-length encoding, same format as the harness (`1x2,2,15`; `-` for the empty list) -/
def rle : List Nat → List (Nat × Nat)
  | [] => []
  | x :: xs => match rle xs with
    | (y, n) :: r => if x = y then (y, n + 1) :: r else (x, 1) :: (y, n) :: r
    | [] => [(x, 1)]

def showRle (l : List Nat) : String :=
  match rle l with
  | [] => "-"
  | r => ",".intercalate (r.map (fun (x, n) => if n > 1 then s!"{x}x{n}" else s!"{x}"))

/-- `off:sSLOT` / `off:cCONST` joined by `;`, `-` for none -/
def memRange? (s : String) : Option MemRange :=
  match s.splitOn ":" with
  | [o, r] =>
    match o.toNat? with
    | some o =>
      if r.startsWith "s" then (r.drop 1).toNat?.map (fun n => ⟨o, some n, 0⟩)
      else if r.startsWith "c" then (r.drop 1).toNat?.map (fun n => ⟨o, none, n⟩)
      else none
    | none => none
  | _ => none

def memRanges? (s : String) : Option (List MemRange) :=
  if s == "-" then some [] else (s.splitOn ";").mapM memRange?

def dyn? (s : String) : Option Dyn :=
  match s.splitOn ":" with
  | ["-"] => some .none
  | ["exp"] => some .exp
  | ["sstore"] => some .sstore
  | ["suicide"] => some .suicide
  | ["w", a, b] => match a.toNat?, b.toNat? with
    | some a, some b => some (.words a b)
    | _, _ => none
  | ["b", a, b] => match a.toNat?, b.toNat? with
    | some a, some b => some (.bytes a b)
    | _, _ => none
  | _ => none

def callee? (s : String) (paddr preq : Nat) (pok : Bool) (pw : List Nat) : Option Callee :=
  match s with
  | "none" => some .none
  | "empty" => some .empty
  | "code" => some .code
  | "pre" => some (.pre paddr preq pok pw)
  | "loadfail" => some .loadFail
  | "collision" => some .collision
  | _ => none

def kind? (s : String) : Option Kind :=
  match s with
  | "call" => some .call
  | "static" => some .staticCall
  | "create" => some .create
  | _ => none

def verdictName : Verdict → String
  | .invalid => "err:invalid"
  | .underflow => "err:underflow"
  | .overflow => "err:overflow"
  | .writeProt => "err:writeprot"
  | .gasOverflow => "err:gasoverflow"
  | .oog => "err:oog"
  | .ok => "ok"

def resName : Res → String
  | .ok => "nil"
  | .reverted => "revert"
  | .failed => "err"

/-! hex helpers of the `jd` / `gd` / `m*` ops (`-` = empty) -/

def hexDigit? (c : Char) : Option Nat :=
  if '0' ≤ c ∧ c ≤ '9' then some (c.toNat - '0'.toNat)
  else if 'a' ≤ c ∧ c ≤ 'f' then some (c.toNat - 'a'.toNat + 10)
  else none

def hexPairs? : List Char → Option (List UInt8)
  | [] => some []
  | a :: b :: rest =>
    match hexDigit? a, hexDigit? b, hexPairs? rest with
    | some x, some y, some r => some (UInt8.ofNat (16 * x + y) :: r)
    | _, _, _ => none
  | [_] => none

def hex? (s : String) : Option (List UInt8) :=
  if s == "-" then some [] else hexPairs? s.toList

def hexChar (n : Nat) : Char :=
  if n < 10 then Char.ofNat ('0'.toNat + n) else Char.ofNat ('a'.toNat + n - 10)

def toHex (l : List UInt8) : String :=
  if l.isEmpty then "-"
  else String.ofList (l.flatMap (fun b => [hexChar (b.toNat / 16), hexChar (b.toNat % 16)]))

def hexOrPanic : Option (List UInt8) → String
  | some l => toHex l
  | none => "panic"

/-! the memory-range ops `mra` / `mrg` / `mrs` / `mrx` (model LemoModel.MemRange) -/

def renderAccess : MemRange.Access → String
  | .get off (.slot z) => s!"Get(s{off}.Int64(),s{z}.Int64())"
  | .get off (.const n) => s!"Get(s{off}.Int64(),{n})"
  | .getPtr off (.slot z) => s!"GetPtr(s{off}.Int64(),s{z}.Int64())"
  | .getPtr off (.const n) => s!"GetPtr(s{off}.Int64(),{n})"
  | .set off (.slot z) => s!"Set(s{off}.Uint64(),s{z}.Uint64(),_)"
  | .set off (.const n) => s!"Set(s{off}.Uint64(),{n},_)"
  | .store8 off => s!"store[s{off}.Int64()]"
  | .len => "Len()"

def stackWords? (s : String) : Option (List Nat) :=
  if s == "-" then some [] else (s.splitOn ",").mapM (·.toNat?)

def stripZeros : List UInt8 → List UInt8
  | 0 :: t => stripZeros t
  | l => l

def isCallOp (op : Nat) : Bool := op == 0xf1 || op == 0xf2 || op == 0xf4 || op == 0xfa

/-- what the harness can observe of the bytes the body read: MLOAD pushes them as an integer, the
    call family hands them to the identity precompile and returns its output -/
def showRead (op : Nat) (env : MemRange.Env) (r : List UInt8) : String :=
  if op == 0x51 then toHex (stripZeros r)
  else if isCallOp op then toHex ((env.callRet r).getD [])
  else toHex r

def renderSizeExpr : MemRange.SizeExpr → String
  | .calc off (.slot z) => s!"calcMemSize(stack.Back({off}),stack.Back({z}))"
  | .calc off (.const n) => s!"calcMemSize(stack.Back({off}),big.NewInt({n}))"
  | .max a b => s!"math.BigMax({renderSizeExpr a},{renderSizeExpr b})"

def memStep (w : List String) : Option String :=
  match w with
  | ["mrt", name] =>
    some (match MemRange.memSpec name with
      | some e => renderSizeExpr e
      | none => "unknown-function")
  | ["mra", op, _exec] =>
    op.toNat?.map fun op =>
      let mem := match MemRange.memFn op with
        | some f => f.name
        | none => "-"
      let calls := (MemRange.bodyAccesses op).map renderAccess
      let cs := if calls.isEmpty then "-" else ";".intercalate calls
      s!"mem={mem} calls={cs}"
  | ["mrg", op, ms] =>
    match op.toNat?, ms.toNat? with
    | some op, some ms =>
      -- all-zero stack, empty memory: the constant part of the row + memoryGasCost in uint64 arithmetic
      some (match (MemRange.memFn op).isSome, MemRange.memoryGasCost64 T.params.memoryGas T.params.quadCoeffDiv ms with
        | true, some fee => s!"ok cost={(T.info op).minGas + fee}"
        | _, _ => "err")
    | _, _ => none
  | ["mrs", op, gas, ws] =>
    match op.toNat?, gas.toNat?, stackWords? ws with
    | some op, some gas, some st =>
      let msz := match MemRange.memFn op with
        | some f => toString (f.fn st)
        | none => "-"
      let v := match MemRange.stage op st with
        | .overflow => "ovf"
        | .refused => "oog"
        | .ok ms => if EvmGas.memFee T.params (ms / 32) > gas then "oog" else s!"ok mem={ms}"
      some s!"msz={msz} {v}"
    | _, _, _ => none
  | ["mrx", mode, op, ws, buf, len, input, code, ext, ret] =>
    match op.toNat?, stackWords? ws, hex? buf, len.toNat? with
    | some op, some st, some buf, some len =>
      match hex? input, hex? code, hex? ext, hex? ret with
      | some input, some code, some ext, some ret =>
        -- the callee is the identity precompile; a CALL / CALLCODE with value fails (the contract owns nothing)
        let failing : Bool := (op == 0xf1 || op == 0xf2) && MemRange.back st 2 != 0
        let callee : List UInt8 → Option (List UInt8) := fun args => if failing then none else some args
        let env : MemRange.Env := { input := input, code := code, extCode := some ext, retData := ret, callRet := callee }
        -- glue: the harness only emits mode-r lines whose REAL memorySize is at most 8 KiB; if the model asks for
        -- more (the two disagree) it answers with the size instead of building a list of that length
        let big : Option Nat := match MemRange.stage op st with
          | .ok ms => if ms > 65536 then some ms else none
          | _ => none
        if mode == "r" && big.isSome then some s!"model-resizes-to={big.getD 0}"
        else if mode == "r" then
          some (match MemRange.step op st env ⟨buf, len⟩ with
            | .done m r => s!"len={m.len} vis={toHex m.visible} read={showRead op env r}"
            | .panic => "panic"
            | .stopped _ => "stopped")
        else
          some (match MemRange.exec op st env ⟨buf, len⟩ with
            | some (m, r) => s!"len={m.len} buf={toHex m.buf} read={showRead op env r}"
            | none => "panic")
      | _, _, _, _ => none
    | _, _, _, _ => none
  | _ => none

def step (s : St) (w : List String) : St × String :=
  match w with
  | ["jd", code, dests] =>
    match hex? code, (dests.splitOn ",").mapM (·.toNat?) with
    | some code, some dests =>
      let first := match JumpAnalysis.codeBitmap code with
        | some bits => s!"len={JumpAnalysis.allocLen code} bits={toHex bits}"
        | none => "len=panic bits=panic"
      let hs := dests.map (fun d => match JumpAnalysis.validJumpdest code d with
        | some true => "1"
        | some false => "0"
        | none => "p")
      (s, first ++ " has=" ++ ",".intercalate hs)
    | _, _ => (s, "bad-op")
  | ["jdc-reset"] => ({ s with cache := [] }, "ok")
  | ["jdc", key, code, dest] =>
    match key.toNat?, hex? code, dest.toNat? with
    | some key, some code, some dest =>
      let (r, cache') := match JumpAnalysis.has s.cache key code dest with
        | some (b, d') => (b01 b, d')
        | none => ("p", s.cache)
      let cached := match cache'.lookup key with
        | some m => toString m.length
        | none => "-"
      ({ s with cache := cache' }, s!"has={r} n={cache'.length} cached={cached}")
    | _, _, _ => (s, "bad-op")
  | ["gd", data, start, size] =>
    match hex? data, start.toNat?, size.toNat? with
    | some data, some start, some size => (s, hexOrPanic (JumpAnalysis.getData data start size))
    | _, _, _ => (s, "bad-op")
  | ["gdb", data, start, size] =>
    match hex? data, start.toNat?, size.toNat? with
    | some data, some start, some size => (s, hexOrPanic (JumpAnalysis.getDataBig data start size))
    | _, _, _ => (s, "bad-op")
  | ["mset", buf, len, off, size, value] =>
    match hex? buf, len.toNat?, off.toNat?, size.toNat?, hex? value with
    | some buf, some len, some off, some size, some value =>
      (s, match JumpAnalysis.memSet ⟨buf, len⟩ off size value with
          | some m => s!"len={m.len} buf={toHex m.buf}"
          | none => "panic")
    | _, _, _, _, _ => (s, "bad-op")
  | ["mget", buf, len, off, size] =>
    match hex? buf, len.toNat?, off.toNat?, size.toNat? with
    | some buf, some len, some off, some size => (s, hexOrPanic (JumpAnalysis.memGet ⟨buf, len⟩ off size))
    | _, _, _, _ => (s, "bad-op")
  | ["mptr", buf, len, off, size] =>
    match hex? buf, len.toNat?, off.toNat?, size.toNat? with
    | some buf, some len, some off, some size => (s, hexOrPanic (JumpAnalysis.memGetPtr ⟨buf, len⟩ off size))
    | _, _, _, _ => (s, "bad-op")
  | ["mres", buf, len, size] =>
    match hex? buf, len.toNat?, size.toNat? with
    | some buf, some len, some size =>
      let m := JumpAnalysis.memResize ⟨buf, len⟩ size
      (s, s!"len={m.len} vis={toHex m.visible}")
    | _, _, _ => (s, "bad-op")
  | ["param", name, v] =>
    match paramOf T.params name, v.toNat? with
    | some a, some b => (s, if a == b then "ok" else "table-mismatch")
    | _, _ => (s, "table-mismatch")
  | ["op", op, valid, mn, mx, wr, ha, re, ju, rt, hm, mg, cg, mem, g2, g1024, dyn] =>
    match op.toNat?, b? valid, parseInt? mn, parseInt? mx, b? wr, b? ha, b? re, b? ju, b? rt, b? hm, mg.toNat?, b? cg with
    | some op, some valid, some mn, some mx, some wr, some ha, some re, some ju, some rt, some hm, some mg, some cg =>
      match memRanges? mem, g2.toNat?, g1024.toNat?, dyn? dyn with
      | some mem, some g2, some g1024, some dyn =>
        let live : OpInfo := if valid then ⟨true, mn.toNat, mx.toNat, wr, ha, re, ju, rt, hm, mg, cg, mem, g2, g1024, dyn⟩ else OpInfo.invalid
        (s, if op < 256 ∧ T.rows.length = 256 ∧ T.info op = live ∧ (valid = false ∨ (0 ≤ mn ∧ 0 ≤ mx)) then "ok" else "table-mismatch")
      | _, _, _, _ => (s, "bad-op")
    | _, _, _, _, _, _, _, _, _, _, _, _ => (s, "bad-op")
  | ["pre", addr, wr, guarded] =>
    -- live row: address, declared state-modifying, probed "refused under readOnly"
    match addr.toNat?, b? wr, b? guarded with
    | some a, some wr, some gd =>
      (s, if a ∈ EvmTable.precompiles ∧ (wr = decide (a ∈ T.params.writingPre)) ∧ (wr = false ∨ gd = T.params.guardPre)
          then "ok" else "table-mismatch")
    | _, _, _ => (s, "bad-op")
  | ["precount", n] =>
    (s, if n.toNat? = some EvmTable.precompiles.length then "ok" else "table-mismatch")
  | ["begin-asset", gas, early, amountZero, callee, paddr, preq, pok, wt] =>
    match gas.toNat?, b? early, b? amountZero, paddr.toNat?, preq.toNat?, b? pok, tags? wt with
    | some gas, some early, some az, some paddr, some preq, some pok, some wt =>
      match callee? callee paddr preq pok [] with
      | some cal =>
        let m := beginAsset T gas early az wt cal
        ({ s with m := m, mem := m.frames.map (fun _ => 0) }, "ok")
      | none => (s, "bad-op")
    | _, _, _, _, _, _, _ => (s, "bad-op")
  | ["begin", entry, gas, value, canT, callee, paddr, preq, pok, pw] =>
    match kind? entry, gas.toNat?, b? value, b? canT, paddr.toNat?, preq.toNat?, b? pok, tags? pw with
    | some k, some gas, some value, some canT, some paddr, some preq, some pok, some pw =>
      match callee? callee paddr preq pok pw with
      | some cal =>
        let m := begin T k gas value canT cal
        ({ s with m := m, mem := m.frames.map (fun _ => 0) }, "ok")
      | none => (s, "bad-op")
    | _, _, _, _, _, _, _, _ => (s, "bad-op")
  | ["s", op, sl, execErr, wr, retLen, canT, callee, paddr, preq, pok, pw, bits, stk] =>
    match op.toNat?, sl.toNat?, b? execErr, tags? wr, retLen.toNat?, b? canT, paddr.toNat?, preq.toNat? with
    | some op, some sl, some execErr, some wr, some retLen, some canT, some paddr, some preq =>
      match b? pok, tags? pw, tags? stk, bits.toList with
      | some pok, some pw, some st, [b0, b1, b2] =>
        match callee? callee paddr preq pok pw, s.m.frames with
        | some cal, f :: _ =>
          let info := T.info op
          let kind := T.kindOf op
          -- operands the model reads off the stack itself
          let value : Bool := match kind with
            | some .create => st.getD 0 0 ≠ 0
            | some .call => st.getD 2 0 ≠ 0
            | some .callCode => st.getD 2 0 ≠ 0
            | _ => false
          let req := st.getD 0 0
          let cur := s.mem.headD 0
          let gbits : EvmGas.GasBits := { slotEmpty := b0 == '1', beneficiaryNew := b1 == '1', calleeNew := b2 == '1' }
          let gr := EvmGas.gasOf T.params info (decide (kind = some .call) && value) st cur gbits
          let c : Choice := { op := op, stackLen := sl, execErr := execErr, wtags := wr, retLen := retLen,
                              value := value, reqGas := req, canTransfer := canT, callee := cal,
                              memOverflow := (match gr with | .memOverflow => true | _ => false),
                              gasErr := (match gr with | .gasErr => true | _ => false),
                              extra := (match gr with | .ok e _ => e | _ => 0) }
          let head := s!"{s.m.frames.length} {f.gas} {b01 s.m.readOnly} {s.m.journal.length} "
          let p := pre T s.m.readOnly f.gas c
          let newWords := match p, gr with
            | .ok _, .ok _ w => w
            | _, _ => cur
          let v : String := match p with
            | .error e => verdictName e ++ s!" mw={cur}"
            | .ok (g, child) =>
              let cost := f.gas - g - (if kind = some .create then child else 0)
              match kind with
              | some k => if k = .create then s!"ok mw={newWords} cost={cost}" else s!"ok mw={newWords} cost={cost} child={child}"
              | none => (if execErr then "err:exec" else if info.reverts then "revert" else "ok") ++ s!" mw={newWords} cost={cost}"
          let m' := Evm.step T s.m c
          let lenB := s.m.frames.length
          let lenA := m'.frames.length
          let mem' := if lenA = lenB + 1 then 0 :: newWords :: s.mem.tail
                      else if lenA = lenB then newWords :: s.mem.tail
                      else s.mem.tail
          ({ s with m := m', mem := mem' }, head ++ v)
        | some _, [] => (s, "no-frame")
        | none, _ => (s, "bad-op")
      | _, _, _, _ => (s, "bad-op")
    | _, _, _, _, _, _, _, _ => (s, "bad-op")
  | ["modexp", b, e, m, dlen, hb, ran] =>
    -- header of a MODEXP call: the model answers RequiredGas and, when the harness ran it, what Run returns
    match b.toNat?, e.toNat?, m.toNat?, dlen.toNat?, hb.toNat?, b? ran with
    | some b, some e, some m, some dlen, some hb, some ran =>
      let g := ModExp.requiredGas b e m dlen hb
      let r := if ran then (match ModExp.outcome true b e m dlen with
                            | some n => toString n
                            | none => "panic") else "-"
      (s, s!"gas={g} ret={r}")
    | _, _, _, _, _, _ => (s, "bad-op")
  | ["pregas", addr, n] =>
    match addr.toNat?, n.toNat? with
    | some 2, some n => (s, s!"gas={ModExp.sha256Gas n}")
    | some 3, some n => (s, s!"gas={ModExp.ripemdGas n}")
    | some 4, some n => (s, s!"gas={ModExp.dataCopyGas n} ret={n}")
    | some 8, some n => (s, s!"gas={ModExp.pairingGas n} sizeerr={if n % 192 = 0 then 0 else 1}")
    | _, _ => (s, "bad-op")
  | ["end"] =>
    match s.m.result, s.m.frames with
    | some (r, g), [] =>
      ({ s with m := Machine.init, mem := [] }, s!"{resName r} {g} {s.m.journal.length} {showRle (s.m.journal.map (entryType T.params))}")
    | _, _ => ({ s with m := Machine.init, mem := [] }, s!"not-finished depth={s.m.frames.length}")
  | _ => (s, (memStep w).getD "bad-op")

end Driver.C16

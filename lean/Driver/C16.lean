import Driver.Util
import LemoModel.Evm
import LemoModel.EvmTable
namespace Driver.C16
open LemoModel LemoModel.Evm Driver

structure St where
  m : Machine := Machine.init

def T : Table := EvmTable.table

def b? (s : String) : Option Bool :=
  if s == "1" then some true else if s == "0" then some false else none

def b01 (b : Bool) : String := if b then "1" else "0"

def paramOf (P : Params) (name : String) : Option Nat :=
  match name with
  | "callCreateDepth" => some P.callCreateDepth
  | "stackLimit" => some P.stackLimit
  | "callStipend" => some P.callStipend
  | "callValueTransferGas" => some P.callValueTransferGas
  | "callNewAccountGas" => some P.callNewAccountGas
  | "createDataGas" => some P.createDataGas
  | "maxCodeSize" => some P.maxCodeSize
  | "createBySuicide" => some P.createBySuicide
  | "opCreate" => some P.opCreate
  | "opCall" => some P.opCall
  | "opCallCode" => some P.opCallCode
  | "opDelegateCall" => some P.opDelegateCall
  | "opStaticCall" => some P.opStaticCall
  | _ => none

def callee? (s : String) (paddr preq : Nat) (pok : Bool) (pw : Nat) : Option Callee :=
  match s with
  | "none" => some .none
  | "empty" => some .empty
  | "code" => some .code
  | "pre" => some (.pre paddr preq pok pw)
  | "loadfail" => some .loadFail
  | "collision" => some .collision
  | _ => none

def kind? (s : String) : Option Kind :=
  match s with
  | "call" => some .call
  | "static" => some .staticCall
  | "create" => some .create
  | _ => none

def verdictName : Verdict → String
  | .invalid => "err:invalid"
  | .underflow => "err:underflow"
  | .overflow => "err:overflow"
  | .writeProt => "err:writeprot"
  | .gasOverflow => "err:gasoverflow"
  | .oog => "err:oog"
  | .ok => "ok"

def resName : Res → String
  | .ok => "nil"
  | .reverted => "revert"
  | .failed => "err"

def step (s : St) (w : List String) : St × String :=
  match w with
  | ["param", name, v] =>
    match paramOf T.params name, v.toNat? with
    | some a, some b => (s, if a == b then "ok" else "table-mismatch")
    | _, _ => (s, "table-mismatch")
  | ["op", op, valid, mn, mx, wr, ha, re, ju, rt, hm, mg] =>
    match op.toNat?, b? valid, parseInt? mn, parseInt? mx, b? wr, b? ha, b? re, b? ju, b? rt, b? hm, mg.toNat? with
    | some op, some valid, some mn, some mx, some wr, some ha, some re, some ju, some rt, some hm, some mg =>
      let live : OpInfo := if valid then ⟨true, mn.toNat, mx.toNat, wr, ha, re, ju, rt, hm, mg⟩ else OpInfo.invalid
      (s, if op < 256 ∧ T.rows.length = 256 ∧ T.info op = live ∧ (valid = false ∨ (0 ≤ mn ∧ 0 ≤ mx)) then "ok" else "table-mismatch")
    | _, _, _, _, _, _, _, _, _, _, _ => (s, "bad-op")
  | ["pre", addr, wr] =>
    match addr.toNat?, b? wr with
    | some a, some wr =>
      (s, if a ∈ EvmTable.precompiles ∧ (wr = decide (a ∈ T.params.writingPre)) then "ok" else "table-mismatch")
    | _, _ => (s, "bad-op")
  | ["precount", n] =>
    (s, if n.toNat? = some EvmTable.precompiles.length ∧ T.params.guardPre = true then "ok" else "table-mismatch")
  | ["begin", entry, gas, value, canT, callee, paddr, preq, pok, pw] =>
    match kind? entry, gas.toNat?, b? value, b? canT, paddr.toNat?, preq.toNat?, b? pok, pw.toNat? with
    | some k, some gas, some value, some canT, some paddr, some preq, some pok, some pw =>
      match callee? callee paddr preq pok pw with
      | some cal => ({ m := begin T k gas value canT cal }, "ok")
      | none => (s, "bad-op")
    | _, _, _, _, _, _, _, _ => (s, "bad-op")
  | ["s", op, sl, cost, memOv, gasErr, execErr, wr, retLen, value, req, canT, callee, paddr, preq, pok, pw] =>
    match op.toNat?, sl.toNat?, cost.toNat?, b? memOv, b? gasErr, b? execErr, wr.toNat?, retLen.toNat? with
    | some op, some sl, some cost, some memOv, some gasErr, some execErr, some wr, some retLen =>
      match b? value, req.toNat?, b? canT, paddr.toNat?, preq.toNat?, b? pok, pw.toNat? with
      | some value, some req, some canT, some paddr, some preq, some pok, some pw =>
        match callee? callee paddr preq pok pw, s.m.frames with
        | some cal, f :: _ =>
          let info := T.info op
          let c0 : Choice := { op := op, stackLen := sl, memOverflow := memOv, gasErr := gasErr, execErr := execErr,
                               writes := wr, retLen := retLen, value := value, reqGas := req, canTransfer := canT, callee := cal }
          let fixed := info.minGas + (match T.kindOf op with
            | some k => if k ≠ .create ∧ withValue k c0 then T.params.callValueTransferGas else 0
            | none => 0)
          let c : Choice := { c0 with extra := cost - fixed }
          let head := s!"{s.m.frames.length} {f.gas} {b01 s.m.readOnly} {s.m.journal.length} "
          let p := pre T s.m.readOnly f.gas c
          let reachedGas : Bool := match p with
            | .ok _ => true
            | .error .oog => !gasErr
            | .error _ => false
          if reachedGas ∧ cost < fixed then (s, head ++ "cost-below-min")
          else
            let v : String := match p with
              | .error e => verdictName e
              | .ok (_, child) =>
                match T.kindOf op with
                | some k => if k = .create then "ok" else s!"ok child={child}"
                | none => if execErr then "err:exec" else if info.reverts then "revert" else "ok"
            ({ m := Evm.step T s.m c }, head ++ v)
        | some _, [] => (s, "no-frame")
        | none, _ => (s, "bad-op")
      | _, _, _, _, _, _, _ => (s, "bad-op")
    | _, _, _, _, _, _, _, _ => (s, "bad-op")
  | ["end"] =>
    match s.m.result, s.m.frames with
    | some (r, g), [] => ({ m := Machine.init }, s!"{resName r} {g} {s.m.journal.length}")
    | _, _ => ({ m := Machine.init }, s!"not-finished depth={s.m.frames.length}")
  | _ => (s, "bad-op")

end Driver.C16

import Driver.Util
import LemoModel.Evm
import LemoModel.EvmTable
import LemoModel.ModExp
namespace Driver.C16
open LemoModel LemoModel.Evm Driver

structure St where
  m : Machine := Machine.init

def T : Table := EvmTable.table

def b? (s : String) : Option Bool :=
  if s == "1" then some true else if s == "0" then some false else none

def b01 (b : Bool) : String := if b then "1" else "0"

def paramOf (P : Params) (name : String) : Option Nat :=
  match name with
  | "callCreateDepth" => some P.callCreateDepth
  | "stackLimit" => some P.stackLimit
  | "callStipend" => some P.callStipend
  | "callValueTransferGas" => some P.callValueTransferGas
  | "callNewAccountGas" => some P.callNewAccountGas
  | "createDataGas" => some P.createDataGas
  | "maxCodeSize" => some P.maxCodeSize
  | "createBySuicide" => some P.createBySuicide
  | "opCreate" => some P.opCreate
  | "opCall" => some P.opCall
  | "opCallCode" => some P.opCallCode
  | "opDelegateCall" => some P.opDelegateCall
  | "opStaticCall" => some P.opStaticCall
  | "logBalance" => some P.logBalance
  | "logCode" => some P.logCode
  | "logEvent" => some P.logEvent
  | _ => none

/-- "-" or a comma separated list of ChangeLogType numbers -/
def tags? (s : String) : Option (List Nat) :=
  if s == "-" then some [] else (s.splitOn ",").mapM (·.toNat?)

def entryType (P : Params) : Entry → Nat
  | .write t => t
  | .transfer _ => P.logBalance
  | .code => P.logCode
  | .event _ => P.logEvent

/-- run-length encoding, same format as the harness (`1x2,2,15`; `-` for the empty list) -/
def rle : List Nat → List (Nat × Nat)
  | [] => []
  | x :: xs => match rle xs with
    | (y, n) :: r => if x = y then (y, n + 1) :: r else (x, 1) :: (y, n) :: r
    | [] => [(x, 1)]

def showRle (l : List Nat) : String :=
  match rle l with
  | [] => "-"
  | r => ",".intercalate (r.map (fun (x, n) => if n > 1 then s!"{x}x{n}" else s!"{x}"))

def callee? (s : String) (paddr preq : Nat) (pok : Bool) (pw : List Nat) : Option Callee :=
  match s with
  | "none" => some .none
  | "empty" => some .empty
  | "code" => some .code
  | "pre" => some (.pre paddr preq pok pw)
  | "loadfail" => some .loadFail
  | "collision" => some .collision
  | _ => none

def kind? (s : String) : Option Kind :=
  match s with
  | "call" => some .call
  | "static" => some .staticCall
  | "create" => some .create
  | _ => none

def verdictName : Verdict → String
  | .invalid => "err:invalid"
  | .underflow => "err:underflow"
  | .overflow => "err:overflow"
  | .writeProt => "err:writeprot"
  | .gasOverflow => "err:gasoverflow"
  | .oog => "err:oog"
  | .ok => "ok"

def resName : Res → String
  | .ok => "nil"
  | .reverted => "revert"
  | .failed => "err"

def step (s : St) (w : List String) : St × String :=
  match w with
  | ["param", name, v] =>
    match paramOf T.params name, v.toNat? with
    | some a, some b => (s, if a == b then "ok" else "table-mismatch")
    | _, _ => (s, "table-mismatch")
  | ["op", op, valid, mn, mx, wr, ha, re, ju, rt, hm, mg, cg] =>
    match op.toNat?, b? valid, parseInt? mn, parseInt? mx, b? wr, b? ha, b? re, b? ju, b? rt, b? hm, mg.toNat?, b? cg with
    | some op, some valid, some mn, some mx, some wr, some ha, some re, some ju, some rt, some hm, some mg, some cg =>
      let live : OpInfo := if valid then ⟨true, mn.toNat, mx.toNat, wr, ha, re, ju, rt, hm, mg, cg⟩ else OpInfo.invalid
      (s, if op < 256 ∧ T.rows.length = 256 ∧ T.info op = live ∧ (valid = false ∨ (0 ≤ mn ∧ 0 ≤ mx)) then "ok" else "table-mismatch")
    | _, _, _, _, _, _, _, _, _, _, _, _ => (s, "bad-op")
  | ["pre", addr, wr, guarded] =>
    -- live row: address, declared state-modifying, probed "refused under readOnly"
    match addr.toNat?, b? wr, b? guarded with
    | some a, some wr, some gd =>
      (s, if a ∈ EvmTable.precompiles ∧ (wr = decide (a ∈ T.params.writingPre)) ∧ (wr = false ∨ gd = T.params.guardPre)
          then "ok" else "table-mismatch")
    | _, _, _ => (s, "bad-op")
  | ["precount", n] =>
    (s, if n.toNat? = some EvmTable.precompiles.length then "ok" else "table-mismatch")
  | ["begin-asset", gas, early, amountZero, callee, paddr, preq, pok, wt] =>
    match gas.toNat?, b? early, b? amountZero, paddr.toNat?, preq.toNat?, b? pok, tags? wt with
    | some gas, some early, some az, some paddr, some preq, some pok, some wt =>
      match callee? callee paddr preq pok [] with
      | some cal => ({ m := beginAsset T gas early az wt cal }, "ok")
      | none => (s, "bad-op")
    | _, _, _, _, _, _, _ => (s, "bad-op")
  | ["begin", entry, gas, value, canT, callee, paddr, preq, pok, pw] =>
    match kind? entry, gas.toNat?, b? value, b? canT, paddr.toNat?, preq.toNat?, b? pok, tags? pw with
    | some k, some gas, some value, some canT, some paddr, some preq, some pok, some pw =>
      match callee? callee paddr preq pok pw with
      | some cal => ({ m := begin T k gas value canT cal }, "ok")
      | none => (s, "bad-op")
    | _, _, _, _, _, _, _, _ => (s, "bad-op")
  | ["s", op, sl, cost, memOv, gasErr, execErr, wr, retLen, value, req, canT, callee, paddr, preq, pok, pw] =>
    match op.toNat?, sl.toNat?, cost.toNat?, b? memOv, b? gasErr, b? execErr, tags? wr, retLen.toNat? with
    | some op, some sl, some cost, some memOv, some gasErr, some execErr, some wr, some retLen =>
      match b? value, req.toNat?, b? canT, paddr.toNat?, preq.toNat?, b? pok, tags? pw with
      | some value, some req, some canT, some paddr, some preq, some pok, some pw =>
        match callee? callee paddr preq pok pw, s.m.frames with
        | some cal, f :: _ =>
          let info := T.info op
          let c0 : Choice := { op := op, stackLen := sl, memOverflow := memOv, gasErr := gasErr, execErr := execErr,
                               wtags := wr, retLen := retLen, value := value, reqGas := req, canTransfer := canT, callee := cal }
          let fixed := info.minGas + (match T.kindOf op with
            | some k => if k ≠ .create ∧ withValue k c0 then T.params.callValueTransferGas else 0
            | none => 0)
          let c : Choice := { c0 with extra := cost - fixed }
          let head := s!"{s.m.frames.length} {f.gas} {b01 s.m.readOnly} {s.m.journal.length} "
          let p := pre T s.m.readOnly f.gas c
          let reachedGas : Bool := match p with
            | .ok _ => true
            | .error .oog => !gasErr
            | .error _ => false
          if reachedGas ∧ cost < fixed then (s, head ++ "cost-below-min")
          else if reachedGas ∧ info.constGas ∧ cost ≠ fixed then (s, head ++ "cost-not-constant")
          else
            let v : String := match p with
              | .error e => verdictName e
              | .ok (_, child) =>
                match T.kindOf op with
                | some k => if k = .create then "ok" else s!"ok child={child}"
                | none => if execErr then "err:exec" else if info.reverts then "revert" else "ok"
            ({ m := Evm.step T s.m c }, head ++ v)
        | some _, [] => (s, "no-frame")
        | none, _ => (s, "bad-op")
      | _, _, _, _, _, _, _ => (s, "bad-op")
    | _, _, _, _, _, _, _, _ => (s, "bad-op")
  | ["modexp", b, e, m, dlen, hb, ran] =>
    -- header of a MODEXP call: the model answers RequiredGas and, when the harness ran it, what Run returns
    match b.toNat?, e.toNat?, m.toNat?, dlen.toNat?, hb.toNat?, b? ran with
    | some b, some e, some m, some dlen, some hb, some ran =>
      let g := ModExp.requiredGas b e m dlen hb
      let r := if ran then (match ModExp.outcome true b e m dlen with
                            | some n => toString n
                            | none => "panic") else "-"
      (s, s!"gas={g} ret={r}")
    | _, _, _, _, _, _ => (s, "bad-op")
  | ["pregas", addr, n] =>
    match addr.toNat?, n.toNat? with
    | some 2, some n => (s, s!"gas={ModExp.sha256Gas n}")
    | some 3, some n => (s, s!"gas={ModExp.ripemdGas n}")
    | some 4, some n => (s, s!"gas={ModExp.dataCopyGas n} ret={n}")
    | some 8, some n => (s, s!"gas={ModExp.pairingGas n} sizeerr={if n % 192 = 0 then 0 else 1}")
    | _, _ => (s, "bad-op")
  | ["end"] =>
    match s.m.result, s.m.frames with
    | some (r, g), [] =>
      ({ m := Machine.init }, s!"{resName r} {g} {s.m.journal.length} {showRle (s.m.journal.map (entryType T.params))}")
    | _, _ => ({ m := Machine.init }, s!"not-finished depth={s.m.frames.length}")
  | _ => (s, "bad-op")

end Driver.C16

import Driver.Util
import LemoModel.Merkle
import LemoModel.Mpt
import LemoModel.MptStore
import LemoModel.MptDecode
import LemoModel.StorageCache
namespace Driver.C17
open LemoModel Driver

/-! line-protocol driver for C17: Merkle tree ops (`mt`, `ms`, `mv`) over the free hash algebra
    `HTerm`, and trie ops (`tnew`, `tput`, `tdel`, `tget`, `tdump`, `tcommit`, `treopen`). -/

/-- state of the `s…` stream (partially resolved trie over the node pool, `LemoModel.MptStore`) -/
structure SSt where
  trie : MptStore.Trie := {}
  db : MptStore.Db := {}
  /-- the `small` oracle learnt from the real hasher: serialised collapsed node ↦ embedded? -/
  table : List (List Nat × Bool) := []
  /-- interned hashes, in order of first appearance in the output -/
  ids : List MptStore.Hash := []

/-- state of the `sc.…` stream (chain/account.StorageCache over the node pool, `LemoModel.StorageCache`) -/
structure KSt where
  /-- the key-value store below every TrieDatabase of the scenario -/
  disk : StorageCache.Disk := []
  /-- the StorageCaches of the scenario, by number -/
  caches : List StorageCache.SC := []
  /-- the key pool: storage key ↦ Keccak256(key) as computed by the harness (crypto.Keccak256) -/
  pool : List (List Nat × List Nat) := []
  /-- interned root hashes, in order of first appearance in the output -/
  ids : List MptStore.Hash := []

structure St where
  trie : Mpt.Node := .empty
  s : SSt := {}
  k : KSt := {}

/-! ### helpers -/

def hexDigit? (c : Char) : Option Nat :=
  if '0' ≤ c ∧ c ≤ '9' then some (c.toNat - '0'.toNat)
  else if 'a' ≤ c ∧ c ≤ 'f' then some (c.toNat - 'a'.toNat + 10)
  else none

def parseHexChars : List Char → Option (List Nat)
  | [] => some []
  | [_] => none
  | a :: b :: rest =>
    match hexDigit? a, hexDigit? b, parseHexChars rest with
    | some x, some y, some r => some ((x * 16 + y) :: r)
    | _, _, _ => none

/-- `-` is the empty byte string -/
def parseHex? (s : String) : Option (List Nat) :=
  if s == "-" then some [] else parseHexChars s.toList

def hexChar (n : Nat) : Char :=
  if n < 10 then Char.ofNat ('0'.toNat + n) else Char.ofNat ('a'.toNat + n - 10)

def showHex (bs : List Nat) : String :=
  String.ofList (bs.flatMap (fun b => [hexChar (b / 16 % 16), hexChar (b % 16)]))

def showPath (p : List Mpt.Nib) : String :=
  String.ofList (p.map (fun n => if n.val = 16 then 'g' else hexChar n.val))

def showDump (t : Mpt.Node) : String :=
  " ".intercalate ((Mpt.walk t []).map (fun e =>
    match e with
    | (p, none) => "/" ++ showPath p
    | (p, some v) => "/" ++ showPath p ++ "=" ++ showHex v))

/-- comma separated naturals, `-` = empty list -/
def parseList? (s : String) : Option (List Nat) :=
  if s == "-" then some []
  else (s.splitOn ",").foldr (fun w acc => match w.toNat?, acc with
    | some n, some l => some (n :: l)
    | _, _ => none) (some [])

/-! ### Merkle -/

open Merkle in
def emptyMark : HTerm := .leaf 1000000

open Merkle in
def mkNodes (l : List Nat) : List HTerm := calcNodes HTerm.node (l.map HTerm.leaf)

open Merkle in
def idxStr (nodes : List HTerm) (x : HTerm) : String :=
  let i := indexOf x nodes
  if i = nodes.length then "?" else toString i

open Merkle in
def showTree (l : List Nat) : String :=
  let nodes := mkNodes l
  let n := l.length
  let inner := (List.range nodes.length).filterMap (fun k =>
    if k < n then none else
    match nodes[k]? with
    | some (.node x y) => some s!"{k}={idxStr nodes x},{idxStr nodes y}"
    | _ => some s!"{k}=?")
  let r := root HTerm.node emptyMark (l.map HTerm.leaf)
  let rs := if nodes.isEmpty ∧ r = emptyMark then "empty" else idxStr nodes r
  s!"{nodes.length} " ++ " ".intercalate inner ++ s!" root={rs}"

open Merkle in
def sideStr : Side → String
  | .left => "L" | .right => "R" | .root => "T"

open Merkle in
def showPathM (nodes : List HTerm) (p : List (MNode HTerm)) : String :=
  " ".intercalate (p.map (fun m => idxStr nodes m.hash ++ ":" ++ sideStr m.side))

open Merkle in
/-- the source hash of an `ms`/`mv` op: array entry `j`, or a hash that is nowhere in the tree for `j < 0` -/
def entry (nodes : List HTerm) (j : Int) : HTerm :=
  if j < 0 then .leaf 2000000 else (nodes[j.toNat]?).getD (.leaf 2000000)

open Merkle in
def mutate (p : List (MNode HTerm)) (drop : Nat) (flip : Int) : List (MNode HTerm) :=
  let q := p.drop drop
  if flip < 0 then q else
  (q.zipIdx).map (fun (m, i) =>
    if i = flip.toNat then
      match m.side with
      | .left => { m with side := .right }
      | .right => { m with side := .left }
      | .root => m
    else m)

/-! ### the `s…` stream: partially resolved trie, hasher, node pool (`LemoModel.MptStore`)

  `hashOf` is instantiated by an injective serialisation of the collapsed node (so equal hashes ⇔
  equal collapsed nodes, which is what the printed hash ids compare with Keccak on the Go side);
  `small` by the table learnt from the embed/hash decisions of the real hasher that the op line of
  `scommit` / `shash` carries (a function of the collapsed node; a contradiction is reported). -/

namespace S
open MptStore

def ser : CNode → List Nat
  | .empty => [0]
  | .value v => 1 :: v.length :: v
  | .hash h => 2 :: h.length :: h
  | .short k c => 3 :: k.length :: (k.map (·.val)) ++ ser c
  | .full ch => 4 :: (List.finRange 17).flatMap (fun i => ser (ch i))

def lookupT : List (List Nat × Bool) → List Nat → Option Bool
  | [], _ => none
  | (k, b) :: rest, x => if k = x then some b else lookupT rest x

/-- the model's OWN embedding test: `len(rlp(collapsed node)) < 32` through C14's RLP encoder
    (`MptStore.rlpSmall`), with every hash reference counted as 32 bytes.  The decisions of the real
    hasher carried by the op line are only CHECKED against it (`checkDecisions`). -/
def smallOf (_table : List (List Nat × Bool)) (c : CNode) : Bool := rlpSmall (pad32 c)

def stackDepth : Nat := 100000

def parseNib? (c : Char) : Option Mpt.Nib :=
  if c = 'g' then some 16 else (hexDigit? c).map (fun n => Fin.ofNat 17 n)

def parsePath? (s : String) : Option (List Mpt.Nib) :=
  s.toList.foldr (fun c acc => match parseNib? c, acc with
    | some n, some l => some (n :: l)
    | _, _ => none) (some [])

/-- `p1:h,p2:e,…` or `-` -/
def parseDecisions? (s : String) : Option (List (List Mpt.Nib × Bool)) :=
  if s == "-" then some [] else
  (s.splitOn ",").foldr (fun w acc =>
    match w.splitOn ":", acc with
    | [p, d], some l =>
      match parsePath? p with
      | some p => if d == "e" then some ((p, true) :: l) else if d == "h" then some ((p, false) :: l) else none
      | none => none
    | _, _ => none) (some [])

def subtreeAt : PNode → List Mpt.Nib → Option PNode
  | p, [] => some p
  | .short K c _, path =>
    match Mpt.stripPrefix K path with
    | some rest => if K.isEmpty then none else subtreeAt c rest
    | none => none
  | .full ch _, i :: rest => subtreeAt (ch i) rest
  | _, _ => none

/-- check the embed/hash decisions the real hasher took (per path) against the model's own size test -/
def learn (hashOf : CNode → Hash) (t : Trie) (commit : Bool) (table : List (List Nat × Bool))
    (ds : List (List Mpt.Nib × Bool)) : Option (List (List Nat × Bool)) :=
  ds.foldl (fun acc d =>
    match acc with
    | none => none
    | some tb =>
      match subtreeAt t.root d.1 with
      | none => none
      | some sub =>
        let hs : Hasher := ⟨smallOf tb, hashOf, t.cachegen, t.cachelimit, commit⟩
        if rlpSmall (pad32 (kids hs sub)) = d.2 then some tb else none) (some table)

/-- values longer than 40 bytes: first 8 bytes + length -/
def showVal (v : List Nat) : String :=
  if v.isEmpty then "-" else if v.length > 40 then showHex (v.take 8) ++ ".." ++ toString v.length else showHex v

def internId (ids : List Hash) (h : Hash) : List Hash × Nat :=
  let i := ids.idxOf h
  if i < ids.length then (ids, i) else (ids ++ [h], ids.length)

/-- printed items: text before the hash id, optional hash, text after -/
def items : PNode → List Mpt.Nib → List (String × Option Hash × String)
  | .empty, _ => []
  | .value v, path => [("/" ++ showPath path ++ ":v" ++ showVal v, none, "")]
  | .hash h, path => [("/" ++ showPath path ++ ":", some h, "")]
  | .short K c f, path =>
    ("/" ++ showPath path ++ ":s" ++ showPath K ++ "[" ++ (if f.dirty then "d" else "c") ++ toString f.gen, f.hash, "]")
      :: items c (path ++ K)
  | .full ch f, path =>
    ("/" ++ showPath path ++ ":f[" ++ (if f.dirty then "d" else "c") ++ toString f.gen, f.hash, "]")
      :: (List.finRange 17).flatMap (fun i => items (ch i) (path ++ [i]))

def render (ids : List Hash) (its : List (String × Option Hash × String)) : List Hash × List String :=
  its.foldl (fun (acc : List Hash × List String) it =>
    match it.2.1 with
    | none => (acc.1, acc.2 ++ [it.1 ++ it.2.2])
    | some h =>
      let (ids', i) := internId acc.1 h
      (ids', acc.2 ++ [it.1 ++ "#" ++ toString i ++ it.2.2])) (ids, [])

def shape (ids : List Hash) (t : Trie) : List Hash × String :=
  match t.root with
  | .empty => (ids, "nil")
  | r =>
    let (ids', toks) := render ids (items r [])
    (ids', " ".intercalate toks)

def parseId? (s : String) : Option Nat :=
  if s.startsWith "#" then (s.drop 1).toNat? else none

def showProof : ProofRes → String
  | .value v n => s!"v={showVal v} n={n}"
  | .absent n => s!"nil n={n}"
  | .missing i => s!"err missing {i}"
  | .mismatch i => s!"err mismatch {i}"
  | .bad i => s!"err bad {i}"
  | .panic => "panic"
  | .diverge => "diverge"

/-- the hash under which the blob that holds the value for `key` is read, and the key left there -/
def lastBlob (r : Store) : Nat → Hash → List Mpt.Nib → Option (Hash × List Mpt.Nib)
  | 0, _, _ => none
  | fuel + 1, want, key =>
    match r want with
    | none => none
    | some c =>
      match proofGet c key with
      | .value _ => some (want, key)
      | .hash h rest => lastBlob r fuel h rest
      | _ => none

/-- flip the lowest bit of the last byte of the value `get` reaches for `key` -/
def alterAt : CNode → List Mpt.Nib → CNode
  | .short K c, key =>
    match Mpt.stripPrefix K key with
    | none => .short K c
    | some rest => .short K (alterAt c rest)
  | .full ch, k :: rest => .full (fun i => if i = k then alterAt (ch i) rest else ch i)
  | .value v, _ =>
    match v.reverse with
    | b :: r => .value ((Nat.xor b 1 :: r).reverse)
    | [] => .value v
  | c, _ => c

def failStr {α : Type} : Res α → String
  | .ok _ => "ok"
  | .missing _ => "err missing"
  | .panic => "panic"
  | .overflow => "overflow"

def step (s : SSt) (w : List String) : SSt × String :=
  match w with
  | ["snew", l] =>
    match l.toNat? with
    | some l => ({ trie := { cachelimit := l } }, "ok")
    | none => (s, "bad-op")
  | ["sput", k, v] =>
    match parseHex? k, parseHex? v with
    | some k, some v =>
      match s.trie.update s.db.node stackDepth (Mpt.hexKey k) v with
      | .ok t =>
        let (ids, sh) := shape s.ids t
        ({ s with trie := t, ids := ids }, "ok " ++ sh)
      | r => (s, failStr r)
    | _, _ => (s, "bad-op")
  | ["sdel", k] =>
    match parseHex? k with
    | some k =>
      match s.trie.remove s.db.node stackDepth (Mpt.hexKey k) with
      | .ok t =>
        let (ids, sh) := shape s.ids t
        ({ s with trie := t, ids := ids }, "ok " ++ sh)
      | r => (s, failStr r)
    | none => (s, "bad-op")
  | ["sget", k] =>
    match parseHex? k with
    | some k =>
      match s.trie.get s.db.node stackDepth (Mpt.hexKey k) with
      | .ok (v, t) =>
        let (ids, sh) := shape s.ids t
        ({ s with trie := t, ids := ids }, (match v with | some v => showVal v | none => "nil") ++ " " ++ sh)
      | r => (s, failStr r)
    | none => (s, "bad-op")
  | ["scommit", ds] =>
    match parseDecisions? ds with
    | none => (s, "bad-op")
    | some ds =>
      match learn ser s.trie true s.table ds with
      | none => (s, "small-threshold-mismatch")
      | some tb =>
        match s.trie.commit (smallOf tb) ser with
        | .ok (h, t, ws) =>
          let db := s.db.insertAll ws
          let (ids1, i) := internId s.ids h
          let (ids, sh) := shape ids1 t
          ({ trie := t, db := db, table := tb, ids := ids }, s!"root=#{i} mem={db.mem.length} {sh}")
        | r => (s, failStr r)
  | ["shash", ds] =>
    match parseDecisions? ds with
    | none => (s, "bad-op")
    | some ds =>
      match learn ser s.trie false s.table ds with
      | none => (s, "small-threshold-mismatch")
      | some tb =>
        match s.trie.hash (smallOf tb) ser with
        | .ok (h, t) =>
          let (ids1, i) := internId s.ids h
          let (ids, sh) := shape ids1 t
          ({ s with trie := t, table := tb, ids := ids }, s!"root=#{i} {sh}")
        | r => (s, failStr r)
  | ["sgen", g] =>
    match g.toNat? with
    | some g => ({ s with trie := { s.trie with cachegen := g } }, "ok")
    | none => (s, "bad-op")
  | ["srestart", id] =>
    match (parseId? id).bind (fun i => s.ids[i]?) with
    | none => (s, "bad-op")
    | some h =>
      -- flush of the root (when its pool is the current one) is part of the op; then the pool is gone
      let flushed := match s.db.commit h with
        | .ok db => db
        | _ => s.db
      let db := flushed.fresh
      match Trie.new ser db.node h with
      | .ok t =>
        let t := { t with cachelimit := s.trie.cachelimit }
        let (ids, sh) := shape s.ids t
        ({ s with trie := t, db := db, ids := ids }, "ok " ++ sh)
      | r => ({ s with db := db }, failStr r)
  | ["sverify", id, k] =>
    match (parseId? id).bind (fun i => s.ids[i]?), parseHex? k with
    | some h, some k => (s, showProof (verifyProof true ser s.db.fresh.node stackDepth h (Mpt.hexKey k) 0))
    | _, _ => (s, "bad-op")
  | ["sverifyf", id, k] =>
    match (parseId? id).bind (fun i => s.ids[i]?), parseHex? k with
    | some h, some k =>
      let disk := s.db.fresh.node
      match lastBlob disk stackDepth h (Mpt.hexKey k) with
      | some (at_, rest) =>
        let r : Store := fun x => if x = at_ then (disk x).map (fun c => alterAt c rest) else disk x
        (s, showProof (verifyProof true ser r stackDepth h (Mpt.hexKey k) 0))
      | none => (s, "no-value")
    | _, _ => (s, "bad-op")
  | ["sflush", id] =>
    match (parseId? id).bind (fun i => s.ids[i]?) with
    | none => (s, "bad-op")
    | some h =>
      match s.db.commit h with
      | .ok db => ({ s with db := db }, s!"ok mem={db.mem.length}")
      | r => (s, failStr r)
  | ["sflushfail", id, site] =>
    -- `TrieDatabase.Commit(root)` whose batch write fails: `pre` = the intermediate write of the
    -- preimage loop, `final` = the only (final) write of a one-batch flush, `node` = an intermediate
    -- write inside `commit` (what had been written before depends on Go's map order: `wrote = []` here,
    -- the harness issues no disk-only op before the retry — `flush_retry_eq` holds for every `wrote`)
    let fault : Option Fault := if site == "pre" then some .preimage
      else if site == "final" then some (.final [])
      else if site == "node" then some (.node [])
      else none
    match (parseId? id).bind (fun i => s.ids[i]?), fault with
    | some h, some f =>
      match s.db.flush {} h (some f) with
      | .ok out =>
        ({ s with db := out.db },
          (if out.err then "err write" else "ok") ++ s!" mem={out.db.mem.length} lock=" ++
            (if out.rlocks = 0 then "free" else "held"))
      | r => (s, failStr r)
    | _, _ => (s, "bad-op")
  | ["sreopen", id, mode] =>
    match (parseId? id).bind (fun i => s.ids[i]?) with
    | none => (s, "bad-op")
    | some h =>
      let db := if mode == "fresh" then s.db.fresh else s.db
      match Trie.new ser db.node h with
      | .ok t =>
        let t := { t with cachelimit := s.trie.cachelimit }
        let (ids, sh) := shape s.ids t
        ({ s with trie := t, db := db, ids := ids }, "ok " ++ sh)
      | r => (s, failStr r)
  | _ => (s, "bad-op")

end S

/-! ### the `sc.…` stream: chain/account.StorageCache (`LemoModel.StorageCache`)

  `hashOf` = the injective serialisation `S.ser` (root ids compare the EQUALITY PATTERN of roots),
  `small` = the model's own `len(rlp) < 32`, `hk` = the table of the `sc.pool` line (Keccak256 of
  every pool key, computed by the harness with crypto.Keccak256, not read from the trie code).
  The iteration order of `range cache.dirty` is not observable on a sound store (that is the theorem
  `update_order_independent`): the driver takes pool-index order.  When the real `Update` failed in
  the middle (damaged store) the op line carries the dirty keys that were LEFT (`left=`); the driver
  then looks for an order that explains them (the failing key last) and prints its own result. -/

namespace K
open StorageCache MptStore

def hkOf (pool : List (List Nat × List Nat)) (k : List Nat) : List Nat :=
  match pool.find? (fun e => e.1 = k) with
  | some e => e.2
  | none => k

def envOf (st : KSt) : Env := ⟨hkOf st.pool, S.smallOf [], S.ser, S.stackDepth⟩

def keyAt (st : KSt) (i : Nat) : List Nat := ((st.pool[i]?).map (·.1)).getD []

/-- a hash that no node has -/
def junkRoot : Hash := [9, 9]

def parseRoot? (st : KSt) (s : String) : Option Hash :=
  if s == "zero" then some zeroHash
  else if s == "junk" then some junkRoot
  else if s == "empty" then some (S.ser .empty)
  else (S.parseId? s).bind (fun i => st.ids[i]?)

def showStorage (st : KSt) (m : Storage) : String :=
  let es := (List.range st.pool.length).filterMap (fun i =>
    (sget m (keyAt st i)).map (fun v => toString i ++ ":" ++ S.showVal v))
  if es.isEmpty then "-" else ",".intercalate es

def dump (st : KSt) (sc : SC) : String :=
  "c=[" ++ showStorage st sc.cached ++ "] d=[" ++ showStorage st sc.dirty ++ "] t=" ++
    (match sc.trie with
     | none => "nil"
     | some t => "g" ++ toString t.cachegen ++ "/" ++ toString t.cachelimit)

def errStr : Err → String
  | .trieFail => "err trieFail"
  | .trieChanged => "err trieChanged"
  | .missing => "err missing"
  | .panic => "panic"
  | .overflow => "overflow"

def dirtyIdx (st : KSt) (d : Storage) : List Nat :=
  (List.range st.pool.length).filter (fun i => (sget d (keyAt st i)).isSome)

def parseIdxList? (s : String) : Option (List Nat) :=
  if s == "-" then some [] else
  (s.splitOn ",").foldr (fun w acc => match w.toNat?, acc with
    | some n, some l => some (n :: l)
    | _, _ => none) (some [])

def runUpdate (st : KSt) (sc : SC) (root : Hash) (hint : Option (List Nat)) : SC × Out Hash :=
  let e := envOf st
  let D := dirtyIdx st sc.dirty
  match hint with
  | none => update e st.disk sc root (D.map (keyAt st))
  | some L =>
    let P := D.filter (fun i => !L.contains i)
    let found := P.filterMap (fun f =>
      let order := (P.filter (fun i => i != f) ++ [f]).map (keyAt st)
      let r := update e st.disk sc root order
      match r.2 with
      | .err _ => if dirtyIdx st r.1.dirty = L then some r else none
      | .ok _ => none)
    match found with
    | r :: _ => r
    | [] => update e st.disk sc root (D.map (keyAt st))

def setCache (st : KSt) (c : Nat) (sc : SC) : KSt := { st with caches := st.caches.set c sc }

def parsePoolEntry? (w : String) : Option (List Nat × List Nat) :=
  match w.splitOn "/" with
  | [a, b] =>
    match parseHex? a, parseHex? b with
    | some a, some b => some (a, b)
    | _, _ => none
  | _ => none

def step (st : KSt) (w : List String) : KSt × String :=
  match w with
  | ["sc.world"] => ({}, "ok")
  | "sc.pool" :: es =>
    match es.foldr (fun w acc => match parsePoolEntry? w, acc with
        | some e, some l => some (e :: l)
        | _, _ => none) (some []) with
    | some pool => ({ st with pool := pool }, "ok " ++ toString pool.length)
    | none => (st, "bad-op")
  | ["sc.open"] => ({ st with caches := st.caches ++ [SC.new] }, "ok " ++ toString st.caches.length)
  | ["sc.set", c, i, v] =>
    match c.toNat?.bind (fun c => (st.caches[c]?).map (fun sc => (c, sc))), i.toNat?, parseHex? v with
    | some (c, sc), some i, some v =>
      let sc' := setState sc (keyAt st i) v
      (setCache st c sc', "ok " ++ dump st sc')
    | _, _, _ => (st, "bad-op")
  | ["sc.del", c, i] =>
    match c.toNat?.bind (fun c => (st.caches[c]?).map (fun sc => (c, sc))), i.toNat? with
    | some (c, sc), some i =>
      let sc' := delState sc (keyAt st i)
      (setCache st c sc', "ok " ++ dump st sc')
    | _, _ => (st, "bad-op")
  | ["sc.isdirty", c, i] =>
    match c.toNat?.bind (fun c => (st.caches[c]?).map (fun sc => (c, sc))), i.toNat? with
    | some (_, sc), some i => (st, toString (isDirty sc (keyAt st i)) ++ " " ++ dump st sc)
    | _, _ => (st, "bad-op")
  | ["sc.revert", c, i, v] =>
    match c.toNat?.bind (fun c => (st.caches[c]?).map (fun sc => (c, sc))), i.toNat?, parseHex? v with
    | some (c, sc), some i, some v =>
      let sc' := revertState sc (keyAt st i) v
      (setCache st c sc', "ok " ++ dump st sc')
    | _, _, _ => (st, "bad-op")
  | ["sc.reset", c] =>
    match c.toNat?.bind (fun c => (st.caches[c]?).map (fun sc => (c, sc))) with
    | some (c, sc) =>
      let sc' := reset sc
      (setCache st c sc', "ok " ++ dump st sc')
    | none => (st, "bad-op")
  | ["sc.get", c, r, i] =>
    match c.toNat?.bind (fun c => (st.caches[c]?).map (fun sc => (c, sc))), parseRoot? st r, i.toNat? with
    | some (c, sc), some root, some i =>
      let (sc', out) := getState (envOf st) st.disk sc root (keyAt st i)
      (setCache st c sc', (match out with
        | .ok v => "v=" ++ S.showVal v
        | .err e => errStr e) ++ " " ++ dump st sc')
    | _, _, _ => (st, "bad-op")
  | "sc.update" :: c :: r :: rest =>
    let hint : Option (Option (List Nat)) := match rest with
      | [] => some none
      | [h] => if h.startsWith "left=" then (parseIdxList? (h.drop 5).toString).map some else none
      | _ => none
    match c.toNat?.bind (fun c => (st.caches[c]?).map (fun sc => (c, sc))), parseRoot? st r, hint with
    | some (c, sc), some root, some hint =>
      let (sc', out) := runUpdate st sc root hint
      match out with
      | .ok h =>
        if h = zeroHash then (setCache st c sc', "root=zero " ++ dump st sc')
        else
          let (ids, i) := S.internId st.ids h
          let st' := { setCache st c sc' with ids := ids }
          (st', "root=#" ++ toString i ++ " " ++ dump st' sc')
      | .err e => (setCache st c sc', errStr e ++ " " ++ dump st sc')
    | _, _, _ => (st, "bad-op")
  | ["sc.save", c, r] =>
    match c.toNat?.bind (fun c => (st.caches[c]?).map (fun sc => (c, sc))), parseRoot? st r with
    | some (c, sc), some root =>
      let (disk, sc', out) := save (envOf st) st.disk sc root
      let st' := { setCache st c sc' with disk := disk }
      (st', (match out with
        | .ok _ => "ok"
        | .err e => errStr e) ++ " " ++ dump st' sc')
    | _, _ => (st, "bad-op")
  | ["sc.wipe", keep] =>
    -- fault injection: every node blob leaves the key-value store, except the one under `keep`;
    -- the caches of the scenario are dropped (their in-memory tries depend on iteration orders)
    let keepH : Option (Option Hash) := if keep == "all" then some none else (parseRoot? st keep).map some
    match keepH with
    | some kh =>
      let disk := st.disk.filter (fun e => kh == some e.1)
      ({ st with disk := disk, caches := [] }, "ok " ++ toString (disk.map (·.1)).eraseDups.length)
    | none => (st, "bad-op")
  | _ => (st, "bad-op")

end K

/-! ### step -/

open Merkle in
def step (s : St) (w : List String) : St × String :=
  match w with
  | ["mt", l] =>
    match parseList? l with
    | some l => (s, showTree l)
    | none => (s, "bad-op")
  | ["mshape", _, l] =>
    match parseList? l with
    | some l => (s, showTree l ++ " leaves=" ++ (if l.isEmpty then "-" else ",".intercalate (l.map toString)))
    | none => (s, "bad-op")
  | ["ms", l, j] =>
    match parseList? l, parseInt? j with
    | some l, some j =>
      let nodes := mkNodes l
      let src := entry nodes j
      let r := root HTerm.node emptyMark (l.map HTerm.leaf)
      match findSiblings src nodes with
      | .ok p => (s, s!"ok {showPathM nodes p} verify={verify HTerm.node src r p}")
      | .notFound => (s, "err notfound")
      | .panic => (s, "panic")
    | _, _ => (s, "bad-op")
  | ["mv", l, j, tj, drop, flip] =>
    match parseList? l, parseInt? j, parseInt? tj, drop.toNat?, parseInt? flip with
    | some l, some j, some tj, some drop, some flip =>
      let nodes := mkNodes l
      let r := root HTerm.node emptyMark (l.map HTerm.leaf)
      match findSiblings (entry nodes j) nodes with
      | .ok p => (s, toString (verify HTerm.node (entry nodes tj) r (mutate p drop flip)))
      | .notFound => (s, "err notfound")
      | .panic => (s, "panic")
    | _, _, _, _, _ => (s, "bad-op")
  | ["tnew"] => ({ s with trie := .empty }, "ok")
  | ["tput", k, v] =>
    match parseHex? k, parseHex? v with
    | some k, some v =>
      match Mpt.update s.trie (Mpt.hexKey k) v with
      | some t => ({ s with trie := t }, "ok")
      | none => (s, "panic")
    | _, _ => (s, "bad-op")
  | ["tdel", k] =>
    match parseHex? k with
    | some k =>
      match Mpt.remove s.trie (Mpt.hexKey k) with
      | some t => ({ s with trie := t }, "ok")
      | none => (s, "panic")
    | none => (s, "bad-op")
  | ["tget", k] =>
    match parseHex? k with
    | some k =>
      match Mpt.get s.trie (Mpt.hexKey k) with
      | .found v => (s, showHex v)
      | .absent => (s, "nil")
      | .panic => (s, "panic")
    | none => (s, "bad-op")
  | ["tdump"] => (s, showDump s.trie)
  | ["tcommit"] => (s, showDump s.trie)      -- Commit is the identity on the resolved structure
  | ["treopen"] => (s, showDump s.trie)      -- so is reopening by root from the database
  -- the `d…` stream: byte blobs through the node decoder (`LemoModel.MptDecode`)
  | ["dnode", hf, g, b] =>
    match g.toNat?, parseHex? b with
    | some g, some b =>
      (s, match MptDecode.decodeTop (if hf == "h" then some [] else none) g (b.map UInt8.ofNat) with
        | .ok p => "ok " ++ MptDecode.dump p
        | .err e => e.show
        | .panic => "panic-index"
        | .depth => "depth")
    | _, _ => (s, "bad-op")
  | ["dmust", b] =>
    match parseHex? b with
    | some b =>
      (s, match MptDecode.mustDecodeNode (b.map UInt8.ofNat) with
        | .ok _ => "ok"
        | .panicErr e => "panic-" ++ e.show
        | .panicIndex => "panic-index"
        | .depth => "depth")
    | none => (s, "bad-op")
  | w =>
    match w with
    | op :: _ =>
      if op.startsWith "sc." then
        let (ks, out) := K.step s.k w
        ({ s with k := ks }, out)
      else if op.startsWith "s" then
        let (ss, out) := S.step s.s w
        ({ s with s := ss }, out)
      else (s, "bad-op")
    | [] => (s, "bad-op")

end Driver.C17

import Driver.Util
import LemoModel.Merkle
import LemoModel.Mpt
namespace Driver.C17
open LemoModel Driver

/-! line-protocol driver for C17: Merkle tree ops (`mt`, `ms`, `mv`) over the free hash algebra
    `HTerm`, and trie ops (`tnew`, `tput`, `tdel`, `tget`, `tdump`, `tcommit`, `treopen`). -/

structure St where
  trie : Mpt.Node := .empty

/-! ### helpers -/

def hexDigit? (c : Char) : Option Nat :=
  if '0' ≤ c ∧ c ≤ '9' then some (c.toNat - '0'.toNat)
  else if 'a' ≤ c ∧ c ≤ 'f' then some (c.toNat - 'a'.toNat + 10)
  else none

def parseHexChars : List Char → Option (List Nat)
  | [] => some []
  | [_] => none
  | a :: b :: rest =>
    match hexDigit? a, hexDigit? b, parseHexChars rest with
    | some x, some y, some r => some ((x * 16 + y) :: r)
    | _, _, _ => none

/-- `-` is the empty byte string -/
def parseHex? (s : String) : Option (List Nat) :=
  if s == "-" then some [] else parseHexChars s.toList

def hexChar (n : Nat) : Char :=
  if n < 10 then Char.ofNat ('0'.toNat + n) else Char.ofNat ('a'.toNat + n - 10)

def showHex (bs : List Nat) : String :=
  String.ofList (bs.flatMap (fun b => [hexChar (b / 16 % 16), hexChar (b % 16)]))

def showPath (p : List Mpt.Nib) : String :=
  String.ofList (p.map (fun n => if n.val = 16 then 'g' else hexChar n.val))

def showDump (t : Mpt.Node) : String :=
  " ".intercalate ((Mpt.walk t []).map (fun e =>
    match e with
    | (p, none) => "/" ++ showPath p
    | (p, some v) => "/" ++ showPath p ++ "=" ++ showHex v))

/-- comma separated naturals, `-` = empty list -/
def parseList? (s : String) : Option (List Nat) :=
  if s == "-" then some []
  else (s.splitOn ",").foldr (fun w acc => match w.toNat?, acc with
    | some n, some l => some (n :: l)
    | _, _ => none) (some [])

/-! ### Merkle -/

open Merkle in
def emptyMark : HTerm := .leaf 1000000

open Merkle in
def mkNodes (l : List Nat) : List HTerm := calcNodes HTerm.node (l.map HTerm.leaf)

open Merkle in
def idxStr (nodes : List HTerm) (x : HTerm) : String :=
  let i := indexOf x nodes
  if i = nodes.length then "?" else toString i

open Merkle in
def showTree (l : List Nat) : String :=
  let nodes := mkNodes l
  let n := l.length
  let inner := (List.range nodes.length).filterMap (fun k =>
    if k < n then none else
    match nodes[k]? with
    | some (.node x y) => some s!"{k}={idxStr nodes x},{idxStr nodes y}"
    | _ => some s!"{k}=?")
  let r := root HTerm.node emptyMark (l.map HTerm.leaf)
  let rs := if nodes.isEmpty ∧ r = emptyMark then "empty" else idxStr nodes r
  s!"{nodes.length} " ++ " ".intercalate inner ++ s!" root={rs}"

open Merkle in
def sideStr : Side → String
  | .left => "L" | .right => "R" | .root => "T"

open Merkle in
def showPathM (nodes : List HTerm) (p : List (MNode HTerm)) : String :=
  " ".intercalate (p.map (fun m => idxStr nodes m.hash ++ ":" ++ sideStr m.side))

open Merkle in
/-- the source hash of an `ms`/`mv` op: array entry `j`, or a hash that is nowhere in the tree for `j < 0` -/
def entry (nodes : List HTerm) (j : Int) : HTerm :=
  if j < 0 then .leaf 2000000 else (nodes[j.toNat]?).getD (.leaf 2000000)

open Merkle in
def mutate (p : List (MNode HTerm)) (drop : Nat) (flip : Int) : List (MNode HTerm) :=
  let q := p.drop drop
  if flip < 0 then q else
  (q.zipIdx).map (fun (m, i) =>
    if i = flip.toNat then
      match m.side with
      | .left => { m with side := .right }
      | .right => { m with side := .left }
      | .root => m
    else m)

/-! ### step -/

open Merkle in
def step (s : St) (w : List String) : St × String :=
  match w with
  | ["mt", l] =>
    match parseList? l with
    | some l => (s, showTree l)
    | none => (s, "bad-op")
  | ["ms", l, j] =>
    match parseList? l, parseInt? j with
    | some l, some j =>
      let nodes := mkNodes l
      let src := entry nodes j
      let r := root HTerm.node emptyMark (l.map HTerm.leaf)
      match findSiblings src nodes with
      | .ok p => (s, s!"ok {showPathM nodes p} verify={verify HTerm.node src r p}")
      | .notFound => (s, "err notfound")
      | .panic => (s, "panic")
    | _, _ => (s, "bad-op")
  | ["mv", l, j, tj, drop, flip] =>
    match parseList? l, parseInt? j, parseInt? tj, drop.toNat?, parseInt? flip with
    | some l, some j, some tj, some drop, some flip =>
      let nodes := mkNodes l
      let r := root HTerm.node emptyMark (l.map HTerm.leaf)
      match findSiblings (entry nodes j) nodes with
      | .ok p => (s, toString (verify HTerm.node (entry nodes tj) r (mutate p drop flip)))
      | .notFound => (s, "err notfound")
      | .panic => (s, "panic")
    | _, _, _, _, _ => (s, "bad-op")
  | ["tnew"] => ({ s with trie := .empty }, "ok")
  | ["tput", k, v] =>
    match parseHex? k, parseHex? v with
    | some k, some v =>
      match Mpt.update s.trie (Mpt.hexKey k) v with
      | some t => ({ s with trie := t }, "ok")
      | none => (s, "panic")
    | _, _ => (s, "bad-op")
  | ["tdel", k] =>
    match parseHex? k with
    | some k =>
      match Mpt.remove s.trie (Mpt.hexKey k) with
      | some t => ({ s with trie := t }, "ok")
      | none => (s, "panic")
    | none => (s, "bad-op")
  | ["tget", k] =>
    match parseHex? k with
    | some k =>
      match Mpt.get s.trie (Mpt.hexKey k) with
      | .found v => (s, showHex v)
      | .absent => (s, "nil")
      | .panic => (s, "panic")
    | none => (s, "bad-op")
  | ["tdump"] => (s, showDump s.trie)
  | ["tcommit"] => (s, showDump s.trie)      -- Commit is the identity on the resolved structure
  | ["treopen"] => (s, showDump s.trie)      -- so is reopening by root from the database
  | _ => (s, "bad-op")

end Driver.C17

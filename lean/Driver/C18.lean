import Driver.Util
import LemoModel.Pool
namespace Driver.C18
open LemoModel LemoModel.Pool Driver

structure St where
  pool : Pool := newPool
  /-- `true` = `delTx` as repaired in /repo commit 85d2f65 (the live code); `mode asis` switches to the
      model of the code before that commit -/
  fixed : Bool := true

/-- `nil` or `h:e[:h1:e1:h2:e2...]` -/
def parseTx? (s : String) : Option (Option Tx) :=
  if s == "nil" then some none
  else
    let ns := (s.splitOn ":").map String.toNat?
    if ns.any Option.isNone then none
    else
      let rec subs : List Nat → Option (List Sub)
        | [] => some []
        | [_] => none
        | h :: e :: r => (subs r).map (fun l => { hash := h, expiration := e } :: l)
      match ns.filterMap id with
      | h :: e :: r => (subs r).map (fun l => some { hash := h, expiration := e, subs := l })
      | _ => none

def parseTxs? : List String → Option (List (Option Tx))
  | [] => some []
  | w :: r =>
    match parseTx? w, parseTxs? r with
    | some t, some l => some (t :: l)
    | _, _ => none

def join (l : List String) : String := if l.isEmpty then "-" else ",".intercalate l

def showTxs (l : List Tx) : String := join (l.map (fun t => toString t.hash))

def showAdd : AddRes → String
  | .ok => "ok"
  | .errInvalidTx => "ErrInvalidTx"
  | .errTxIsExist => "ErrTxIsExist"

def showOut : Out → String
  | .ok => "ok"
  | .err e => "err " ++ showAdd e
  | .count n => s!"n {n}"
  | .txs l => "txs " ++ showTxs l
  | .bool b => toString b
  | .panic => "panic"

/-- canonical dump of the whole pool state + what a full non-expiring `GetTxs` returns -/
def dump (fixed : Bool) (p : Pool) : String :=
  let slots := join (p.txs.map (fun s => match s with | some t => toString t.hash | none => "_"))
  let idx := join ((p.idx.mergeSort (fun a b => a.1 ≤ b.1)).map (fun e => s!"{e.1}>{e.2}"))
  let full := showOut (getTxs fixed p 0 ((p.txs.length : Int) + 1)).2
  s!"cap={p.cap} slots={slots} idx={idx} full={full}"

def reply (s : St) (r : Pool × Out) : St × String :=
  ({ s with pool := r.1 }, showOut r.2 ++ " ; " ++ dump s.fixed r.1)

def step (s : St) (w : List String) : St × String :=
  match w with
  | ["new"] => ({ s with pool := newPool }, "ok")
  | ["mode", "fixed"] => ({ s with fixed := true }, "ok")
  | ["mode", "asis"] => ({ s with fixed := false }, "ok")
  | ["lock", _, b] => (s, if b == "true" then "ok" else "lock-discipline-violated")
  | ["escape", _, b] => (s, if b == "false" then "ok" else "field-escapes")
  | ["helpers", b] => (s, if b == "true" then "ok" else "helper-touches-lock-or-spawns")
  | ["foreignlock", b] => (s, if b == "false" then "ok" else "lock-used-outside-package")
  | ["add", t] =>
    match parseTx? t with
    | some t => reply s (Pool.step s.fixed s.pool (.add t))
    | none => (s, "bad-op")
  | "adds" :: ts =>
    match parseTxs? ts with
    | some ts => reply s (Pool.step s.fixed s.pool (.adds ts))
    | none => (s, "bad-op")
  | "del" :: ts =>
    match parseTxs? ts with
    | some ts => reply s (Pool.step s.fixed s.pool (.del ts))
    | none => (s, "bad-op")
  | "side" :: ts =>
    -- a block landed on a side branch: the engine calls `AddTx` for each of its txs that is not on the
    -- current branch (same state as one `AddTxs` over them)
    match parseTxs? ts with
    | some ts =>
      let r := Pool.step s.fixed s.pool (.adds ts)
      ({ s with pool := r.1 }, "ok ; " ++ dump s.fixed r.1)
    | none => (s, "bad-op")
  | "fork" :: ts =>
    -- `onCurrentChanged` on a fork switch: `AddTxs(oldForkTxs); DelTxs(newForkTxs)`
    match parseTxs? (ts.takeWhile (· != "/")), parseTxs? ((ts.dropWhile (· != "/")).drop 1) with
    | some old, some new =>
      let r1 := Pool.step s.fixed s.pool (.adds old)
      let r2 := Pool.step s.fixed r1.1 (.del new)
      reply s r2
    | _, _ => (s, "bad-op")
  | ["get", time, size] =>
    match time.toNat?, parseInt? size with
    | some time, some size => reply s (Pool.step s.fixed s.pool (.get time size))
    | _, _ => (s, "bad-op")
  | ["empty"] => reply s (Pool.step s.fixed s.pool .isEmpty)
  | _ => (s, "bad-op")

end Driver.C18

/-
  Line-protocol driver for C19 (core only).
    access <var> <func> <r|w> <lockHeld> <entry>   -> ok | table-mismatch   (row ∈ committed table, each row once)
    guard <var> <lock|atomic|none>                 -> ok | table-mismatch   (the lock common to all accesses of <var>)
    access-end                                     -> ok | table-mismatch missing=<n> first=<row>
    dyncall <func> <calls> <go>                    -> ok | table-mismatch   (function-value calls the scan does not follow)
    dyncall-end <n>                                -> ok | table-mismatch   (completeness of that list)
    rmw-split <var> <func>                         -> ok | table-mismatch   (check-then-act split; committed list is empty)
    rmw-split-end <n>                              -> ok | table-mismatch
    lock-leak <func> <lock> / lock-leak-end <n>    -> ok | table-mismatch   (a return path that keeps a lock)
    lock-order <A> <B> / lock-order-end <n>        -> ok | table-mismatch   (B taken while A may be held)
    sign <cacheHash> <cacheSig> <h>                -> ret <r> cache <hash> <sig>       (sequential SignBlock)
    sched <cacheHash> <cacheSig> <h0> <h1> <bits>  -> ret <r0|-> <r1|-> cache <hash> <sig>  (two unsynchronised calls, one merge)
    lagq <ev> … / lagapi <ev> …                    -> see Driver/C19Lag.lean (writer-lag schedules on the real FileQueue / ChainDatabase)
-/
import Driver.Util
import LemoModel.Signer
import LemoModel.LockFacts
import Driver.C19Lag
namespace Driver.C19
open LemoModel.Signer LemoModel.LockFacts Driver

structure St where
  remaining : List Row := table

def showRow (r : Row) : String :=
  s!"{repr r.var} {r.fn} {if r.write then "w" else "r"} {r.held} {r.entry}"

def showOpt : Option Nat → String
  | some n => toString n
  | none => "-"

def parseBits (s : String) : Option (List Bool) :=
  s.toList.mapM (fun c => if c == '0' then some false else if c == '1' then some true else none)

def step (s : St) (w : List String) : St × String :=
  match w with
  | ["access", v, f, rw, held, entry] =>
    match Var.ofString? v, parseBool? held with
    | some v, some held =>
      if rw != "r" && rw != "w" then (s, "bad-op") else
      let row : Row := ⟨v, f, rw == "w", held, Kind.ofEntry entry, entry⟩
      if s.remaining.contains row then ({ remaining := s.remaining.erase row }, "ok")
      else (s, "table-mismatch")
    | _, _ => (s, "table-mismatch")
  | ["guard", v, g] =>
    match Var.ofString? v with
    | some v => (s, if guards.contains (v, g) then "ok" else "table-mismatch")
    | none => (s, "table-mismatch")
  | ["dyncall", f, a, b] =>
    match a.toNat?, b.toNat? with
    | some a, some b => (s, if dynCalls.contains (f, a, b) then "ok" else "table-mismatch")
    | _, _ => (s, "bad-op")
  | ["dyncall-end", n] =>
    (s, if n.toNat? == some dynCalls.length then "ok" else s!"table-mismatch expected={dynCalls.length}")
  | ["rmw-split", v, f] => (s, if rmwSplits.contains (v, f) then "ok" else "table-mismatch")
  | ["rmw-split-end", n] =>
    (s, if n.toNat? == some rmwSplits.length then "ok" else s!"table-mismatch expected={rmwSplits.length}")
  | ["loopvar", f, v] => (s, if loopvarCaptures.contains (f, v) then "ok" else "table-mismatch")
  | ["loopvar-end", n] =>
    (s, if n.toNat? == some loopvarCaptures.length then "ok" else s!"table-mismatch expected={loopvarCaptures.length}")
  | ["lock-leak", f, l] => (s, if lockLeaks.contains (f, l) then "ok" else "table-mismatch")
  | ["lock-leak-end", n] =>
    (s, if n.toNat? == some lockLeaks.length then "ok" else s!"table-mismatch expected={lockLeaks.length}")
  | ["lock-order", a, b] => (s, if lockOrder.contains (a, b) then "ok" else "table-mismatch")
  | ["lock-order-end", n] =>
    (s, if n.toNat? == some lockOrder.length then "ok" else s!"table-mismatch expected={lockOrder.length}")
  | ["access-end"] =>
    match s.remaining with
    | [] => (s, "ok")
    | r :: _ => (s, s!"table-mismatch missing={s.remaining.length} first={showRow r}")
  | ["sign", ch, cs, h] =>
    match ch.toNat?, cs.toNat?, h.toNat? with
    | some ch, some cs, some h =>
      let (r, hash, sig) := signSeq ch cs h
      (s, s!"ret {r} cache {hash} {sig}")
    | _, _, _ => (s, "bad-op")
  | ["sched", ch, cs, h0, h1, bits] =>
    match ch.toNat?, cs.toNat?, h0.toNat?, h1.toNat?, parseBits bits with
    | some ch, some cs, some h0, some h1, some m =>
      let (r0, r1, hash, sig) := outcome ch cs h0 h1 m
      (s, s!"ret {showOpt r0} {showOpt r1} cache {hash} {sig}")
    | _, _, _, _, _ => (s, "bad-op")
  | "lagq" :: toks => (s, Driver.C19Lag.lagq toks)
  | "lagapi" :: toks => (s, Driver.C19Lag.lagapi toks)
  | _ => (s, "bad-op")

end Driver.C19

/-
  C19 writer-lag op lines (core only); model: LemoModel/QueueLin.lean.

    lagq <ev> <ev> …        a schedule on the queue (family `queue`: the REAL FileQueue, detached, stepped by the harness)
        p:<flag>:<key>:<hex|->      FileQueue.Put (value bytes in hex, `-` = empty)
        g:<flag>:<key>              FileQueue.Get
        m:<key>:<c>:<inner|->       read-modify-write of the block record <key> as setConfirm does it: Get, then the
                                    goroutine steps <inner> (a string of w / a), then Put of the value with <c> appended
        w | a                       sync goroutine writes the oldest queued record | done goroutine runs delIndex
        ix                          (both families) the pending index now, printed among the answers as i:<entries>
      -> <answer> … | idx=<key>:<flag>:<cnt>,… dead=<0|1>       answer: `-` none, `e` empty value, else hex
    lagapi <ev> <ev> …      a script on ChainDatabase (family `api`: the REAL ChainDatabase, writer goroutine paced)
        sb:<id>:<parent>:<height>:<a>=<v>|-   SetBlock (+ the account the block changes)
        st:<id>  cf:<id>:<c>  gc:<id>  gh:<id>  gt:<height>  ga:<account>  w  a
      -> <out> … | idx=<flag>/<n>:<cnt>,… dead=<0|1>
-/
import Driver.Util
import LemoModel.QueueLin
namespace Driver.C19Lag
open LemoModel.Wal LemoModel.QueueLin

def hexDigit (n : Nat) : Char := if n < 10 then Char.ofNat (48 + n) else Char.ofNat (87 + n)

def hexOf (bs : List UInt8) : String :=
  String.ofList (bs.flatMap (fun b => [hexDigit (b.toNat / 16), hexDigit (b.toNat % 16)]))

def hexVal? (c : Char) : Option Nat :=
  if '0' ≤ c ∧ c ≤ '9' then some (c.toNat - 48)
  else if 'a' ≤ c ∧ c ≤ 'f' then some (c.toNat - 87)
  else none

def parseHexList : List Char → Option (List UInt8)
  | [] => some []
  | [_] => none
  | a :: b :: rest =>
    match hexVal? a, hexVal? b, parseHexList rest with
    | some x, some y, some t => some (UInt8.ofNat (x * 16 + y) :: t)
    | _, _, _ => none

def parseVal (s : String) : Option (List UInt8) := if s == "-" then some [] else parseHexList s.toList

def showVal : Option (List UInt8) → String
  | none => "-"
  | some [] => "e"
  | some v => hexOf v

def parseW (s : String) : Option (List WEv) :=
  if s == "-" then some [] else
  s.toList.mapM (fun c => if c == 'w' then some WEv.write else if c == 'a' then some WEv.ack else none)

def insertSorted (x : String × String) : List (String × String) → List (String × String)
  | [] => [x]
  | y :: t => if x.1 < y.1 then x :: y :: t else y :: insertSorted x t

def showIdx (shown : List (String × String)) : String :=
  ",".intercalate ((shown.foldl (fun acc x => insertSorted x acc) []).map (·.2))

def pad3 (n : Nat) : String := if n < 10 then s!"00{n}" else if n < 100 then s!"0{n}" else s!"{n}"

/-- queue level: keys are single bytes -/
def qKey (k : Nat) : Bytes := [UInt8.ofNat k]

def showIdxQ (idx : LIndex) : String :=
  showIdx (idx.map (fun e => (pad3 ((e.key.headD 0).toNat), s!"{(e.key.headD 0).toNat}:{e.flg}:{e.cnt}")))

def showIdxApi (idx : LIndex) : String :=
  showIdx (idx.map (fun e => (pad3 (flagOf e.key) ++ pad3 (keyNum e.key), s!"{flagOf e.key}/{keyNum e.key}:{e.cnt}")))

def tail (s : LState) (idx : String) : String := s!"| idx={idx} dead={if s.dead then 1 else 0}"

def lagqLoop (s : LState) (acc : List String) : List String → Option (LState × List String)
  | [] => some (s, acc.reverse)
  | tok :: rest =>
    match tok.splitOn ":" with
    | ["w"] => lagqLoop (wStep s .write) acc rest
    | ["a"] => lagqLoop (wStep s .ack) acc rest
    | ["ix"] => lagqLoop s (("i:" ++ showIdxQ s.index) :: acc) rest
    | ["p", f, k, v] =>
      match f.toNat?, k.toNat?, parseVal v with
      | some f, some k, some v => lagqLoop (qPut false s ⟨f, qKey k, v⟩) acc rest
      | _, _, _ => none
    | ["g", f, k] =>
      match f.toNat?, k.toNat? with
      | some f, some k => lagqLoop s (showVal (qGet s f (qKey k)) :: acc) rest
      | _, _ => none
    | ["m", k, c, inner] =>
      match k.toNat?, c.toNat?, parseW inner with
      | some k, some c, some inner =>
        let r := (rmwConfirm (qKey k) (UInt8.ofNat c)).runQ false s [inner, []]
        lagqLoop r.2.1 (showVal r.1 :: acc) rest
      | _, _, _ => none
    | _ => none

def lagq (toks : List String) : String :=
  match lagqLoop LState.init [] toks with
  | none => "bad-op"
  | some (s, outs) => " ".intercalate (outs ++ [tail s (showIdxQ s.index)])

def showOut : Out → String
  | .ok => "ok"
  | .exist => "exist"
  | .invalid => "invalid"
  | .notExist => "notexist"
  | .confirms cs => "c:" ++ showVal (some cs)
  | .block id cs => s!"b{id}:" ++ showVal (some cs)
  | .acct v => "v:" ++ showVal (some v)

def parseAcct (s : String) : Option (Option (Nat × UInt8)) :=
  if s == "-" then some none else
  match s.splitOn "=" with
  | [a, v] =>
    match a.toNat?, v.toNat? with
    | some a, some v => some (some (a, UInt8.ofNat v))
    | _, _ => none
  | _ => none

def parseStep (tok : String) : Option SStep :=
  match tok.splitOn ":" with
  | ["w"] => some (.w .write)
  | ["a"] => some (.w .ack)
  | ["sb", id, p, h, a] =>
    match id.toNat?, p.toNat?, h.toNat?, parseAcct a with
    | some id, some p, some h, some a => some (.api (.setBlock id p h a))
    | _, _, _, _ => none
  | ["st", id] => id.toNat?.map (fun id => .api (.setStable id))
  | ["cf", id, c] =>
    match id.toNat?, c.toNat? with
    | some id, some c => some (.api (.confirm id (UInt8.ofNat c)))
    | _, _ => none
  | ["gc", id] => id.toNat?.map (fun id => .api (.getConfirms id))
  | ["gh", id] => id.toNat?.map (fun id => .api (.getByHash id))
  | ["gt", h] => h.toNat?.map (fun h => .api (.getByHeight h))
  | ["ga", a] => a.toNat?.map (fun a => .api (.getAccount a))
  | _ => none

/-- `ix` (index dump now) is not a step of the model: the index after the steps BEFORE it is printed at its place among
    the answers.  `acc`: steps so far (reversed), number of API calls so far, the dumps as (calls before, text). -/
def splitIx : List String → List SStep → Nat → List (Nat × String) → Option (List SStep × List (Nat × String))
  | [], steps, _, marks => some (steps.reverse, marks.reverse)
  | tok :: rest, steps, n, marks =>
    if tok == "ix" then
      let r := runScriptQ false CState.init LState.init [] steps.reverse
      splitIx rest steps n ((n, "i:" ++ showIdxApi r.2.index) :: marks)
    else
      match parseStep tok with
      | none => none
      | some st =>
        match st with
        | .api _ => splitIx rest (st :: steps) (n + 1) marks
        | .w _ => splitIx rest (st :: steps) n marks

/-- the answers with the dumps put back at their places -/
def mergeIx : List String → Nat → List (Nat × String) → List String
  | outs, n, (k, t) :: marks =>
    if k ≤ n then t :: mergeIx outs n marks
    else
      match outs with
      | [] => t :: mergeIx [] n marks
      | o :: os => o :: mergeIx os (n + 1) ((k, t) :: marks)
  | outs, _, [] => outs
termination_by outs _ marks => outs.length + marks.length

def lagapi (toks : List String) : String :=
  match splitIx toks [] 0 [] with
  | none => "bad-op"
  | some (steps, marks) =>
    let r := runScriptQ false CState.init LState.init [] steps
    " ".intercalate (mergeIx (r.1.map showOut) 0 marks ++ [tail r.2 (showIdxApi r.2.index)])

end Driver.C19Lag

import Driver.Util
import LemoModel.Sync
namespace Driver.C20
open LemoModel LemoModel.Sync Driver

/-- The driver runs the model of the code as it is in /repo NOW (live model): `addLive`, `isExitFixed`,
    `ccPushLive`, `iterateP true`, `rcvBlocks`/`tick`/`pmInsert` with all repair flags on, `handleTxs _ true`. -/
structure St where
  bc : BlockCache := {}
  cc : ConfirmCache := []
  node : Node := { chain := { known := [] } }
  q : Nat := 1

def sortN (l : List Nat) : List Nat := l.mergeSort (fun a b => decide (a ≤ b))

def joinWith (sep : String) (l : List String) : String := sep.intercalate l

def firstIdx (gid : Nat) : List Group → Nat → Nat
  | [], i => i
  | g :: rest, i => if g.gid = gid then i else firstIdx gid rest (i + 1)

def showKeys (l : List Blk) : String := joinWith "," ((sortN (l.map (·.hash))).map toString)

def dumpBC (c : BlockCache) : String :=
  let es := c.cache.map (fun g => s!"{g.height}@{firstIdx g.gid c.cache 0}[{showKeys g.blocks}]")
  s!"n={c.cache.length} size={size c} first={firstHeight c} :: " ++ joinWith " " es

def mkBlk (h tag : Nat) : Blk := { height := h, hash := h * 1000 + tag, parent := 0 }

def fillBC (limit : Nat) : Nat → Nat → BlockCache → BlockCache
  | 0, _, c => c
  | n + 1, h, c => fillBC limit n (h + 1) (addLive limit (mkBlk h 0) c)

/-- canonical text of the confirm cache: heights ascending, hashes ascending, sigs in arrival order -/
def dumpCC (c : ConfirmCache) : String :=
  let hs := sortN (c.map (·.1))
  let es := hs.map (fun h =>
    let hm := (alGet h c).getD []
    let ks := sortN (hm.map (·.1))
    s!"{h}:" ++ "{" ++ joinWith ";" (ks.map (fun k => s!"{k}=" ++ joinWith "," (((alGet k hm).getD []).map (fun d => toString d.sig)))) ++ "}")
  s!"n={c.length} size={ccSize c} :: " ++ joinWith " " es

def fillCC (limit : Nat) : Nat → Nat → ConfirmCache → ConfirmCache
  | 0, _, c => c
  | n + 1, h, c => fillCC limit n (h + 1) (ccPushLive limit { hash := h, height := h, sig := 0 } c)

/-- segment block `k` over a base block of height `base`: hash k, parent k-1 -/
def segBlk (base k : Nat) : Blk := { height := base + k, hash := k, parent := k - 1 }

def showNode (q : Nat) (n : Node) : String :=
  s!"cur={currentHeight n.chain} stable={stableHeight q n.chain} known={joinWith "," ((sortN (n.chain.known.map (·.hash))).map toString)} cache={size n.bc} confirms={ccSize n.cc}"

def nats? (ws : List String) : Option (List Nat) := ws.mapM (·.toNat?)

def showRace (n : Node) (maxK k : Nat) : String :=
  let known := (sortN (n.chain.known.map (·.hash))).filter (fun h => h ≤ maxK)
  let att := sortN ((n.chain.attached.filter (fun p => p.1 == k)).map (·.2))
  s!"known={joinWith "," (known.map toString)} attached={joinWith "," (att.map toString)} confirms-cached={ccSize n.cc}"

def parseTx (w : String) : Option (Nat × Bool) :=
  match w.splitOn ":" with
  | [i, v] => match i.toNat?, v.toNat? with
    | some i, some v => some (i, v == 1)
    | _, _ => none
  | _ => none

/-- fork scenarios: a block is written `height:hash:parent` (hash 0 = the base block) -/
def parseFBlk (w : String) : Option Blk :=
  match w.splitOn ":" with
  | [h, k, p] => match h.toNat?, k.toNat?, p.toNat? with
    | some h, some k, some p => some { height := h, hash := k, parent := p }
    | _, _, _ => none
  | _ => none

/-- node text of the fork scenarios: also WHICH blocks wait in the cache, the lowest cached height, and every
    attached confirmation (block hash:signer, with multiplicity) -/
def showFork (q : Nat) (n : Node) : String :=
  let cached := sortN ((n.bc.cache.flatMap (·.blocks)).map (·.hash))
  let att := sortN (n.chain.attached.map (fun p => p.1 * 1000 + p.2))
  s!"cur={currentHeight n.chain} stable={stableHeight q n.chain} known={joinWith "," ((sortN (n.chain.known.map (·.hash))).map toString)} cached={joinWith "," (cached.map toString)} first={firstHeight n.bc} att={joinWith "," (att.map (fun x => s!"{x / 1000}:{x % 1000}"))} confirms={ccSize n.cc}"

def step (s : St) (w : List String) : St × String :=
  match w with
  -- receive loop over a block TREE (forks): explicit blocks, same model functions
  | ["fnode", base, q] =>
    match base.toNat?, q.toNat? with
    | some base, some q =>
      let n : Node := { chain := { known := [{ height := base, hash := 0, parent := 0 }] } }
      ({ s with node := n, q := q }, showFork q n)
    | _, _ => (s, "bad-op")
  | "fblocks" :: ws =>
    match ws.mapM parseFBlk with
    | some bs =>
      let n := rcvBlocks (addLive 10240) s.q s.node bs
      ({ s with node := n }, showFork s.q n)
    | none => (s, "bad-op")
  | ["fconfirm", k, h, sig] =>
    match k.toNat?, h.toNat?, sig.toNat? with
    | some k, some h, some sig =>
      let n := rcvConfirm s.node { hash := k, height := h, sig := sig }
      ({ s with node := n }, showFork s.q n)
    | _, _, _ => (s, "bad-op")
  | ["ftick", a] =>
    match parseBool? a with
    | some a => let n := tick a s.node; ({ s with node := n }, showFork s.q n)
    | none => (s, "bad-op")
  | ["fstable"] => let n := onStable (stableHeight s.q s.node.chain) s.node; ({ s with node := n }, showFork s.q n)
  | ["new"] => ({ s with bc := {} }, "ok")
  | ["add", h, t] =>
    match h.toNat?, t.toNat? with
    | some h, some t => let r := addLive 10240 (mkBlk h t) s.bc; ({ s with bc := r }, dumpBC r)
    | _, _ => (s, "bad-op")
  | ["rm", h, t] =>
    match h.toNat?, t.toNat? with
    | some h, some t => let r := remove (mkBlk h t) s.bc; ({ s with bc := r }, dumpBC r)
    | _, _ => (s, "bad-op")
  | ["clear", h] =>
    match h.toNat? with
    | some h => let r := clear h s.bc; ({ s with bc := r }, dumpBC r)
    | _ => (s, "bad-op")
  | ["iter", m, r] =>
    match m.toNat?, r.toNat? with
    | some m, some r =>
      let res := iterateP true (fun (_ : Unit) b => ((), decide (b.hash % m = r))) () s.bc
      let vis := res.2.2.map (fun v => s!"{v.1}[{showKeys v.2}]")
      ({ s with bc := res.2.1 }, "visit " ++ joinWith " " vis ++ " => " ++ dumpBC res.2.1)
    | _, _ => (s, "bad-op")
  | ["isexit", h, t, qh] =>
    match h.toNat?, t.toNat?, qh.toNat? with
    | some h, some t, some qh => (s, toString (isExitFixed (h * 1000 + t) qh s.bc))
    | _, _, _ => (s, "bad-op")
  | ["fill", lo, n] =>
    match lo.toNat?, n.toNat? with
    | some lo, some n => let r := fillBC 10240 n lo {}; ({ s with bc := r }, s!"len={r.cache.length}")
    | _, _ => (s, "bad-op")
  -- `drainfill lo n`: one block (height lo+n+5) waits in the cache while `n` ascending heights are added and
  -- drained one at a time
  | ["drainfill", lo, n] =>
    match lo.toNat?, n.toNat? with
    | some lo, some n =>
      let keeper := lo + n + 5
      let c0 := addLive 10240 (mkBlk keeper 0) {}
      let r := (List.range n).foldl (fun c i =>
        (iterateP true (fun (_ : Unit) b => ((), decide (b.height < keeper))) () (addLive 10240 (mkBlk (lo + i) 0) c)).2.1) c0
      ({ s with bc := r }, s!"len={r.cache.length} size={size r}")
    | _, _ => (s, "bad-op")
  | ["cnew"] => ({ s with cc := [] }, "ok")
  | ["cpush", hash, h, sig] =>
    match hash.toNat?, h.toNat?, sig.toNat? with
    | some hash, some h, some sig =>
      let r := ccPushLive 10240 { hash := hash, height := h, sig := sig } s.cc
      ({ s with cc := r }, dumpCC r)
    | _, _, _ => (s, "bad-op")
  | ["cpop", h, hash] =>
    match h.toNat?, hash.toNat? with
    | some h, some hash =>
      let r := ccPop h hash s.cc
      ({ s with cc := r.2 }, "pop [" ++ joinWith "," (r.1.map (fun d => toString d.sig)) ++ "] => " ++ dumpCC r.2)
    | _, _ => (s, "bad-op")
  | ["cclear", h] =>
    match h.toNat? with
    | some h => let r := ccClear h s.cc; ({ s with cc := r }, dumpCC r)
    | _ => (s, "bad-op")
  | ["cfill", lo, n] =>
    match lo.toNat?, n.toNat? with
    | some lo, some n => let r := fillCC 10240 n lo []; ({ s with cc := r }, s!"len={r.length}")
    | _, _ => (s, "bad-op")
  -- receive loop over the abstract chain (segment block k = hash k, parent k-1, height base+k)
  | ["node", base, q] =>
    match base.toNat?, q.toNat? with
    | some base, some q =>
      let n : Node := { chain := { known := [segBlk base 0] } }
      ({ s with node := n, q := q }, showNode q n)
    | _, _ => (s, "bad-op")
  | "blocks" :: base :: ks =>
    match base.toNat?, nats? ks with
    | some base, some ks =>
      let n := rcvBlocks (addLive 10240) s.q s.node (ks.map (segBlk base))
      ({ s with node := n }, showNode s.q n)
    | _, _ => (s, "bad-op")
  | ["confirm", base, k, sig, off] =>
    match base.toNat?, k.toNat?, sig.toNat?, off.toNat? with
    | some base, some k, some sig, some off =>
      let n := rcvConfirm s.node { hash := k, height := base + k + off, sig := sig }
      ({ s with node := n }, showNode s.q n)
    | _, _, _, _ => (s, "bad-op")
  | ["tick", a] =>
    match parseBool? a with
    | some a => let n := tick a s.node; ({ s with node := n }, showNode s.q n)
    | none => (s, "bad-op")
  | ["stable"] => let n := onStable (stableHeight s.q s.node.chain) s.node; ({ s with node := n }, showNode s.q n)
  | ["reqs"] => (s, "reqs " ++ joinWith "," ((sortN s.node.requests).map toString))
  -- scripted schedules (base 5)
  | ["race", "confirm-during-insert", v] =>
    let n0 : Node := { chain := { known := [segBlk 5 0] } }
    match v with
    | "0" =>
      let n := (pmInsertG true [{ hash := 1, height := 6, sig := 7 }] { n0 with peerMax := 6 } (segBlk 5 1)).1
      (s, showRace n 2 1)
    | "1" =>
      let n1 := rcvBlocks (addLive 10240) 1 (rcvBlocks (addLive 10240) 1 n0 [segBlk 5 2]) [segBlk 5 1]
      let r := iterateP true (fun pend b => tickLater n1.chain pend b) [] n1.bc
      let n2 := (pmInsertG true [{ hash := 2, height := 7, sig := 7 }] { n1 with bc := r.2.1 } (segBlk 5 2)).1
      (s, showRace n2 2 2)
    | "2" =>
      let n1 := rcvBlocks (addLive 10240) 1 n0 [segBlk 5 1]
      let n2 := rcvConfirmStale true n1 { hash := 1, height := 6, sig := 7 }
      (s, showRace n2 2 1)
    | _ => (s, "bad-op")
  | ["race", "duplicate-insert-break"] =>
    let n0 : Node := { chain := { known := [segBlk 5 0] } }
    let n1 := rcvBlocks (addLive 10240) 1 (rcvBlocks (addLive 10240) 1 n0 [segBlk 5 2]) [segBlk 5 1]
    let r := iterateP true (fun pend b => tickLater n1.chain pend b) [] n1.bc
    let n2 := rcvBlocksG true (some 2) (addLive 10240) 1 { n1 with bc := r.2.1 } [segBlk 5 2, segBlk 5 3]
    let n3 := tick true (tick true n2)
    let known := sortN (n3.chain.known.map (·.hash))
    (s, s!"known={joinWith "," (known.map toString)} cache={size n3.bc}")
  | ["race", "timer-requests"] =>
    let n0 : Node := { chain := { known := [segBlk 5 0] } }
    let r := rcvBlocks (addLive 10240) 1
    let n1 := tick true (r (r (r n0 [segBlk 5 3]) [segBlk 5 5]) [segBlk 5 1, segBlk 5 2])
    let n2 := tick true n1
    let tr := n2.requests.take (n2.requests.length - n1.requests.length)
    let known := sortN (n2.chain.known.map (·.hash))
    (s, s!"known={joinWith "," (known.map toString)} cache={size n2.bc} first={firstHeight n2.bc} timer-requests={joinWith "," (tr.reverse.map toString)}")
  -- handleTxsMsg: `txs id:valid ...` on an empty pool
  | "txs" :: pre :: ws =>
    let pool0 : Option (List Nat) :=
      if pre == "pool:-" then some [] else (((pre.splitOn ":").getD 1 "").splitOn ",").mapM (·.toNat?)
    match pool0, ws.mapM parseTx with
    | some pool0, some l =>
      let valid := fun i => l.any (fun p => p.1 == i && p.2)
      let ids := l.map (·.1)
      let calls := txsReach valid true ids
      let pool := handleTxs valid true pool0 ids
      (s, s!"calls={joinWith "," ((sortN calls).map toString)} pool={joinWith "," ((sortN pool).map toString)} events={pool.length - pool0.length}")
    | _, _ => (s, "bad-op")
  | _ => (s, "bad-op")

end Driver.C20

import Driver.Util
import LemoModel.Sync
namespace Driver.C20
open LemoModel LemoModel.Sync Driver

/-- The driver runs the model of the code as it is in /repo NOW (repaired Add / IsExit / flush):
    `addLive`, `isExitFixed`, `ccPushLive`.  (`Option` is kept for the line protocol; it is always `some`.) -/
structure St where
  bc : Option BlockCache := some {}
  cc : Option ConfirmCache := some []
  node : Node := { chain := { known := [] } }
  q : Nat := 1

def sortN (l : List Nat) : List Nat := l.mergeSort (fun a b => decide (a ≤ b))

def joinWith (sep : String) (l : List String) : String := sep.intercalate l

def firstIdx (gid : Nat) : List Group → Nat → Nat
  | [], i => i
  | g :: rest, i => if g.gid = gid then i else firstIdx gid rest (i + 1)

def showKeys (l : List Blk) : String := joinWith "," ((sortN (l.map (·.hash))).map toString)

def dumpBC (c : BlockCache) : String :=
  let es := c.cache.map (fun g => s!"{g.height}@{firstIdx g.gid c.cache 0}[{showKeys g.blocks}]")
  s!"n={c.cache.length} size={size c} first={firstHeight c} :: " ++ joinWith " " es

def showBC : Option BlockCache → String
  | none => "deadlock"
  | some c => dumpBC c

def mkBlk (h tag : Nat) : Blk := { height := h, hash := h * 1000 + tag, parent := 0 }

def fillBC (limit : Nat) : Nat → Nat → Option BlockCache → Option BlockCache
  | 0, _, c => c
  | n + 1, h, c =>
    match c with
    | none => none
    | some c => fillBC limit n (h + 1) (some (addLive limit (mkBlk h 0) c))

/-- canonical text of the confirm cache: heights ascending, hashes ascending, sigs in arrival order -/
def dumpCC (c : ConfirmCache) : String :=
  let hs := sortN (c.map (·.1))
  let es := hs.map (fun h =>
    let hm := (alGet h c).getD []
    let ks := sortN (hm.map (·.1))
    s!"{h}:" ++ "{" ++ joinWith ";" (ks.map (fun k => s!"{k}=" ++ joinWith "," (((alGet k hm).getD []).map (fun d => toString d.sig)))) ++ "}")
  s!"n={c.length} size={ccSize c} :: " ++ joinWith " " es

def showCC : Option ConfirmCache → String
  | none => "deadlock"
  | some c => dumpCC c

def fillCC (limit : Nat) : Nat → Nat → Option ConfirmCache → Option ConfirmCache
  | 0, _, c => c
  | n + 1, h, c =>
    match c with
    | none => none
    | some c => fillCC limit n (h + 1) (some (ccPushLive limit { hash := h, height := h, sig := 0 } c))

/-- segment block `k` over a base block of height `base`: hash k, parent k-1 -/
def segBlk (base k : Nat) : Blk := { height := base + k, hash := k, parent := k - 1 }

def showNode (q : Nat) (n : Node) : String :=
  s!"cur={currentHeight n.chain} stable={stableHeight q n.chain} known={joinWith "," ((sortN (n.chain.known.map (·.hash))).map toString)} cache={size n.bc} confirms={ccSize n.cc}"

def nats? (ws : List String) : Option (List Nat) := ws.mapM (·.toNat?)

def step (s : St) (w : List String) : St × String :=
  match w with
  | ["new"] => ({ s with bc := some {} }, "ok")
  | ["add", h, t] =>
    match h.toNat?, t.toNat?, s.bc with
    | some h, some t, some c => let r := some (addLive 10240 (mkBlk h t) c); ({ s with bc := r }, showBC r)
    | some _, some _, none => (s, "deadlock")
    | _, _, _ => (s, "bad-op")
  | ["rm", h, t] =>
    match h.toNat?, t.toNat?, s.bc with
    | some h, some t, some c => let r := remove (mkBlk h t) c; ({ s with bc := some r }, dumpBC r)
    | some _, some _, none => (s, "deadlock")
    | _, _, _ => (s, "bad-op")
  | ["clear", h] =>
    match h.toNat?, s.bc with
    | some h, some c => let r := clear h c; ({ s with bc := some r }, dumpBC r)
    | some _, none => (s, "deadlock")
    | _, _ => (s, "bad-op")
  | ["iter", m, r] =>
    match m.toNat?, r.toNat?, s.bc with
    | some m, some r, some c =>
      let res := iterate (fun (_ : Unit) b => ((), decide (b.hash % m = r))) () c
      let vis := res.2.2.map (fun v => s!"{v.1}[{showKeys v.2}]")
      ({ s with bc := some res.2.1 }, "visit " ++ joinWith " " vis ++ " => " ++ dumpBC res.2.1)
    | some _, some _, none => (s, "deadlock")
    | _, _, _ => (s, "bad-op")
  | ["isexit", h, t, qh] =>
    match h.toNat?, t.toNat?, qh.toNat?, s.bc with
    | some h, some t, some qh, some c => (s, toString (isExitFixed (h * 1000 + t) qh c))
    | some _, some _, some _, none => (s, "deadlock")
    | _, _, _, _ => (s, "bad-op")
  | ["fill", lo, n] =>
    match lo.toNat?, n.toNat? with
    | some lo, some n =>
      let r := fillBC 10240 n lo (some {})
      ({ s with bc := r }, match r with | none => "deadlock" | some c => s!"len={c.cache.length}")
    | _, _ => (s, "bad-op")
  | ["cnew"] => ({ s with cc := some [] }, "ok")
  | ["cpush", hash, h, sig] =>
    match hash.toNat?, h.toNat?, sig.toNat?, s.cc with
    | some hash, some h, some sig, some c =>
      let r := some (ccPushLive 10240 { hash := hash, height := h, sig := sig } c)
      ({ s with cc := r }, showCC r)
    | some _, some _, some _, none => (s, "deadlock")
    | _, _, _, _ => (s, "bad-op")
  | ["cpop", h, hash] =>
    match h.toNat?, hash.toNat?, s.cc with
    | some h, some hash, some c =>
      let r := ccPop h hash c
      ({ s with cc := some r.2 }, "pop [" ++ joinWith "," (r.1.map (fun d => toString d.sig)) ++ "] => " ++ dumpCC r.2)
    | some _, some _, none => (s, "deadlock")
    | _, _, _ => (s, "bad-op")
  | ["cclear", h] =>
    match h.toNat?, s.cc with
    | some h, some c => let r := ccClear h c; ({ s with cc := some r }, dumpCC r)
    | some _, none => (s, "deadlock")
    | _, _ => (s, "bad-op")
  | ["cfill", lo, n] =>
    match lo.toNat?, n.toNat? with
    | some lo, some n =>
      let r := fillCC 10240 n lo (some [])
      ({ s with cc := r }, match r with | none => "deadlock" | some c => s!"len={c.length}")
    | _, _ => (s, "bad-op")
  -- receive loop over the abstract chain (segment block k = hash k, parent k-1, height base+k)
  | ["node", base, q] =>
    match base.toNat?, q.toNat? with
    | some base, some q =>
      let n : Node := { chain := { known := [segBlk base 0] } }
      ({ s with node := n, q := q }, showNode q n)
    | _, _ => (s, "bad-op")
  | "blocks" :: base :: ks =>
    match base.toNat?, nats? ks with
    | some base, some ks =>
      let n := rcvBlocks (addLive 10240) s.q s.node (ks.map (segBlk base))
      ({ s with node := n }, showNode s.q n)
    | _, _ => (s, "bad-op")
  | ["confirm", base, k, sig] =>
    match base.toNat?, k.toNat?, sig.toNat? with
    | some base, some k, some sig =>
      let n := rcvConfirm s.node { hash := k, height := base + k, sig := sig }
      ({ s with node := n }, showNode s.q n)
    | _, _, _ => (s, "bad-op")
  | ["tick", a] =>
    match parseBool? a with
    | some a => let n := tick a s.node; ({ s with node := n }, showNode s.q n)
    | none => (s, "bad-op")
  | ["stable"] => let n := onStable (stableHeight s.q s.node.chain) s.node; ({ s with node := n }, showNode s.q n)
  | _ => (s, "bad-op")

end Driver.C20

import Driver.Util
import LemoModel.EvmValue
/-
  Driver of the `evmv` lines (harness/hx/c05_evmvalue.go): one line = one block of contract transactions.

    evmv <income> <n> (<addr> <balance>)*n <k> tx*k
    tx    := T <sender> <payer> <gasLimit> <gasPrice> <intrinsic> <gasUsed> frame
    frame := F <c|cc|d|s|n> <callee> <value> <o|r|f> <m> act*m
    act   := frame | K <beneficiary>

  Addresses are labels (0 = no income address). `<o|r|f>` is how the frame's BODY ended by itself (from the steps traced at
  the callee's depth; a frame that ran no code: `o`, except the fed facts precompile-failed / CREATE collision = `f`) —
  it is never the success flag: a frame the engine refused (depth limit, CanTransfer, read-only mode) arrives as `o` with
  an empty body and the model must refuse it by its own rules. The answer: which txs the model includes, the success flag
  of every frame that was entered (execution order) AS COMPUTED BY THE MODEL (the harness prints the flags the callers
  really saw on their stacks), whether the engine's gas report is consistent, and the final balance of the n listed
  addresses — all computed by `LemoModel.EvmValue.applyBlock` from the listed INITIAL balances.
  Stateless: nothing is kept between lines.
-/
namespace Driver.EvmValue
open LemoModel.EvmValue Driver

def parseKind? : String → Option Kind
  | "c" => some .call | "cc" => some .callcode | "d" => some .delegatecall | "s" => some .staticcall | "n" => some .create
  | _ => none

def parseOutcome? : String → Option Outcome
  | "o" => some .ok | "r" => some .revert | "f" => some .fail
  | _ => none

mutual
  def parseFrame : Nat → List String → Option (Frame × List String)
    | 0, _ => none
    | fuel + 1, "F" :: k :: callee :: value :: o :: m :: rest =>
      match parseKind? k, callee.toNat?, parseInt? value, parseOutcome? o, m.toNat? with
      | some k, some callee, some value, some o, some m =>
        match parseActs fuel m rest with
        | some (body, rest) => some (.mk k callee value body o, rest)
        | none => none
      | _, _, _, _, _ => none
    | _, _ => none
  def parseActs : Nat → Nat → List String → Option (Actions × List String)
    | 0, _, _ => none
    | _ + 1, 0, rest => some (.nil, rest)
    | fuel + 1, m + 1, "K" :: b :: rest =>
      match b.toNat?, parseActs fuel m rest with
      | some b, some (acts, rest) => some (.kill b acts, rest)
      | _, _ => none
    | fuel + 1, m + 1, ws =>
      match parseFrame fuel ws with
      | some (f, rest) =>
        match parseActs fuel m rest with
        | some (acts, rest) => some (.sub f acts, rest)
        | none => none
      | none => none
end

def parseBals : Nat → List String → Option (List (Nat × Int) × List String)
  | 0, rest => some ([], rest)
  | n + 1, a :: v :: rest =>
    match a.toNat?, parseInt? v, parseBals n rest with
    | some a, some v, some (l, rest) => some ((a, v) :: l, rest)
    | _, _, _ => none
  | _, _ => none

def parseTxs (fuel : Nat) : Nat → List String → Option (List Tx × List String)
  | 0, rest => some ([], rest)
  | n + 1, "T" :: sender :: payer :: gl :: gp :: ig :: gu :: rest =>
    match sender.toNat?, payer.toNat?, gl.toNat?, parseInt? gp, ig.toNat?, gu.toNat?, parseFrame fuel rest with
    | some sender, some payer, some gl, some gp, some ig, some gu, some (f, rest) =>
      match parseTxs fuel n rest with
      | some (l, rest) =>
        some ({ sender := sender, payer := payer, gasLimit := gl, gasPrice := gp, intrinsic := ig, gasUsed := gu, top := f } :: l, rest)
      | none => none
    | _, _, _, _, _, _, _ => none
  | _, _ => none

def balOf (l : List (Nat × Int)) (a : Nat) : Int :=
  match l.find? (fun p => p.1 == a) with
  | some p => p.2
  | none => 0

def bits (l : List Bool) : String := if l.isEmpty then "-" else String.join (l.map fun b => if b then "1" else "0")

def answer (w : List String) : String :=
  match w with
  | income :: n :: rest =>
    match income.toNat?, n.toNat? with
    | some income, some n =>
      match parseBals n rest with
      | some (bals, k :: rest) =>
        match k.toNat? with
        | some k =>
          match parseTxs (rest.length + 2) k rest with
          | some (txs, []) =>
            let r := applyBlock { bal := balOf bals } income txs
            let out := ",".intercalate (bals.map fun p => s!"{p.1}:{r.st.bal p.1}")
            s!"inc={bits r.included} flags={bits r.flags} gas={if r.gasOk then "ok" else "bad"} bal={out}"
          | _ => "bad-op"
        | none => "bad-op"
      | _ => "bad-op"
    | _, _ => "bad-op"
  | _ => "bad-op"

end Driver.EvmValue

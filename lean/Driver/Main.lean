import LemoModel
def main (args : List String) : IO Unit := IO.println s!"driver {args}"

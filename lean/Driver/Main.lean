import Driver.Util
import Driver.C13

def main (args : List String) : IO UInt32 := do
  let stdin ← IO.getStdin
  let stdout ← IO.getStdout
  match args with
  | ["c13"] => Driver.loop stdin stdout Driver.C13.step {}; return 0
  | _ => IO.eprintln s!"unknown model {args}"; return 2

import Driver.Util
import Driver.C13
import Driver.C07
import Driver.C05
import Driver.C18
import Driver.C14
import Driver.C15
import Driver.C20
import Driver.C17
import Driver.C09
import Driver.C08
import Driver.C16
import Driver.C03
import Driver.C10
import Driver.C02
import Driver.C04
import Driver.C12
import Driver.C19

def main (args : List String) : IO UInt32 := do
  let stdin ← IO.getStdin
  let stdout ← IO.getStdout
  match args with
  | ["c05"] => Driver.loop stdin stdout Driver.C05.step {}; return 0
  | ["c07"] => Driver.loop stdin stdout Driver.C07.step {}; return 0
  | ["c13"] => Driver.loop stdin stdout Driver.C13.step {}; return 0
  | ["c18"] => Driver.loop stdin stdout Driver.C18.step {}; return 0
  | ["c14"] => Driver.loop stdin stdout Driver.C14.step (); return 0
  | ["c15"] => Driver.loop stdin stdout Driver.C15.step {}; return 0
  | ["c20"] => Driver.loop stdin stdout Driver.C20.step {}; return 0
  | ["c17"] => Driver.loop stdin stdout Driver.C17.step {}; return 0
  | ["c09"] => Driver.loop stdin stdout Driver.C09.step {}; return 0
  | ["c08"] => Driver.loop stdin stdout Driver.C08.step {}; return 0
  | ["c16"] => Driver.loop stdin stdout Driver.C16.step {}; return 0
  | ["c03"] => Driver.loop stdin stdout Driver.C03.step {}; return 0
  | ["c10"] => Driver.loop stdin stdout Driver.C10.step {}; return 0
  | ["c02"] => Driver.loop stdin stdout Driver.C02.step {}; return 0
  | ["c04"] => Driver.loop stdin stdout Driver.C04.step {}; return 0
  | ["c12"] => Driver.loop stdin stdout Driver.C12.step {}; return 0
  | ["c19"] => Driver.loop stdin stdout Driver.C19.step {}; return 0
  | _ => IO.eprintln s!"unknown model {args}"; return 2

import Driver.Util
import Driver.C01

/-- model driver of C01 alone (ledger lines → Driver.C05.step, `mo-…` lines → LemoModel.MergeOrder) -/
def main (_args : List String) : IO UInt32 := do
  let stdin ← IO.getStdin
  let stdout ← IO.getStdout
  Driver.loop stdin stdout Driver.C01.step {}
  return 0

import Driver.Util
import Driver.C09

/-- model driver of C09 alone: a change that breaks another property's model cannot break this executable -/
def main (_args : List String) : IO UInt32 := do
  let stdin ← IO.getStdin
  let stdout ← IO.getStdout
  Driver.loop stdin stdout Driver.C09.step {}
  return 0

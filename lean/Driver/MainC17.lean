import Driver.Util
import Driver.C17

/-- model driver of C17 alone: a change that breaks another property's model cannot break this executable -/
def main (_args : List String) : IO UInt32 := do
  let stdin ← IO.getStdin
  let stdout ← IO.getStdout
  Driver.loop stdin stdout Driver.C17.step {}
  return 0

import Driver.Util
import Driver.C19

/-- model driver of C19 alone: a change that breaks another property's model cannot break this executable -/
def main (_args : List String) : IO UInt32 := do
  let stdin ← IO.getStdin
  let stdout ← IO.getStdout
  Driver.loop stdin stdout Driver.C19.step {}
  return 0

/-
  Line-protocol utilities for the model driver (core Lean only).
-/
import LemoModel.GoSem
namespace Driver
open LemoModel

def words (s : String) : List String :=
  (s.splitOn " ").filter (fun w => w ≠ "")

def parseInt? (s : String) : Option Int :=
  if s.startsWith "-" then (s.drop 1).toNat?.map (fun n => - (n : Int))
  else s.toNat?.map (fun n => (n : Int))

def parseBool? (s : String) : Option Bool :=
  if s == "true" then some true else if s == "false" then some false else none

def showRes {α} (f : α → String) : GoRes α → String
  | .ok a => "ok " ++ f a
  | .err e => "err " ++ e
  | .panic => "panic"

/-- generic line loop: `step state words = (state', output line)`. -/
partial def loop {σ : Type} (h : IO.FS.Stream) (out : IO.FS.Stream)
    (step : σ → List String → σ × String) (s : σ) : IO Unit := do
  let line ← h.getLine
  if line.isEmpty then
    out.flush
    return ()
  let l := String.ofList (line.toList.filter (fun c => c != '\n' && c != '\r'))
  let (s', o) := step s (words l)
  out.putStrLn o
  loop h out step s'

end Driver

import LemoGen.Schedule
import LemoGen.TxWindow
import LemoGen.Store
import LemoGen.Gas
import LemoGen.Net
import LemoGen.NetCache
import LemoGen.RlpBounds
import LemoGen.Pool

import LemoGen.Schedule
import LemoGen.TxWindow
import LemoGen.Store
import LemoGen.Gas

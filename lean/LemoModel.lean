import LemoModel.GoSem
import LemoModel.Sched

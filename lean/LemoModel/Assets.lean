/-
  Asset model — the five asset transactions as coded in
    chain/transaction/asset_tx.go   (CreateAssetTx, IssueAssetTx, ReplenishAssetTx, ModifyAssetProfileTx)
    chain/vm/evm.go                 (EVM.TransferAssetTx)
    chain/transaction/tx_processor.go (VerifyAssetTx: reads the STABLE state)
    chain/types/asset.go            (VerifyAsset)
    common/hexutil/json.go          (Big10.UnmarshalText / decodeBig: the amount parser)
    chain/account/account.go        (SetEquityState / SetAssetCode: RLP refuses a negative big.Int)

  Core Lean only.  Tied to the code by `hx c12` (real engine: miner path + validator path, every block
  stable): outcome of every candidate tx, recorded supply / freeze flag of every asset and every
  equity entry after every block.

  State: `assets code` = the Asset record stored in the issuer's asset-code trie (codes are tx hashes,
  hence globally unique; the per-account asset tries are collapsed into one map, which is exact as long as
  no two create txs share a hash.  CreateAssetTx has NO existence check (asset_tx.go:66 SetAssetCode): a
  create whose hash already names an asset OVERWRITES the record, supply reset to 0 — modelled as coded;
  the theorems that need it take `s.assets hash = none` as a hypothesis.  Reachability: it needs two
  included create txs with the same tx hash, i.e. the same signed tx twice, which the tx guard refuses),
  `equity holder id` = the AssetEquity (asset code, amount) in the holder's equity trie,
  `idMeta holder id` = "GetAssetIdState(id) succeeds" (only IssueAssetTx writes it, and an EMPTY
  metaData string deletes it).

  `fixed = false` is EVM.TransferAssetTx before the repair (no sign check on the amount),
  `fixed = true` after it (a negative amount is rejected right after the equity check).
-/
namespace LemoModel.Assets

/-! ## the amount parser: hexutil.Big10 = decodeBig(input, 10) -/

def isDigit (c : Char) : Bool := decide ('0'.toNat ≤ c.toNat) && decide (c.toNat ≤ '9'.toNat)

/-- value of a digit string, most significant first (no validation) -/
def digitsVal : List Char → Nat → Nat
  | [], acc => acc
  | c :: cs, acc => digitsVal cs (acc * 10 + (c.toNat - '0'.toNat))

/-- big.Int.SetString(s, 10) on the unsigned part: at least one digit, digits only -/
def parseDigits (s : List Char) : Option Nat :=
  if s.isEmpty then none else if s.all isDigit then some (digitsVal s 0) else none

/-- big.Int.SetString(s, 10): optional sign, then digits -/
def setString10 : List Char → Option Int
  | '-' :: ds => (parseDigits ds).map (fun n => - (n : Int))
  | '+' :: ds => (parseDigits ds).map (fun n => (n : Int))
  | ds => (parseDigits ds).map (fun n => (n : Int))

/-- checkNumberText(input, want0xPrefix = false): a leading "0x"/"0X" is silently dropped -/
def stripHexPrefix : List Char → Option (List Char)
  | '0' :: 'x' :: rest => if rest.isEmpty then none else some rest
  | '0' :: 'X' :: rest => if rest.isEmpty then none else some rest
  | s => some s

/-- decodeBig(input, 10): the empty string is 0 -/
def parseAmount (s : List Char) : Option Int :=
  if s.isEmpty then some 0 else
  match stripHexPrefix s with
  | none => none
  | some r => setString10 r

/-! ## state -/

structure AssetRec where
  issuer : Nat
  category : Nat
  divisible : Bool
  replenishable : Bool
  frozen : Bool
  supply : Int
  deriving Repr, DecidableEq

structure St where
  assets : Nat → Option AssetRec
  equity : Nat → Nat → Option (Nat × Int)
  idMeta : Nat → Nat → Bool

def St.empty : St := ⟨fun _ => none, fun _ _ => none, fun _ _ => false⟩

inductive Err where
  | parse | assetNotExist | idNotExist | equityNotExist | issueAmount | metaData | replenishAmount
  | frozen | notReplenishable | notDivisible | codeMismatch | noInfo | category | kind | tokenDivisible
  | nftDivisible | decimal | assetEquity | frozenTransfer | insufficient | rlpNegative | negativeAmount
  | tooLong
  deriving Repr, DecidableEq

def Err.name : Err → String
  | .parse => "parse" | .assetNotExist => "assetNotExist" | .idNotExist => "idNotExist"
  | .equityNotExist => "equityNotExist" | .issueAmount => "issueAmount" | .metaData => "metaData"
  | .replenishAmount => "replenishAmount" | .frozen => "frozen" | .notReplenishable => "notReplenishable"
  | .notDivisible => "notDivisible" | .codeMismatch => "codeMismatch" | .noInfo => "noInfo"
  | .category => "category" | .kind => "kind" | .tokenDivisible => "tokenDivisible"
  | .nftDivisible => "nftDivisible" | .decimal => "decimal" | .assetEquity => "assetEquity"
  | .frozenTransfer => "frozenTransfer" | .insufficient => "insufficient" | .rlpNegative => "rlpNegative"
  | .negativeAmount => "negativeAmount" | .tooLong => "tooLong"

/-- a ModifyAssetTx's update: empty / only other keys / freeze := (value == "true") / an update (whatever
    it does to the freeze key) whose values are so long that the marshalled asset exceeds
    MaxMarshalAssetLength: ModifyAssetProfileTx applies it, measures, reverts and fails -/
inductive Fz where
  | empty | otherKey | set (b : Bool) | tooLong
  deriving Repr, DecidableEq

/-- one asset transaction. `amt = none`: the amount text is rejected by the parser (or missing / not a string).
    `big` (create): the marshalled asset exceeds MaxMarshalAssetLength (ErrMarshalAssetLength).
    `hash` is the tx's own hash (asset code of a create, asset id of a category-2/3 issue).
    `ck`: receiver has no code (0) / code that runs to the end (1) / code whose execution fails (2). -/
inductive Op where
  | create (sender hash cat : Nat) (div repl : Bool) (decimal : Nat) (frozen : Bool) (big : Bool)
  | issue (sender recv hash code metaLen : Nat) (amt : Option Int)
  | replenish (sender recv code id : Nat) (amt : Option Int)
  | modify (sender code : Nat) (fz : Fz)
  | transfer (sender recv id ck : Nat) (amt : Option Int)
  deriving Repr, DecidableEq

/-- GetAssetCode(code) on `owner`'s account: the asset tries are per account -/
def lookup (s : St) (owner code : Nat) : Option AssetRec :=
  match s.assets code with
  | some r => if r.issuer = owner then some r else none
  | none => none

/-- SetEquityState (account.go:571): `val, err := rlp.EncodeToBytes(equity); if err != nil { return err }` and
    common/rlp/encode.go:433 `return fmt.Errorf("rlp: cannot encode negative *big.Int")` for Equity.Sign() < 0.
    The `e.2 < 0` test below IS that encoder branch (nothing else in the Go code keeps an equity from going
    negative); the caller reverts to its snapshot and the tx is discarded.  The harness observes it on the real
    engine as outcome `rlpNegative`.  `LemoProofs.C12.rlp_guard_fires_only_on_burn` shows that on the live model
    this branch is dead for equity entries: their non-negativity follows from the operations themselves. -/
def putEquity (s : St) (a id : Nat) (e : Nat × Int) : Except Err St :=
  if e.2 < 0 then .error .rlpNegative
  else .ok { s with equity := fun x y => if x = a ∧ y = id then some e else s.equity x y }

/-- SetAssetCodeTotalSupply → SetAssetCode (account.go:479-512): the whole Asset record is RLP-encoded, the same
    encoder branch refuses a negative TotalSupply.  This one is NOT dead: a burn larger than the recorded
    supply (possible once holdings exceed the supply, foreign-asset-id finding) is refused here and only here. -/
def putSupply (s : St) (code : Nat) (v : Int) : Except Err St :=
  match s.assets code with
  | none => .error .assetNotExist
  | some r =>
    if v < 0 then .error .rlpNegative
    else .ok { s with assets := fun x => if x = code then some { r with supply := v } else s.assets x }

def setMeta (s : St) (a id : Nat) (b : Bool) : St :=
  { s with idMeta := fun x y => if x = a ∧ y = id then b else s.idMeta x y }

/-- VerifyAssetTx for issue / replenish / modify: the asset must be in the sender's STABLE account -/
def verifyCode (stable : St) (sender code : Nat) : Bool :=
  code == 0 || (lookup stable sender code).isSome

def create (s : St) (sender hash cat : Nat) (div repl : Bool) (decimal : Nat) (frozen big : Bool) : Except Err St :=
  if decimal > 18 then .error .decimal else
  if cat = 1 ∧ div = false then .error .tokenDivisible else
  if cat = 2 ∧ div = true then .error .nftDivisible else
  if cat ≠ 1 ∧ cat ≠ 2 ∧ cat ≠ 3 then .error .kind else
  if big then .error .tooLong else
  let r : AssetRec := { issuer := sender, category := cat, divisible := div, replenishable := repl, frozen := frozen, supply := 0 }
  .ok { s with assets := fun x => if x = hash then some r else s.assets x }

def issue (stable s : St) (sender recv hash code metaLen : Nat) (amt : Option Int) : Except Err St :=
  match amt with
  | none => .error .parse
  | some amt =>
  if verifyCode stable sender code = false then .error .assetNotExist else
  if metaLen > 256 then .error .metaData else
  if amt ≤ 0 then .error .issueAmount else
  match lookup s sender code with
  | none => .error .assetNotExist
  | some r =>
  if r.frozen then .error .frozen else
  if r.category = 1 then
    -- token: id = code; an existing entry of the receiver is ADDED (whatever asset code it carries)
    let newEq := match s.equity recv code with
      | none => amt
      | some (_, e) => amt + e
    do
      let s1 ← putSupply s code (if r.divisible then r.supply + amt else r.supply + 1)
      let s2 ← putEquity s1 recv code (code, newEq)
      pure (setMeta s2 recv code (decide (metaLen > 0)))
  else if r.category = 2 ∨ r.category = 3 then
    -- id = hash of this tx; the entry is overwritten
    do
      let s1 ← putSupply s code (if r.divisible then r.supply + amt else r.supply + 1)
      let s2 ← putEquity s1 recv hash (code, amt)
      pure (setMeta s2 recv hash (decide (metaLen > 0)))
  else .error .category

/-- the receiver's entry ReplenishAssetTx starts from: the stored one, or a fresh (code, id, 0) -/
def oldEntry (s : St) (recv id code : Nat) : Nat × Int :=
  match s.equity recv id with
  | none => (code, 0)
  | some e => e

def replenish (stable s : St) (sender recv code id : Nat) (amt : Option Int) : Except Err St :=
  match amt with
  | none => .error .parse
  | some amt =>
  if verifyCode stable sender code = false then .error .assetNotExist else
  if amt ≤ 0 then .error .replenishAmount else
  match lookup s sender code with
  | none => .error .assetNotExist
  | some r =>
  if r.frozen then .error .frozen else
  if r.replenishable = false then .error .notReplenishable else
  if r.divisible = false then .error .notDivisible else
  if code ≠ (oldEntry s recv id code).1 then .error .codeMismatch else
  (putEquity s recv id ((oldEntry s recv id code).1, (oldEntry s recv id code).2 + amt)) >>= fun s1 =>
    putSupply s1 code (r.supply + amt)

def modify (stable s : St) (sender code : Nat) (fz : Fz) : Except Err St :=
  if verifyCode stable sender code = false then .error .assetNotExist else
  if fz = .empty then .error .noInfo else
  match lookup s sender code with
  | none => .error .assetNotExist
  | some r =>
    match fz with
    | .set b => .ok { s with assets := fun x => if x = code then some { r with frozen := b } else s.assets x }
    | .tooLong => .error .tooLong
    | _ => .ok s

/-- what the receiver's entry becomes: a fresh copy of the sender's entry with the amount, or its own entry plus the amount -/
def creditEntry (s : St) (recv id c : Nat) (amount : Int) : Nat × Int :=
  match s.equity recv id with
  | none => (c, amount)
  | some (c2, e2) => (c2, e2 + amount)

/-- credit the receiver, or (receiver = burn address 0x0) reduce the recorded supply -/
def credit (s : St) (recv id c : Nat) (r : AssetRec) (amount : Int) : Except Err St :=
  if recv ≠ 0 then putEquity s recv id (creditEntry s recv id c amount)
  else putSupply s c (if r.divisible then r.supply - amount else r.supply - 1)

/-- debit the sender: its entry is READ AGAIN (it may be the receiver) -/
def debit (s1 : St) (sender id : Nat) (amount : Int) : Except Err St :=
  match s1.equity sender id with
  | none => .error .equityNotExist
  | some (c', e') => putEquity s1 sender id (c', e' - amount)

/-- the state changes of EVM.TransferAssetTx once all checks passed (`amount` already replaced by the
    whole equity for a non-divisible asset) -/
def moveEquity (s : St) (sender recv id c : Nat) (r : AssetRec) (amount : Int) : Except Err St :=
  credit s recv id c r amount >>= fun s1 => debit s1 sender id amount

def transfer (fixed : Bool) (stable s : St) (sender recv id ck : Nat) (amt : Option Int) : Except Err St :=
  match amt with
  | none => .error .parse
  | some amt =>
  if stable.idMeta sender id = false then .error .idNotExist else
  match s.equity sender id with
  | none => .error .equityNotExist
  | some (c, e) =>
  if e ≤ 0 then .error .assetEquity else
  if fixed = true ∧ amt < 0 then .error .negativeAmount else
  -- assetDB.GetAssetCode: the store's code → issuer index (stable blocks only)
  match stable.assets c with
  | none => .error .assetNotExist
  | some _ =>
  match s.assets c with
  | none => .error .assetNotExist
  | some r =>
  if r.frozen then .error .frozenTransfer else
  if e < amt ∧ r.divisible = true then .error .insufficient else
  if ck = 0 ∧ amt = 0 then .ok s else
  match moveEquity s sender recv id c r (if r.divisible then amt else e) with
  | .error x => .error x
  | .ok s' => if ck = 2 then .ok s else .ok s'   -- failing contract code: RevertToSnapshot, tx still included

/-- the faithful transfer (code before the repair) and the repaired one -/
def transferAsIs := transfer false
def transferFixed := transfer true

def apply (fixed : Bool) (stable s : St) : Op → Except Err St
  | .create sd h cat dv rp dc fz big => create s sd h cat dv rp dc fz big
  | .issue sd rc h c m a => issue stable s sd rc h c m a
  | .replenish sd rc c i a => replenish stable s sd rc c i a
  | .modify sd c fz => modify stable s sd c fz
  | .transfer sd rc i ck a => transfer fixed stable s sd rc i ck a

/-- a failing tx is discarded by the miner: the state is unchanged -/
def step (fixed : Bool) (stable s : St) (op : Op) : St :=
  match apply fixed stable s op with
  | .ok s' => s'
  | .error _ => s

def runOps (fixed : Bool) (stable : St) : St → List Op → St
  | s, [] => s
  | s, op :: ops => runOps fixed stable (step fixed stable s op) ops

/-- a box transaction: its sub-transactions run in order through the same applyTx; the first failure fails the
    box, and the miner discards the whole box (RunBoxTxs + ApplyTxs' RevertToSnapshot) -/
def applyBox (fixed : Bool) (stable : St) : St → List Op → Except Err St
  | s, [] => .ok s
  | s, op :: ops =>
    match apply fixed stable s op with
    | .ok s' => applyBox fixed stable s' ops
    | .error e => .error e

/-- a chain of blocks, each executed against an ARBITRARY stable state given with it (VerifyAssetTx reads the
    node's latest stable block, which may lag behind the parent) -/
def runChain (fixed : Bool) : St → List (St × List Op) → St
  | s, [] => s
  | s, (stable, b) :: bs => runChain fixed (runOps fixed stable s b) bs

/-- a chain of blocks; each block is stable before the next one is built (the harness confirms every block) -/
def runBlocks (fixed : Bool) : St → List (List Op) → St
  | s, [] => s
  | s, b :: bs => runBlocks fixed (runOps fixed s s b) bs

/-! ## sums over a finite key list -/

def entryOf (s : St) (code : Nat) (k : Nat × Nat) : Int :=
  match s.equity k.1 k.2 with
  | some (c, e) => if c = code then e else 0
  | none => 0

def sumCode (s : St) (code : Nat) : List (Nat × Nat) → Int
  | [] => 0
  | k :: ks => entryOf s code k + sumCode s code ks

end LemoModel.Assets

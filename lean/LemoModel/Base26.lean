/-
  C14 — textual form of an account address (/repo/common/types.go:179-225, /repo/common/base26/base26.go).
  Core Lean only.  Text is modelled as `List Char` (ASCII); the `String` wrappers are for the driver.

  `Address.String()`  = "Lemo" ++ base26.Encode(addr ++ [xor of addr])      (36 digits, '8' is digit 0)
  `Address.Decode(s)` = upper-case, check the "LEMO" prefix, base26.Decode, split off the check byte,
                        compare with the xor, `SetBytes` into a fresh (all-zero) address.
  Faithful details: `base26.Decode` does not validate characters (`bytes.IndexByte` gives -1 for a
  character outside the alphabet and the arithmetic simply goes on with -1, `big.Int.Bytes` takes the
  absolute value), does not check the length, and `SetBytes` keeps only the last 20 bytes.
-/
import LemoModel.Rlp
namespace LemoModel.Base26
open LemoModel.Rlp

def alphabet : List Char := ['8','3','4','5','6','7','2','9','A','B','C','D','F','G','H','J','K','N','P','Q','R','S','T','W','Y','Z']

def digitChar (d : Nat) : Char := alphabet.getD d '8'

/-- `bytes.IndexByte(b26AIphabet, c)` -/
def charIndex (c : Char) : Int :=
  if alphabet.idxOf c < 26 then (alphabet.idxOf c : Int) else -1

/-- base-26 digits, least significant first (the `DivMod` loop of `Encode`) -/
def digitsLE (n : Nat) : List Char :=
  if _h : n = 0 then [] else digitChar (n % 26) :: digitsLE (n / 26)
termination_by n
decreasing_by omega

/-- `base26.Encode` -/
def encode (input : List UInt8) : List Char :=
  let ds := digitsLE (fromBE input)
  (ds ++ List.replicate (36 - ds.length) '8').reverse

/-- `base26.Decode` -/
def decode (input : List Char) : List UInt8 :=
  let payload := input.dropWhile (· == '8')
  toBE (payload.foldl (fun acc c => acc * 26 + charIndex c) (0 : Int)).natAbs

/-- `GetCheckSum` -/
def checkSum (l : List UInt8) : UInt8 := l.foldl (· ^^^ ·) 0

/-- `Address.SetBytes` on a zero address -/
def setBytes (b : List UInt8) : List UInt8 :=
  let b' := if b.length > 20 then b.drop (b.length - 20) else b
  List.replicate (20 - b'.length) 0 ++ b'

def logo : List Char := ['L', 'e', 'm', 'o']
def logoUpper : List Char := ['L', 'E', 'M', 'O']

/-- `Address.String()` -/
def addressChars (a : List UInt8) : List Char := logo ++ encode (a ++ [checkSum a])

/-- `Address.Decode` into a fresh address -/
def addressDecodeChars (s : List Char) : Except String (List UInt8) :=
  let up := s.map Char.toUpper
  if up.take 4 ≠ logoUpper then .error "InvalidAddress"
  else
    let full := decode (up.drop 4)
    match full.getLast? with
    | none => .ok (List.replicate 20 0)           -- length 0: `a.SetBytes(nil)`
    | some cs =>
      if checkSum full.dropLast ≠ cs then .error "InvalidAddressChecksum"
      else .ok (setBytes full.dropLast)

def addressString (a : List UInt8) : String := String.ofList (addressChars a)
def addressDecode (s : String) : Except String (List UInt8) := addressDecodeChars s.toList

end LemoModel.Base26

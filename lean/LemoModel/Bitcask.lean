/-
  C08 — one bitcask behind the write-ahead queue, at the granularity of its DURABLE STEPS (core Lean only).

  Mirrors
    store/bitcask.go    BitCask.Put / checkAndFlush / checkSize / Get / get, NewBitCask -> homeIsExist
                        (CurOffset, CurIndex recovered from leveldb.GetCurrentPos)
    store/file_util.go  FileUtilsFlush (open, Seek(offset), Write, Sync)  — `LemoModel.Wal.writeAt`
                        FileUtilsRead                                      — `LemoModel.Wal.scanStep`
    store/sync_file_db.go  the writer goroutine (`start`: put, then Done), `route`
    store/file_queue.go    Start = checkFile -> scanFile -> deliver (what a restart redelivers) — `LemoModel.Wal.qStep`
                           plus `restartQ` below

  BitCask.Put(flag,key,val) performs THREE durable steps:
    (1) checkAndFlush: the encoded record is written into NNN.data AT the in-memory cursor `CurOffset`
        (FileUtilsFlush seeks there: pwrite semantics — overwrite what is there, extend the file)      + fsync
        (a crash INSIDE that write leaves a prefix of the record at the cursor: `tornWrite`)
    (2) leveldb.SetPos((flag,key) -> Position{flag, CurOffset | CurIndex})
    (3) CurOffset += length; leveldb.SetCurrentPos(bitcask index, CurOffset | CurIndex)
  and the writer goroutine then reports Done (FileQueue.afterPut -> delIndex). The process can die after each of them.
  A restart sets the in-memory cursor to the PERSISTED one and redelivers every record of tmp.data, oldest first.

  One bitcask is modelled (`route` sends a key always to the same bitcask, the LevelDB keys of two bitcasks are
  disjoint, so the others are independent copies of this machine); the sequence of records is the projection of the
  queue's records on that bitcask. One data file: `checkSize` switching to the next NNN.data at `maxFileSize`
  (2 GiB) is NOT modelled — the model raises the sticky flag `rolled` instead and the theorems assume it stays false.
-/
import LemoModel.Wal
namespace LemoModel.Bitcask
open LemoModel LemoModel.Wal

/-- `maxFileSize` (store/utils.go) -/
def maxFileSize : Nat := 2147483648

/-- the durable state of one bitcask -/
structure BC where
  file : Bytes                    -- 000.data
  pos : StoreKey → Option Nat     -- LevelDB position index: Key(flag,key) -> Position.Offset (= offset | file index)
  cur : Nat                       -- LevelDB "OFFSET<i>offset": the persisted cursor (offset | file index)

def BC.empty : BC := ⟨[], fun _ => none, 0⟩

/-- `FileUtilsFlush(path, off, b)`. `append = false` is the code under test (`os.O_WRONLY`, Seek(off), Write: pwrite
    semantics, `LemoModel.Wal.writeAt`). `append = true` is the VARIANT seed-C08g (`os.O_WRONLY|os.O_APPEND`: the
    kernel ignores the position, every write lands at the end of the file). -/
def flush (append : Bool) (file : Bytes) (off : Nat) (b : Bytes) : Bytes :=
  if append then file ++ b else writeAt file off b

inductive GetRes where
  | notFound              -- (nil, nil): no position, or the record found there carries another flag / key
  | err (e : String)      -- FileUtilsRead error ("EOF": short read or checksum mismatch; an rlp error; no such data file)
  | ok (v : Bytes)
  deriving DecidableEq, Repr

/-- `BitCask.Get` -> `get(flag, key, pos.Offset)`: the data file is `offset & 0xff` (only 000.data exists here), the
    record is read at `offset & 0xffffff00` with `FileUtilsRead` (= one `scanStep`), then flag and key are compared -/
def bcGet (b : BC) (flg : Nat) (key : Bytes) : GetRes :=
  match b.pos (flg, key) with
  | none => .notFound
  | some off =>
    if off % 256 ≠ 0 then .err "NoSuchFile"
    else
      match scanStep b.file (off / 256 * 256) with
      | .eof => .err "EOF"
      | .err e => .err e
      | .deliver r _ => if r.flg ≠ flg then .notFound else if r.key ≠ key then .notFound else .ok r.val

/-- queue + bitcask + the volatile state of the writer goroutine -/
structure Sys where
  q : QState        -- the write-ahead queue (LemoModel.Wal): pending index, records handed to the writer, tmp.data
  bc : BC
  mem : Nat         -- BitCask.CurOffset (in memory; CurIndex = 0)
  stage : Nat       -- how many durable steps of the Put of the OLDEST pending record have been executed (0, 1, 2)
  rolled : Bool     -- checkSize asked for the next data file: outside the model (sticky)

def Sys.init : Sys := ⟨QState.init, BC.empty, 0, 0, false⟩

/-- `FileQueue.Start` after a crash: checkFile -> scanFile redelivers every record of tmp.data (`deliver`: setIndex +
    hand-over to the writer), oldest first. The byte level of that scan is `LemoModel.Wal.scan`. `done` (a ghost:
    the history of completed bitcask puts) is kept. -/
def restartQ (q : QState) : QState :=
  q.wal.foldl (qDeliver false) { index := [], pending := [], wal := q.wal, done := q.done }

/-- the process dies and is started again: everything volatile is rebuilt from the durable state.
    `homeIsExist`: CurIndex = pos & 0xFF, CurOffset = pos & 0xFFFFFF00. -/
def restart (s : Sys) : Sys :=
  { s with q := restartQ s.q, mem := s.bc.cur / 256 * 256, stage := 0 }

/-- the writer goroutine executes the NEXT durable step of `BitCask.Put` of the oldest pending record (`ts`: the
    time stamp `FileUtilsEncode` puts into the head); after the third step it reports Done. -/
def writerStep (append : Bool) (s : Sys) (ts : Nat) : Sys :=
  match s.q.pending with
  | [] => s
  | r :: _ =>
    let enc := fileUtilsEncode ts r
    match s.stage with
    | 0 =>
      -- checkSize, then FileUtilsFlush(path(CurIndex), CurOffset, data)
      if s.mem + enc.length > maxFileSize then { s with rolled := true }
      else { s with bc := { s.bc with file := flush append s.bc.file s.mem enc }, stage := 1 }
    | 1 =>
      -- leveldb.SetPos(flag, key, {flag, CurOffset | CurIndex})
      { s with bc := { s.bc with pos := fun k => if k = (r.flg, r.key) then some s.mem else s.bc.pos k }, stage := 2 }
    | _ =>
      -- CurOffset += length; leveldb.SetCurrentPos(CurOffset | CurIndex); Done -> afterPut -> delIndex
      let s1 : Sys := { s with bc := { s.bc with cur := s.mem + enc.length }, mem := s.mem + enc.length, stage := 0 }
      match qStep false s.q .done with
      | (q', false) => { s1 with q := q' }
      | (q', true) => restart { s1 with q := q' }     -- delIndex panicked: the process is dead

/-- the process dies INSIDE step 1 of the Put of the oldest pending record: only the first `c` bytes of the encoded
    record reach the data file (at the cursor); restart. (Between two puts only: `stage = 0`.) -/
def tornWrite (append : Bool) (s : Sys) (ts c : Nat) : Sys :=
  match s.q.pending, s.stage with
  | r :: _, 0 =>
    let enc := fileUtilsEncode ts r
    if s.mem + enc.length > maxFileSize then { s with rolled := true }
    else restart { s with bc := { s.bc with file := flush append s.bc.file s.mem (enc.take c) } }
  | _, _ => restart s

inductive Op where
  | put (r : Record)            -- FileQueue.Put returned nil (acknowledged)
  | batch (rs : List Record)    -- FileQueue.PutBatch returned nil
  | step (ts : Nat)             -- one durable step of the writer
  | crash                       -- kill -9 + restart
  | torn (ts c : Nat)           -- kill -9 in the middle of the data-file write (torn write of `c` bytes) + restart
  deriving Repr

def step (append : Bool) (s : Sys) : Op → Sys
  | .put r => { s with q := (qStep false s.q (.put r)).1 }
  | .batch rs => { s with q := (qStep false s.q (.batch rs)).1 }
  | .step ts => writerStep append s ts
  | .crash => restart s
  | .torn ts c => tornWrite append s ts c

def run (append : Bool) (s : Sys) (ops : List Op) : Sys := ops.foldl (step append) s

/-- the records one operation acknowledges -/
def Op.acked : Op → List Record
  | .put r => [r]
  | .batch rs => rs
  | _ => []

/-- every record ever acknowledged, in order -/
def acked : List Op → List Record
  | [] => []
  | op :: ops => op.acked ++ acked ops

/-- what the abstract store (`LemoModel.Wal.Store`, last writer wins) answers, as a `GetRes` -/
def expected (st : Store) (flg : Nat) (key : Bytes) : GetRes :=
  match st (flg, key) with
  | none => .notFound
  | some v => .ok v

/-- the writer runs until nothing is pending (at most three steps per pending record) -/
def drain (append : Bool) (s : Sys) : Sys :=
  (List.replicate (3 * s.q.pending.length) (Op.step 0)).foldl (step append) s

end LemoModel.Bitcask

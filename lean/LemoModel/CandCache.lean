/-
  C10 / C08 — byte-level model of /repo/store/beansdb.go `CandidateCache` (the candidate list of context.data)
  and of what `RunContext.load` / `NewChainDataBase` do with it.  Core Lean only.

  Go                                                   model
  ---------------------------------------------------  --------------------------------------------------------
  CandidateCache{Candidates, ItemMaxSize=64, Cap, Cur,  `Cache` (`cands` = the Go map as an association list in insertion
                 CandidateBuf}                           order; `buf` = CandidateBuf[0:len]; `tail` = the bytes of the
                                                         underlying array between len and cap: a Go slice expression
                                                         `s[a:b]` is checked against cap(s), not len(s))
  CandidatePos{Pos, Len uint32}, binary.Write LE        `Pos`, `encHead` (8 bytes), `decHead`; `u32` = conversion to uint32
  rlp.EncodeToBytes(&Candidate{Address, Total})         `encodeCand` = `Rlp.encode [addr, toBE total]` (struct writer + writeBigInt)
  rlp.DecodeBytes(b, &Candidate)                        `decodeCand` = generic decoder + schema struct[fixed 20, big]
  copy(dst[off:], src)  (and LmBuffer.Write = copy)     `copyAt dst off src`  (silently cut at len(dst))
  Set (beansdb.go:211)                                  `set`      (panic "toolarge" when 64 < len(rlp)+8, i.e. Total ≥ 2^264)
  Encode + RunContext.encodeBody                        `persist`, `encodeBody`
  Decode (beansdb.go:275)                               `decode`   (`DecRes.failed c'`: the error return leaves the map
                                                         PARTLY filled and CandidateBuf/Cap/Cur untouched)
  GetCandidates (beansdb.go:309)                        `getCandidates` (map order = association-list order; the driver sorts)
  RunContext.load's item loop (beansdb.go:412-439)      `loadLoop`  — the error of Decode is IGNORED
  RunContext.load + NewRunContext                       `loadFile`  (Go panics "load run context error" = `.panic "loaderr"`)
  RunContext.Flush                                      `flushFile c ts`
  NewChainDataBase's `GetCandidates` call               `openList`  (an error is the Go panic "get candidates err")

  Every slice expression is an explicit bounds check (`slice`, or a comparison before `copyAt`); a Go panic is the
  constructor `.panic cls` with cls ∈ {toolarge, shortbuf, startpos, bounds, loaderr, getcands}.
  `setSeed` is the model of the two seeded regressions of round 9 (head not rewritten / Len updated late) — used by the
  refutation witnesses only, never by the driver.
-/
import LemoModel.Rlp
import LemoModel.RlpSchema
namespace LemoModel.CandCache
open LemoModel.Rlp LemoModel.RlpSchema

def slot : Nat := 64          -- ItemMaxSize
def headLen : Nat := 8        -- binary.Size(CandidatePos{})
def initCap : Nat := 4096     -- 64 * 64
def u32 (n : Nat) : Nat := n % 4294967296

inductive Out (α : Type) where
  | ok (a : α)
  | err (e : String)
  | panic (cls : String)
  deriving Repr, Inhabited

structure Pos where
  pos : Nat
  len : Nat
  deriving Repr, DecidableEq, Inhabited

abbrev Addr := List UInt8
abbrev PosMap := List (Addr × Pos)

structure Cache where
  cands : PosMap := []
  cap : Nat := initCap
  cur : Nat := 0
  buf : List UInt8 := List.replicate initCap 0
  tail : List UInt8 := []
  deriving Repr, Inhabited

def fresh : Cache := {}

/-! ### little-endian uint32, the 8-byte slot head -/

def le32 (n : Nat) : List UInt8 :=
  [UInt8.ofNat (n % 256), UInt8.ofNat (n / 256 % 256), UInt8.ofNat (n / 65536 % 256), UInt8.ofNat (n / 16777216 % 256)]

/-- `binary.LittleEndian.Uint32` of the first four bytes (0 when there are fewer: never reached, the callers slice first) -/
def rd32 (l : List UInt8) : Nat :=
  match l with
  | a :: b :: c :: d :: _ => a.toNat + 256 * b.toNat + 65536 * c.toNat + 16777216 * d.toNat
  | _ => 0

def encHead (p : Pos) : List UInt8 := le32 p.pos ++ le32 p.len
def decHead (l : List UInt8) : Pos := ⟨rd32 l, rd32 (l.drop 4)⟩

/-- Go `copy(dst[off:], src)` for `off ≤ len(dst)`: overwrites `min(len(src), len(dst)-off)` bytes, never grows `dst` -/
def copyAt (dst : List UInt8) (off : Nat) (src : List UInt8) : List UInt8 :=
  dst.take off ++ src.take (dst.length - off) ++ dst.drop (off + src.length)

/-- Go `s[a:b]` where `arr` is the underlying array from `s[0]` up to `cap(s)`; `none` = runtime panic -/
def slice (arr : List UInt8) (a b : Nat) : Option (List UInt8) :=
  if a ≤ b ∧ b ≤ arr.length then some ((arr.drop a).take (b - a)) else none

/-! ### the Go map -/

def lookup : PosMap → Addr → Option Pos
  | [], _ => none
  | (k, v) :: r, a => if k = a then some v else lookup r a

/-- `m[a] = p`: replace in place, else append (insertion order is only a canonical enumeration of the map) -/
def mapSet : PosMap → Addr → Pos → PosMap
  | [], a, p => [(a, p)]
  | (k, v) :: r, a, p => if k = a then (k, p) :: r else (k, v) :: mapSet r a p

/-! ### RLP of `store.Candidate{Address common.Address; Total *big.Int}` -/

def candItem (a : Addr) (t : Nat) : Item := .list [.bytes a, .bytes (toBE t)]
def encodeCand (a : Addr) (t : Nat) : List UInt8 := encode (candItem a t)
def candSchema : Schema := .struct [.fixed 20, .big]

def decodeCand (b : List UInt8) : Option (Addr × Nat) :=
  match Rlp.decode b with
  | .ok it =>
    match decodeS true candSchema it with
    | some (.list [.bytes a, .nat t]) => some (a, t)
    | _ => none
  | .error _ => none

/-! ### Set -/

/-- the doubling of the buffer before a NEW slot is written (`cache.Cur+cache.ItemMaxSize > cache.Cap`): ONE doubling -/
def grow (c : Cache) : Cache :=
  if c.cur + slot > c.cap then
    { c with cap := c.cap * 2, buf := copyAt (List.replicate (c.cap * 2) 0) 0 c.buf, tail := [] }
  else c

/-- head write + payload copy at a slot position (both branches of `Set`); `CandidateBuf[pos.Pos:]` and
    `CandidateBuf[pos.Pos+8:]` (uint32 addition) are the two slice expressions -/
def writeSlot (buf : List UInt8) (hd : Pos) (p : List UInt8) : Option (List UInt8) :=
  if buf.length < hd.pos then none
  else
    let b1 := copyAt buf hd.pos (encHead hd)
    let off := u32 (hd.pos + headLen)
    if b1.length < off then none else some (copyAt b1 off p)

/-- `CandidateCache.Set(&Candidate{a, t})`, `t ≥ 0` -/
def set (c : Cache) (a : Addr) (t : Nat) : Out Cache :=
  let p := encodeCand a t
  if slot < p.length + headLen then .panic "toolarge"
  else
    match lookup c.cands a with
    | some pos =>
      let pos' : Pos := ⟨pos.pos, u32 p.length⟩
      match writeSlot c.buf pos' p with
      | none => .panic "bounds"
      | some b => .ok { c with buf := b, cands := mapSet c.cands a pos' }
    | none =>
      let g := grow c
      let pos : Pos := ⟨u32 c.cur, u32 p.length⟩
      match writeSlot g.buf pos p with
      | none => .panic "bounds"
      | some b => .ok { g with buf := b, cands := mapSet c.cands a pos, cur := c.cur + slot }

/-- `Set` with a `*big.Int` that may be negative: `rlp.EncodeToBytes` fails, nothing is changed -/
def setI (c : Cache) (a : Addr) (t : Int) : Out Cache :=
  if t < 0 then .err "neg" else set c a t.toNat

inductive Seed where
  | noHead     -- seeded change A: the update branch does not rewrite the slot head
  | lateLen    -- seeded change B: `pos.Len = len(buf)` after the head write
  deriving Repr, DecidableEq

/-- the update branch of the two seeded variants (the new-slot branch is unchanged) -/
def setSeed (s : Seed) (c : Cache) (a : Addr) (t : Nat) : Out Cache :=
  let p := encodeCand a t
  if slot < p.length + headLen then .panic "toolarge"
  else
    match lookup c.cands a with
    | some pos =>
      let pos' : Pos := ⟨pos.pos, u32 p.length⟩
      match s with
      | .noHead =>
        let off := u32 (pos.pos + headLen)
        if c.buf.length < off then .panic "bounds"
        else .ok { c with buf := copyAt c.buf off p, cands := mapSet c.cands a pos' }
      | .lateLen =>
        match writeSlot c.buf pos p with
        | none => .panic "bounds"
        | some b => .ok { c with buf := b, cands := mapSet c.cands a pos' }
    | none => set c a t

/-! ### Encode / encodeBody / Flush -/

/-- the candidate section `RunContext.encodeBody` writes: `make([]byte, uint32(Cur))` overwritten by `copy(.., CandidateBuf)` -/
def persist (c : Cache) : List UInt8 := copyAt (List.replicate (u32 c.cur) 0) 0 c.buf

def encodeBody (c : Cache) : List UInt8 := le32 2 ++ le32 (u32 c.cur) ++ persist c

/-- contextHead{FileLen, Version=1, TimeStamp, Crc=0} (14 bytes) ++ body -/
def flushFile (c : Cache) (ts : Nat) : List UInt8 :=
  le32 (u32 (encodeBody c).length) ++ le32 1 ++ le32 (u32 ts) ++ [0, 0] ++ encodeBody c

/-! ### Decode -/

inductive LoopRes where
  | ok (m : PosMap)
  | err (m : PosMap)         -- `return err` of rlp.DecodeBytes: the map keeps the entries of the earlier slots
  | panic (cls : String)
  deriving Repr, Inhabited

/-- the slot loop of `Decode`; `arr` = underlying array of `buf`, `rem` slots left, `index` the current one -/
def decodeLoop (arr : List UInt8) : Nat → Nat → PosMap → LoopRes
  | 0, _, m => .ok m
  | rem + 1, index, m =>
    let start := index * slot
    match slice arr start (start + headLen) with
    | none => .panic "bounds"
    | some h =>
      let pos := decHead h
      if start ≠ pos.pos ∨ pos.len = 0 then .panic "startpos"
      else
        match slice arr (start + headLen) (start + headLen + pos.len) with
        | none => .panic "bounds"
        | some pl =>
          match decodeCand pl with
          | none => .err m
          | some (a, _) => decodeLoop arr rem (index + 1) (mapSet m a pos)

inductive DecRes where
  | done (c : Cache)
  | failed (c : Cache)
  | panic (cls : String)
  deriving Repr, Inhabited

/-- `cache.Decode(buf, length)` with `buf = arr[0:blen]`, `cap(buf) = len(arr)` -/
def decode (c : Cache) (arr : List UInt8) (blen length : Nat) : DecRes :=
  if blen < length then .panic "shortbuf"
  else
    match decodeLoop arr (length / slot) 0 c.cands with
    | .ok m => .done { cands := m, cap := blen, cur := blen, buf := arr.take blen, tail := arr.drop blen }
    | .err m => .failed { c with cands := m }
    | .panic s => .panic s

/-! ### GetCandidates -/

def getLoop (arr : List UInt8) : PosMap → Out (List (Addr × Nat))
  | [] => .ok []
  | (_, v) :: r =>
    match slice arr v.pos (v.pos + headLen) with
    | none => .panic "bounds"
    | some _ =>       -- the head read here is not used: the length comes from the MAP entry
      match slice arr (v.pos + headLen) (v.pos + headLen + v.len) with
      | none => .panic "bounds"
      | some pl =>
        match decodeCand pl with
        | none => .err "rlp"
        | some at' =>
          match getLoop arr r with
          | .ok l => .ok (at' :: l)
          | e => e

def getCandidates (c : Cache) : Out (List (Addr × Nat)) := getLoop (c.buf ++ c.tail) c.cands

/-! ### RunContext.load -/

/-- the item loop over `bodyBuf`; fuel = `len(body)+1` is never exhausted (every round advances by ≥ 8) -/
def loadLoop (body : List UInt8) : Nat → Nat → Cache → Out Cache
  | 0, _, c => .ok c
  | fuel + 1, offset, c =>
    if offset ≥ body.length then .ok c
    else
      match slice body offset (offset + 8) with
      | none => .panic "bounds"
      | some h =>
        let flg := rd32 h
        let len := rd32 (h.drop 4)
        if flg = 2 ∧ len ≠ 0 then
          let curPos := offset + 8
          match slice body curPos (curPos + len) with
          | none => .panic "bounds"
          | some _ =>
            match decode c (body.drop curPos) len len with
            | .done c' => loadLoop body fuel (offset + 8 + len) c'
            | .failed c' => loadLoop body fuel (offset + 8 + len) c'      -- the error of Decode is dropped
            | .panic s => .panic s
        else loadLoop body fuel (offset + 8 + len) c

def loadBody (body : List UInt8) : Out Cache := loadLoop body (body.length + 1) 0 fresh

/-- `NewRunContext` on an EXISTING context.data with content `file`: two `file.Read` calls (head: 14 bytes, body: FileLen bytes,
    a short read is not noticed and leaves zeros; a read of 0 bytes into a non-empty buffer is io.EOF = "load run context error") -/
def loadFile (file : List UInt8) : Out Cache :=
  if file.isEmpty then .panic "loaderr"
  else
    let head := file.take 14 ++ List.replicate (14 - file.length) 0
    let fileLen := rd32 head
    let rest := file.drop 14
    if fileLen ≠ 0 ∧ rest.isEmpty then .panic "loaderr"
    else loadBody (rest.take fileLen ++ List.replicate (fileLen - rest.length) 0)

/-- what `NewChainDataBase` gets from `db.Context.Candidates.GetCandidates()`; an error there is the panic "get candidates err" -/
def openList (file : List UInt8) : Out (List (Addr × Nat)) :=
  match loadFile file with
  | .ok c =>
    match getCandidates c with
    | .ok l => .ok l
    | .err _ => .panic "getcands"
    | .panic s => .panic s
  | .err e => .err e
  | .panic s => .panic s

/-- a clean restart: Flush, then NewRunContext on the file -/
def reload (c : Cache) : Out Cache := loadBody (encodeBody c)

end LemoModel.CandCache

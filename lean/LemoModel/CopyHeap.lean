/-
  C07 (discard leaves no trace) — heap model of `types.AccountData.Copy` for its two MAP fields
  (`Candidate.Profile`, `NewestRecords`).  Everything else in `Journal.lean` treats accounts as values; Go maps
  are references, and the store hands out `Copy()`s of its own objects, so "a write through the copy does not
  change the source" is a separate fact about `Copy`.  `fixed = false` is the code before fix 121c785
  (a map was copied only when it had entries).  Core Lean only.
-/
namespace LemoModel.CopyHeap

/-- a Go map value: nil, or a reference to a heap cell -/
abbrev Ref := Option Nat

/-- the heap: cell i holds the entries of one map (latest binding first) -/
abbrev Heap := List (List (Nat × Nat))

structure AD where
  profile : Ref
  records : Ref
  deriving DecidableEq, Repr

def cell (h : Heap) (i : Nat) : List (Nat × Nat) := h.getD i []

/-- content of a map value (nil reads as empty) -/
def rd (h : Heap) : Ref → List (Nat × Nat)
  | none => []
  | some i => cell h i

/-- `make` + copy of the entries -/
def alloc (h : Heap) (m : List (Nat × Nat)) : Heap × Nat := (h ++ [m], h.length)

/-- one map field of `Copy`: the struct copy shares the reference; a new map is made when … -/
def copyField (fixed : Bool) (h : Heap) : Ref → Heap × Ref
  | none => (h, none)
  | some i =>
    if fixed || 0 < (cell h i).length then ((alloc h (cell h i)).1, some (alloc h (cell h i)).2)
    else (h, some i)

def copy (fixed : Bool) (h : Heap) (a : AD) : Heap × AD :=
  let (h1, p) := copyField fixed h a.profile
  let (h2, r) := copyField fixed h1 a.records
  (h2, { profile := p, records := r })

/-- `m[k] = v`; the accessors (`NewAccount`, `SetCandidateState`) `make` the map first when it is nil -/
def write (h : Heap) (r : Ref) (k v : Nat) : Heap × Ref :=
  match r with
  | none => ((alloc h [(k, v)]).1, some (alloc h [(k, v)]).2)
  | some i => (h.set i ((k, v) :: cell h i), some i)

/-- writes through the copy: (field, key, value), field 0 = profile, otherwise records -/
def writes (h : Heap) (a : AD) : List (Nat × Nat × Nat) → Heap × AD
  | [] => (h, a)
  | (f, k, v) :: ws =>
    if f = 0 then
      let (h', r) := write h a.profile k v
      writes h' { a with profile := r } ws
    else
      let (h', r) := write h a.records k v
      writes h' { a with records := r } ws

/-- a reference is valid when it points into the heap -/
def valid (h : Heap) : Ref → Prop
  | none => True
  | some i => i < h.length

end LemoModel.CopyHeap

/-
  C07 (discard leaves no trace) — heap model of the SLICE field of `types.AccountData` (`Signers`).
  `AccountData.Copy` copies the struct, so the copy's slice header points at the SAME backing array as the
  source's (the store hands such copies out for every block view).  That is sound only while every writer
  replaces the list as a whole with a freshly made array — which is what `Account.SetSingers` does
  (`make` + `append`).  `reuse = true` is the variant `append(old[:0], new...)` that writes into the old array
  when the new list fits its capacity.  Core Lean only.
-/
namespace LemoModel.CopySlice

/-- the heap of backing arrays -/
abbrev Heap := List (List Nat)

/-- a slice header: backing array and length (capacity = size of the array); a nil slice is `none` -/
structure Slice where
  arr : Nat
  len : Nat
  deriving DecidableEq, Repr

def cell (h : Heap) (i : Nat) : List Nat := h.getD i []

/-- the elements a slice header shows -/
def rd (h : Heap) : Option Slice → List Nat
  | none => []
  | some s => (cell h s.arr).take s.len

/-- `Account.SetSingers` on an account whose data holds slice `s` -/
def setSigners (reuse : Bool) (h : Heap) (s : Option Slice) (v : List Nat) : Heap × Option Slice :=
  match reuse, s with
  | true, some o =>
    if v.length ≤ (cell h o.arr).length then
      (h.set o.arr (v ++ (cell h o.arr).drop v.length), some ⟨o.arr, v.length⟩)
    else (h ++ [v], some ⟨h.length, v.length⟩)
  | _, _ => (h ++ [v], some ⟨h.length, v.length⟩)

/-- a sequence of `SetSingers` calls through one account -/
def sets (reuse : Bool) (h : Heap) (s : Option Slice) : List (List Nat) → Heap × Option Slice
  | [] => (h, s)
  | v :: vs => sets reuse (setSigners reuse h s v).1 (setSigners reuse h s v).2 vs

def valid (h : Heap) : Option Slice → Prop
  | none => True
  | some s => s.arr < h.length

end LemoModel.CopySlice

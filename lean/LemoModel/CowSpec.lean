/-
  C09 — specification and the *unshared* abstract machine.

  `specView`: the view of block `l` for key `k` is the value written by the nearest
  ancestor-or-self of `l` among the unconfirmed blocks, else the stable (persisted) value.

  The abstract machine keeps, per unconfirmed block, the *content* of its account trie as a table
  `key ↦ (value, dye)` (no sharing: every block owns its table; copy-on-write by parent pointer is
  "the child's table starts as the parent's table").  Its operations are the code's operations at
  that abstraction: `Put` tags with the block height and is ignored when the key already carries
  that dye; `Get` falls back to disk and caches the stable value with dye 0 — in the table of the
  reader and of ANY other blocks (`sharers`: in the real trie the cached node lands in nodes shared
  with other views); `Collect(h)` = the entries dyed `h`; `SetStableBlock` persists `Collect`, keeps the
  strict descendants.  `writes` is ghost state (the op history), used only by the specification.

  Core Lean only.
-/
namespace LemoModel.CowSpec

structure Entry where
  val : Nat
  dye : Nat
  deriving DecidableEq, Repr

structure ABlk where
  label : Nat
  height : Nat
  parent : Nat
  tbl : Nat → Option Entry
  writes : Nat → Option Nat

structure ASt where
  sl : Nat
  sh : Nat
  stbl : Nat → Option Entry
  blocks : List ABlk            -- newest first
  disk : Nat → Option Nat

def findB : List ABlk → Nat → Option ABlk
  | [], _ => none
  | b :: bs, l => if b.label = l then some b else findB bs l

/-- nearest ancestor-or-self of `l` (among the unconfirmed blocks) that wrote `k`: (its height, the value) -/
def specWriter : List ABlk → Nat → Nat → Option (Nat × Nat)
  | [], _, _ => none
  | b :: older, l, k =>
    if b.label = l then
      match b.writes k with
      | some v => some (b.height, v)
      | none => specWriter older b.parent k
    else specWriter older l k

/-- THE SPECIFICATION -/
def specView (s : ASt) (l k : Nat) : Option Nat :=
  match specWriter s.blocks l k with
  | some (_, v) => some v
  | none => s.disk k

/-- the table `GetActDatabase(l)` hands out: the block's, or LastConfirm's -/
def tblOf (s : ASt) (l : Nat) : Nat → Option Entry :=
  match findB s.blocks l with
  | some b => b.tbl
  | none => s.stbl

/-- what `GetActDatabase(l).Get(k)` returns -/
def eff (s : ASt) (l k : Nat) : Option Nat :=
  match tblOf s l k with
  | some e => some e.val
  | none => s.disk k

def setT (t : Nat → Option Entry) (k : Nat) (e : Entry) : Nat → Option Entry :=
  fun k' => if k' = k then some e else t k'

def updB (bs : List ABlk) (l : Nat) (f : ABlk → ABlk) : List ABlk :=
  bs.map (fun b => if b.label = l then f b else b)

def hasChild (bs : List ABlk) (l : Nat) : Bool := bs.any (fun b => b.parent == l)

/-- `SetBlock`: the child's table starts as the parent's (`none` = rejected) -/
def aSetBlock (s : ASt) (l p h : Nat) : Option ASt :=
  if l = s.sl ∨ (findB s.blocks l).isSome then none
  else if p = s.sl then
    if h = s.sh + 1 then
      some { s with blocks := { label := l, height := h, parent := p, tbl := s.stbl, writes := fun _ => none } :: s.blocks }
    else none
  else
    match findB s.blocks p with
    | some pb =>
      if h = pb.height + 1 then
        some { s with blocks := { label := l, height := h, parent := p, tbl := pb.tbl, writes := fun _ => none } :: s.blocks }
      else none
    | none => none

/-- the table update of `put` as coded: ignored when the key already carries this dye -/
def putT (t : Nat → Option Entry) (k v dye : Nat) : Nat → Option Entry :=
  match t k with
  | some e => if e.dye = dye then t else setT t k ⟨v, dye⟩
  | none => setT t k ⟨v, dye⟩

/-- `Put` by block `l`.  Guards (the way `Manager.Save` uses it): the block is unconfirmed, has no
    child yet, and has not written `k` before.  `none` = outside the guards. -/
def aPut (s : ASt) (l k v : Nat) : Option ASt :=
  match findB s.blocks l with
  | none => none
  | some b =>
    if hasChild s.blocks l then none
    else if (b.writes k).isSome then none
    else some { s with blocks := updB s.blocks l (fun b =>
      { b with tbl := putT b.tbl k v b.height, writes := fun k' => if k' = k then some v else b.writes k' }) }

/-- the read-through cache entry lands in the table of `c` (a live block, else LastConfirm) if it misses `k` -/
def aCache (s : ASt) (k : Nat) (c : Nat) : ASt :=
  match s.disk k with
  | none => s
  | some v =>
    match findB s.blocks c with
    | some _ =>
      { s with blocks := updB s.blocks c (fun b =>
          match b.tbl k with
          | none => { b with tbl := setT b.tbl k ⟨v, 0⟩ }
          | some _ => b) }
    | none =>
      match s.stbl k with
      | none => { s with stbl := setT s.stbl k ⟨v, 0⟩ }
      | some _ => s

/-- `Get` through the view of `l`; on a miss the cached entry also lands in the tables of `sharers` -/
def aGet (s : ASt) (l k : Nat) (sharers : List Nat) : ASt × Option Nat :=
  match tblOf s l k with
  | some e => (s, some e.val)
  | none => ((l :: sharers).foldl (fun s c => aCache s k c) s, s.disk k)

/-- `x` is a strict descendant of `l` -/
def desc : List ABlk → Nat → Nat → Bool
  | [], _, _ => false
  | y :: older, l, x =>
    if y.label = x then (y.parent == l) || desc older l y.parent else desc older l x

/-- `clear`: drop the new root and everything that is not below it -/
def prune (l : Nat) : List ABlk → List ABlk
  | [] => []
  | y :: older =>
    if y.label ≠ l ∧ ((y.parent == l) || desc older l y.parent) = true then y :: prune l older
    else prune l older

/-- `Collect(h)` followed by the batch write: entries dyed `h` overwrite the persisted value -/
def persist (disk : Nat → Option Nat) (t : Nat → Option Entry) (h : Nat) : Nat → Option Nat :=
  fun k => match t k with
    | some e => if e.dye = h then some e.val else disk k
    | none => disk k

/-- one `commit` step of `SetStableBlock`: `l` is a child of LastConfirm -/
def aStable (s : ASt) (l : Nat) : Option ASt :=
  match findB s.blocks l with
  | none => none
  | some b =>
    if b.parent ≠ s.sl then none
    else some { sl := l, sh := b.height, stbl := b.tbl, disk := persist s.disk b.tbl b.height,
                blocks := prune l s.blocks }

inductive Op where
  | setBlock (l p h : Nat)
  | put (l k v : Nat)
  | get (l k : Nat) (sharers : List Nat)
  | stable (l : Nat)

/-- one step; ops outside the guards leave the state alone -/
def stepOp (s : ASt) : Op → ASt
  | .setBlock l p h => (aSetBlock s l p h).getD s
  | .put l k v => (aPut s l k v).getD s
  | .get l k sh => (aGet s l k sh).1
  | .stable l => (aStable s l).getD s

def run (s : ASt) (ops : List Op) : ASt := ops.foldl stepOp s

/-- a freshly opened database: nothing unconfirmed, empty trie -/
def init (sl sh : Nat) (disk : Nat → Option Nat) : ASt :=
  { sl := sl, sh := sh, stbl := fun _ => none, blocks := [], disk := disk }

end LemoModel.CowSpec

/-
  C09 — explicit heap model of store/act_database.go (`PatriciaTrie`), core Lean only.

  The Go trie is a DAG of heap nodes shared between the views of different
  unconfirmed blocks; `children []*PatriciaNode` is a Go slice, i.e. a window
  `(array, len)` over a backing array with a capacity.  Because the defect
  this property is about is an *aliasing* defect (two nodes whose slices share
  one backing array), the model keeps nodes, arrays, lengths and capacities
  explicit and implements Go's `append` (in place iff `len < cap`, otherwise a
  new array of doubled capacity).

  Everything is "as coded": `find`, `insert` (the read-through cache of
  `AccountTrieDB.Get`, mutates in place), `put` (copy-on-write by dye),
  `Clone`, `collected`.  `putG true` (`putTopFixed`) is the code /repo runs
  since fix fb6e64c (the split case uses `child.Clone()`, i.e. copies the
  children slice); `putG false` is the code before that fix, kept for the
  refutation witnesses.

  Go panics are `Res.panic`; `Res.stuck` marks states that cannot arise
  (dangling ids, fuel exhausted) and is never printed for a valid run.
-/
namespace LemoModel.CowTrie

abbrev Key := List Nat

/-- `types.NodeData` as stored by `AccountTrieDB`: the account (address label) and its balance. -/
structure Data where
  addr : Nat
  val : Nat
  deriving Repr, DecidableEq, Inhabited

/-- `PatriciaNode`; `children` is the slice `(arr, len)`, capacity = size of the backing array. -/
structure Node where
  key : Key
  dye : Nat
  data : Option Data
  terminal : Bool
  arr : Nat
  len : Nat
  deriving Repr, DecidableEq, Inhabited

/-- Heap: nodes by id, backing arrays by id (array 0 is the zero-capacity array of nil/empty slices).
    A cell is `none` while it holds Go's nil. -/
structure Heap where
  nodes : List Node
  arrs : List (List (Option Nat))
  deriving Repr, DecidableEq

inductive Res (α : Type) where
  | ok (a : α)
  | panic
  | stuck
  deriving Repr, DecidableEq

instance : Monad Res where
  pure := .ok
  bind x f := match x with
    | .ok a => f a
    | .panic => .panic
    | .stuck => .stuck

def Heap.empty : Heap := { nodes := [], arrs := [[]] }

def getNode (h : Heap) (id : Nat) : Res Node :=
  match h.nodes[id]? with
  | some n => .ok n
  | none => .stuck

def cellsOf (h : Heap) (a : Nat) : List (Option Nat) := (h.arrs[a]?).getD []

def allocNode (h : Heap) (n : Node) : Heap × Nat :=
  ({ h with nodes := h.nodes ++ [n] }, h.nodes.length)

def allocArr (h : Heap) (cells : List (Option Nat)) : Heap × Nat :=
  ({ h with arrs := h.arrs ++ [cells] }, h.arrs.length)

def setNode (h : Heap) (id : Nat) (n : Node) : Heap :=
  { h with nodes := h.nodes.set id n }

def setCells (h : Heap) (a : Nat) (cells : List (Option Nat)) : Heap :=
  { h with arrs := h.arrs.set a cells }

/-- `s[i] = x` on the slice `(a, _)` -/
def setCell (h : Heap) (a i x : Nat) : Heap :=
  setCells h a ((cellsOf h a).set i (some x))

/-- Go `append(s, x)` for `s = (a, len)`; returns the new slice.  Growth rule for pointer slices
    of capacity ≤ 16 (a hex trie node has ≤ 16 children): 0 → 1, c → 2c (validated by `shape` ops). -/
def goAppend (h : Heap) (a len x : Nat) : Heap × Nat × Nat :=
  let cells := cellsOf h a
  if len < cells.length then
    (setCell h a len x, a, len + 1)
  else
    let newcap := if cells.length = 0 then 1 else 2 * cells.length
    let ncells := cells.take len ++ [some x] ++ List.replicate (newcap - len - 1) none
    let (h', a') := allocArr h ncells
    (h', a', len + 1)

/-- the Go helper `insert(nodes, pos, node)`: append, then shift right in place -/
def sliceInsert (h : Heap) (a len pos x : Nat) : Res (Heap × Nat × Nat) :=
  if pos > len then .panic
  else
    let (h1, a1, l1) := goAppend h a len x
    let cells := cellsOf h1 a1
    let ncells := cells.take pos ++ [some x] ++ (cells.drop pos).take (len - pos) ++ cells.drop (len + 1)
    .ok (setCells h1 a1 ncells, a1, l1)

/-- `make([]*PatriciaNode, len); copy` — a fresh array of exact capacity -/
def copySlice (h : Heap) (a len : Nat) : Heap × Nat × Nat :=
  if len > 0 then
    let (h1, a1) := allocArr h ((cellsOf h a).take len)
    (h1, a1, len)
  else (h, 0, 0)

/-- `node.Clone()` -/
def cloneNode (h : Heap) (id : Nat) : Res (Heap × Nat) := do
  let n ← getNode h id
  let (h1, a, l) := copySlice h n.arr n.len
  .ok (allocNode h1 { n with arr := a, len := l })

def seqCells : List (Option Nat) → Res (List Nat)
  | [] => .ok []
  | none :: _ => .panic
  | some c :: cs => do
    let r ← seqCells cs
    .ok (c :: r)

/-- the ids in `node.children[0:len]` (a nil entry would be dereferenced by every loop: panic) -/
def kids (h : Heap) (n : Node) : Res (List Nat) :=
  let cs := (cellsOf h n.arr).take n.len
  if cs.length = n.len then seqCells cs else .stuck

/-- length of the common prefix (the `for ; j < length; j++` loops) -/
def lcp : Key → Key → Nat
  | a :: as, b :: bs => if a = b then lcp as bs + 1 else 0
  | _, _ => 0

/-- outcome of the `for i := 0; i < len(curNode.children); i++` scan shared by find/insert/put -/
inductive Hit where
  | before (i : Nat)            -- j == 0 and key[0] < child.key[0]
  | at (i c j : Nat)            -- first child with j > 0
  | none                        -- loop ran to the end
  | panic                       -- key[0] / child.key[0] out of range
  | stuck
  deriving Repr, DecidableEq

def scan (h : Heap) (key : Key) : List Nat → Nat → Hit
  | [], _ => .none
  | c :: cs, i =>
    match h.nodes[c]? with
    | none => .stuck
    | some ch =>
      let j := lcp ch.key key
      if j = 0 then
        match key, ch.key with
        | k0 :: _, c0 :: _ => if k0 < c0 then .before i else scan h key cs (i + 1)
        | _, _ => .panic
      else .at i c j

/-- `trie.find(curNode, key)` -/
def find : Nat → Heap → Nat → Key → Res (Option Data)
  | 0, _, _, _ => .stuck
  | fuel + 1, h, cur, key => do
    let n ← getNode h cur
    let ks ← kids h n
    match scan h key ks 0 with
    | .none => .ok none
    | .before _ => .ok none
    | .panic => .panic
    | .stuck => .stuck
    | .at _ c j => do
      let ch ← getNode h c
      if j = min ch.key.length key.length then
        if key.length = ch.key.length then .ok (if ch.terminal then ch.data else none)
        else if key.length > ch.key.length then find fuel h c (key.drop j)
        else .ok none
      else .ok none

/-- `trie.Find(key)` -/
def findTop (h : Heap) (root : Nat) (key : Key) : Res (Option Data) :=
  if key.length = 0 then .ok none else find (key.length + 1) h root key

def leaf (key : Key) (dye : Nat) (d : Option Data) : Node :=
  { key := key, dye := dye, data := d, terminal := true, arr := 0, len := 0 }

/-- the two `append`s onto `make([]*PatriciaNode, 0)` of both split cases, ordered by first byte -/
def twoKids (h : Heap) (sub childSub : Key) (node childNode : Nat) : Res (Heap × Nat × Nat) :=
  match sub, childSub with
  | s0 :: _, c0 :: _ =>
    let (x, y) := if s0 < c0 then (node, childNode) else (childNode, node)
    let (h1, a1, l1) := goAppend h 0 0 x
    .ok (goAppend h1 a1 l1 y)
  | _, _ => .panic

/-- `trie.insert(curNode, key, data)`: the read-through cache; mutates shared nodes in place. -/
def insert : Nat → Heap → Nat → Key → Option Data → Res Heap
  | 0, _, _, _, _ => .stuck
  | fuel + 1, h, cur, key, data => do
    let cn ← getNode h cur
    let ks ← kids h cn
    match scan h key ks 0 with
    | .panic => .panic
    | .stuck => .stuck
    | .none =>
      let (h1, nid) := allocNode h (leaf key 0 data)
      let (h2, a, l) := goAppend h1 cn.arr cn.len nid
      .ok (setNode h2 cur { cn with arr := a, len := l })
    | .before i => do
      let (h1, nid) := allocNode h (leaf key 0 data)
      let (h2, a, l) ← sliceInsert h1 cn.arr cn.len i nid
      .ok (setNode h2 cur { cn with arr := a, len := l })
    | .at _ c j => do
      let ch ← getNode h c
      if j = min ch.key.length key.length then
        if key.length = ch.key.length then
          if ch.terminal then .ok h
          else .ok (setNode h c { ch with terminal := true, data := data })
        else if key.length > ch.key.length then insert fuel h c (key.drop j) data
        else
          -- key is a proper prefix of child.key (unreachable with fixed-length keys)
          let (h1, nid) := allocNode h
            { key := ch.key.drop j, dye := 0, terminal := ch.terminal, data := ch.data, arr := ch.arr, len := ch.len }
          let (h2, a, l) ← sliceInsert h1 ch.arr ch.len 0 nid
          .ok (setNode h2 c { ch with key := key, terminal := true, data := data, arr := a, len := l })
      else
        -- split at j
        let (h1, childNode) := allocNode h
          { key := ch.key.drop j, dye := ch.dye, terminal := ch.terminal, data := ch.data, arr := ch.arr, len := ch.len }
        let (h2, node) := allocNode h1 (leaf (key.drop j) 0 data)
        let (h3, a, l) ← twoKids h2 (key.drop j) (ch.key.drop j) node childNode
        .ok (setNode h3 c { ch with key := ch.key.take j, terminal := false, arr := a, len := l })

/-- the tail shared by four branches of `put`:
    `if curNode.dye == dye { curNode.children[i] = x; return nil } else { clone; …; return tmpCurNode }` -/
def replaceChild (h : Heap) (cur i x dye : Nat) : Res (Heap × Option Nat) := do
  let cn ← getNode h cur
  if cn.dye = dye then
    if i < cn.len then .ok (setCell h cn.arr i x, none) else .panic
  else
    let (h1, t) ← cloneNode h cur
    let tn ← getNode h1 t
    if i < tn.len then .ok (setCell (setNode h1 t { tn with dye := dye }) tn.arr i x, some t) else .panic

/-- `trie.put(curNode, key, data, dye)`; result `some id` = "return tmpCurNode", `none` = "return nil".
    `fixed = true` is the code in /repo (since fix fb6e64c the split case copies the children slice),
    `fixed = false` the code before that fix. -/
def putG (fixed : Bool) : Nat → Heap → Nat → Key → Option Data → Nat → Res (Heap × Option Nat)
  | 0, _, _, _, _, _ => .stuck
  | fuel + 1, h, cur, key, data, dye => do
    let cn ← getNode h cur
    let ks ← kids h cn
    match scan h key ks 0 with
    | .panic => .panic
    | .stuck => .stuck
    | .none =>
      let (h1, nid) := allocNode h (leaf key dye data)
      if cn.dye = dye then
        let (h2, a, l) := goAppend h1 cn.arr cn.len nid
        .ok (setNode h2 cur { cn with arr := a, len := l }, none)
      else do
        let (h2, t) ← cloneNode h1 cur
        let tn ← getNode h2 t
        let (h3, a, l) := goAppend h2 tn.arr tn.len nid
        .ok (setNode h3 t { tn with arr := a, len := l, dye := dye }, some t)
    | .before i =>
      let (h1, nid) := allocNode h (leaf key dye data)
      if cn.dye = dye then do
        let (h2, a, l) ← sliceInsert h1 cn.arr cn.len i nid
        .ok (setNode h2 cur { cn with arr := a, len := l }, none)
      else do
        let (h2, t) ← cloneNode h1 cur
        let tn ← getNode h2 t
        let (h3, a, l) ← sliceInsert h2 tn.arr tn.len i nid
        .ok (setNode h3 t { tn with arr := a, len := l, dye := dye }, some t)
    | .at i c j => do
      let ch ← getNode h c
      if j = min ch.key.length key.length then
        if key.length = ch.key.length then
          -- duplicate key
          if ch.dye = dye then .ok (h, none)
          else
            let (h1, tc) ← cloneNode h c
            let tcn ← getNode h1 tc
            let h2 := setNode h1 tc { tcn with dye := dye, data := data, terminal := true }
            replaceChild h2 cur i tc dye
        else if key.length > ch.key.length then
          let (h1, r) ← putG fixed fuel h c (key.drop j) data dye
          match r with
          | none => .ok (h1, none)
          | some res => replaceChild h1 cur i res dye
        else
          -- key is a proper prefix of child.key (unreachable with fixed-length keys):
          -- `tmpChild.children = insert(child.children, 0, node)` works on the OLD child's slice
          let (h1, nid) := allocNode h
            { key := ch.key.drop j, dye := dye, terminal := ch.terminal, data := ch.data, arr := ch.arr, len := ch.len }
          let (h2, tc) ← cloneNode h1 c
          let tcn ← getNode h2 tc
          let (h3, a, l) ← sliceInsert h2 ch.arr ch.len 0 nid
          let h4 := setNode h3 tc { tcn with key := key, dye := dye, terminal := true, data := data, arr := a, len := l }
          replaceChild h4 cur i tc dye
      else
        -- split at j: before fix fb6e64c `childNode{…, children: child.children}` ALIASED the old child's backing array
        let (h0, ca, cl) := if fixed then copySlice h ch.arr ch.len else (h, ch.arr, ch.len)
        let (h1, childNode) := allocNode h0
          { key := ch.key.drop j, dye := ch.dye, terminal := ch.terminal, data := ch.data, arr := ca, len := cl }
        let (h2, node) := allocNode h1 (leaf (key.drop j) dye data)
        let (h3, tc) ← cloneNode h2 c
        let tcn ← getNode h3 tc
        let (h4, a, l) ← twoKids h3 (key.drop j) (ch.key.drop j) node childNode
        let h5 := setNode h4 tc { tcn with key := ch.key.take j, dye := dye, terminal := false, arr := a, len := l }
        replaceChild h5 cur i tc dye

/-- `trie.Put(key, data, dye)`: returns the heap and the (possibly new) `trie.root` -/
def putTopG (fixed : Bool) (h : Heap) (root : Nat) (key : Key) (data : Option Data) (dye : Nat) : Res (Heap × Nat) := do
  let (h1, r) ← putG fixed (key.length + 1) h root key data dye
  match r with
  | none => .ok (h1, root)
  | some r => .ok (h1, r)

/-- the code before fix fb6e64c (legacy, refutation witnesses only) -/
def putTop := putTopG false
/-- the code in /repo -/
def putTopFixed := putTopG true

/-- `trie.collected(curNode, dye, all)`; fuel bounds the depth (≤ number of nodes in an acyclic heap) -/
def collected : Nat → Heap → Nat → Nat → List Data → Res (List Data)
  | 0, _, _, _, _ => .stuck
  | fuel + 1, h, cur, dye, all => do
    let n ← getNode h cur
    if n.dye ≠ dye then .ok all
    else
      let ks ← kids h n
      let all1 ← ks.foldlM (fun acc c => collected fuel h c dye acc) all
      match n.data, n.terminal with
      | some d, true => .ok (all1 ++ [d])
      | _, _ => .ok all1

def collectTop (h : Heap) (root dye : Nat) : Res (List Data) :=
  collected (h.nodes.length + 1) h root dye []

/-- `AccountTrieDB.Get` given the stable (on-disk) value of the address: hit → value;
    miss and on disk → `insert` the stable value in place, return it; else `ErrAccountNotExist`. -/
def getTop (h : Heap) (root : Nat) (key : Key) (disk : Option Data) : Res (Heap × Option Data) := do
  let r ← findTop h root key
  match r with
  | some d => .ok (h, some d)
  | none =>
    match disk with
    | none => .ok (h, none)
    | some d => do
      let h1 ← insert (key.length + 1) h root key (some d)
      .ok (h1, some d)

/-- what `Get` would return, without the read-through side effect (`GetTrie().Find` + disk) -/
def peekTop (h : Heap) (root : Nat) (key : Key) (disk : Option Data) : Res (Option Data) := do
  let r ← findTop h root key
  match r with
  | some d => .ok (some d)
  | none => .ok disk

/-- `NewEmptyDatabase()`: a fresh root node -/
def newTrie (h : Heap) : Heap × Nat :=
  allocNode h { key := [], dye := 0, data := none, terminal := false, arr := 0, len := 0 }

end LemoModel.CowTrie

/-
  C16 — the interpreter's *resource discipline* (chain/vm/interpreter.go `Run`,
  chain/vm/evm.go `Call/CallCode/DelegateCall/StaticCall/Create`, chain/vm/gas.go
  `callGas`, opCall*/opCreate in chain/vm/instructions.go) over an abstract
  instruction semantics.  Core Lean only.

  What is modelled exactly as coded: the order of the checks in `Run`
  (valid → stack bounds → write protection under readOnly, incl. CALL with
  value → memory-size overflow → gas function / UseGas → execute), gas
  bookkeeping through all five call kinds (63/64 rule with uint64 wrap-around,
  call stipend, return of unspent gas, "consume all gas unless REVERT", code
  deposit gas of CREATE, address collision eating all gas), the depth check
  against `CallCreateDepth`, `CanTransfer`, `Snapshot`/`RevertToSnapshot`
  pairing, `evm.Transfer` being executed by CALL even for a zero value, the
  platform's TopicRunFail / TopicContractCreation events, the readOnly flag
  set by StaticCall and cleared by the frame that set it, precompiles (incl.
  the state-writing reward precompile, which `RunPrecompiledContract` refuses
  under readOnly since fix a881098; `Params.guardPre = false` is the code
  before that fix, where the interpreter's readOnly flag did not protect it).

  What is abstract: which opcode comes next, the stack height, the dynamic
  part of the gas (`extra`), memory-size overflow, execution errors, how many
  journal entries a state-writing instruction pushes, the class of the callee —
  all of these are a per-step `Choice` (an oracle).  The theorems quantify over
  every stream of choices, so they hold for every bytecode and every state.
  The journal is a list of tagged entries with `Snapshot = length`,
  `RevertToSnapshot n = take n` (fidelity of the real change log: C07).

  Ghost fields (never read by the transition function): `Frame.supplied`,
  `Frame.entry`.
-/
import LemoModel.GoSem
namespace LemoModel.Evm
open LemoModel

/-- one memory operand range of an instruction (recovered by probing its `memorySize` function):
    offset in stack slot `off`, size in stack slot `sizeSlot` or the constant `constSize` -/
structure MemRange where
  off : Nat
  sizeSlot : Option Nat
  constSize : Nat
  deriving DecidableEq, Repr, Inhabited

/-- the operand-dependent part of the gas other than memory expansion -/
inductive Dyn where
  | none
  | words (slot perWord : Nat)   -- `perWord` gas per 32-byte word of the value in stack slot `slot`
  | bytes (slot perByte : Nat)   -- `perByte` gas per byte of the value in stack slot `slot`
  | exp                          -- ExpByte gas per byte of the exponent (slot 1)
  | sstore                       -- SstoreSetGas instead of SstoreResetGas for (empty slot, non-zero value)
  | suicide                      -- CreateBySuicide when the beneficiary is empty and the balance is not zero
  deriving DecidableEq, Repr, Inhabited

/-- one row of the jump table, as extracted from the real `operation` by the hook -/
structure OpInfo where
  valid : Bool
  minStack : Nat      -- smallest stack height accepted by validateStack
  maxStack : Nat      -- largest stack height accepted by validateStack
  writes : Bool
  halts : Bool
  reverts : Bool
  jumps : Bool
  returns : Bool
  hasMem : Bool       -- memorySize ≠ nil
  minGas : Nat        -- constant part of the gas function
  constGas : Bool     -- the gas function returned the same value on every probe (no memory function, no dynamic part)
  mem : List MemRange -- memory operands
  memGas2 : Nat       -- gas charged on top of minGas for memorySize = 64 bytes on empty memory (probe)
  memGas1024 : Nat    -- … for memorySize = 32768 bytes
  dyn : Dyn
  deriving DecidableEq, Repr, Inhabited

def OpInfo.invalid : OpInfo := ⟨false, 0, 0, false, false, false, false, false, false, 0, false, [], 0, 0, .none⟩

structure Params where
  callCreateDepth : Nat
  stackLimit : Nat
  callStipend : Nat
  callValueTransferGas : Nat
  callNewAccountGas : Nat
  createDataGas : Nat
  maxCodeSize : Nat
  createBySuicide : Nat
  opCreate : Nat
  opCall : Nat
  opCallCode : Nat
  opDelegateCall : Nat
  opStaticCall : Nat
  /-- ChangeLogType numbers of the change logs the platform itself pushes (balance, code, event) -/
  logBalance : Nat
  logCode : Nat
  logEvent : Nat
  /-- memory gas: `memoryGas·words + words²/quadCoeffDiv`; sizes above `memLimit` are refused -/
  memoryGas : Nat
  quadCoeffDiv : Nat
  memLimit : Nat
  expByteGas : Nat
  sstoreSetGas : Nat
  /-- addresses of the precompiles the code declares state-modifying (`precompileWritesState`) -/
  writingPre : List Nat
  /-- `RunPrecompiledContract` refuses a state-modifying precompile under readOnly
      (`true` = current code; `false` = code before fix a881098) -/
  guardPre : Bool
  deriving DecidableEq, Repr

structure Table where
  params : Params
  rows : List OpInfo

def Table.info (T : Table) (op : Nat) : OpInfo := T.rows.getD op OpInfo.invalid

inductive Kind where
  | call | callCode | delegateCall | staticCall | create
  | asset   -- frame started by `EVM.TransferAssetTx` (only ever the outermost frame)
  deriving DecidableEq, Repr

def Table.kindOf (T : Table) (op : Nat) : Option Kind :=
  if op = T.params.opCall then some .call
  else if op = T.params.opCallCode then some .callCode
  else if op = T.params.opDelegateCall then some .delegateCall
  else if op = T.params.opStaticCall then some .staticCall
  else if op = T.params.opCreate then some .create
  else none

/-- journal entries (what `LogProcessor.changeLogs` holds, by origin) -/
inductive Entry where
  | write (tag : Nat)        -- pushed by an executed state-writing instruction or precompile (`tag` = ChangeLogType)
  | transfer (value : Bool)  -- one of the two balance logs of `evm.Transfer` (`value`: amount ≠ 0)
  | code                     -- `SetCode` of a successful CREATE
  | event (fail : Bool)      -- platform event: TopicRunFail (`true`) / TopicContractCreation
  deriving DecidableEq, Repr

inductive Callee where
  | none                     -- not a call
  | empty                    -- no code, not a precompile
  | code                     -- non-empty code: a new interpreter frame
  | pre (addr req : Nat) (ok : Bool) (wtags : List Nat)  -- precompile: address, RequiredGas, Run succeeded, journal pushes
  | loadFail                 -- GetCode failed
  | collision                -- CREATE: target account not empty
  deriving DecidableEq, Repr

/-- everything the interpreter reads from code / stack / memory / state at one step -/
structure Choice where
  op : Nat
  stackLen : Nat
  extra : Nat := 0           -- dynamic part of the gas: cost = minGas (+ value-transfer gas) + extra
  memOverflow : Bool := false
  gasErr : Bool := false     -- the gas function itself returned an error
  execErr : Bool := false    -- `execute` returned an error (bad jump, return data out of bounds, …)
  wtags : List Nat := []     -- journal pushes of a state-writing instruction (their ChangeLogTypes)
  retLen : Nat := 0          -- length of the returned data of a halting instruction
  value : Bool := false      -- CALL/CALLCODE/CREATE: value ≠ 0
  reqGas : Nat := 0          -- CALL*: requested gas (any 256-bit number)
  canTransfer : Bool := true
  callee : Callee := .none
  deriving Repr

inductive Res where
  | ok | reverted | failed
  deriving DecidableEq, Repr

structure Frame where
  kind : Kind
  gas : Nat                  -- Contract.Gas
  snap : Nat                 -- journal length at `Snapshot()`
  setRO : Bool               -- this StaticCall switched readOnly on (and will switch it off)
  supplied : Nat             -- ghost: gas the frame started with
  entry : List Entry         -- ghost: the journal at `Snapshot()`
  deriving Repr

structure Machine where
  frames : List Frame        -- innermost first; `frames.length = evm.depth`
  journal : List Entry
  readOnly : Bool
  result : Option (Res × Nat)  -- set when the outermost call returned: (class, leftOverGas)
  deriving Repr

def Machine.init : Machine := { frames := [], journal := [], readOnly := false, result := none }

def u64 : Nat := 18446744073709551616

/-- gas.go `callGas` (uint64 arithmetic as coded; `none` = errGasUintOverflow) -/
def callGas (P : Params) (avail base req : Nat) : Option Nat :=
  if P.createBySuicide > 0 then
    let a := GoSem.usub u64 avail base
    let g := a - a / 64
    if req ≥ u64 ∨ g < req then some g else some req
  else if req ≥ u64 then none else some req

/-- `contract.Gas += returnGas` on the caller's frame -/
def addGas : List Frame → Nat → List Frame
  | [], _ => []
  | p :: r, g => { p with gas := p.gas + g } :: r

/-- a call that returns to its caller without running a frame (depth, balance, …) -/
def giveBack (m : Machine) (res : Res) (g : Nat) : Machine :=
  { m with frames := addGas m.frames g,
           result := if m.frames.isEmpty then some (res, g) else none }

/-- code-deposit step of `Create` after a successful run -/
def depositRes (P : Params) (k : Kind) (res : Res) (g retLen : Nat) : Res :=
  if k = .create ∧ res = .ok then
    if retLen > P.maxCodeSize then .failed
    else if g < retLen * P.createDataGas then .failed
    else .ok
  else res

def depositGas (P : Params) (k : Kind) (res : Res) (g retLen : Nat) : Nat :=
  if k = .create ∧ res = .ok ∧ depositRes P k res g retLen = .ok then g - retLen * P.createDataGas else g

def failEvents : Kind → Res → List Entry
  | .call, .ok => []
  | .call, _ => [.event true]
  | .create, .ok => [.event false]
  | .create, _ => [.event true]
  | _, _ => []

/-- what `evm.Call/…/Create` do after `run` returned for frame `f` with outcome `res`, gas `g` -/
def finishFrame (P : Params) (m : Machine) (f : Frame) (rest : List Frame) (res : Res) (g retLen : Nat) : Machine :=
  let res' := depositRes P f.kind res g retLen
  let g' := depositGas P f.kind res g retLen
  let j1 := if f.kind = .create ∧ res = .ok ∧ res' = .ok then m.journal ++ [.code] else m.journal
  let j2 := if res' = .ok then j1 else j1.take f.snap
  let g'' := if res' = .failed then 0 else g'
  { frames := addGas rest g'',
    journal := j2 ++ failEvents f.kind res',
    readOnly := if f.setRO then false else m.readOnly,
    result := if rest.isEmpty then some (res', g'') else none }

/-- the frame record created by `NewContract` + `Snapshot()` -/
def newFrame (m : Machine) (k : Kind) (gas : Nat) : Frame :=
  { kind := k, gas := gas, snap := m.journal.length,
    setRO := (k = .staticCall ∧ m.readOnly = false), supplied := gas, entry := m.journal }

/-- `run(evm, contract, input)` and the handling of its result: a callee with code becomes a new
    interpreter frame; a precompile or a callee without code finishes at once. -/
def runCallee (P : Params) (m' : Machine) (f : Frame) (parents : List Frame) (gas : Nat) (callee : Callee) : Machine :=
  match callee with
  | .code => { m' with frames := f :: parents }
  | .pre addr req ok w =>
    if P.guardPre = true ∧ m'.readOnly = true ∧ addr ∈ P.writingPre then
      finishFrame P m' f parents .failed 0 0                                    -- errWriteProtection
    else if gas < req then finishFrame P m' f parents .failed 0 0               -- ErrOutOfGas
    else if ok then
      -- only a precompile declared state-modifying pushes journal entries
      finishFrame P { m' with journal := m'.journal ++ (if addr ∈ P.writingPre then w else []).map .write }
        f parents .ok (gas - req) 0
    else finishFrame P m' f parents .failed (gas - req) 0
  | _ => finishFrame P m' f parents .ok gas 0                                   -- no code: Run returns at once

/-- journal after `evm.Transfer`: CALL and CREATE always execute it, even for a zero value -/
def transferJournal (k : Kind) (value : Bool) (j : List Entry) : List Entry :=
  if k = .call ∨ k = .create then j ++ [.transfer value, .transfer value] else j

/-- `evm.Create` after the depth and balance checks -/
def enterCreate (P : Params) (m : Machine) (gas : Nat) (value : Bool) (callee : Callee) : Machine :=
  if callee = .collision then giveBack m .failed 0                              -- all gas is lost
  else runCallee P { m with journal := transferJournal .create value m.journal } (newFrame m .create gas) m.frames gas
        (if callee = .code then .code else .empty)

/-- `evm.Call / CallCode / DelegateCall / StaticCall` after the depth and balance checks -/
def enterCall (P : Params) (m : Machine) (k : Kind) (gas : Nat) (value : Bool) (callee : Callee) : Machine :=
  if callee = .loadFail then giveBack m .failed gas
  else if k = .call ∧ callee = .empty ∧ value = false then giveBack m .ok gas
  else runCallee P { m with journal := transferJournal k value m.journal,
                            readOnly := m.readOnly || (k = .staticCall) } (newFrame m k gas) m.frames gas callee

/-- `evm.Call / CallCode / DelegateCall / StaticCall / Create` up to the point where the callee's
    code starts running (or the call returns without running code). The caller's frame has already
    paid; `gas` is what the callee gets. -/
def enter (P : Params) (m : Machine) (k : Kind) (gas : Nat) (value canTransfer : Bool) (callee : Callee) : Machine :=
  if m.frames.length > P.callCreateDepth then giveBack m .failed gas           -- ErrDepth
  else if (k = .call ∨ k = .callCode ∨ k = .create) ∧ canTransfer = false then giveBack m .failed gas
  else if k = .create then enterCreate P m gas value callee
  else enterCall P m k gas value callee

inductive Verdict where
  | invalid | underflow | overflow | writeProt | gasOverflow | oog | ok
  deriving DecidableEq, Repr

/-- value-transfer surcharge and stipend apply to CALL and CALLCODE with a non-zero value -/
def withValue (k : Kind) (c : Choice) : Bool := c.value && (k = .call || k = .callCode)

/-- gas stage of CALL / CALLCODE / DELEGATECALL / STATICCALL (gasCall* + UseGas, then opCall*'s stipend):
    `base` = constant + value surcharge + dynamic part; `callGas` gives the callee's share. -/
def preCall (P : Params) (minGas gas : Nat) (wv : Bool) (extra req : Nat) : Except Verdict (Nat × Nat) :=
  let base := minGas + (if wv then P.callValueTransferGas else 0) + extra
  match callGas P gas base req with
  | none => .error .oog                                   -- errGasUintOverflow → ErrOutOfGas
  | some temp =>
    if base + temp ≥ u64 then .error .oog                 -- SafeAdd overflow
    else if gas < base + temp then .error .oog            -- UseGas fails
    else .ok (gas - (base + temp), temp + (if wv then P.callStipend else 0))

/-- the part of `Interpreter.Run` before `execute`: either a verdict that ends the frame, or
    (gas left after `UseGas`, gas handed to the callee). -/
def pre (T : Table) (readOnly : Bool) (gas : Nat) (c : Choice) : Except Verdict (Nat × Nat) :=
  let P := T.params
  let info := T.info c.op
  if info.valid = false then .error .invalid
  else if c.stackLen < info.minStack then .error .underflow
  else if c.stackLen > info.maxStack then .error .overflow
  else if readOnly ∧ (info.writes ∨ (c.op = P.opCall ∧ c.value)) then .error .writeProt
  else if info.hasMem ∧ c.memOverflow then .error .gasOverflow
  else if c.gasErr then .error .oog
  else match T.kindOf c.op with
    | none =>
      let cost := info.minGas + c.extra
      if gas < cost then .error .oog else .ok (gas - cost, 0)
    | some .create =>
      let cost := info.minGas + c.extra
      if gas < cost then .error .oog
      else
        let g := gas - cost
        let child := g - g / 64
        .ok (g - child, child)
    | some k => preCall P info.minGas gas (withValue k c) c.extra c.reqGas

/-- one iteration of the interpreter loop of the innermost frame -/
def step (T : Table) (m : Machine) (c : Choice) : Machine :=
  match m.frames with
  | [] => m
  | f :: rest =>
    match pre T m.readOnly f.gas c with
    | .error _ => finishFrame T.params m f rest .failed 0 0
    | .ok (g, child) =>
      match T.kindOf c.op with
      | none =>
        if c.execErr then finishFrame T.params m f rest .failed 0 0
        else
          let info := T.info c.op
          let m1 := { m with journal := if info.writes then m.journal ++ c.wtags.map .write else m.journal }
          if info.reverts then finishFrame T.params m1 f rest .reverted g 0
          else if info.halts then finishFrame T.params m1 f rest .ok g c.retLen
          else { m1 with frames := { f with gas := g } :: rest }
      | some k =>
        enter T.params { m with frames := { f with gas := g } :: rest } k child c.value c.canTransfer c.callee

/-- an external `evm.Call` / `evm.StaticCall` / `evm.Create` at depth 0 -/
def begin (T : Table) (k : Kind) (gas : Nat) (value canTransfer : Bool) (callee : Callee) : Machine :=
  enter T.params Machine.init k gas value canTransfer callee

/-- `EVM.TransferAssetTx` at depth 0 (the sixth entry point). `pre` = an argument/asset check failed
    before anything was written (gas handed back, non-VM error); otherwise `Snapshot()`, return at
    once for a code-less recipient and a zero amount, else push the equity / total-supply change logs
    (`wtags`) and run the recipient's code; on a VM error revert and consume the gas (no platform
    event, no lemo transfer). -/
def beginAsset (T : Table) (gas : Nat) (early : Bool) (amountZero : Bool) (wtags : List Nat) (callee : Callee) : Machine :=
  if early then giveBack Machine.init .failed gas
  else if callee = .loadFail then giveBack Machine.init .failed gas
  else if callee = .empty ∧ amountZero = true then giveBack Machine.init .ok gas
  else runCallee T.params { Machine.init with journal := wtags.map .write } (newFrame Machine.init .asset gas) [] gas callee

def sumGas : List Frame → Nat
  | [] => 0
  | f :: r => f.gas + sumGas r

/-- all gas currently held by live frames plus the gas already handed back to the outside -/
def Machine.total (m : Machine) : Nat :=
  sumGas m.frames + (match m.result with | some (_, g) => g | none => 0)

/-- termination measure -/
def Machine.meas (m : Machine) : Nat := 2 * sumGas m.frames + m.frames.length

/-- the table facts the theorems need (all decided on the baked table) -/
structure Table.WF (T : Table) : Prop where
  /-- every valid instruction that does not end the frame costs at least 1 gas -/
  cost_pos : ∀ op, (T.info op).valid = true →
      (T.kindOf op ≠ none ∨ ((T.info op).halts = false ∧ (T.info op).reverts = false)) → 1 ≤ (T.info op).minGas
  /-- the stipend is paid for by the value-transfer surcharge -/
  stipend : T.params.callStipend ≤ T.params.callValueTransferGas

end LemoModel.Evm

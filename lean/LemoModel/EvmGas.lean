/-
  C16 — the gas an instruction is charged, computed from its stack operands
  (chain/vm/interpreter.go:150-175 memory-size stage, chain/vm/gas_table.go `memoryGasCost` and the
  gas functions, chain/vm/memory_table.go).  Core Lean only.

  `gasOf` produces the `extra`, `memOverflow` and `gasErr` inputs that `LemoModel.Evm.pre` takes as a
  `Choice`: the driver no longer reads the traced cost, it compares it.
-/
import LemoModel.Evm
namespace LemoModel.EvmGas
open LemoModel LemoModel.Evm

def u64 : Nat := 18446744073709551616

/-- total memory fee for `w` words (`memoryGasCost`: linear + quadratic part) -/
def memFee (P : Params) (w : Nat) : Nat := w * P.memoryGas + w * w / P.quadCoeffDiv

def toWords (n : Nat) : Nat := (n + 31) / 32

/-- `calcMemSize(off, size)`: 0 for an empty range -/
def rangeEnd (st : List Nat) (r : MemRange) : Nat :=
  let size := match r.sizeSlot with
    | some s => st.getD s 0
    | none => r.constSize
  if size = 0 then 0 else st.getD r.off 0 + size

/-- `operation.memorySize(stack)`: the maximum over the instruction's ranges -/
def memSize (st : List Nat) (rs : List MemRange) : Nat := (rs.map (rangeEnd st)).foldl max 0

def bitLen (n : Nat) : Nat := if n = 0 then 0 else Nat.log2 n + 1

/-- state facts some gas functions read (all `false` when irrelevant) -/
structure GasBits where
  slotEmpty : Bool := false        -- SSTORE: the current value of the slot is empty
  beneficiaryNew : Bool := false   -- SELFDESTRUCT: beneficiary empty and own balance ≠ 0
  calleeNew : Bool := false        -- CALL with value: the callee account is empty
  deriving Repr

inductive GasRes where
  | memOverflow                       -- interpreter.go: errGasUintOverflow before the gas function
  | gasErr                            -- the gas function returns an error (→ ErrOutOfGas)
  | ok (extra newWords : Nat)         -- dynamic part on top of minGas (+ value surcharge); words after the step
  deriving Repr, DecidableEq

/-- the operand-dependent part other than memory -/
def dynPart (P : Params) (minGas : Nat) (d : Dyn) (st : List Nat) (bits : GasBits) : Option Nat :=
  match d with
  | .none => some 0
  | .words slot pw =>
    let n := st.getD slot 0
    if n ≥ u64 then none else some (toWords n * pw)
  | .bytes slot pb =>
    let n := st.getD slot 0
    if n ≥ u64 ∨ n * pb ≥ u64 then none else some (n * pb)
  | .exp => some ((bitLen (st.getD 1 0) + 7) / 8 * P.expByteGas)
  | .sstore => some (if bits.slotEmpty ∧ st.getD 1 0 ≠ 0 then P.sstoreSetGas - minGas else 0)
  | .suicide => some (if bits.beneficiaryNew then P.createBySuicide else 0)

/-- the gas stage up to (not including) `UseGas`, for an instruction with table row `info`, executed
    with `curWords` words of memory. `callNew` adds the difference CallNewAccountGas −
    CallValueTransferGas for a CALL with value to an empty account. -/
def gasOf (P : Params) (info : OpInfo) (isCallWithValue : Bool) (st : List Nat) (curWords : Nat) (bits : GasBits) : GasRes :=
  let ms := if info.hasMem then memSize st info.mem else 0
  if info.hasMem ∧ ms + 31 ≥ u64 then .memOverflow          -- bigUint64 overflow, or toWordSize·32 overflows
  else
    let newWords := toWords ms
    if newWords * 32 > P.memLimit then .gasErr               -- memoryGasCost: newMemSize > 0xffffffffe0
    else
      let memGas := if newWords > curWords then memFee P newWords - memFee P curWords else 0
      match dynPart P info.minGas info.dyn st bits with
      | none => .gasErr
      | some d =>
        let callNew := if isCallWithValue ∧ bits.calleeNew then P.callNewAccountGas - P.callValueTransferGas else 0
        .ok (memGas + d + callNew) (max newWords curWords)

/-- memory gas of one step -/
def memCharge (P : Params) (cur new : Nat) : Nat := if new > cur then memFee P new - memFee P cur else 0

/-- memory gas of a whole sequence of requests (in words), starting from `cur` words -/
def memChargeAll (P : Params) : Nat → List Nat → Nat
  | _, [] => 0
  | cur, n :: ns => memCharge P cur n + memChargeAll P (max n cur) ns

end LemoModel.EvmGas

/-
  EvmValue — the VALUE FLOW (LEMO) of contract execution, as coded in
    chain/vm/evm.go        Call / CallCode / DelegateCall / StaticCall / Create (depth check, CanTransfer, Snapshot,
                           Transfer, run, RevertToSnapshot on any error)
    chain/vm/interpreter.go  enforceRestrictions (read-only mode: CREATE, SELFDESTRUCT and CALL with value ≠ 0 are
                           write-protection errors of the RUNNING frame), depth++ in Run
    chain/vm/instructions.go opCall* / opCreate (the sub-frame's error is swallowed: 0 is pushed), opSuicide
    chain/transaction/evm.go CanTransfer / Transfer
    chain/account          SafeAccount.SetBalance (BalanceLog), SetSuicide (SuicideLog, balance := 0, flag set),
                           undoBalance / undoSuicide (old balance back, flag cleared)
    chain/transaction/tx_processor.go  applyTx: buyGas, payIntrinsicGas, handleTx (Call / Create at depth 0), the
                           top-level ErrInsufficientBalance that invalidates the tx, refundGas; ApplyTxs (a failing candidate
                           is reverted and skipped), chargeForGas at the end of the block.

  What is NOT computed here: bytecode, gas.  An execution is a TREE of frames; its shape, the operands of every
  CALL* / CREATE / SELFDESTRUCT and how every frame's BODY ended BY ITSELF (`Outcome`: ran to completion / REVERT / any
  other error, out of gas included) are inputs — the harness records them with a vm.Tracer on the real engine, the outcome
  from the last step traced at the callee's own depth, NEVER from the success flag the caller saw.  A frame the engine
  refused before it ran any code carries outcome `ok` and an empty body: whether it is refused is this model's decision.
  Every BALANCE and every success flag is computed by the model: the balance check of CanTransfer (`blocked`), the depth
  limit (`callCreateDepth`, the literal 1024 — reached on the real engine by the tie's self-recursive contracts), the
  read-only refusals of CREATE / CALL-with-value / SELFDESTRUCT (`execBody`), the transfers, self-destruct, the undo of
  the journal when a frame fails, the gas money of the transaction.  FED success facts (the model cannot know them):
  the result of a PRECOMPILED contract (outcome `fail` when it returned an error), a failed code deposit of a creation
  (recomputed by the harness from the RETURN step: size > 24576 or 200·size > gas left), CREATE onto a non-empty account
  (address collision: outcome `fail`, empty body; the harness reads IsEmpty before the step).

  Core Lean only.  Tied to the code by the `evmv` op lines of `hx c05` (harness/hx/c05_evmvalue.go).
-/
namespace LemoModel.EvmValue

def upd {β : Type} (f : Nat → β) (k : Nat) (v : β) : Nat → β := fun x => if x = k then v else f x

inductive Kind where
  | call | callcode | delegatecall | staticcall | create
  deriving DecidableEq, Repr

/-- how the BODY of a frame ended BY ITSELF (observed at the callee's depth, not the caller's flag; a frame that was refused
    at its entry or under write protection is sent with `ok`): `ok` = STOP / RETURN / SELFDESTRUCT / end of code / no code / a precompile
    that returned — and, for a creation, the code deposit was paid; `revert` = REVERT; `fail` = every other error (out of
    gas, invalid opcode, write protection, code-store out of gas, a failing precompile, …). -/
inductive Outcome where
  | ok | revert | fail
  deriving DecidableEq, Repr

mutual
  /-- one CALL / CALLCODE / DELEGATECALL / STATICCALL / CREATE. `callee` = the address operand (CREATE: the new contract's
      address, `CreateContractAddress(creator, txHash)`), `value` = the value operand (ignored by DELEGATECALL / STATICCALL). -/
  inductive Frame where
    | mk (kind : Kind) (callee : Nat) (value : Int) (body : Actions) (outcome : Outcome)
  /-- what the running code does that concerns LEMO, in program order -/
  inductive Actions where
    | nil
    | sub (f : Frame) (rest : Actions)
    | kill (beneficiary : Nat) (rest : Actions)     -- SELFDESTRUCT: halts the frame (`rest` is never run)
end

/-- a journal entry: BalanceLog (`suicide = false`) or SuicideLog (`suicide = true`); `old` = the balance before -/
structure Entry where
  addr : Nat
  old : Int
  suicide : Bool

/-- account state as far as LEMO is concerned: balances, the in-memory `suicided` flags, the journal (newest first) -/
structure St where
  bal : Nat → Int
  dead : Nat → Bool := fun _ => false
  log : List Entry := []

/-- `SafeAccount.SetBalance`: push a BalanceLog with the old value, then write -/
def setBal (s : St) (a : Nat) (v : Int) : St :=
  { s with bal := upd s.bal a v, log := ⟨a, s.bal a, false⟩ :: s.log }

/-- `transaction.Transfer`: debit the sender, THEN read and credit the recipient -/
def transfer (s : St) (a b : Nat) (v : Int) : St :=
  let s1 := setBal s a (s.bal a - v)
  setBal s1 b (s1.bal b + v)

/-- `opSuicide`: nothing when the flag is set already; else credit the beneficiary with the contract's balance, then
    `SetSuicide(true)` (SuicideLog, balance := 0, flag set). Returns the amount that is destroyed: with the contract as its
    own beneficiary the balance is first doubled and then zeroed. -/
def suicide (s : St) (self b : Nat) : St × Int :=
  if s.dead self then (s, 0)
  else
    let x := s.bal self
    let s1 := setBal s b (s.bal b + x)
    ({ bal := upd s1.bal self 0, dead := upd s1.dead self true, log := ⟨self, s1.bal self, true⟩ :: s1.log },
     if b = self then x else 0)

/-- `RevertToSnapshot`: undo the newest entries until `n` are left (undoBalance: old balance back; undoSuicide: old balance
    back and the flag cleared) -/
def revertGo (n : Nat) (bal : Nat → Int) (dead : Nat → Bool) : List Entry → St
  | [] => { bal := bal, dead := dead, log := [] }
  | e :: l =>
    if l.length < n then { bal := bal, dead := dead, log := e :: l }
    else revertGo n (upd bal e.addr e.old) (if e.suicide then upd dead e.addr false else dead) l

def revertTo (n : Nat) (s : St) : St := revertGo n s.bal s.dead s.log

/-- params.CallCreateDepth -/
def callCreateDepth : Nat := 1024

/-- kinds whose entry point asks `CanTransfer(caller, value)`: Call, CallCode, Create -/
def needsFunds : Kind → Bool
  | .call | .callcode | .create => true
  | _ => false

/-- kinds whose entry point calls `Transfer(caller, callee, value)`: Call and Create only -/
def movesValue : Kind → Bool
  | .call | .create => true
  | _ => false

/-- kinds that run in the callee's own context (`to = AccountRef(addr)`); CallCode / DelegateCall run in the caller's -/
def ownContext : Kind → Bool
  | .call | .staticcall | .create => true
  | _ => false

/-- `enforceRestrictions` in read-only mode, for the frame-opening opcodes: CREATE writes; CALL with a non-zero value -/
def writesInStatic : Frame → Bool
  | .mk .create _ _ _ _ => true
  | .mk .call _ v _ _ => decide (v ≠ 0)
  | _ => false

/-- result of a frame / a body. `ok` = the success flag the caller sees (body: ran to its end without a write-protection
    error); `burnt` = LEMO destroyed by COMMITTED self-destructs; `flags` = the success flags of the frames that were
    entered, this one first, in execution order (what the tracer sees pushed on the callers' stacks). -/
structure Res where
  st : St
  ok : Bool
  burnt : Int := 0
  flags : List Bool := []

/-- the two checks at the entry of `evm.Call` / `CallCode` / `Create` (`DelegateCall` / `StaticCall`: the first only) that
    refuse the frame before anything is touched: the depth limit and `CanTransfer(caller, value)` -/
def blocked (depth : Nat) (kind : Kind) (s : St) (self : Nat) (value : Int) : Bool :=
  decide (depth > callCreateDepth) || (needsFunds kind && decide (s.bal self < value))

/-- the state in which the body starts: after `Transfer(caller, callee, value)` for Call / Create, untouched otherwise -/
def enter (kind : Kind) (s : St) (self callee : Nat) (value : Int) : St :=
  if movesValue kind = true then transfer s self callee value else s

/-- the context address of the new frame -/
def ctxOf (kind : Kind) (callee self : Nat) : Nat := if ownContext kind = true then callee else self

/-- the end of `evm.Call` & co.: success iff the body ran to its end and ended well; any error reverts to the snapshot
    taken at the entry (`snap` = the journal length then) -/
def finish (snap : Nat) (outcome : Outcome) (r : Res) : Res :=
  if r.ok = true ∧ outcome = .ok then { st := r.st, ok := true, burnt := r.burnt, flags := true :: r.flags }
  else { st := revertTo snap r.st, ok := false, flags := false :: r.flags }

mutual
  /-- `evm.Call` / `CallCode` / `DelegateCall` / `StaticCall` / `Create` entered from a frame whose context address is
      `self` (top level: the tx sender) at `evm.depth = depth`, read-only mode `static`. -/
  def execFrame (depth : Nat) (static : Bool) (self : Nat) (s : St) : Frame → Res
    | .mk kind callee value body outcome =>
      if blocked depth kind s self value = true then { st := s, ok := false, flags := [false] }
      else
        finish s.log.length outcome
          (execBody (depth + 1) (static || kind == .staticcall) (ctxOf kind callee self) (enter kind s self callee value) body)
  /-- the code of a frame with context address `self`, running at `evm.depth = depth` -/
  def execBody (depth : Nat) (static : Bool) (self : Nat) (s : St) : Actions → Res
    | .nil => { st := s, ok := true }
    | .sub f rest =>
      if static = true ∧ writesInStatic f = true then { st := s, ok := false }
      else
        let r1 := execFrame depth static self s f
        let r2 := execBody depth static self r1.st rest
        { st := r2.st, ok := r2.ok, burnt := r1.burnt + r2.burnt, flags := r1.flags ++ r2.flags }
    | .kill b _ =>
      if static = true then { st := s, ok := false }
      else
        let k := suicide s self b
        { st := k.1, ok := true, burnt := k.2 }
end

/-! ### the transaction around the top-level frame -/

structure Tx where
  sender : Nat
  payer : Nat
  gasLimit : Nat
  gasPrice : Int
  intrinsic : Nat         -- IntrinsicGas(tx) (computed by the harness's own arithmetic)
  gasUsed : Nat           -- reported by the engine for an included tx (gas is not computed here; see `gasConsistent`)
  top : Frame             -- kind call (OrdinaryTx, callee = tx.To) or create (CreateContractTx, callee = the new address)

def Frame.kind : Frame → Kind | .mk k _ _ _ _ => k
def Frame.value : Frame → Int | .mk _ _ v _ _ => v
def Frame.outcome : Frame → Outcome | .mk _ _ _ _ o => o

/-- `applyTx` on the miner path. `none` = the tx is invalid (buyGas: the payer cannot pay gasLimit × price; payIntrinsicGas;
    the top-level ErrInsufficientBalance): ApplyTxs reverts to its snapshot and skips it — the state is what it was. -/
def applyTx (s : St) (tx : Tx) : Option Res :=
  let maxFee := (tx.gasLimit : Int) * tx.gasPrice
  if s.bal tx.payer < maxFee then none
  else if tx.gasLimit < tx.intrinsic then none
  else
    let s1 := setBal s tx.payer (s.bal tx.payer - maxFee)
    if needsFunds tx.top.kind = true ∧ s1.bal tx.sender < tx.top.value then none
    else
      let r := execFrame 0 false tx.sender s1 tx.top
      -- refundGas
      let s2 := setBal r.st tx.payer (r.st.bal tx.payer + ((tx.gasLimit : Int) - (tx.gasUsed : Int)) * tx.gasPrice)
      some { r with st := s2 }

/-- what the engine's gas report must satisfy whatever the bytecode was: intrinsic ≤ gasUsed ≤ gasLimit, and a top-level
    frame that ended with an error other than REVERT has used the whole limit -/
def gasConsistent (tx : Tx) (ok : Bool) : Bool :=
  decide (tx.intrinsic ≤ tx.gasUsed) && decide (tx.gasUsed ≤ tx.gasLimit) &&
    (ok || tx.top.outcome == .revert || tx.top.outcome == .ok || decide (tx.gasUsed = tx.gasLimit))

structure BlockRes where
  st : St
  fee : Int := 0
  burnt : Int := 0
  included : List Bool := []
  flags : List Bool := []
  gasOk : Bool := true

/-- `ApplyTxs` over EVM transactions (block gas limit ample: the gas pool is the ledger model's subject) -/
def applyTxs (s : St) : List Tx → BlockRes
  | [] => { st := s }
  | t :: ts =>
    match applyTx s t with
    | none =>
      let r := applyTxs s ts
      { r with included := false :: r.included }
    | some r1 =>
      let r := applyTxs r1.st ts
      { st := r.st, fee := (t.gasUsed : Int) * t.gasPrice + r.fee, burnt := r1.burnt + r.burnt,
        included := true :: r.included, flags := r1.flags ++ r.flags, gasOk := gasConsistent t r1.ok && r.gasOk }

/-- `chargeForGas`: the income address of the miner's profile (0 = none: the fee is dropped) -/
def chargeForGas (s : St) (income : Nat) (fee : Int) : St :=
  if fee = 0 then s else if income = 0 then s else setBal s income (s.bal income + fee)

def applyBlock (s : St) (income : Nat) (txs : List Tx) : BlockRes :=
  let r := applyTxs s txs
  { r with st := chargeForGas r.st income r.fee }

def sumBal (bal : Nat → Int) (U : List Nat) : Int := (U.map bal).sum

end LemoModel.EvmValue

/-
  C15 — byte-level model of what the node does with bytes from the network.
  Core Lean only (this file is linked into the native driver).

  Go code modelled (read line by line):

    network/p2p/peer.go      Peer.readConn, Peer.handle, Peer.unpackFrame, Msg.CheckCode
    common/crypto/aes.go     AesDecrypt, PKCS5UnPadding
    network/p2p/handshake.go readHandshakeBuf
    common/crypto/ecies      PrivateKey.Decrypt / symDecrypt (length arithmetic only)

  TWO generations of the code are modelled side by side:
  * `unpackFrameFixed`, `eciesOpenFixed`, `hsStepFixed`, `runFixed…` = THE CODE AS IT IS NOW (after
    the /repo commits ba190d7 aes.go, 1eafa5e peer.go, 529e8a0 handshake.go, fdba898 ecies.go).
    These are what the driver runs and what the correspondence sweep `hx c15` compares with /repo.
  * `unpackFrame`, `eciesOpen`, `hsStep`, `run…` = the code BEFORE those commits, defects included.
    Kept so that the refutations (and the exact guards) remain machine-checked documentation of
    what the repairs close; a revert of a repair makes the correspondence sweep fail.

  Conventions
  * A connection is a `Reader σ`: `readFull n st` is `io.ReadFull(conn, make([]byte,n))`;
    `none` = the stream ended first (io.EOF / io.ErrUnexpectedEOF / read deadline) — printed
    `need-more`.  Two readers: `flat` (the whole byte stream as one list) and `chunked`
    (a list of TCP segments; `io.ReadFull` loops over `conn.Read`, which returns at most one
    segment's remainder per call).  The parser is written ONCE over the abstract reader.
  * Every Go operation that can panic is explicit: `cipher.CryptBlocks` (needs 16 ∣ len),
    `s[:4]` (needs 4 ≤ cap s), `s[4:]` (needs 4 ≤ len s), `make([]byte, n)` (needs 0 ≤ n).
  * AES-CBC decryption is the parameter `dec : Bytes → Bytes` (uninterpreted; the theorems
    that need it assume only that it preserves length).  ECIES point / MAC validity are the
    uninterpreted predicates `pointOk macOk`.
  * `alloc` = bytes requested through `make([]byte, n)` where `n` is (derived from) a
    remote-supplied length, plus the fixed header buffers.
-/
namespace LemoModel.Frame

abbrev Bytes := List UInt8

/-- constants of the code (tied by the `consts` line of the correspondence run) -/
structure Cfg where
  maxLen : Nat    -- params.MaxPackageLength
  hsMaxLen : Nat  -- p2p.PackageMaxLen
  deriving Repr, DecidableEq

def realCfg : Cfg := { maxLen := 26214400, hsMaxLen := 1073741824 }

def magic0 : UInt8 := 0x5a
def magic1 : UInt8 := 0x48
/-- `Msg.CheckCode`: codes above this are rejected -/
def maxCode : Nat := 0x1F
/-- `HeartbeatMsg` -/
def heartbeatCode : Nat := 1
/-- AES block size -/
def blockSize : Nat := 16

/-- `binary.BigEndian.Uint32` -/
def be32 (a b c d : UInt8) : Nat :=
  a.toNat * 16777216 + b.toNat * 65536 + c.toNat * 256 + d.toNat

/-- panic sites -/
inductive Site where
  | cryptBlocks    -- crypto/cipher: input not full blocks   (aes.go: blockMode.CryptBlocks)
  | sliceCode      -- originData[:4] with cap < 4            (peer.go: unpackFrame)
  | slicePayload   -- originData[4:] with len < 4            (peer.go: unpackFrame)
  | makeslice      -- make([]byte, len(ct)-BlockSize) < 0    (ecies.go: symDecrypt)
  deriving DecidableEq, Repr

def Site.name : Site → String
  | .cryptBlocks => "cryptblocks"
  | .sliceCode => "slice-code"
  | .slicePayload => "slice-payload"
  | .makeslice => "makeslice"

inductive Err where
  | unavailable   -- ErrUnavailablePackage from readConn / readHandshakeBuf (magic, zero length, hs length)
  | overflow      -- ErrLengthOverflow
  | unpad         -- ErrPKCS5UnPadding
  | badCode       -- ErrUnavailablePackage from handle (CheckCode)
  | eciesMsg      -- ecies.ErrInvalidMessage (empty / too short / bad MAC)
  | eciesKey      -- ecies.ErrInvalidPublicKey (first byte not 2,3,4 / point does not unmarshal)
  | badLength     -- crypto.ErrAesCipherLength (content not made of full AES blocks)
  | shortPlain    -- ErrUnavailablePackage from handle (unpackFrame: plaintext shorter than the code)
  deriving DecidableEq, Repr

def Err.name : Err → String
  | .unavailable => "read-unavailable"
  | .overflow => "read-overflow"
  | .unpad => "unpad"
  | .badCode => "handle-unavailable"      -- the same Go error value as .shortPlain
  | .eciesMsg => "ecies-msg"
  | .eciesKey => "ecies-key"
  | .badLength => "badlength"
  | .shortPlain => "handle-unavailable"

/-! ### connections -/

structure Reader (σ : Type) where
  readFull : Nat → σ → Option (Bytes × σ)

/-- the stream as one list -/
def flatRead (n : Nat) (s : Bytes) : Option (Bytes × Bytes) :=
  if s.length < n then none else some (s.take n, s.drop n)

def flat : Reader Bytes := ⟨flatRead⟩

/-- `io.ReadFull` over a connection whose `Read` hands out one segment (or the part of it that
    fits) per call; an empty segment is a `Read` returning `0, nil`. -/
def chunkRead : Nat → List Bytes → Option (Bytes × List Bytes)
  | n, [] => if n = 0 then some ([], []) else none
  | n, c :: cs =>
    if n = 0 then some ([], c :: cs)
    else if c.length ≤ n then
      match chunkRead (n - c.length) cs with
      | some (g, r) => some (c ++ g, r)
      | none => none
    else some (c.take n, c.drop n :: cs)

def chunked : Reader (List Bytes) := ⟨chunkRead⟩

/-! ### Peer.readConn -/

inductive ReadRes (σ : Type) where
  | needMore (alloc : Nat)
  | err (e : Err) (alloc : Nat)
  | content (c : Bytes) (st : σ) (alloc : Nat)

def ReadRes.mapSt {σ τ : Type} (f : σ → τ) : ReadRes σ → ReadRes τ
  | .needMore a => .needMore a
  | .err e a => .err e a
  | .content c st a => .content c (f st) a

def ReadRes.alloc {σ : Type} : ReadRes σ → Nat
  | .needMore a => a
  | .err _ a => a
  | .content _ _ a => a

def readConn {σ : Type} (R : Reader σ) (cfg : Cfg) (st : σ) : ReadRes σ :=
  -- headBuf := make([]byte, 6); io.ReadFull(conn, headBuf)
  match R.readFull 6 st with
  | none => .needMore 6
  | some (hd, st1) =>
    -- bytes.Compare(PackagePrefix[:], headBuf[:2]) != 0
    if hd.getD 0 0 ≠ magic0 ∨ hd.getD 1 0 ≠ magic1 then .err .unavailable 6
    else
      let len := be32 (hd.getD 2 0) (hd.getD 3 0) (hd.getD 4 0) (hd.getD 5 0)
      if len = 0 then .err .unavailable 6
      else if len > cfg.maxLen then .err .overflow 6
      else
        -- content := make([]byte, length): requested BEFORE any content byte arrives
        match R.readFull len st1 with
        | none => .needMore (6 + len)
        | some (c, st2) => .content c st2 (6 + len)

/-! ### Go primitives that panic when their precondition fails (`none` = the panic)

  The live model is built from these; that it never reaches a `none` is a THEOREM about the guards
  in front of them (LemoProofs.C15.unpackFixed_no_panic, eciesOpenFixed_no_panic), not a property of
  the model's shape: with a guard switched off the same definitions do panic
  (guard_aesLen_needed, guard_codeLen_needed, guard_eciesBlock_needed). -/

/-- `blockMode.CryptBlocks(dst, src)`: "crypto/cipher: input not full blocks" -/
def cryptBlocks (dec : Bytes → Bytes) (c : Bytes) : Option Bytes :=
  if c.length % blockSize ≠ 0 then none else some (dec c)

/-- `s[:4]` where `s` is a re-slice of `backing` with capacity `capacity`: Go checks 4 ≤ cap(s) -/
def sliceTo4 (capacity : Nat) (backing : Bytes) : Option Bytes :=
  if capacity < 4 then none else some (backing.take 4)

/-- `s[4:]`: Go checks 4 ≤ len(s) -/
def sliceFrom4 (s : Bytes) : Option Bytes :=
  if s.length < 4 then none else some (s.drop 4)

/-- `make([]byte, n)` with a signed length: "makeslice: len out of range" when n < 0 -/
def makeBytes (n : Int) : Option Nat :=
  if n < 0 then none else some n.toNat

/-- the repair guards present in the code (each one is a commit in /repo) -/
structure Guards where
  aesLen : Bool       -- ba190d7  aes.go      `if len(encResult)%blockSize != 0 { return nil, ErrAesCipherLength }`
  codeLen : Bool      -- 1eafa5e  peer.go     `if len(originData) < 4 { return 0, nil, ErrUnavailablePackage }`
  eciesBlock : Bool   -- fdba898  ecies.go    `len(c) < rLen + hLen + params.BlockSize`
  deriving DecidableEq, Repr

/-- the code as it is now -/
def liveGuards : Guards := { aesLen := true, codeLen := true, eciesBlock := true }
/-- the code before the repairs -/
def noGuards : Guards := { aesLen := false, codeLen := false, eciesBlock := false }

/-! ### crypto.AesDecrypt / PKCS5UnPadding / Peer.unpackFrame / Peer.handle -/

/-- `PKCS5UnPadding`; `none` is the Go `nil` return (→ ErrPKCS5UnPadding).
    Note `originData[:0]` is a non-nil empty slice, so `some []` is a success. -/
def unpad (d : Bytes) : Option Bytes :=
  match d.getLast? with
  | none => none                                   -- length == 0
  | some p =>
    let pad := p.toNat
    if d.length < pad ∨ pad > blockSize ∨ pad = 0 then none   -- index < 0 || padding > 16 || padding == 0
    else
      let index := d.length - pad
      if (d.drop index).all (fun b => b == p) then some (d.take index) else none

inductive Unpacked where
  | ok (code : Nat) (payload : Bytes)
  | err (e : Err)
  | panic (s : Site)
  deriving DecidableEq, Repr

def codeOf (d : Bytes) : Nat := be32 (d.getD 0 0) (d.getD 1 0) (d.getD 2 0) (d.getD 3 0)

/-- `Peer.unpackFrame` ∘ `crypto.AesDecrypt` as coded BEFORE commits ba190d7 / 1eafa5e. -/
def unpackFrame (dec : Bytes → Bytes) (content : Bytes) : Unpacked :=
  -- origData := make([]byte, len(encResult)); blockMode.CryptBlocks(origData, encResult)
  if content.length % blockSize ≠ 0 then .panic .cryptBlocks
  else
    let d := dec content
    match unpad d with
    | none => .err .unpad
    | some o =>
      -- code := binary.BigEndian.Uint32(originData[:4]) : a slice may be re-sliced up to its
      -- CAPACITY; originData = origData[:index] has cap = len(origData)
      if d.length < 4 then .panic .sliceCode
      else
        let code := codeOf d
        if o.length = 4 then .ok code []
        else if o.length < 4 then .panic .slicePayload   -- originData[4:]  ⇒  [4:len] with len < 4
        else .ok code (o.drop 4)

/-- `Peer.unpackFrame` ∘ `crypto.AesDecrypt` with the guards `g`, every panicking primitive kept. -/
def unpackG (g : Guards) (dec : Bytes → Bytes) (content : Bytes) : Unpacked :=
  if g.aesLen = true ∧ content.length % blockSize ≠ 0 then .err .badLength            -- ba190d7
  else
    -- origData := make([]byte, len(encResult)); blockMode.CryptBlocks(origData, encResult)
    match cryptBlocks dec content with
    | none => .panic .cryptBlocks
    | some d =>
      match unpad d with
      | none => .err .unpad
      | some o =>
        if g.codeLen = true ∧ o.length < 4 then .err .shortPlain                        -- 1eafa5e
        else
          -- originData[:4]; originData = origData[:index] has cap = len(origData)
          match sliceTo4 d.length d with
          | none => .panic .sliceCode
          | some c4 =>
            if o.length = 4 then .ok (codeOf c4) []
            else
              match sliceFrom4 o with                                                     -- originData[4:]
              | none => .panic .slicePayload
              | some p => .ok (codeOf c4) p

/-- `Peer.unpackFrame` ∘ `crypto.AesDecrypt` AS CODED NOW -/
def unpackFrameFixed (dec : Bytes → Bytes) (content : Bytes) : Unpacked := unpackG liveGuards dec content

/-- bytes requested by AesDecrypt's `make([]byte, len(encResult))`: with guard ba190d7 the function
    returns before the `make` when the length is not a multiple of the block size -/
def decAllocG (g : Guards) (content : Bytes) : Nat :=
  if g.aesLen = true ∧ content.length % blockSize ≠ 0 then 0 else content.length

inductive Handled where
  | deliver (code : Nat) (payload : Bytes)   -- p.newMsgCh <- msg : reaches the dispatcher
  | heartbeat
  | err (e : Err)
  | panic (s : Site)
  deriving DecidableEq, Repr

def handleWith (unpack : Bytes → Unpacked) (content : Bytes) : Handled :=
  match unpack content with
  | .panic s => .panic s
  | .err e => .err e
  | .ok code payload =>
    if code > maxCode then .err .badCode          -- msg.CheckCode() == false
    else if code = heartbeatCode then .heartbeat
    else .deliver code payload

def handle (dec : Bytes → Bytes) : Bytes → Handled := handleWith (unpackFrame dec)
def handleFixed (dec : Bytes → Bytes) : Bytes → Handled := handleWith (unpackFrameFixed dec)

/-! ### one iteration of Peer.readLoop, with the allocation it requests -/

inductive Outcome (σ : Type) where
  | needMore
  | err (e : Err)
  | panic (s : Site)
  | heartbeat (st : σ)
  | deliver (code : Nat) (payload : Bytes) (st : σ)

structure Step (σ : Type) where
  out : Outcome σ
  alloc : Nat

def frameStepWith {σ : Type} (h : Bytes → Handled) (da : Bytes → Nat) (R : Reader σ) (cfg : Cfg) (st : σ) : Step σ :=
  match readConn R cfg st with
  | .needMore a => ⟨.needMore, a⟩
  | .err e a => ⟨.err e, a⟩
  | .content c st' a =>
    -- AesDecrypt: origData := make([]byte, len(encResult))  (`da c` bytes)
    let a' := a + da c
    match h c with
    | .panic s => ⟨.panic s, a'⟩
    | .err e => ⟨.err e, a'⟩
    | .heartbeat => ⟨.heartbeat st', a'⟩
    | .deliver code p => ⟨.deliver code p st', a'⟩

def frameStep {σ : Type} (dec : Bytes → Bytes) := frameStepWith (σ := σ) (handle dec) (decAllocG noGuards)
def frameStepFixed {σ : Type} (dec : Bytes → Bytes) := frameStepWith (σ := σ) (handleFixed dec) (decAllocG liveGuards)

/-! ### the read loop: everything the node does with a connection's bytes -/

/-- position-sensitive checksum of a payload (ties the payload BYTES, not only their number) -/
def chk (p : Bytes) : Nat := p.foldl (fun h b => (h * 31 + b.toNat) % 4294967296) 7

inductive Ev where
  | msg (code : Nat) (len : Nat) (sum : Nat)   -- handed to the dispatcher (ProtocolManager.work)
  | hb
  | needMore                        -- terminal: stream ended / read deadline ⇒ connection closed
  | err (e : Err)                   -- terminal: connection closed
  | panic (s : Site)                -- terminal: the PROCESS dies (no recover on readLoop)
  deriving DecidableEq, Repr

def Ev.isPanic : Ev → Bool
  | .panic _ => true
  | _ => false

def Ev.show : Ev → String
  | .msg c n k => s!"msg:{c}:{n}:{k}"
  | .hb => "hb"
  | .needMore => "need-more"
  | .err e => "err:" ++ e.name
  | .panic s => "panic:" ++ s.name

def runWith {σ : Type} (h : Bytes → Handled) (R : Reader σ) (cfg : Cfg) : Nat → σ → List Ev
  | 0, _ => [.needMore]
  | fuel + 1, st =>
    match (frameStepWith h (fun c => c.length) R cfg st).out with   -- the outcome does not depend on `da`
    | .needMore => [.needMore]
    | .err e => [.err e]
    | .panic s => [.panic s]
    | .heartbeat st' => .hb :: runWith h R cfg fuel st'
    | .deliver code p st' => .msg code p.length (chk p) :: runWith h R cfg fuel st'

/-- bytes requested over the whole read loop (the sum of the steps' `alloc`) -/
def runAllocWith {σ : Type} (h : Bytes → Handled) (da : Bytes → Nat) (R : Reader σ) (cfg : Cfg) : Nat → σ → Nat
  | 0, _ => 0
  | fuel + 1, st =>
    (frameStepWith h da R cfg st).alloc +
      (match (frameStepWith h da R cfg st).out with
       | .heartbeat st' => runAllocWith h da R cfg fuel st'
       | .deliver _ _ st' => runAllocWith h da R cfg fuel st'
       | _ => 0)

/-- the read loop on a flat stream (every frame consumes ≥ 7 bytes, so `length + 1` iterations
    always reach the end of the stream) -/
def run (dec : Bytes → Bytes) (cfg : Cfg) (s : Bytes) : List Ev :=
  runWith (handle dec) flat cfg (s.length + 1) s

/-- the read loop on a segmented connection -/
def runC (dec : Bytes → Bytes) (cfg : Cfg) (cs : List Bytes) : List Ev :=
  runWith (handle dec) chunked cfg (cs.flatten.length + 1) cs

def runFixed (dec : Bytes → Bytes) (cfg : Cfg) (s : Bytes) : List Ev :=
  runWith (handleFixed dec) flat cfg (s.length + 1) s

def runFixedC (dec : Bytes → Bytes) (cfg : Cfg) (cs : List Bytes) : List Ev :=
  runWith (handleFixed dec) chunked cfg (cs.flatten.length + 1) cs

/-! ### pre-handshake reader: readHandshakeBuf + ecies Decrypt (length arithmetic) -/

/-- ECIES header: 65-byte uncompressed point, 32-byte HMAC tag -/
def eciesRLen : Nat := 65
def eciesHLen : Nat := 32

inductive HsOut where
  | needMore
  | err (e : Err)
  | panic (s : Site)
  | ok (plainLen : Nat)
  deriving DecidableEq, Repr

def HsOut.show : HsOut → String
  | .needMore => "need-more"
  | .err e => "err:" ++ e.name
  | .panic s => "panic:" ++ s.name
  | .ok n => s!"ok:{n}"

structure HsStep where
  out : HsOut
  alloc : Nat
  deriving DecidableEq, Repr

/-- `ecies.PrivateKey.Decrypt(c, nil, nil)` for secp256k1 / AES-128-CTR / SHA-256, as coded BEFORE
    commit fdba898: the only length check is `len(c) < rLen + hLen + 1`. -/
def eciesOpen (pointOk macOk : Bytes → Bool) (c : Bytes) : HsOut × Nat :=
  match c with
  | [] => (.err .eciesMsg, 0)
  | b :: _ =>
    if b ≠ 2 ∧ b ≠ 3 ∧ b ≠ 4 then (.err .eciesKey, 0)
    else if c.length < eciesRLen + eciesHLen + 1 then (.err .eciesMsg, 0)
    else if !pointOk c then (.err .eciesKey, 0)
    else if !macOk c then (.err .eciesMsg, 0)
    else
      let ct := c.length - eciesRLen - eciesHLen
      -- symDecrypt: ct[:BlockSize] re-slices into the tag (cap is large enough);
      -- m = make([]byte, len(ct)-params.BlockSize)
      if ct < blockSize then (.panic .makeslice, 0)
      else (.ok (ct - blockSize), ct - blockSize)

/-- the same function with the guard `blockGuard` (fdba898) and the panicking `make` kept:
    order of the checks as in ecies.go (empty, first byte, length, point, MAC, symDecrypt) -/
def eciesOpenG (blockGuard : Bool) (pointOk macOk : Bytes → Bool) (c : Bytes) : HsOut × Nat :=
  match c with
  | [] => (.err .eciesMsg, 0)
  | b :: _ =>
    if b ≠ 2 ∧ b ≠ 3 ∧ b ≠ 4 then (.err .eciesKey, 0)
    else if c.length < eciesRLen + eciesHLen + (if blockGuard then blockSize else 1) then (.err .eciesMsg, 0)
    else if !pointOk c then (.err .eciesKey, 0)
    else if !macOk c then (.err .eciesMsg, 0)
    else
      -- symDecrypt: m = make([]byte, len(ct)-params.BlockSize), len(ct) = len(c) - rLen - hLen (Go ints)
      match makeBytes ((c.length : Int) - (eciesRLen : Int) - (eciesHLen : Int) - (blockSize : Int)) with
      | none => (.panic .makeslice, 0)
      | some n => (.ok n, n)

/-- AS CODED NOW (fdba898) -/
def eciesOpenFixed (pointOk macOk : Bytes → Bool) (c : Bytes) : HsOut × Nat :=
  eciesOpenG liveGuards.eciesBlock pointOk macOk c

/-- `readHandshakeBuf` with the length limit `lim` (`PackageMaxLen` = 1 GiB before commit 529e8a0,
    `params.MaxPackageLength` since) and the ECIES opener `open_`. -/
def hsStepWith {σ : Type} (open_ : Bytes → HsOut × Nat) (lim : Nat) (R : Reader σ) (st : σ) : HsStep :=
  -- buf := make([]byte, 2)
  match R.readFull 2 st with
  | none => ⟨.needMore, 2⟩
  | some (p, st1) =>
    if p.getD 0 0 ≠ magic0 ∨ p.getD 1 0 ≠ magic1 then ⟨.err .unavailable, 2⟩
    else
      -- buf = make([]byte, PackageLength)
      match R.readFull 4 st1 with
      | none => ⟨.needMore, 6⟩
      | some (l, st2) =>
        let len := be32 (l.getD 0 0) (l.getD 1 0) (l.getD 2 0) (l.getD 3 0)
        if len = 0 ∨ len > lim then ⟨.err .unavailable, 6⟩
        else
          -- buf = make([]byte, length): before any payload byte arrives, no deadline set
          match R.readFull len st2 with
          | none => ⟨.needMore, 6 + len⟩
          | some (c, _) =>
            let r := open_ c
            ⟨r.1, 6 + len + r.2⟩

/-- the pre-handshake reader BEFORE commits 529e8a0 / fdba898 -/
def hsStep {σ : Type} (pointOk macOk : Bytes → Bool) (cfg : Cfg) (R : Reader σ) (st : σ) : HsStep :=
  hsStepWith (eciesOpen pointOk macOk) cfg.hsMaxLen R st

/-- the pre-handshake reader AS CODED NOW: bounded by MaxPackageLength like every other frame
    (529e8a0), and the ECIES length check (fdba898) -/
def hsStepFixed {σ : Type} (pointOk macOk : Bytes → Bool) (cfg : Cfg) (R : Reader σ) (st : σ) : HsStep :=
  hsStepWith (eciesOpenFixed pointOk macOk) cfg.maxLen R st

/-! ### helpers for witnesses and the driver -/

/-- `5a 48 | be32 len` -/
def header (len : Nat) : Bytes :=
  [magic0, magic1, UInt8.ofNat (len / 16777216), UInt8.ofNat (len / 65536), UInt8.ofNat (len / 256), UInt8.ofNat len]

/-! ### dropping the connection: `Peer.Close` / `Peer.safeClose` called from several goroutines

  readLoop, heartbeatLoop, ProtocolManager.handlePeer, Server.runPeer, peerSet.UnRegister … all call
  `Peer.Close()` on the same peer, possibly at the same instant (a remote arranges it with one
  rejected message followed by garbage).  `safeClose` is check-then-act:

      select { case <-p.stopCh: return; default: }      -- check
      close(p.stopCh)                                   -- act: panics if already closed
      …

  and `Close` wraps it in `p.wmu.Lock() … p.wmu.Unlock()`.  The model interleaves any number of
  closers at the granularity of these four steps. -/
namespace Close

inductive PC where
  | start        -- before `p.wmu.Lock()` (or before the check when there is no mutex)
  | inCheck      -- lock acquired, about to run the `select` on stopCh
  | willClose    -- the check saw stopCh open: about to `close(p.stopCh)`
  | willUnlock   -- returned from safeClose, about to `p.wmu.Unlock()`
  | done
  deriving DecidableEq, Repr

structure St where
  pc : Nat → PC          -- one program counter per closer (goroutine id)
  holder : Option Nat    -- owner of p.wmu
  closed : Bool          -- stopCh is closed
  closes : Nat           -- number of `close(p.stopCh)` executed
  panicked : Bool        -- "close of closed channel": the process is dead

def upd (f : Nat → PC) (i : Nat) (v : PC) : Nat → PC := fun j => if j = i then v else f j

def init : St := { pc := fun _ => .start, holder := none, closed := false, closes := 0, panicked := false }

/-- goroutine `i` executes its next step (a closer blocked on the mutex stutters) -/
def step (mutex : Bool) (s : St) (i : Nat) : St :=
  if s.panicked then s
  else
    match s.pc i with
    | .start =>
      if mutex then
        (if s.holder = none then { s with pc := upd s.pc i .inCheck, holder := some i } else s)
      else { s with pc := upd s.pc i .inCheck }
    | .inCheck =>
      if s.closed then { s with pc := upd s.pc i .willUnlock }
      else { s with pc := upd s.pc i .willClose }
    | .willClose =>
      if s.closed then { s with panicked := true }
      else { s with closed := true, closes := s.closes + 1, pc := upd s.pc i .willUnlock }
    | .willUnlock =>
      if mutex then { s with holder := none, pc := upd s.pc i .done }
      else { s with pc := upd s.pc i .done }
    | .done => s

/-- a schedule is the list of goroutine ids in the order the scheduler runs them -/
def run (mutex : Bool) (s : St) : List Nat → St
  | [] => s
  | i :: rest => run mutex (step mutex s i) rest

/-! T2 facts: every `close(….stopCh)` and every call of a function that closes it unguarded, with
    how the site is protected.  Regenerated from the AST of network/p2p/*.go by `hx c15` on every
    run and compared row by row with this table (`table-mismatch` otherwise). -/

inductive Guard where
  | wmuHeld      -- dominated by `….wmu.Lock()` in the same function
  | viaCallers   -- the function does not lock itself; all its call sites are rows of the table
  | unguarded
  deriving DecidableEq, Repr

def Guard.name : Guard → String
  | .wmuHeld => "wmu-held"
  | .viaCallers => "via-callers"
  | .unguarded => "unguarded"

structure CloseSite where
  stmt : String
  fn : String
  guard : Guard
  deriving DecidableEq, Repr

def CloseSite.row (r : CloseSite) : String := r.stmt ++ "|" ++ r.fn ++ "|" ++ r.guard.name

def closeSites : List CloseSite :=
  [ ⟨"close(stopCh)", "safeClose", .viaCallers⟩,
    ⟨"safeClose()", "Close", .wmuHeld⟩ ]

/-- does the code, according to the fact table, run check+close under the mutex? -/
def mutexOfTable : Bool := closeSites.all (fun r => r.guard != .unguarded)

/-- k closers, each scheduled 4·k times round-robin (enough for all of them to finish) -/
def roundRobin (k : Nat) : List Nat := (List.replicate (4 * k) (List.range k)).flatten

end Close

/-! ### T2: inventory of the operations that can panic in the modelled functions

  Every slice / index expression, `make`, `panic(`, type assertion and block-cipher call of
  readConn, handle, unpackFrame, readHandshakeBuf, CheckCode (network/p2p), AesDecrypt,
  PKCS5UnPadding (common/crypto), Decrypt, symDecrypt (common/crypto/ecies), as extracted from the
  AST of the compiled sources by `hx c15` on every run (`sitefacts` / `sitefact` op lines; any
  difference is a `table-mismatch`).  `cover` says which model primitive, guard or argument
  accounts for the site. -/
namespace Sites

structure Row where
  fn : String
  kind : String
  expr : String
  cover : String

def Row.row (r : Row) : String := r.fn ++ "|" ++ r.kind ++ "|" ++ r.expr

def table : List Row :=
  [
    ⟨"AesDecrypt", "call", "blockMode.CryptBlocks(origData,encResult)", "primitive cryptBlocks; unreachable panic by guard aesLen (ba190d7): unpackG_live_no_panic"⟩,
    ⟨"AesDecrypt", "make", "make([]byte,len(encResult))", "length is a len(): never negative; counted by decAllocG"⟩,
    ⟨"AesDecrypt", "slice", "key[:blockSize]", "session key has 16 bytes (Keccak256(...)[:16]): props assumption"⟩,
    ⟨"Decrypt", "index", "c[0]", "after `len(c) == 0` check: eciesOpenG `[]` arm"⟩,
    ⟨"Decrypt", "slice", "K[:params.KeyLen]", "K = concatKDF(..., KeyLen+KeyLen): constant size, outside the model"⟩,
    ⟨"Decrypt", "slice", "K[params.KeyLen:]", "K = concatKDF(..., KeyLen+KeyLen): constant size, outside the model"⟩,
    ⟨"Decrypt", "slice", "c[:rLen]", "after the length check len(c) ≥ rLen+hLen+BlockSize (eciesOpenG second test)"⟩,
    ⟨"Decrypt", "slice", "c[mEnd:]", "mEnd = len(c)-hLen ≥ rLen after the length check"⟩,
    ⟨"Decrypt", "slice", "c[mStart:mEnd]", "mStart = rLen ≤ mEnd after the length check"⟩,
    ⟨"Decrypt", "slice", "c[mStart:mEnd]", "mStart = rLen ≤ mEnd after the length check"⟩,
    ⟨"PKCS5UnPadding", "index", "originData[i]", "index ≤ i < length with 0 ≤ index: model `unpad` (d.drop index)"⟩,
    ⟨"PKCS5UnPadding", "index", "originData[length-1]", "after `length == 0` check: model `unpad` (getLast?)"⟩,
    ⟨"PKCS5UnPadding", "slice", "originData[:index]", "0 ≤ index ≤ length after the index<0 check: model `unpad` (d.take index)"⟩,
    ⟨"handle", "slice", "p.rNodeID[:4]", "NodeID is a 64-byte array"⟩,
    ⟨"readConn", "call", "binary.BigEndian.Uint32(headBuf[2:])", "headBuf has 6 bytes: model be32"⟩,
    ⟨"readConn", "make", "make([]byte,len(PackagePrefix)+PackageLength)", "constant 6 (tied by the header-shape check of hx c15)"⟩,
    ⟨"readConn", "make", "make([]byte,length)", "uint32 length ≤ MaxPackageLength: counted by readConn alloc"⟩,
    ⟨"readConn", "slice", "PackagePrefix[:]", "constant"⟩,
    ⟨"readConn", "slice", "headBuf[2:]", "headBuf has 6 bytes"⟩,
    ⟨"readConn", "slice", "headBuf[:2]", "headBuf has 6 bytes"⟩,
    ⟨"readHandshakeBuf", "call", "binary.BigEndian.Uint32(buf)", "buf has PackageLength = 4 bytes: model be32"⟩,
    ⟨"readHandshakeBuf", "make", "make([]byte,2)", "constant"⟩,
    ⟨"readHandshakeBuf", "make", "make([]byte,PackageLength)", "constant 4"⟩,
    ⟨"readHandshakeBuf", "make", "make([]byte,length)", "uint32 length ≤ MaxPackageLength (529e8a0): counted by hsStepWith alloc"⟩,
    ⟨"symDecrypt", "call", "ctr.XORKeyStream(m,ct[params.BlockSize:])", "len(m) = len(ct)-BlockSize = len(src)"⟩,
    ⟨"symDecrypt", "make", "make([]byte,len(ct)-params.BlockSize)", "primitive makeBytes; unreachable panic by guard eciesBlock (fdba898): eciesOpenG_guarded_no_panic"⟩,
    ⟨"symDecrypt", "slice", "ct[:params.BlockSize]", "cap(ct) ≥ len(ct)+hLen ≥ BlockSize (re-slices into the tag): never panics"⟩,
    ⟨"symDecrypt", "slice", "ct[params.BlockSize:]", "len(ct) ≥ BlockSize by guard eciesBlock (before it: the make above panicked first)"⟩,
    ⟨"unpackFrame", "call", "binary.BigEndian.Uint32(originData[:4])", "4 bytes: model codeOf"⟩,
    ⟨"unpackFrame", "slice", "originData[4:]", "primitive sliceFrom4; unreachable panic by guard codeLen (1eafa5e)"⟩,
    ⟨"unpackFrame", "slice", "originData[:4]", "primitive sliceTo4 (bound is the capacity); unreachable: unpad strips ≥ 1 byte, unpackG_live_no_panic"⟩
  ]

end Sites

/-! ### types.recoverSigners: the length check of a transaction signature lives inside crypto.Ecrecover

  `sigs[i]` arrives from the wire with ANY length (`Sigs [][]byte` is unconstrained RLP).  The only
  length check on the p2p path is `len(sig) != 65 → ErrInvalidSignatureLen` inside
  `crypto.Ecrecover`; `sigs[i][:32]`, `sigs[i][32:64]`, `sigs[i][64]` are safe only because they run
  after that call has succeeded.  The model executes the four statements in the order given by the
  fact table `order` (re-extracted from chain/types/tx_signing.go on every run). -/
namespace SigGuard

inductive Stmt where
  | ecrecover        -- pub, err := crypto.Ecrecover(sigHash[:], sigs[i]); if err != nil { return nil, err }
  | sliceR           -- sigs[i][:32]
  | sliceS           -- sigs[i][32:64]
  | indexV           -- sigs[i][64]
  deriving DecidableEq, Repr

inductive Res where
  | ok | err | panic
  deriving DecidableEq, Repr

/-- one statement on a signature of length `n` (`recoverable`: Ecrecover finds a public key) -/
def exec (n : Nat) (recoverable : Bool) : Stmt → Res
  | .ecrecover => if n ≠ 65 then .err else if recoverable then .ok else .err
  | .sliceR => if n < 32 then .panic else .ok       -- s[:32]   needs 32 ≤ cap = len
  | .sliceS => if n < 64 then .panic else .ok       -- s[32:64] needs 64 ≤ cap = len
  | .indexV => if n < 65 then .panic else .ok       -- s[64]    needs 64 < len

/-- run the statements in order; the first non-ok result ends the function -/
def run (n : Nat) (recoverable : Bool) : List Stmt → Res
  | [] => .ok
  | st :: rest => match exec n recoverable st with
    | .ok => run n recoverable rest
    | r => r

structure Row where
  idx : Nat
  kind : String
  expr : String
  stmt : Stmt

def Row.row (r : Row) : String := toString r.idx ++ "|" ++ r.kind ++ "|" ++ r.expr

/-- T2 fact table: the statements over `sigs[i]` inside the loop of recoverSigners, in source order -/
def order : List Row :=
  [ ⟨0, "call", "crypto.Ecrecover(sigHash[:],sigs[i])", .ecrecover⟩,
    ⟨1, "slice", "sigs[i][:32]", .sliceR⟩,
    ⟨2, "slice", "sigs[i][32:64]", .sliceS⟩,
    ⟨3, "index", "sigs[i][64]", .indexV⟩ ]

/-- the code as it is -/
def asCoded : List Stmt := order.map (·.stmt)
/-- the "cheap fail-fast" reordering: value checks before the recovery -/
def reordered : List Stmt := [.sliceR, .sliceS, .indexV, .ecrecover]

end SigGuard

end LemoModel.Frame

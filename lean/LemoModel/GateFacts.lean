/-
  C06 (T2 fact): the signature gate of chain/transaction/tx_processor.go + box_tx.go.

  `rows` is the COMMITTED table of what harness/hx/c06_gate.go extracts with go/ast from the current source on every run
  (op lines `c06 gate …`; the driver answers `table-mismatch` for a row that is not in the table and for a different row
  count).  A row: kind (`guard` = `err := G(..); if err != nil { return …, err }` on a gate function G, `site` = a call of a
  function declared in the two files, `call` = any other call that is not on the extractor's pure list, `wrapper` = the
  function was recognised as a gate wrapper), the function it stands in, the enclosing `switch tx.Type()` case (`-` = none),
  the callee, and `dom` = "a gate call has returned nil on every path to here INSIDE this function" (for a guard: before it).

  The interprocedural reading is computed HERE from the site rows: a function is `safe` when it is called at all and every
  call site is dominated locally or stands in a safe function.  Core Lean only.
-/
namespace LemoModel.GateFacts

structure Row where
  kind : String
  fn : String
  ctx : String
  callee : String
  dom : Bool
  deriving DecidableEq, Repr

def rows : List Row := [
  ⟨"call", "ApplyTxs", "-", "p.am.Reset", false⟩,
  ⟨"call", "ApplyTxs", "-", "p.am.RevertToSnapshot", false⟩,
  ⟨"call", "ApplyTxs", "-", "p.am.Snapshot", false⟩,
  ⟨"call", "ApplyTxs", "-", "tx.SetGasUsed", true⟩,
  ⟨"call", "Process", "-", "p.am.Reset", false⟩,
  ⟨"call", "ReadContract", "-", "*ast.FuncLit", false⟩,
  ⟨"call", "ReadContract", "-", "accM.Reset", false⟩,
  ⟨"call", "ReadContract", "-", "vmEvn.Call", false⟩,
  ⟨"call", "ReadContract", "-", "vmEvn.Cancel", false⟩,
  ⟨"call", "RunBoxTxs", "-", "boxTx.SetData", false⟩,
  ⟨"call", "RunBoxTxs", "-", "tx.SetGasUsed", true⟩,
  ⟨"call", "buyGas", "-", "gp.SubGas", false⟩,
  ⟨"call", "buyGas", "-", "payer.SetBalance", false⟩,
  ⟨"call", "changeCandidateVotes", "-", "candidateAccount.SetVotes", false⟩,
  ⟨"call", "chargeForGas", "-", "incomeAcc.SetBalance", false⟩,
  ⟨"call", "getEVM", "-", "NewEVMContext", false⟩,
  ⟨"call", "handleTx", "case:params.CreateAssetTx", "NewRunAssetEnv", false⟩,
  ⟨"call", "handleTx", "case:params.CreateAssetTx", "assetEnv.CreateAssetTx", false⟩,
  ⟨"call", "handleTx", "case:params.CreateContractTx", "NewEVMContext", false⟩,
  ⟨"call", "handleTx", "case:params.CreateContractTx", "vmEnv.Create", false⟩,
  ⟨"call", "handleTx", "case:params.IssueAssetTx", "NewRunAssetEnv", false⟩,
  ⟨"call", "handleTx", "case:params.IssueAssetTx", "assetEnv.IssueAssetTx", false⟩,
  ⟨"call", "handleTx", "case:params.ModifyAssetTx", "NewRunAssetEnv", false⟩,
  ⟨"call", "handleTx", "case:params.ModifyAssetTx", "assetEnv.ModifyAssetProfileTx", false⟩,
  ⟨"call", "handleTx", "case:params.ModifySignersTx", "NewSetMultisigAccountEnv", false⟩,
  ⟨"call", "handleTx", "case:params.ModifySignersTx", "multisigEnv.ModifyMultisigTx", false⟩,
  ⟨"call", "handleTx", "case:params.OrdinaryTx", "NewEVMContext", false⟩,
  ⟨"call", "handleTx", "case:params.OrdinaryTx", "vmEnv.Call", false⟩,
  ⟨"call", "handleTx", "case:params.RegisterTx", "NewCandidateVoteEnv", false⟩,
  ⟨"call", "handleTx", "case:params.RegisterTx", "candidateVoteEnv.RegisterOrUpdateToCandidate", false⟩,
  ⟨"call", "handleTx", "case:params.ReplenishAssetTx", "NewRunAssetEnv", false⟩,
  ⟨"call", "handleTx", "case:params.ReplenishAssetTx", "assetEnv.ReplenishAssetTx", false⟩,
  ⟨"call", "handleTx", "case:params.TransferAssetTx", "NewEVMContext", false⟩,
  ⟨"call", "handleTx", "case:params.TransferAssetTx", "vmEnv.TransferAssetTx", false⟩,
  ⟨"call", "handleTx", "case:params.VoteTx", "NewCandidateVoteEnv", false⟩,
  ⟨"call", "handleTx", "case:params.VoteTx", "candidateVoteEnv.CallVoteTx", false⟩,
  ⟨"call", "refundGas", "-", "payer.SetBalance", false⟩,
  ⟨"guard", "ApplyTxs", "-", "applyTx", false⟩,
  ⟨"guard", "RunBoxTxs", "-", "applyTx", false⟩,
  ⟨"guard", "VerifyTxBeforeApply", "-", "verifyTransactionSigs", false⟩,
  ⟨"guard", "applyTx", "-", "VerifyTxBeforeApply", false⟩,
  ⟨"site", "ApplyTxs", "-", "chargeForGas", false⟩,
  ⟨"site", "ChangeVotesByBalance", "-", "changeCandidateVotes", false⟩,
  ⟨"site", "ChangeVotesByBalance", "-", "votesChangeByBalanceLog", false⟩,
  ⟨"site", "IntrinsicGas", "-", "addTxDataSpendGas", false⟩,
  ⟨"site", "IntrinsicGas", "-", "getTxBaseSpendGas", false⟩,
  ⟨"site", "Process", "-", "applyTx", false⟩,
  ⟨"site", "Process", "-", "chargeForGas", false⟩,
  ⟨"site", "ReadContract", "-", "getEVM", false⟩,
  ⟨"site", "RunBoxTxs", "-", "chargeForGas", false⟩,
  ⟨"site", "RunBoxTxs", "-", "unmarshalBoxTxs", false⟩,
  ⟨"site", "VerifyTxBeforeApply", "-", "VerifyAssetTx", false⟩,
  ⟨"site", "applyTx", "-", "buyAndPayIntrinsicGas", true⟩,
  ⟨"site", "applyTx", "-", "handleTx", true⟩,
  ⟨"site", "applyTx", "-", "refundGas", true⟩,
  ⟨"site", "buyAndPayIntrinsicGas", "-", "buyGas", false⟩,
  ⟨"site", "buyAndPayIntrinsicGas", "-", "payIntrinsicGas", false⟩,
  ⟨"site", "handleTx", "case:params.BoxTx", "NewBoxTxEnv", false⟩,
  ⟨"site", "handleTx", "case:params.BoxTx", "RunBoxTxs", false⟩,
  ⟨"site", "payIntrinsicGas", "-", "IntrinsicGas", false⟩,
  ⟨"site", "verifyTransactionSigs", "-", "checkSignersWeight", false⟩,
  ⟨"site", "votesChangeByBalanceLog", "-", "filterLogs", false⟩,
  ⟨"site", "votesChangeByBalanceLog", "-", "getVotesChangesByLogs", false⟩,
  ⟨"wrapper", "VerifyTxBeforeApply", "-", "-", true⟩,
  ⟨"wrapper", "applyTx", "-", "-", true⟩
]

/-- the call sites (caller, locally dominated) of a function of the two files: `site` rows and `guard` rows -/
def sitesOf (f : String) : List (String × Bool) :=
  (rows.filter fun r => (r.kind == "site" || r.kind == "guard") && r.callee == f).map fun r => (r.fn, r.dom)

/-- `safe n f`: f is only ever entered after a gate call returned nil (call chains of length ≤ n) -/
def safe : Nat → String → Bool
  | 0, _ => false
  | n + 1, f =>
    let ss := sitesOf f
    !ss.isEmpty && ss.all fun s => s.2 || safe n s.1

def fuel : Nat := 6

/-- the row's call happens only after the signature check passed: dominated in its own function, or the function is safe -/
def effective (r : Row) : Bool := r.dom || safe fuel r.fn

/-- the eleven transaction types (chain/params/tx_type.go) -/
inductive TxType where
  | ordinary | createContract | vote | register | createAsset | issueAsset | replenishAsset | modifyAsset
  | transferAsset | modifySigners | box
  deriving DecidableEq, Repr

def TxType.all : List TxType :=
  [.ordinary, .createContract, .vote, .register, .createAsset, .issueAsset, .replenishAsset, .modifyAsset,
   .transferAsset, .modifySigners, .box]

def TxType.num : TxType → Nat
  | .ordinary => 0 | .createContract => 1 | .vote => 2 | .register => 3 | .createAsset => 4 | .issueAsset => 5
  | .replenishAsset => 6 | .modifyAsset => 7 | .transferAsset => 8 | .modifySigners => 9 | .box => 10

def TxType.name : TxType → String
  | .ordinary => "OrdinaryTx" | .createContract => "CreateContractTx" | .vote => "VoteTx" | .register => "RegisterTx"
  | .createAsset => "CreateAssetTx" | .issueAsset => "IssueAssetTx" | .replenishAsset => "ReplenishAssetTx"
  | .modifyAsset => "ModifyAssetTx" | .transferAsset => "TransferAssetTx" | .modifySigners => "ModifySignersTx" | .box => "BoxTx"

/-- the state-changing call of the type's case in `handleTx` -/
def TxType.handler : TxType → String
  | .ordinary => "vmEnv.Call" | .createContract => "vmEnv.Create" | .vote => "candidateVoteEnv.CallVoteTx"
  | .register => "candidateVoteEnv.RegisterOrUpdateToCandidate" | .createAsset => "assetEnv.CreateAssetTx"
  | .issueAsset => "assetEnv.IssueAssetTx" | .replenishAsset => "assetEnv.ReplenishAssetTx"
  | .modifyAsset => "assetEnv.ModifyAssetProfileTx" | .transferAsset => "vmEnv.TransferAssetTx"
  | .modifySigners => "multisigEnv.ModifyMultisigTx" | .box => "RunBoxTxs"

def TxType.caseLabel (t : TxType) : String := "case:params." ++ t.name

/-- the handler row of a type: in `handleTx`, under the type's case -/
def handlerRow (t : TxType) : Option Row :=
  rows.find? fun r => r.fn == "handleTx" && r.ctx == t.caseLabel && r.callee == t.handler && (r.kind == "call" || r.kind == "site")

/-- is the type's handler reached only after the signature check passed? (`false` also when the row is missing) -/
def typeDominated (t : TxType) : Bool :=
  match handlerRow t with
  | some r => effective r
  | none => false

/-- calls that are NOT behind the gate, by design: block-level bookkeeping of the two entry points (reset / snapshot /
    revert of the manager; the miner's fee — a sum over INCLUDED txs — in chargeForGas), the vote pass of Finalize
    (changeCandidateVotes, called from outside the tx path), the rewrite of an executed box's data (tx object, not account
    state), and ReadContract (pre-execution on an account.ReadOnlyManager: nothing it does is ever saved) -/
def blockLevel : List (String × String) :=
  [("ApplyTxs", "p.am.Reset"), ("ApplyTxs", "p.am.RevertToSnapshot"), ("ApplyTxs", "p.am.Snapshot"), ("Process", "p.am.Reset"),
   ("ReadContract", "*ast.FuncLit"), ("ReadContract", "accM.Reset"), ("ReadContract", "vmEvn.Call"), ("ReadContract", "vmEvn.Cancel"),
   ("getEVM", "NewEVMContext"), ("RunBoxTxs", "boxTx.SetData"), ("changeCandidateVotes", "candidateAccount.SetVotes"),
   ("chargeForGas", "incomeAcc.SetBalance")]

/-- does the driver accept an extracted row? -/
def known (kind fn ctx callee : String) (dom : Bool) : Bool := rows.contains ⟨kind, fn, ctx, callee, dom⟩

end LemoModel.GateFacts

/-
  Go integer semantics used by the generated definitions (tools/go2lean).
  Core Lean only.
-/
namespace LemoModel

/-- Result of a Go function that may return an error or panic. -/
inductive GoRes (α : Type) where
  | ok (a : α)
  | err (e : String)
  | panic
  deriving Repr, DecidableEq, Inhabited

namespace GoSem

/-- unsigned addition modulo `m = 2^w` -/
def uadd (m a b : Nat) : Nat := (a + b) % m
/-- unsigned subtraction modulo `m = 2^w` (operands `< m`) -/
def usub (m a b : Nat) : Nat := (a + m - b % m) % m
/-- unsigned multiplication modulo `m = 2^w` -/
def umul (m a b : Nat) : Nat := (a * b) % m
/-- conversion of a signed value to an unsigned type of modulus `m` -/
def toU (m : Nat) (x : Int) : Nat := (x % (m : Int)).toNat
/-- conversion to a SIGNED type of modulus `m = 2^w` (narrowing, or unsigned of the same width): wraps into `[-m/2, m/2)` -/
def toS (m : Nat) (x : Int) : Int :=
  let r := x % (m : Int)
  if r < (m : Int) / 2 then r else r - (m : Int)

theorem uadd_small {m a b : Nat} (h : a + b < m) : uadd m a b = a + b := by
  unfold uadd; exact Nat.mod_eq_of_lt h

theorem usub_small {m a b : Nat} (hb : b ≤ a) (ha : a < m) : usub m a b = a - b := by
  unfold usub
  have hbm : b % m = b := Nat.mod_eq_of_lt (by omega)
  rw [hbm]
  have : a + m - b = (a - b) + m := by omega
  rw [this, Nat.add_mod_right]
  exact Nat.mod_eq_of_lt (by omega)

theorem umul_small {m a b : Nat} (h : a * b < m) : umul m a b = a * b := by
  unfold umul; exact Nat.mod_eq_of_lt h

theorem toU_small {m : Nat} {x : Int} (h0 : 0 ≤ x) (h : x < (m : Int)) : toU m x = x.toNat := by
  unfold toU; rw [Int.emod_eq_of_lt h0 h]

end GoSem
end LemoModel

/-
  C06 (T2 fact): which txdata fields each hash function of chain/types covers.
  `expected` is the committed table; the harness re-extracts the table from the current source with
  go/parser on every run (`hashcover` op lines) and the driver answers `table-mismatch` on a difference.
-/
namespace LemoModel.HashFacts

def fields : List String :=
  ["Type", "Version", "ChainID", "From", "GasPayer", "Recipient", "RecipientName", "GasPrice", "GasLimit",
   "GasUsed", "Amount", "Data", "Expiration", "Message", "Sigs", "GasPayerSigs"]

/-- fields whose change must change what the sender (or payer) signed: everything except the
    execution result `GasUsed` and the signatures themselves -/
def content : List String :=
  ["Type", "Version", "ChainID", "From", "GasPayer", "Recipient", "RecipientName", "GasPrice", "GasLimit",
   "Amount", "Data", "Expiration", "Message"]

def gasTerms : List String := ["GasPrice", "GasLimit"]

/-- (function, covered fields) as found in the source -/
def expected : List (String × List String) :=
  [("DefaultSigner", ["Type", "Version", "ChainID", "From", "GasPayer", "Recipient", "RecipientName", "GasPrice",
                      "GasLimit", "Amount", "Data", "Expiration", "Message"]),
   ("GasPayerSigner", ["GasPrice", "GasLimit", "Sigs"]),
   ("ReimbursementTxSigner", ["Type", "Version", "ChainID", "From", "GasPayer", "Recipient", "RecipientName",
                              "Amount", "Data", "Expiration", "Message"]),
   ("Transaction", ["Type", "Version", "ChainID", "From", "GasPayer", "Recipient", "RecipientName", "GasPrice",
                    "GasLimit", "Amount", "Data", "Expiration", "Message", "Sigs", "GasPayerSigs"])]

def covers (fn field : String) : Bool :=
  match expected.find? (fun e => e.1 == fn) with
  | some e => e.2.contains field
  | none => false

end LemoModel.HashFacts

/-
  C07 — model of the change journal of chain/account
  (SafeAccount setters, LogProcessor.Snapshot / RevertToSnapshot, the undo
  functions of chain/account/change_log.go, Account.GetNextVersion).

  Core Lean only.  Keyed attributes (contract storage, asset code / id / equity
  entries) are modelled by the *view the getters return* (cache layer over the
  committed trie content, collapsed into one function), so that the model's
  state is canonical: two model states are equal iff every AccountAccessor
  getter used by `hx c07` agrees.  `StorageCache.SetState k v` is `view[k := v]`,
  `DelState k` is `view[k := committed k]`, `Reset` + root change re-reads the
  committed content of the new root.  Presence of an empty asset-id / profile
  string is not distinguished from absence (the getters return "" for both).

  What a read cannot see — the `dirty` (pending write) sets of the four StorageCaches, `ChangeLog.OldClean`,
  `StorageCache.RevertState` and what `Finalise` publishes — is the lockstep layer `LemoModel.JournalDirty`
  (its erasure is this model: `LemoProofs.C07Dirty.runD_st`).

  `restoreCounter` selects between the code before commit 5712ccd
  (`false`: the per-account version counter is not given back on undo) and the
  current code (`true`).  `equityNilOk` likewise for commit 1ec51f5
  (undoEquity on a nil OldVal).
-/
namespace LemoModel.Journal

/-- an asset record: total supply and the two profile values the harness uses (0 = "") -/
structure Asset where
  supply : Int
  p1 : Nat      -- raw profile slot of key k1: 0 = absent, n+1 = present with value n
  p2 : Nat
  deriving DecidableEq, Repr, Inhabited

/-- Go `map` update on a function -/
def upd {β : Type} (f : Nat → β) (k : Nat) (v : β) : Nat → β := fun x => if x = k then v else f x

/-- committed (trie) content of one account; fixed while a block is processed -/
structure Committed where
  storage : Nat → Nat := fun _ => 0
  assetCode : Nat → Option Asset := fun _ => none
  assetId : Nat → Nat := fun _ => 0
  equity : Nat → Option Int := fun _ => none
  codes : List Nat := []  -- code ids present in the (content-addressed, database-wide) code store

structure Acct where
  com : Committed := {}
  balance : Int := 0
  codeHash : Nat := 0          -- 0 = zero hash, 1 = Keccak(nil), 10+id = hash of code `id`
  code : Nat := 0              -- in-memory code object: 0 = nil
  suicided : Bool := false
  sRoot : Bool := false        -- true = the committed root, false = zero hash
  acRoot : Bool := false
  aiRoot : Bool := false
  eRoot : Bool := false
  storage : Nat → Nat := fun _ => 0                      -- what GetStorageState returns (0 = empty)
  assetCode : Nat → Option Asset := fun _ => none        -- what GetAssetCode returns
  assetId : Nat → Nat := fun _ => 0                      -- what GetAssetIdState returns (0 = "" / not exist)
  equity : Nat → Option Int := fun _ => none             -- what GetEquityState returns
  profile : Nat → Nat := fun _ => 0
  votes : Int := 0
  voteFor : Nat := 0
  signers : List (Nat × Nat) := []
  baseVer : Nat → Nat := fun _ => 0      -- data.NewestRecords[t].Version
  nextVer : Nat → Nat := fun _ => 0      -- Account.newestRecords[t]

/-! getters (what AccountAccessor returns) -/
def Acct.getStorage (a : Acct) (k : Nat) : Nat := a.storage k
def Acct.getAssetCode (a : Acct) (k : Nat) : Option Asset := a.assetCode k
def Acct.getAssetId (a : Acct) (k : Nat) : Nat := a.assetId k
def Acct.getEquity (a : Acct) (k : Nat) : Option Int := a.equity k

/-- `Account.GetCode`: `none` = load error (hash set but the code is nowhere) -/
def Acct.getCode (a : Acct) : Option Nat :=
  if a.code ≠ 0 then some a.code
  else if a.codeHash = 0 ∨ a.codeHash = 1 then some 0
  else if a.codeHash ≥ 10 ∧ (a.codeHash - 10) ∈ a.com.codes then some (a.codeHash - 10)
  else none

/-- log types, numbered as in chain/account/change_log.go -/
def tBalance := 1
def tStorage := 2
def tAssetCode := 4
def tAssetCodeState := 5
def tAssetCodeSupply := 7
def tAssetId := 8
def tEquity := 10
def tCandidate := 12
def tCandidateState := 13
def tCode := 14
def tEvent := 15
def tSuicide := 16
def tVoteFor := 17
def tVotes := 18
def tSigner := 19

/-- the undo payload of a change log (its OldVal / Extra) -/
inductive Undo where
  | balance (old : Int)
  | votes (old : Int)
  | voteFor (old : Nat)
  | signers (old : List (Nat × Nat))
  | storage (k : Nat) (old : Nat)
  | assetId (k : Nat) (old : Nat)               -- old = "" when absent
  | equity (k : Nat) (old : Option Int)
  | assetCode (k : Nat) (old : Option Asset)
  | assetCodeState (code key : Nat) (old : Nat)
  | assetCodeSupply (code : Nat) (old : Int)
  | candidate (old : Nat → Nat)
  | candidateState (k : Nat) (old : Nat)
  | code
  | event
  | suicide (oldBal : Int) (oldCodeHash : Nat) (oldSRoot : Bool)

structure Log where
  addr : Nat
  ty : Nat
  ver : Nat
  undo : Undo

/-- the writes a SafeAccount offers -/
inductive Write where
  | balance (v : Int)
  | votes (v : Int)
  | voteFor (v : Nat)
  | signers (v : List (Nat × Nat))
  | storage (k v : Nat)
  | assetId (k v : Nat)
  | equity (k : Nat) (v : Option Int)
  | assetCode (k : Nat) (v : Option Asset)
  | assetCodeState (code key v : Nat)
  | assetCodeSupply (code : Nat) (v : Int)
  | candidate (p : Nat → Nat)
  | candidateState (k v : Nat)
  | code (id : Nat)
  | event
  | suicide

def Write.ty : Write → Nat
  | .balance _ => tBalance | .votes _ => tVotes | .voteFor _ => tVoteFor | .signers _ => tSigner
  | .storage _ _ => tStorage | .assetId _ _ => tAssetId | .equity _ _ => tEquity
  | .assetCode _ _ => tAssetCode | .assetCodeState _ _ _ => tAssetCodeState
  | .assetCodeSupply _ _ => tAssetCodeSupply | .candidate _ => tCandidate
  | .candidateState _ _ => tCandidateState | .code _ => tCode | .event => tEvent | .suicide => tSuicide

inductive WRes where
  | ok (a : Acct) (u : Undo)   -- log pushed with this undo payload, account updated
  | logErr (u : Undo)          -- log pushed, then the raw setter returned an error: account unchanged
  | panic                      -- the Go code dereferences nil (asset missing)

def setAssetProfile (as : Asset) (key v : Nat) : Asset :=
  if key = 1 then { as with p1 := v } else if key = 2 then { as with p2 := v } else as
def getAssetProfile (as : Asset) (key : Nat) : Nat :=
  if key = 1 then as.p1 else if key = 2 then as.p2 else 0

/-- raw setters of `Account` -/
def Acct.setAssetCodeRaw (a : Acct) (k : Nat) (v : Option Asset) : Acct :=
  match v with
  | none => { a with assetCode := upd a.assetCode k (if a.acRoot then a.com.assetCode k else none) }  -- DelState: falls back to the trie
  | some as => { a with assetCode := upd a.assetCode k (some as) }

def Acct.setCodeRaw (a : Acct) (id : Nat) : Acct :=
  let newHash := if id = 0 then 1 else 10 + id
  let a := { a with code := id }
  if a.codeHash ≠ newHash ∧ ¬ (a.codeHash = 0 ∧ newHash = 1) then { a with codeHash := newHash } else a

def Acct.setSuicideRaw (a : Acct) : Acct :=
  { a with balance := 0, codeHash := 0, code := 0, sRoot := false, storage := fun _ => 0,
           acRoot := false, assetCode := fun _ => none, aiRoot := false, assetId := fun _ => 0,
           suicided := true }

/-- one SafeAccount setter: the log payload is computed from the getters *before* the write -/
def applyWrite (a : Acct) : Write → WRes
  | .balance v => .ok { a with balance := v } (.balance a.balance)
  | .votes v => .ok { a with votes := v } (.votes a.votes)
  | .voteFor v => .ok { a with voteFor := v } (.voteFor a.voteFor)
  | .signers v => .ok { a with signers := v } (.signers a.signers)
  | .storage k v => .ok { a with storage := upd a.storage k v } (.storage k (a.getStorage k))
  | .assetId k v => .ok { a with assetId := upd a.assetId k v } (.assetId k (a.getAssetId k))
  | .equity k v => .ok { a with equity := upd a.equity k v } (.equity k (a.getEquity k))
  | .assetCode k v => .ok (a.setAssetCodeRaw k v) (.assetCode k (a.getAssetCode k))
  | .assetCodeState c key v =>
    match a.getAssetCode c with
    | none => .logErr (.assetCodeState c key 0)   -- NewAssetCodeStateLog tolerates ErrAssetNotExist; the raw setter then fails
    -- profile slots are RAW: 0 = the key is absent, n+1 = present with value n (value 0 = ""). The setter makes the key
    -- present; the log remembers the raw old slot, so that undo removes a key that did not exist (fix after 121c785:
    -- the code before it restored such a key as "" and the asset's encoding — hence the block's roots — changed)
    | some as => .ok (a.setAssetCodeRaw c (some (setAssetProfile as key (v + 1)))) (.assetCodeState c key (getAssetProfile as key))
  | .assetCodeSupply c v =>
    match a.getAssetCode c with
    | none => .panic
    | some as => .ok (a.setAssetCodeRaw c (some { as with supply := v })) (.assetCodeSupply c as.supply)
  | .candidate p => .ok { a with profile := p } (.candidate a.profile)
  | .candidateState k v => .ok { a with profile := upd a.profile k v } (.candidateState k (a.profile k))
  | .code id => .ok (a.setCodeRaw id) .code
  | .event => .ok a .event
  | .suicide => .ok a.setSuicideRaw (.suicide a.balance a.codeHash a.sRoot)

inductive URes where
  | ok (a : Acct)
  | err            -- Undo returned an error: RevertToSnapshot panics

/-- `ChangeLog.Undo` -/
def applyUndo (equityNilOk : Bool) (a : Acct) : Undo → URes
  | .balance o => .ok { a with balance := o }
  | .votes o => .ok { a with votes := o }
  | .voteFor o => .ok { a with voteFor := o }
  | .signers o => .ok { a with signers := o }
  | .storage k o => .ok { a with storage := upd a.storage k o }
  | .assetId k o => .ok { a with assetId := upd a.assetId k o }
  | .equity k o =>
    match o with
    | none => if equityNilOk then .ok { a with equity := upd a.equity k none } else .err
    | some v => .ok { a with equity := upd a.equity k (some v) }
  | .assetCode k o => .ok (a.setAssetCodeRaw k o)
  | .assetCodeState c key o =>
    match a.getAssetCode c with
    | none => .err
    | some as => .ok (a.setAssetCodeRaw c (some (setAssetProfile as key o)))
  | .assetCodeSupply c o =>
    match a.getAssetCode c with
    | none => .err
    | some as => .ok (a.setAssetCodeRaw c (some { as with supply := o }))
  | .candidate o => .ok { a with profile := o }
  | .candidateState k o => .ok { a with profile := upd a.profile k o }
  | .code => .ok (a.setCodeRaw 0)
  | .event => .ok a
  | .suicide ob och osr =>
    .ok { a with balance := ob, codeHash := och, code := 0, sRoot := osr,
                 storage := (fun k => if osr then a.com.storage k else 0), suicided := false }

/-- journal state -/
structure St where
  accts : Nat → Acct
  logs : List Log := []            -- oldest first
  revs : List (Nat × Nat) := []    -- (id, journalIndex), oldest first
  nextRev : Nat := 0

inductive Out where
  | ok
  | err
  | snap (id : Nat)
  | panic
  deriving Repr, DecidableEq

def bumpVer (a : Acct) (t : Nat) : Acct × Nat :=
  let v := a.nextVer t + 1
  ({ a with nextVer := upd a.nextVer t v }, v)

/-- a SafeAccount setter on account `addr`. The version is taken (counter bumped) when the log is built. -/
def write (s : St) (addr : Nat) (w : Write) : St × Out :=
  match applyWrite (s.accts addr) w with
  | .logErr u =>
    let (a, v) := bumpVer (s.accts addr) w.ty
    ({ s with accts := upd s.accts addr a, logs := s.logs ++ [{ addr := addr, ty := w.ty, ver := v, undo := u }] }, .err)
  | .panic => (s, .panic)
  | .ok a u =>
    let (a, v) := bumpVer a w.ty
    ({ s with accts := upd s.accts addr a, logs := s.logs ++ [{ addr := addr, ty := w.ty, ver := v, undo := u }] }, .ok)

def snapshot (s : St) : St × Out :=
  ({ s with revs := s.revs ++ [(s.nextRev, s.logs.length)], nextRev := s.nextRev + 1 }, .snap s.nextRev)

/-- the `lastVersions` map of RevertToSnapshot -/
abbrev Last := List ((Nat × Nat) × Nat)
def Last.get (l : Last) (k : Nat × Nat) : Option Nat := (l.find? (fun e => e.1 == k)).map (·.2)

/-- `(!ok || last-1 == changeLog.Version)` of RevertToSnapshot -/
def verOK (o : Option Nat) (ver : Nat) : Bool :=
  match o with
  | none => true
  | some lv => lv - 1 == ver

/-- undo the logs in `ls` (given newest first) -/
def undoLoop (restoreCounter equityNilOk : Bool) : (ls : List Log) → (accts : Nat → Acct) → (last : Last) → Option (Nat → Acct)
  | [], accts, _ => some accts
  | l :: rest, accts, last =>
    let a := accts l.addr
    let okv := verOK (last.get (l.addr, l.ty)) l.ver && decide (a.baseVer l.ty < l.ver)
    if !okv then none
    else
      match applyUndo equityNilOk a l.undo with
      | .err => none
      | .ok a' =>
        let a' := if restoreCounter then { a' with nextVer := upd a'.nextVer l.ty (l.ver - 1) } else a'
        undoLoop restoreCounter equityNilOk rest (upd accts l.addr a') (((l.addr, l.ty), l.ver) :: last)

def revert (restoreCounter equityNilOk : Bool) (s : St) (id : Nat) : St × Out :=
  match s.revs.findIdx? (fun r => r.1 == id) with
  | none => (s, .panic)
  | some idx =>
    match s.revs[idx]? with
    | none => (s, .panic)
    | some (_, j) =>
      match undoLoop restoreCounter equityNilOk (s.logs.drop j).reverse s.accts [] with
      | none => (s, .panic)
      | some accts => ({ s with accts := accts, logs := s.logs.take j, revs := s.revs.take idx }, .ok)

inductive Op where
  | w (addr : Nat) (w : Write)
  | snap
  | rev (id : Nat)

def step (rc en : Bool) (s : St) : Op → St × Out
  | .w a w => write s a w
  | .snap => snapshot s
  | .rev id => revert rc en s id

def run (rc en : Bool) (s : St) : List Op → St
  | [] => s
  | o :: os => run rc en (step rc en s o).1 os

end LemoModel.Journal

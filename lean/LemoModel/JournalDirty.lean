/-
  C07 — the PENDING-WRITE layer of the change journal: the `dirty` sets of the four StorageCaches of an
  account (contract storage, asset code, asset id, equity: chain/account/account.go), the `OldClean` flag of
  a change log, `StorageCache.RevertState`, and what `Manager.MergeChangeLogs` + `Manager.Finalise` publish.

  `LemoModel.Journal` models every attribute by the VIEW the getters return; the dirty set of a cache is
  invisible to reads.  It is not invisible to `Finalise`: `StorageCache.Update(root)` returns `common.Hash{}`
  only when the root is zero AND nothing is queued — one queued write, even a no-op, makes it load the trie and
  return the hash of the empty trie (0x56e81f17…), which `Manager.Finalise` publishes as a root log.
  This layer runs in lockstep with the Journal model (same writes, same journal) and adds

    * `Dirty`          the key sets of the four `dirty` maps of one account (sorted, duplicate free — a Go map's key set);
    * `Side.clean`     `ChangeLog.OldClean` (NewStorageLog / NewAssetIdLog / NewEquityLog: the slot had no queued write);
    * `dirtyWrite`     what the raw setter does to the sets (SetState: insert; DelState: delete; Reset: clear);
    * `undoDirty1`     what the undo functions do to them.  `exactUndo = true` is the code as it is now
                       (undoStorage / undoAssetId / undoEquity call `RevertState` when `OldClean`);
                       `exactUndo = false` is the code before commit 3a69bc7 (always `SetState`).
                       The asset-code family (undoAssetCode / undoAssetCodeState / undoAssetCodeTotalSupply) has no such
                       flag: it restores through `SetAssetCode(code, old)`, i.e. `DelState` when the asset did not exist
                       (nothing stays queued: that is why the asset-code trie showed no trace) and `SetState` otherwise
                       (a no-op write stays queued for an asset that was committed and clean; harmless, its root is not zero);
    * `Side.pub`       what `MergeChangeLogs` needs of a log: its merge key and old / new value, or the verdict of `IsValuable`;
    * `publish`        the change-log list after `MergeChangeLogs` + `Finalise`: merged, unchanged logs removed, versions
                       renumbered by `updateVersion`, and the root logs `Finalise` appends for every account with ≥ 1 log
                       (`finaliseRoots`).

  Core Lean only.
-/
import LemoModel.Journal
namespace LemoModel.JournalDirty
open LemoModel.Journal

/-! ### key sets -/

/-- insert into a sorted duplicate-free list (`dirty[key] = value`) -/
def ins (k : Nat) : List Nat → List Nat
  | [] => [k]
  | x :: xs => if k < x then k :: x :: xs else if k = x then x :: xs else x :: ins k xs

/-- `delete(dirty, key)` -/
def del (k : Nat) (l : List Nat) : List Nat := l.filter (fun x => x != k)

/-- the key sets of the `dirty` maps of `Account.storage / assetCode / assetId / equity` -/
structure Dirty where
  s : List Nat := []
  ac : List Nat := []
  ai : List Nat := []
  e : List Nat := []
  deriving DecidableEq, Repr, Inhabited

/-! ### what MergeChangeLogs / IsValuable need of a log -/

inductive Pub where
  /-- a log type `needMerge` does not merge; `valuable` = the verdict of `IsValuable` on its OldVal / NewVal -/
  | fixed (valuable : Bool)
  /-- a merged log type: key = (type, Extra); the merged log keeps the FIRST OldVal and the LAST NewVal -/
  | merge (extra : Nat) (old new : Option Int)
  deriving DecidableEq, Repr, Inhabited

/-- the local part of a change log that the Journal model does not carry -/
structure Side where
  clean : Bool := false      -- ChangeLog.OldClean
  pub : Pub := .fixed true
  deriving DecidableEq, Repr, Inhabited

def nonEmptyHash (codeHash : Nat) : Bool := !(codeHash == 0 || codeHash == 1)

/-- the raw setter's effect on the dirty sets, and the local fields of the log made just before it (both computed on
    the account as it is BEFORE the write, like NewXxxLog does).  Only meaningful when `applyWrite a w` is `.ok`. -/
def dirtyWrite (d : Dirty) (a : Acct) : Write → Dirty × Side
  | .balance v => (d, { pub := .merge 0 (some a.balance) (some v) })
  | .votes v => (d, { pub := .merge 0 (some a.votes) (some v) })
  | .voteFor v => (d, { pub := .merge 0 (some (Int.ofNat a.voteFor)) (some (Int.ofNat v)) })
  | .signers _ => (d, { pub := .fixed true })
  | .storage k v => ({ d with s := ins k d.s }, { clean := !(d.s.contains k), pub := .fixed (a.getStorage k != v) })
  | .assetId k v => ({ d with ai := ins k d.ai }, { clean := !(d.ai.contains k), pub := .fixed (a.getAssetId k != v) })
  | .equity k v => ({ d with e := ins k d.e }, { clean := !(d.e.contains k), pub := .merge k (a.getEquity k) v })
  | .assetCode k v =>
    -- SetAssetCode(code, nil) is DelState; both typed-nil *Asset pointers compare equal in IsValuable's default branch
    ({ d with ac := match v with | none => del k d.ac | some _ => ins k d.ac },
     { pub := .fixed ((a.getAssetCode k).isSome || v.isSome) })
  | .assetCodeState c _ _ => ({ d with ac := ins c d.ac }, { pub := .fixed true })   -- `case AssetCodeStateLog:` is an empty case: always valuable
  | .assetCodeSupply c v =>
    ({ d with ac := ins c d.ac }, { pub := .merge c ((a.getAssetCode c).map (·.supply)) (some v) })
  | .candidate _ => (d, { pub := .fixed true })                                  -- pointers to two fresh profiles never compare equal
  | .candidateState k v => (d, { pub := .fixed (a.profile k != v) })
  | .code id => (d, { pub := .fixed (id != 0) })
  | .event => (d, { pub := .fixed true })
  | .suicide =>
    -- SetStorageRoot / SetAssetCodeRoot / SetAssetIdRoot reset their caches; the equity cache is not touched
    ({ d with s := [], ac := [], ai := [] },
     { pub := .fixed (a.balance != 0 || nonEmptyHash a.codeHash || a.sRoot) })

/-- `ChangeLog.Undo`, seen from the dirty sets.  `a` is the account at that moment (undoAssetCodeState /
    undoAssetCodeTotalSupply read the asset first; when it is missing Undo fails and RevertToSnapshot panics — the
    Journal model decides that, this function is then never used). -/
def undoDirty1 (exactUndo : Bool) (d : Dirty) (u : Undo) (clean : Bool) : Dirty :=
  match u with
  | .storage k _ => if exactUndo && clean then { d with s := del k d.s } else { d with s := ins k d.s }
  | .assetId k _ => if exactUndo && clean then { d with ai := del k d.ai } else { d with ai := ins k d.ai }
  | .equity k _ => if exactUndo && clean then { d with e := del k d.e } else { d with e := ins k d.e }
  | .assetCode k o => { d with ac := match o with | none => del k d.ac | some _ => ins k d.ac }
  | .assetCodeState c _ _ => { d with ac := ins c d.ac }
  | .assetCodeSupply c _ => { d with ac := ins c d.ac }
  | .suicide _ _ _ => { d with s := [] }      -- undoSuicide: SetStorageRoot(old) resets the storage cache once more
  | _ => d

/-! ### the journal with its pending-write layer -/

structure DSt where
  st : St
  dirty : Nat → Dirty := fun _ => {}
  side : List Side := []          -- parallel to `st.logs`

/-- a SafeAccount setter -/
def writeD (s : DSt) (addr : Nat) (w : Write) : DSt × Out :=
  match applyWrite (s.st.accts addr) w with
  | .panic => (s, .panic)
  | .logErr _ =>
    -- the log is pushed, then the raw setter fails (SetAssetCodeState on a missing asset): nothing is queued
    ({ s with st := (write s.st addr w).1, side := s.side ++ [{ pub := .fixed true }] }, (write s.st addr w).2)
  | .ok _ _ =>
    let r := dirtyWrite (s.dirty addr) (s.st.accts addr) w
    ({ st := (write s.st addr w).1, dirty := upd s.dirty addr r.1, side := s.side ++ [r.2] }, (write s.st addr w).2)

def snapshotD (s : DSt) : DSt × Out := ({ s with st := (snapshot s.st).1 }, (snapshot s.st).2)

/-- undo, newest first, of the journal entries in `ls` -/
def undoDirty (exactUndo : Bool) : List (Log × Side) → (Nat → Dirty) → (Nat → Dirty)
  | [], D => D
  | (l, sd) :: rest, D => undoDirty exactUndo rest (upd D l.addr (undoDirty1 exactUndo (D l.addr) l.undo sd.clean))

/-- the journal index a revision id stands for (the lookup of RevertToSnapshot) -/
def revTarget (s : St) (id : Nat) : Option Nat :=
  match s.revs.findIdx? (fun r => r.1 == id) with
  | none => none
  | some idx =>
    match s.revs[idx]? with
    | none => none
    | some (_, j) => some j

/-- `RevertToSnapshot` (current counter / nil-equity behaviour; `exactUndo` selects the code before / after 3a69bc7).
    The Journal model decides whether it succeeds and what the accounts read afterwards; this layer undoes the
    dirty sets of the same journal entries, newest first. -/
def revertD (exactUndo : Bool) (s : DSt) (id : Nat) : DSt × Out :=
  let r := revert true true s.st id
  match r.2, revTarget s.st id with
  | .ok, some j =>
    ({ st := r.1, dirty := undoDirty exactUndo ((s.st.logs.zip s.side).drop j).reverse s.dirty, side := s.side.take j }, .ok)
  | _, _ => ({ s with st := r.1 }, r.2)

def stepD (x : Bool) (s : DSt) : Op → DSt × Out
  | .w a w => writeD s a w
  | .snap => snapshotD s
  | .rev id => revertD x s id

def runD (x : Bool) (s : DSt) : List Op → DSt
  | [] => s
  | o :: os => runD x (stepD x s o).1 os

/-! ### MergeChangeLogs + Finalise -/

def tStorageRoot := 3
def tAssetCodeRoot := 6
def tAssetIdRoot := 9
def tEquityRoot := 11

/-- a published change log. `root = some r`: a root log whose OldVal is the zero hash (`r = false`) or the root the
    account was loaded with (`r = true`); its NewVal is the hash of the trie holding what the getters return. -/
structure PLog where
  addr : Nat
  ty : Nat
  ver : Nat
  root : Option Bool := none
  deriving DecidableEq, Repr, Inhabited

/-- `merge` of log_compressor.go for the logs of one account: (type, pub) in journal order -/
def mergeStep (res : List (Nat × Pub)) (l : Nat × Pub) : List (Nat × Pub) :=
  match l.2 with
  | .fixed _ => res ++ [l]
  | .merge e _ n =>
    if res.any (fun r => r.1 == l.1 && (match r.2 with | .merge e' _ _ => e' == e | .fixed _ => false)) then
      res.map (fun r => match r.2 with
        | .merge e' o' _ => if r.1 == l.1 && e' == e then (r.1, .merge e' o' n) else r
        | .fixed _ => r)
    else res ++ [l]

def mergeAcct (ls : List (Nat × Pub)) : List (Nat × Pub) := ls.foldl mergeStep []

/-- `IsValuable` -/
def valuable (ty : Nat) : Pub → Bool
  | .fixed b => b
  | .merge _ o n => if ty = tEquity then o.isSome || n.isSome else o != n

/-- `updateVersion`: the surviving logs of an account are renumbered per type from the stored version -/
def renumber (a : Acct) (addr : Nat) : List Nat → List (Nat × Nat) → List PLog
  | [], _ => []
  | t :: ts, seen =>
    let n := ((seen.find? (fun e => e.1 == t)).map (·.2)).getD (a.baseVer t)
    { addr := addr, ty := t, ver := n + 1 } :: renumber a addr ts ((t, n + 1) :: seen)

/-- one trie in `Account.updateTrie` + `Manager.Finalise`: is a root log published, and with which OldVal?
    root zero: `Update` answers zero only when nothing is queued; otherwise the trie is loaded and hashed, and the hash of a
    trie is never zero (an empty one has 0x56e81f17…).  root set: the hash changes iff a queued write changes the content. -/
def rootLog (rootSet : Bool) (dirty : List Nat) (changed : Nat → Bool) : Option Bool :=
  if rootSet then (if dirty.any changed then some true else none)
  else (if dirty.isEmpty then none else some false)

/-- the root logs `Finalise` pushes for one account that has at least one log (in the order of Manager.Finalise) -/
def finaliseRoots (a : Acct) (d : Dirty) (addr : Nat) : List PLog :=
  let one (ty : Nat) (r : Option Bool) : List PLog :=
    match r with
    | none => []
    | some old => [{ addr := addr, ty := ty, ver := a.nextVer ty + 1, root := some old }]
  one tStorageRoot (rootLog a.sRoot d.s (fun k => a.storage k != a.com.storage k))
  ++ one tAssetCodeRoot (rootLog a.acRoot d.ac (fun k => a.assetCode k != a.com.assetCode k))
  ++ one tAssetIdRoot (rootLog a.aiRoot d.ai (fun k => a.assetId k != a.com.assetId k))
  ++ one tEquityRoot (rootLog a.eRoot d.e (fun k => a.equity k != a.com.equity k))

/-- the addresses that have a journal entry, ascending (MergeChangeLogs and Finalise both sort by address) -/
def logAddrs (logs : List Log) : List Nat := logs.foldl (fun acc l => ins l.addr acc) []

/-- the merged, filtered logs of one account -/
def survivors (s : DSt) (addr : Nat) : List Nat :=
  let mine := ((s.st.logs.zip s.side).filter (fun p => p.1.addr == addr)).map (fun p => (p.1.ty, p.2.pub))
  ((mergeAcct mine).filter (fun p => valuable p.1 p.2)).map (·.1)

/-- the change-log list after `MergeChangeLogs` + `Finalise`: the merged logs account by account, then the root logs
    of every account that still has a log, account by account -/
def publish (s : DSt) : List PLog :=
  let addrs := logAddrs s.st.logs
  let merged := addrs.flatMap (fun i => renumber (s.st.accts i) i (survivors s i) [])
  let roots := addrs.flatMap (fun i =>
    if (survivors s i).isEmpty then [] else finaliseRoots (s.st.accts i) (s.dirty i) i)
  merged ++ roots

/-! ### a discarded span and the ids after it -/

/-- revision ids are never reused: a script that continues after `d` extra snapshots were taken (and reverted) names
    its later snapshots `d` higher -/
def shiftId (n0 d id : Nat) : Nat := if id < n0 then id else id + d

def shiftOp (n0 d : Nat) : Op → Op
  | .rev id => .rev (shiftId n0 d id)
  | o => o

end LemoModel.JournalDirty

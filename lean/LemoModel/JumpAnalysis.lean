/-
  C16 — the jump-destination analysis of the interpreter (chain/vm/analysis.go) and the
  byte-slice helpers of the instruction bodies (chain/vm/common.go getData / getDataBig,
  chain/vm/memory.go Set / Get / GetPtr / Resize), byte for byte.  Core Lean only.

  Every Go slice index / slice expression is an explicit bounds check; an index out of range
  (a Go runtime panic) is `none`, never a defaulted read.  Bytes are `UInt8` and the byte
  operations are the real ones (`0x80 >> (pos%8)`, `0xFF >> (pos%8)`, `^(…)`, `|=`, `&`).

      type bitvec []byte
      func (bits *bitvec) set(pos uint64)   { (*bits)[pos/8] |= 0x80 >> (pos % 8) }
      func (bits *bitvec) set8(pos uint64)  { (*bits)[pos/8] |= 0xFF >> (pos % 8)
                                              (*bits)[pos/8+1] |= ^(0xFF >> (pos % 8)) }
      func (bits *bitvec) codeSegment(pos uint64) bool { return ((*bits)[pos/8] & (0x80 >> (pos % 8))) == 0 }
      func codeBitmap(code []byte) bitvec {
          bits := make(bitvec, len(code)/8+1+4)
          for pc := uint64(0); pc < uint64(len(code)); {
              op := OpCode(code[pc])
              if op >= PUSH1 && op <= PUSH32 {
                  numbits := op - PUSH1 + 1
                  pc++
                  for ; numbits >= 8; numbits -= 8 { bits.set8(pc); pc += 8 }
                  for ; numbits > 0; numbits-- { bits.set(pc); pc++ }
              } else { pc++ }
          }
          return bits
      }
      func (d destinations) has(codehash common.Hash, code []byte, dest *big.Int) bool {
          udest := dest.Uint64()
          if dest.BitLen() >= 63 || udest >= uint64(len(code)) { return false }
          m, analysed := d[codehash]
          if !analysed { m = codeBitmap(code); d[codehash] = m }
          return OpCode(code[udest]) == JUMPDEST && m.codeSegment(udest)
      }

  Positions are naturals: `pc` is a uint64 that never exceeds len(code)+32 < 2^64.
  The allocation size is a parameter (`alloc`) of the model so that the need for the slack of the
  real one (`allocLen`) can be stated: `allocLenTight` is the size without the slack.
-/
namespace LemoModel.JumpAnalysis

abbrev Code := List UInt8
abbrev Bits := List UInt8

def PUSH1 : UInt8 := 0x60
def PUSH32 : UInt8 := 0x7f
def JUMPDEST : UInt8 := 0x5b

/-- `len(code)/8+1+4`: the size `codeBitmap` asks `make` for -/
def allocLen (code : Code) : Nat := code.length / 8 + 1 + 4

/-- the size without the slack ("one byte per 8 code bytes, rounded up, plus 4") -/
def allocLenTight (code : Code) : Nat := (code.length + 7) / 8 + 4

/-- the shift count `pos % 8` as a byte -/
def sh (pos : Nat) : UInt8 := UInt8.ofNat (pos % 8)

/-- `0x80 >> (pos % 8)` -/
def mask1 (pos : Nat) : UInt8 := (0x80 : UInt8) >>> sh pos
/-- `0xFF >> (pos % 8)` -/
def maskLo (pos : Nat) : UInt8 := (0xFF : UInt8) >>> sh pos
/-- `^(0xFF >> (pos % 8))` -/
def maskHi (pos : Nat) : UInt8 := ~~~ ((0xFF : UInt8) >>> sh pos)

/-- `(*bits)[i] |= m`; `none` = index out of range -/
def orAt (bits : Bits) (i : Nat) (m : UInt8) : Option Bits :=
  match bits[i]? with
  | some b => some (bits.set i (b ||| m))
  | none => none

/-- `bitvec.set` -/
def set1 (bits : Bits) (pos : Nat) : Option Bits := orAt bits (pos / 8) (mask1 pos)

/-- `bitvec.set8` -/
def set8 (bits : Bits) (pos : Nat) : Option Bits :=
  match orAt bits (pos / 8) (maskLo pos) with
  | some b => orAt b (pos / 8 + 1) (maskHi pos)
  | none => none

/-- `bitvec.codeSegment` -/
def codeSegment (bits : Bits) (pos : Nat) : Option Bool :=
  match bits[pos / 8]? with
  | some b => some ((b &&& mask1 pos) == 0)
  | none => none

/-- `for ; numbits >= 8; numbits -= 8 { bits.set8(pc); pc += 8 }` : (bits, pc, numbits) afterwards -/
def loop8 (bits : Bits) (pc : Nat) : Nat → Option (Bits × Nat × Nat)
  | n + 8 =>
    match set8 bits pc with
    | some b => loop8 b (pc + 8) n
    | none => none
  | n => some (bits, pc, n)

/-- `for ; numbits > 0; numbits-- { bits.set(pc); pc++ }` : (bits, pc) afterwards -/
def loop1 (bits : Bits) (pc : Nat) : Nat → Option (Bits × Nat)
  | n + 1 =>
    match set1 bits pc with
    | some b => loop1 b (pc + 1) n
    | none => none
  | 0 => some (bits, pc)

def isPush (op : UInt8) : Bool := decide (PUSH1 ≤ op) && decide (op ≤ PUSH32)

/-- `op - PUSH1 + 1` for a push opcode (1..32, no byte overflow) -/
def numbits (op : UInt8) : Nat := op.toNat - PUSH1.toNat + 1

/-- one iteration of the outer loop at an opcode `op` read at `pc`: (bits, pc) afterwards -/
def stepOp (bits : Bits) (pc : Nat) (op : UInt8) : Option (Bits × Nat) :=
  if isPush op then
    match loop8 bits (pc + 1) (numbits op) with
    | some (b, pc', n) => loop1 b pc' n
    | none => none
  else some (bits, pc + 1)

/-- the outer loop. `code[pc]? = none` is the loop condition `pc < len(code)` failing. The fuel bounds
    the number of iterations (every iteration advances `pc`, so `len(code) - pc` is enough:
    `scan_fuel_irrelevant`); running out of it is reported as `none`, never as a result. -/
def scan (code : Code) : Nat → Nat → Bits → Option Bits
  | fuel, pc, bits =>
    match code[pc]? with
    | none => some bits
    | some op =>
      match fuel with
      | 0 => none
      | fuel + 1 =>
        match stepOp bits pc op with
        | some (b, pc') => scan code fuel pc' b
        | none => none

/-- `codeBitmap` with the allocation size as a parameter -/
def codeBitmapWith (alloc : Code → Nat) (code : Code) : Option Bits :=
  scan code code.length 0 (List.replicate (alloc code) 0)

/-- `codeBitmap` as it is -/
def codeBitmap (code : Code) : Option Bits := codeBitmapWith allocLen code

/-! ### destinations.has -/

/-- `big.Int.BitLen` of a non-negative integer -/
def bitLen (n : Nat) : Nat := if n = 0 then 0 else Nat.log2 n + 1

def u64 : Nat := 18446744073709551616

/-- the per-code-hash cache `destinations` (a Go map; keys are abstract code hashes) -/
abbrev Cache := List (Nat × Bits)

/-- `m, analysed := d[codehash]; if !analysed { m = codeBitmap(code); d[codehash] = m }`:
    the vector used and the map afterwards -/
def analysed (alloc : Code → Nat) (d : Cache) (h : Nat) (code : Code) : Option (Bits × Cache) :=
  match d.lookup h with
  | some m => some (m, d)
  | none =>
    match codeBitmapWith alloc code with
    | some m => some (m, (h, m) :: d)
    | none => none

/-- `destinations.has(codehash, code, dest)`: the answer and the cache afterwards. `dest` is the
    stack word (a non-negative big.Int). -/
def hasWith (alloc : Code → Nat) (d : Cache) (h : Nat) (code : Code) (dest : Nat) : Option (Bool × Cache) :=
  let udest := dest % u64
  if bitLen dest ≥ 63 ∨ udest ≥ code.length then some (false, d)
  else
    match analysed alloc d h code with
    | none => none
    | some (m, d') =>
      match code[udest]? with
      | none => none
      | some op =>
        if op == JUMPDEST then
          match codeSegment m udest with
          | some b => some (b, d')
          | none => none
        else some (false, d')

def has (d : Cache) (h : Nat) (code : Code) (dest : Nat) : Option (Bool × Cache) :=
  hasWith allocLen d h code dest

/-- `validJumpdest`: `has` on an empty cache (a fresh `destinations` map) -/
def validJumpdest (code : Code) (dest : Nat) : Option Bool :=
  (has [] 0 code dest).map (·.1)

/-! ### structural specification -/

/-- number of immediate bytes of an opcode -/
def pushLen (op : UInt8) : Nat := if isPush op then numbits op else 0

/-- `walk code k`: for every position of `code`, whether it is PUSH data, when the first `k`
    positions still belong to the immediate of an earlier PUSH -/
def walk : Code → Nat → List Bool
  | [], _ => []
  | _ :: rest, k + 1 => true :: walk rest k
  | op :: rest, 0 => false :: walk rest (pushLen op)

/-- position `j` is PUSH data -/
def isData (code : Code) (j : Nat) : Bool := (walk code 0).getD j false

/-- position `j` is an opcode position -/
def isOpcodePos (code : Code) (j : Nat) : Bool := decide (j < code.length) && !isData code j

/-- bit `j` of a bit vector (bit 7 of byte 0 first); `false` beyond the vector (specification only) -/
def bit (bits : Bits) (j : Nat) : Bool :=
  match bits[j / 8]? with
  | some b => (b &&& mask1 j) != 0
  | none => false

/-- the specification of `has` -/
def specValid (code : Code) (dest : Nat) : Bool :=
  decide (dest < code.length) && (code.getD dest 0 == JUMPDEST) && !isData code dest

/-! ### getData / getDataBig (chain/vm/common.go)

      func getData(data []byte, start uint64, size uint64) []byte {
          length := uint64(len(data))
          if start > length { start = length }
          end := start + size
          if end > length { end = length }
          return common.RightPadBytes(data[start:end], int(size))
      }
      func getDataBig(data []byte, start *big.Int, size *big.Int) []byte {
          dlen := big.NewInt(int64(len(data)))
          s := math.BigMin(start, dlen)
          e := math.BigMin(new(big.Int).Add(s, size), dlen)
          return common.RightPadBytes(data[s.Uint64():e.Uint64()], int(size.Uint64()))
      }
      func RightPadBytes(slice []byte, l int) []byte {
          if l <= len(slice) { return slice }
          padded := make([]byte, l); copy(padded, slice); return padded
      }
-/

def i63 : Nat := 9223372036854775808

/-- `data[lo:hi]`; `none` = slice bounds out of range -/
def slice (data : List UInt8) (lo hi : Nat) : Option (List UInt8) :=
  if lo ≤ hi ∧ hi ≤ data.length then some ((data.drop lo).take (hi - lo)) else none

/-- `common.RightPadBytes(slice, int(size))`, `size` a uint64: a size ≥ 2^63 is a negative int -/
def rightPad (s : List UInt8) (size : Nat) : List UInt8 :=
  if size ≥ i63 ∨ size ≤ s.length then s else s ++ List.replicate (size - s.length) 0

/-- `getData` (uint64 arithmetic: `start + size` wraps) -/
def getData (data : List UInt8) (start size : Nat) : Option (List UInt8) :=
  let length := data.length
  let start := if start > length then length else start
  let e := (start + size) % u64
  let e := if e > length then length else e
  match slice data start e with
  | some s => some (rightPad s size)
  | none => none

/-- `getDataBig` (`start`, `size` non-negative big.Int) -/
def getDataBig (data : List UInt8) (start size : Nat) : Option (List UInt8) :=
  let dlen := data.length
  let s := min start dlen
  let e := min (s + size) dlen
  match slice data (s % u64) (e % u64) with
  | some x => some (rightPad x (size % u64))
  | none => none

/-! ### Memory (chain/vm/memory.go)

  The store is a Go slice: its visible bytes and its capacity (append over-allocates). A slice
  expression `store[lo:hi]` is checked against the CAPACITY, an index `store[i]` against the length.

      func (m *Memory) Set(offset, size uint64, value []byte) {
          if size > uint64(len(m.store)) { panic("INVALID memory: store empty") }
          if size > 0 { copy(m.store[offset:offset+size], value) }
      }
      func (m *Memory) Resize(size uint64) {
          if uint64(m.Len()) < size { m.store = append(m.store, make([]byte, size-uint64(m.Len()))...) }
      }
      func (self *Memory) Get(offset, size int64) (cpy []byte) {
          if size == 0 { return nil }
          if len(self.store) > int(offset) { cpy = make([]byte, size); copy(cpy, self.store[offset:offset+size]); return }
          return
      }
-/

/-- the store: the backing array up to its capacity, and the visible length (`len ≤ buf.length`) -/
structure Mem where
  buf : List UInt8
  len : Nat
  deriving Repr, DecidableEq

/-- the visible bytes `m.store[0:len]` -/
def Mem.visible (m : Mem) : List UInt8 := m.buf.take m.len

/-- overwrite `l` from position `off` with the bytes of `v` (`copy` into the sub-slice `l[off:]`) -/
def overwrite (l : List UInt8) (off : Nat) (v : List UInt8) : List UInt8 :=
  l.take off ++ (v.take (l.length - off) ++ l.drop (off + v.length))

/-- `Memory.Set` (offset, size are uint64: `offset+size` wraps) -/
def memSet (m : Mem) (offset size : Nat) (value : List UInt8) : Option Mem :=
  if size > m.len then none
  else if size = 0 then some m
  else
    let hi := (offset + size) % u64
    if offset ≤ hi ∧ hi ≤ m.buf.length then
      some { m with buf := overwrite m.buf offset (value.take (hi - offset)) }
    else none

/-- `Memory.Get` with non-negative int64 arguments (`offset, size < 2^63`); `nil` and the empty slice
    are the same value here -/
def memGet (m : Mem) (offset size : Nat) : Option (List UInt8) :=
  if size = 0 then some []
  else if m.len > offset then
    match slice m.buf offset (offset + size) with
    | some s => some s
    | none => none
  else some []

/-- `Memory.GetPtr` (same index arithmetic as `Get`, no copy) -/
def memGetPtr (m : Mem) (offset size : Nat) : Option (List UInt8) := memGet m offset size

/-- `Memory.Resize`: append zeroes up to `size`. When the capacity suffices the backing array is
    reused (the appended zeroes overwrite the spare bytes); otherwise a new array is allocated, whose
    capacity is the allocator's choice and is modelled as exactly `size`. -/
def memResize (m : Mem) (size : Nat) : Mem :=
  if m.len < size then
    if size ≤ m.buf.length then
      { buf := m.buf.take m.len ++ (List.replicate (size - m.len) 0 ++ m.buf.drop size), len := size }
    else { buf := m.buf.take m.len ++ List.replicate (size - m.len) 0, len := size }
  else m

end LemoModel.JumpAnalysis

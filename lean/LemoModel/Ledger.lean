/-
  Ledger model — block execution for the non-EVM transaction types, as coded in
  chain/transaction/tx_processor.go (applyTx, buyGas, payIntrinsicGas, handleTx, refundGas,
  chargeForGas, checkSignersWeight, verifyTransactionSigs, ChangeVotesByBalance),
  candidate_vote_tx.go (CallVoteTx, modifyCandidateVotes, buildProfile's defaults, registerCandidate, unRegisterCandidate,
  refundDeposit, Refund, modifyCandidateInfo with its overlay loop over the tx-supplied profile and the two protected keys
  it skips, addDepositChangeVotes), box_tx.go (RunBoxTxs) and
  consensus/assembler.go (Finalize: issueTermReward / DivideSalary / calculateSalary, refundCandidateDeposit,
  then ChangeVotesByBalance).  Whether a height is a reward block is the GENERATED `LemoGen.Schedule.IsRewardBlock`.

  Serves C05 (conservation / exact gas), C11 (vote tally), C06 (authorisation), C04 (identity vs
  content) and C01 (miner path ≡ validator path).  Core Lean only.  Tied to the code by `hx c05`.
  The base intrinsic-gas table and the data-gas constants are the GENERATED `LemoGen.Gas` definitions.
-/
import LemoGen.Gas
import LemoGen.Schedule
namespace LemoModel.Ledger
open LemoModel

def upd {β : Type} (f : Nat → β) (k : Nat) (v : β) : Nat → β := fun x => if x = k then v else f x

/-- protocol parameters (package variables of chain/params; sent by the harness) -/
structure Params where
  voteRate : Int := 200000000000000000000       -- VoteExchangeRate (200 LEMO)
  depositRate : Int := 100000000000000000000    -- DepositExchangeRate (100 LEMO)
  minDeposit : Int := 5000000000000000000000000
  termDuration : Nat := 1000000
  interimDuration : Nat := 1000
  pool : Nat := 1                               -- label of DepositPoolAddress
  rewardPrecision : Int := 1000000000000000000  -- MinRewardPrecision (1 LEMO)

structure Acct where
  bal : Int := 0
  voteFor : Nat := 0            -- 0 = nobody
  votes : Int := 0
  isCand : Nat := 0             -- profile[isCandidate]: 0 = absent/"", 1 = "true", 2 = "false", 3 = any other string (the code never validates the flag)
  deposit : Option Int := none  -- profile[depositAmount]; none = absent/""
  income : Nat := 0             -- profile[incomeAddress]; 0 = absent
  isDeputy : Bool := false      -- its node id is a deputy of the current term (IsNodeDeputy)
  signers : List (Nat × Nat) := []
  /-- every OTHER key of the candidate profile (key label ↦ value label; strings are labels, 0 = ""): 1 = nodeID,
      2 = introduction, 3 = host, 4 = port, ≥ 5 = any other key a RegisterTx carried. A map: keys are distinct. -/
  prof : List (Nat × Nat) := []
  deriving Repr

/-! ### the profile a RegisterTx carries (tx.Data: a JSON object of strings) -/

/-- the tx-supplied profile beyond `flag` (isCandidate) and `income` (incomeAddress) of `Kind.register`:
    `deposit` = the entry under the PROTECTED key types.CandidateKeyDepositAmount as the TX carries it — `none`: key absent,
    `some none`: present but not a decimal numeral for big.Int.SetString ("" included), `some (some v)`: the numeral `v`;
    `others` = every other key (nodeID, introduction, host, port, anything else) with its value, in the order written. -/
structure TxProfile where
  deposit : Option (Option Int) := none
  others : List (Nat × Nat) := []
  deriving Repr

def keyNodeID : Nat := 1
def keyIntroduction : Nat := 2

/-- `m[k] = v` on a map kept as an association list with distinct keys -/
def profSet : List (Nat × Nat) → Nat → Nat → List (Nat × Nat)
  | [], k, v => [(k, v)]
  | (k', v') :: r, k, v => if k' = k then (k, v) :: r else (k', v') :: profSet r k v

def profGet : List (Nat × Nat) → Nat → Option Nat
  | [], _ => none
  | (k', v') :: r, k => if k' = k then some v' else profGet r k

/-- `buildProfile` on the opaque keys: the JSON object as a Go map (a repeated key: the last one wins), `introduction`
    defaulted to "" when the tx does not carry it (isCandidate / incomeAddress defaults: `flag` / `income`) -/
def builtProfile (px : TxProfile) : List (Nat × Nat) :=
  let m := px.others.foldl (fun acc kv => profSet acc kv.1 kv.2) []
  match profGet m keyIntroduction with
  | some _ => m
  | none => profSet m keyIntroduction 0

/-- the overlay loop of `modifyCandidateInfo` on the opaque keys: `for key, val := range txBuildProfile` writes every key
    over the stored profile EXCEPT nodeID (and the deposit entry: `depositAfterOverlay`) -/
def overlay (stored : List (Nat × Nat)) (tx : List (Nat × Nat)) : List (Nat × Nat) :=
  tx.foldl (fun acc kv => if kv.1 = keyNodeID then acc else profSet acc kv.1 kv.2) stored

/-- the deposit entry of the candidate profile AFTER the overlay loop (what the top-up branch then reads and what is
    stored). `protectDeposit = true` is the code as it stands: the loop skips types.CandidateKeyDepositAmount, the stored
    entry stays. `false` = the loop WITHOUT that guard (only nodeID skipped): the tx's own entry replaces the stored one. -/
def depositAfterOverlay (protectDeposit : Bool) (stored : Option Int) (px : TxProfile) : Option Int :=
  if protectDeposit then stored
  else match px.deposit with
    | none => stored
    | some v => v

@[simp] theorem depositAfterOverlay_true (stored : Option Int) (px : TxProfile) :
    depositAfterOverlay true stored px = stored := rfl

inductive Kind where
  | transfer (to : Nat) (value : Int)
  | vote (cand : Nat)
  /-- RegisterTx. `flag` = profile[isCandidate] of the tx data: 1 = "true" or key absent (buildProfile's default),
      2 = "false", 0 = "" (key present, empty), 3 = any other string. `income` = 0: key absent (buildProfile puts
      tx.From). `nodeDep`: is the node id named in the tx a deputy at this height (fact; matters on a first registration).
      `px`: the rest of the tx-supplied profile — the protected keys (deposit entry, nodeID) and every other key -/
  | register (amount : Int) (flag : Nat) (income : Nat) (nodeDep : Bool := false) (px : TxProfile := {})
  /-- ModifySignersTx. `tempOk` = `verifyTempAddress(from, to)` passes (to is a temp address built from `from`'s
      last 9 bytes) — a fact about the two addresses' bytes, computed by the harness -/
  | setSigners (target : Nat) (signers : List (Nat × Nat)) (tempOk : Bool := false)
  | box
  | other                 -- any tx type the ledger does not model: rejected by the driver

structure Tx where
  id : Nat
  sender : Nat
  payer : Nat
  gasLimit : Nat
  gasPrice : Int
  txType : Nat            -- params.*Tx number (for the generated base-gas table)
  msgLen : Nat
  nzData : Nat            -- non-zero data bytes
  zData : Nat             -- zero data bytes
  kind : Kind
  fromSigners : Option (List Nat)   -- recovered signer addresses of Sigs, in order; none = recovery error
  payerSigners : Option (List Nat)  -- recovered signer addresses of GasPayerSigs
  subs : List Tx := []

/-- the account state. The block's gas pool (`types.GasPool`) is NOT part of it: it is not journalled,
    so a discarded candidate gets its accounts back but not the gas it had taken from the pool. -/
structure St where
  accts : Nat → Acct

inductive Err where
  | notSigned | signerMismatch | totalWeight | gasPayer | sigError
  | insufficientForGas | gasLimitReached | outOfGas | txType
  | insufficientBalance | notCandidate | alreadyVoted | registerAgain | depositTooSmall
  | depositMissing | boxInBox | signerWeight | signerRepeat | signerCount | tempAddress
  | isCandidate | repeatSetTemp | invalidProfile
  deriving Repr, DecidableEq

def Err.name : Err → String
  | .notSigned => "ErrTxNotSign" | .signerMismatch => "ErrSignerAndFromUnequally"
  | .totalWeight => "ErrTotalWeight" | .gasPayer => "ErrGasPayer" | .sigError => "SigError"
  | .insufficientForGas => "ErrInsufficientBalanceForGas" | .gasLimitReached => "ErrGasLimitReached"
  | .outOfGas => "ErrOutOfGas" | .txType => "ErrTxType" | .insufficientBalance => "ErrInsufficientBalance"
  | .notCandidate => "ErrOfNotCandidateNode" | .alreadyVoted => "ErrAlreadyVoted"
  | .registerAgain => "ErrRegisterAgain" | .depositTooSmall => "ErrInsufficientDepositAmount"
  | .depositMissing => "ErrFailedGetDepositBalacne" | .boxInBox => "BoxInBox"
  | .signerWeight => "ErrWeight" | .signerRepeat => "ErrAddressRepeat" | .signerCount => "ErrSignersNumber"
  | .tempAddress => "ErrTempAddress" | .isCandidate => "ErrIsCandidate" | .repeatSetTemp => "ErrRepeatSetTempAddress"
  | .invalidProfile => "ErrInvalidProfile"

/-! ### authorisation (C06) -/

/-- the distinct elements of a list (first occurrences from the right) -/
def distinct : List Nat → List Nat
  | [] => []
  | x :: xs => if x ∈ distinct xs then distinct xs else x :: distinct xs

def sumNat (l : List Nat) : Nat := l.foldr (· + ·) 0

def weightOf (signers : List (Nat × Nat)) (a : Nat) : Nat :=
  match signers.find? (fun s => s.1 == a) with
  | some s => s.2
  | none => 0

/-- `checkSignersWeight` as coded in the CURRENT tree (after the fix: weights are summed over the
    DISTINCT recovered signers). `dedup = false` is the code before the fix (sum over the list). -/
def checkSigners (dedup : Bool) (acct : Acct) (sender : Nat) (recovered : Option (List Nat)) : Option Err :=
  match recovered with
  | none => some .sigError
  | some [] => some .notSigned
  | some (s0 :: rest) =>
    if acct.signers.isEmpty then
      if s0 = sender then none else some .signerMismatch
    else
      let l := if dedup then distinct (s0 :: rest) else (s0 :: rest)
      let total := sumNat (l.map (weightOf acct.signers))
      if total < 100 then some .totalWeight else none

/-- has the tx any gas-payer signature? (`len(tx.GasPayerSigs()) >= 1`; a recovery error counts as present) -/
def hasPayerSigs (tx : Tx) : Bool :=
  match tx.payerSigners with
  | some [] => false
  | _ => true

/-- first half of `verifyTransactionSigs`: the gas payer -/
def payerCheck (dedup : Bool) (s : St) (tx : Tx) : Option Err :=
  if hasPayerSigs tx then checkSigners dedup (s.accts tx.payer) tx.payer tx.payerSigners
  else if tx.payer ≠ tx.sender then some .gasPayer else none

/-- `verifyTransactionSigs` -/
def verifySigs (dedup : Bool) (s : St) (tx : Tx) : Option Err :=
  match payerCheck dedup s tx with
  | some e => some e
  | none => checkSigners dedup (s.accts tx.sender) tx.sender tx.fromSigners

/-! ### gas -/

def baseGas (txType : Nat) : Option Nat :=
  match LemoGen.Gas.getTxBaseSpendGas (txType := txType) with
  | .ok g => some g
  | _ => none

/-- `IntrinsicGas`: base + message bytes + data bytes (a box's own data is not charged) -/
def intrinsic (tx : Tx) : Option Nat :=
  match baseGas tx.txType with
  | none => none
  | some g =>
    let isBox := match tx.kind with | .box => true | _ => false
    let d := if isBox then 0 else tx.nzData * LemoGen.Gas.TxDataNonZeroGas + tx.zData * LemoGen.Gas.TxDataZeroGas
    some (g + tx.msgLen * LemoGen.Gas.TxMessageGas + d)

/-- update one account by `f` -/
def modAcct (s : St) (a : Nat) (f : Acct → Acct) : St :=
  { s with accts := upd s.accts a (f (s.accts a)) }

def setBal (s : St) (a : Nat) (v : Int) : St :=
  { s with accts := upd s.accts a { s.accts a with bal := v } }

def transfer (s : St) (a b : Nat) (v : Int) : St :=
  let s := setBal s a ((s.accts a).bal - v)
  setBal s b ((s.accts b).bal + v)

/-- `chargeForGas`: credit the income address of the miner's profile; silently nothing without one -/
def chargeForGas (s : St) (miner : Nat) (charge : Int) : St :=
  if charge = 0 then s
  else
    let inc := (s.accts miner).income
    if inc = 0 then s else setBal s inc ((s.accts inc).bal + charge)

/-- what `Finalize` reads, at a reward height, from outside the account state: the reward of the closing term
    (`getTermRewards`: storage of precompile 0x09), the nodes of that term's record (`dm.GetTermByHeight(height-1)`:
    miner address and votes at the snapshot) and the list `LoadRefundCandidates(height)` returned
    (unregistered candidates with a deposit whose node is not a deputy of the NEW term).  Trusted inputs. -/
structure RewardFacts where
  total : Int := 0
  nodes : List (Nat × Int) := []
  refunds : List Nat := []

structure Ctx where
  p : Params
  miner : Nat
  height : Nat
  dedup : Bool := true
  rf : RewardFacts := {}
  /-- `true` = the code as it stands: ChangeVotesByBalance runs AFTER issueTermReward / refundCandidateDeposit.
      `false` = the order in which the vote pass runs first (the salaries and refunds of a reward block then
      never reach the candidates their receivers vote for). -/
  votesLast : Bool := true
  /-- `true` = the code as it stands (after fix cdfc5bc): `CheckRegisterTxProfile` refuses an isCandidate value other than
      "true"/"false" and `registerCandidate` refuses "false" on a first registration. `false` = the code before the fix:
      the flag was never looked at (stored / copied as it came). -/
  flagCheck : Bool := true

/-! ### the non-EVM transaction bodies -/

def doVote (c : Ctx) (s : St) (voter cand : Nat) (initialBal : Int) : Except Err St :=
  let ca := s.accts cand
  -- CallVoteTx refuses absent / "" / "false"; ANY other flag value is accepted as a candidate
  if ca.isCand = 0 ∨ ca.isCand = 2 then .error .notCandidate
  else if (s.accts voter).voteFor = cand then .error .alreadyVoted
  else
    let ex := initialBal / c.p.voteRate
    let s :=
      if ex ≤ 0 then s
      else
        let old := (s.accts voter).voteFor
        let s := if old ≠ 0 ∧ (s.accts old).isCand = 1
          then modAcct s old (fun a => { a with votes := a.votes - ex }) else s
        modAcct s cand (fun a => { a with votes := a.votes + ex })
    .ok (modAcct s voter (fun a => { a with voteFor := cand }))

/-- `Refund` -/
def refund (c : Ctx) (s : St) (cand : Nat) : St :=
  match (s.accts cand).deposit with
  | none => s   -- the Go code panics on an unparsable deposit; unreachable for registered candidates
  | some d =>
    let s := setBal s c.p.pool ((s.accts c.p.pool).bal - d)
    let s := setBal s cand ((s.accts cand).bal + d)
    modAcct s cand (fun a => { a with deposit := none })

/-- `RegisterOrUpdateToCandidate`. Current code (`c.flagCheck`): `buildProfile` → `CheckRegisterTxProfile` refuses a flag
    that is neither "true" nor "false" (the tx fails: ErrInvalidProfile), `registerCandidate` refuses "false" on a first
    registration. Before fix cdfc5bc (`flagCheck = false`) the flag was never validated: a FIRST registration stored it as
    it was (so `"false"` registered an "unregistered candidate" WITH deposit votes, `""` left the account in the "never
    registered" state with a deposit and votes — it could register again, the first deposit staying in the pool), and a
    modification copied it over the stored flag. The stored state space keeps all four values: accounts stored by the
    old code are not migrated.
    The tx-supplied profile `px`: a FIRST registration stores it whole (`SetCandidate` replaces the map) and writes the
    deposit entry itself (`p[depositAmount] = amount`, whatever the tx said); an unregistration ignores it; a modification
    overlays it on the stored profile key by key, skipping nodeID and the deposit entry (`overlay`, `depositAfterOverlay`;
    `protectDeposit = false` is the loop without the deposit guard — NOT the code: used for a refutation only).
    Not modelled: the length checks of CheckRegisterTxProfile and the 1200-byte limit on the marshalled profile. -/
def doRegister (c : Ctx) (s : St) (from' : Nat) (amount : Int) (flag : Nat) (income : Nat) (nodeDep : Bool := false)
    (px : TxProfile := {}) (protectDeposit : Bool := true) : Except Err St :=
  let a := s.accts from'
  let inc := if income = 0 then from' else income
  if c.flagCheck = true ∧ flag ≠ 1 ∧ flag ≠ 2 then .error .invalidProfile
  else if a.isCand = 0 then
    -- registerCandidate
    if c.flagCheck = true ∧ flag = 2 then .error .notCandidate
    else if amount < c.p.minDeposit then .error .depositTooSmall
    else if a.bal < amount then .error .insufficientBalance
    else
      let s := modAcct s from' (fun a => { a with isCand := flag, deposit := some amount, income := inc, isDeputy := nodeDep,
                                                  prof := builtProfile px })
      let s := transfer s from' c.p.pool amount
      .ok (modAcct s from' (fun a => { a with votes := amount / c.p.depositRate }))
  else if a.isCand = 2 then .error .registerAgain
  else if a.isCand ≠ 1 then .error .isCandidate
  else if flag = 2 then
    -- unRegisterCandidate
    let s := modAcct s from' (fun a => { a with isCand := 2, votes := 0 })
    let num := c.height % c.p.termDuration
    if num ≤ c.p.interimDuration ∧ c.height > c.p.interimDuration then .ok s
    else if a.isDeputy then .ok s
    else .ok (refund c s from')
  else
    -- modifyCandidateInfo: every key of the tx profile except nodeID / deposit is copied, the flag included
    if amount > 0 then
      if a.bal < amount then .error .insufficientBalance
      else
        let s := transfer s from' c.p.pool amount
        match depositAfterOverlay protectDeposit a.deposit px with
        | none => .error .depositMissing
        | some old =>
          let nw := old + amount
          let add := nw / c.p.depositRate - old / c.p.depositRate
          .ok (modAcct s from' (fun x => { x with isCand := flag, deposit := some nw, income := inc,
                                                  votes := (if add > 0 then x.votes + add else x.votes),
                                                  prof := overlay x.prof (builtProfile px) }))
    else .ok (modAcct s from' (fun a => { a with isCand := flag, income := inc,
                                                 deposit := depositAfterOverlay protectDeposit a.deposit px,
                                                 prof := overlay a.prof (builtProfile px) }))

/-- `ModifyMultisigTx`: weights in 1..100, addresses distinct, at most 100 signers; with from ≠ to the target must be
    a temp address built from the sender (`verifyTempAddress`, fact `tempOk`) that has no signers yet; total ≥ 100;
    the stored list is sorted by address (`sort.Sort(signers)`) — the order is irrelevant to `weightOf`. -/
def doSetSigners (s : St) (from' target : Nat) (l : List (Nat × Nat)) (tempOk : Bool := false) : Except Err St :=
  if l.length > 100 then .error .signerCount
  else if l.any (fun x => x.2 < 1 ∨ x.2 > 100) then .error .signerWeight
  else if (distinct (l.map (·.1))).length ≠ l.length then .error .signerRepeat
  else if from' ≠ target ∧ tempOk = false then .error .tempAddress
  else if from' ≠ target ∧ (s.accts target).signers ≠ [] then .error .repeatSetTemp
  else if sumNat (l.map (·.2)) < 100 then .error .totalWeight
  else .ok (modAcct s target (fun a => { a with signers := l }))

/-- the body of a non-box tx (`handleTx`) -/
def body (c : Ctx) (s : St) (tx : Tx) (initialBal : Int) : Except Err St :=
  match tx.kind with
  | .transfer to v =>
    if (s.accts tx.sender).bal < v then .error .insufficientBalance
    else if v = 0 then .ok s else .ok (transfer s tx.sender to v)
  | .vote cand => doVote c s tx.sender cand initialBal
  | .register amt flag inc nd px => doRegister c s tx.sender amt flag inc nd px
  | .setSigners tg l tok => doSetSigners s tx.sender tg l tok
  | .box => .error .boxInBox
  | .other => .error .txType

/-- `applyTx` for a non-box tx with gas pool `gp`. Returns the new state, the new gas pool and gasUsed —
    or the error that makes the tx invalid together with what is LEFT of the gas pool (a tx that fails
    after `buyGas` does not give its gas limit back to the pool). -/
def applySimple (c : Ctx) (s : St) (gp : Nat) (tx : Tx) : Except (Err × Nat) (St × Nat × Nat) :=
  match verifySigs c.dedup s tx with
  | some e => .error (e, gp)
  | none =>
    let initialBal := (s.accts tx.sender).bal
    -- buyGas
    let maxFee := (tx.gasLimit : Int) * tx.gasPrice
    if (s.accts tx.payer).bal < maxFee then .error (.insufficientForGas, gp)
    else if gp < tx.gasLimit then .error (.gasLimitReached, gp)
    else
      let gp1 := gp - tx.gasLimit
      let s := setBal s tx.payer ((s.accts tx.payer).bal - maxFee)
      match intrinsic tx with
      | none => .error (.txType, gp1)
      | some ig =>
        if tx.gasLimit < ig then .error (.outOfGas, gp1)
        else
          let rest := tx.gasLimit - ig
          match body c s tx initialBal with
          | .error e => .error (e, gp1)
          | .ok s =>
            -- refundGas
            let s := setBal s tx.payer ((s.accts tx.payer).bal + (rest : Int) * tx.gasPrice)
            .ok (s, gp1 + rest, tx.gasLimit - rest)

/-- the sub-transactions of a box, `RunBoxTxs`: all or nothing; returns gas pool, gas and fee totals -/
def applySubs (c : Ctx) : St → Nat → List Tx → Except (Err × Nat) (St × Nat × Nat × Int)
  | s, gp, [] => .ok (s, gp, 0, 0)
  | s, gp, t :: ts =>
    match applySimple c s gp t with
    | .error e => .error e
    | .ok (s, gp, g) =>
      match applySubs c s gp ts with
      | .error e => .error e
      | .ok (s, gp, g', f') => .ok (s, gp, g + g', (g : Int) * t.gasPrice + f')

/-- `applyTx` -/
def applyTx (c : Ctx) (s : St) (gp : Nat) (tx : Tx) : Except (Err × Nat) (St × Nat × Nat) :=
  match tx.kind with
  | .box =>
    match verifySigs c.dedup s tx with
    | some e => .error (e, gp)
    | none =>
      let maxFee := (tx.gasLimit : Int) * tx.gasPrice
      if (s.accts tx.payer).bal < maxFee then .error (.insufficientForGas, gp)
      else if gp < tx.gasLimit then .error (.gasLimitReached, gp)
      else
        let gp1 := gp - tx.gasLimit
        let s := setBal s tx.payer ((s.accts tx.payer).bal - maxFee)
        match intrinsic tx with
        | none => .error (.txType, gp1)
        | some ig =>
          if tx.gasLimit < ig then .error (.outOfGas, gp1)
          else
            let rest := tx.gasLimit - ig
            match applySubs c s gp1 tx.subs with
            | .error e => .error e
            | .ok (s, gp2, subGas, subFee) =>
              let s := chargeForGas s c.miner subFee      -- RunBoxTxs pays the sub-tx fees itself …
              let s := setBal s tx.payer ((s.accts tx.payer).bal + (rest : Int) * tx.gasPrice)
              .ok (s, gp2 + rest, tx.gasLimit - rest + subGas)   -- … and the caller adds their gas to the box's gasUsed
  | _ => applySimple c s gp tx

/-- result of the miner path -/
structure Mined where
  st : St
  gp : Nat
  sel : List (Nat × Nat) := []        -- (tx id, gasUsed) in block order
  inv : List (Nat × String) := []     -- invalid txs (id, error)
  gas : Nat := 0
  fee : Int := 0

/-- miner path (`ApplyTxs`): a failing candidate is discarded — the ACCOUNT state is what it was (C07);
    the gas pool keeps what the failed attempt left of it -/
def mine (c : Ctx) : St → Nat → List Tx → Mined
  | s, gp, [] => { st := s, gp := gp }
  | s, gp, t :: ts =>
    if gp < LemoGen.Gas.OrdinaryTxGas then { st := s, gp := gp }   -- "Not enough gas for further transactions": stop
    else
    match applyTx c s gp t with
    | .error (e, gp') =>
      -- ErrGasLimitReached is skipped silently, every other error marks the tx invalid
      let r := mine c s gp' ts
      { r with inv := (if e = .gasLimitReached then r.inv else (t.id, e.name) :: r.inv) }
    | .ok (s1, gp1, g1) =>
      let r := mine c s1 gp1 ts
      { r with sel := (t.id, g1) :: r.sel, gas := g1 + r.gas, fee := (g1 : Int) * t.gasPrice + r.fee }

/-- the miner's selection as (tx, gasUsed) pairs — what goes into the block body -/
def mineSel (c : Ctx) : St → Nat → List Tx → List (Tx × Nat)
  | _, _, [] => []
  | s, gp, t :: ts =>
    if gp < LemoGen.Gas.OrdinaryTxGas then []
    else
    match applyTx c s gp t with
    | .error (_, gp') => mineSel c s gp' ts
    | .ok (s1, gp1, g1) => (t, g1) :: mineSel c s1 gp1 ts

/-- validator path (`Process`): abort on the first failing tx or on a gasUsed mismatch.
    Returns the state, the gas pool left, Σ gas and Σ fee. -/
def validate (c : Ctx) : St → Nat → List (Tx × Nat) → Option (St × Nat × Nat × Int)
  | s, gp, [] => some (s, gp, 0, 0)
  | s, gp, (t, claimed) :: ts =>
    match applyTx c s gp t with
    | .error _ => none
    | .ok (s1, gp1, g1) =>
      if g1 ≠ claimed then none
      else
        match validate c s1 gp1 ts with
        | none => none
        | some (s', gp', g, f) => some (s', gp', g1 + g, (g1 : Int) * t.gasPrice + f)

/-- `ChangeVotesByBalance` over the address universe `addrs` (any order: additions commute):
    `start` are the balances when the block began. -/
def votesByBalance (c : Ctx) (start : Nat → Int) (s : St) : List Nat → St
  | [] => s
  | a :: as =>
    let d := (s.accts a).bal / c.p.voteRate - start a / c.p.voteRate
    let cand := (s.accts a).voteFor
    let s := if d ≠ 0 ∧ cand ≠ 0 ∧ (s.accts cand).isCand = 1
      then { s with accts := upd s.accts cand { s.accts cand with votes := (s.accts cand).votes + d } } else s
    votesByBalance c start s as

/-! ### Finalize -/

def isRewardBlock (c : Ctx) : Bool :=
  LemoGen.Schedule.IsRewardBlock c.height c.p.termDuration c.p.interimDuration

/-- `TermRecord.GetTotalVotes` -/
def totalVotes (nodes : List (Nat × Int)) : Int := (nodes.map (·.2)).sum

/-- `calculateSalary`: ⌊total·votes/totalVotes⌋ (⌊total/n⌋ when nobody has votes), rounded DOWN to a multiple of
    the precision. big.Int `Div`/`Mod` are Euclidean, as Lean's `/` and `%` on `Int`. -/
def calcSalary (p : Params) (total votes tv : Int) (n : Nat) : Int :=
  let r := if tv = 0 then total / (n : Int) else total * votes / tv
  r - r % p.rewardPrecision

/-- `getDeputyIncomeAddress`: the income address of the miner's profile, the miner itself without one -/
def incomeOf (s : St) (miner : Nat) : Nat :=
  if (s.accts miner).income = 0 then miner else (s.accts miner).income

/-- `DivideSalary`: (receiver, salary) per node of the term; all receivers are looked up before anything is paid -/
def divideSalary (p : Params) (s : St) (total : Int) (nodes : List (Nat × Int)) : List (Nat × Int) :=
  nodes.map fun n => (incomeOf s n.1, calcSalary p total n.2 (totalVotes nodes) nodes.length)

/-- the payment loop of `issueTermReward`: the salary is ADDED to the receiver's balance (minted — no account is debited) -/
def paySalaries : St → List (Nat × Int) → St
  | s, [] => s
  | s, (a, x) :: r => paySalaries (setBal s a ((s.accts a).bal + x)) r

/-- `issueTermReward` at a reward height -/
def issueTermReward (c : Ctx) (s : St) : St :=
  if c.rf.total > 0 then paySalaries s (divideSalary c.p s c.rf.total c.rf.nodes) else s

/-- `refundCandidateDeposit` at a reward height: `Refund` for every listed candidate, in order -/
def refundAll (c : Ctx) : St → List Nat → St
  | s, [] => s
  | s, a :: as => refundAll c (refund c s a) as

/-- the Go panics `Finalize` can raise at a reward height, made explicit (the driver prints `panic`; the functions
    above are only meaningful when this is `false`): `Mod` by a zero precision, `Refund` of an account without a
    parsable deposit, `Refund` with an insufficient deposit pool. -/
def refundPanics (c : Ctx) : St → List Nat → Bool
  | _, [] => false
  | s, a :: as =>
    match (s.accts a).deposit with
    | none => true
    | some d => decide ((s.accts c.p.pool).bal < d) || refundPanics c (refund c s a) as

def finalizePanics (c : Ctx) (s : St) : Bool :=
  isRewardBlock c &&
    ((decide (c.rf.total > 0) && !c.rf.nodes.isEmpty && decide (c.p.rewardPrecision = 0)) ||
     refundPanics c (issueTermReward c s) c.rf.refunds)

/-- the balance-changing steps of `Finalize`: nothing outside a reward block -/
def rewardSteps (c : Ctx) (s : St) : St :=
  if isRewardBlock c then refundAll c (issueTermReward c s) c.rf.refunds else s

/-- `Finalize`: `start` = the balances when the block began, `addrs` = the address universe of the vote pass.
    As coded: term reward, deposit refunds, THEN the vote pass over all balance changes of the block. -/
def finalize (c : Ctx) (start : Nat → Int) (s : St) (addrs : List Nat) : St :=
  if c.votesLast then votesByBalance c start (rewardSteps c s) addrs
  else rewardSteps c (votesByBalance c start s addrs)

/-- a whole block on the miner path: ApplyTxs, chargeForGas, Finalize -/
def mineBlock (c : Ctx) (s : St) (gp : Nat) (txs : List Tx) (addrs : List Nat) : St × List (Nat × Nat) × List (Nat × String) × Nat :=
  let start := fun a => (s.accts a).bal
  let r := mine c s gp txs
  let s2 := chargeForGas r.st c.miner r.fee
  (finalize c start s2 addrs, r.sel, r.inv, r.gas)

/-- a whole block on the validator path (`RunBlock`): Process, chargeForGas, the same Finalize -/
def validateBlock (c : Ctx) (s : St) (gp : Nat) (txs : List (Tx × Nat)) (addrs : List Nat) : Option (St × Nat) :=
  let start := fun a => (s.accts a).bal
  match validate c s gp txs with
  | none => none
  | some (s1, _, g, f) =>
    let s2 := chargeForGas s1 c.miner f
    some (finalize c start s2 addrs, g)

def sumBal (s : St) (addrs : List Nat) : Int := (addrs.map fun a => (s.accts a).bal).sum

end LemoModel.Ledger

/-
  The DEPOSIT BOOK of the ledger model (C11, recorded deposit) — what every account has really PAID into the deposit pool,
  kept BY CONSTRUCTION from the transactions a block executes, never from the candidate profile:

    * a FIRST registration (the sender's stored flag is absent / "") opens the book entry with the tx amount,
    * a top-up (the sender is a registered candidate, the tx is not an unregistration, amount > 0) adds the tx amount,
    * nothing else writes the book — in particular no key of the tx-supplied profile (`TxProfile`) does.

  `LemoProofs.C11Deposit.recorded_deposit_is_paid_deposit`: for all histories the deposit RECORDED in the candidate
  profile of a registered candidate is its book entry.  The harness keeps the same book from the real transactions
  (harness/hx/c05_profile.go `applyBlock`); the `end` answer of the ledger driver prints the book entries of the registered
  candidates next to the recorded deposits, so the two books are compared after every modelled block.
  Core Lean only.
-/
import LemoModel.LedgerGuard
namespace LemoModel.Ledger

/-- the book after one executed simple tx `e.2` that started in state `e.1` (an element of `execBlock`) -/
def paidStep (paid : Nat → Int) (e : St × Tx) : Nat → Int :=
  match e.2.kind with
  | .register amt flag _ _ _ =>
    if (e.1.accts e.2.sender).isCand = 0 then upd paid e.2.sender amt
    else if (e.1.accts e.2.sender).isCand = 1 ∧ flag ≠ 2 ∧ amt > 0 then upd paid e.2.sender (paid e.2.sender + amt)
    else paid
  | _ => paid

/-- the book after a list of executed txs -/
def paidAfter (paid : Nat → Int) (l : List (St × Tx)) : Nat → Int := l.foldl paidStep paid

/-- the book after the block the miner path builds from the candidate list `txs` on state `s` -/
def paidBlock (c : Ctx) (s : St) (gp : Nat) (txs : List Tx) (paid : Nat → Int) : Nat → Int :=
  paidAfter paid (execBlock c s gp txs)

end LemoModel.Ledger

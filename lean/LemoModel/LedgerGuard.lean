/-
  The GUARD of the vote tally for mixed blocks (C11) — a decidable predicate on (context, pre-state, gas limit,
  candidate transactions, voter universe, candidate) under which a whole block of `LemoModel.Ledger` keeps the tally
      votes x = ⌊deposit x / 100 LEMO⌋ + Σ_{v ∈ V, voteFor v = x} ⌊balance v / 200 LEMO⌋   (+ the error it had before)
  of candidate `x` (theorem `LemoProofs.C11Mixed.mixed_block_keeps_tally_partial`).

  Why a guard is needed (known finding c11/tally-mismatch/block-with-vote-tx): `CallVoteTx` moves
  ⌊initialSenderBalance / 200 LEMO⌋ votes — the voter's balance when ITS TRANSACTION starts, in the middle of the block —,
  and `ChangeVotesByBalance` at the end of the block adds ⌊end balance⌋ − ⌊balance at BLOCK START⌋ to the candidate the
  voter votes for THEN.  The two agree exactly when the weight the vote tx moves is the weight the voter had at block start.

  `execBlock` lists the simple (non-box) transactions the miner path really executes — top-level ones and the sub-txs of
  included boxes; discarded candidates and the sub-txs of failing boxes leave nothing — each with the state it starts from.
  Core Lean only.  Tied to the code by the `guard` op of `hx c05/c11/c06/c01` (harness/hx/c05_guard.go): the real
  engine's raw change logs of the same block give the same trace and the same verdicts.
-/
import LemoModel.Ledger
namespace LemoModel.Ledger

/-- the sub-transactions `applySubs` executes, each with the state it starts from (cut at the first failing one:
    `execTx` only uses it for boxes that succeed) -/
def execSubs (c : Ctx) : St → Nat → List Tx → List (St × Tx)
  | _, _, [] => []
  | s, gp, t :: ts =>
    match applySimple c s gp t with
    | .error _ => []
    | .ok (s1, gp1, _) => (s, t) :: execSubs c s1 gp1 ts

/-- the simple transactions a SUCCESSFUL `applyTx c s gp tx` executes: the tx itself, or — for a box — its sub-txs,
    which start after the box's own gas has been bought from its payer -/
def execTx (c : Ctx) (s : St) (gp : Nat) (tx : Tx) : List (St × Tx) :=
  match tx.kind with
  | .box => execSubs c (setBal s tx.payer ((s.accts tx.payer).bal - (tx.gasLimit : Int) * tx.gasPrice)) (gp - tx.gasLimit) tx.subs
  | _ => [(s, tx)]

/-- the simple transactions the miner path (`mine`) executes for a candidate list, in order -/
def execBlock (c : Ctx) : St → Nat → List Tx → List (St × Tx)
  | _, _, [] => []
  | s, gp, t :: ts =>
    if gp < LemoGen.Gas.OrdinaryTxGas then []
    else
    match applyTx c s gp t with
    | .error (_, gp') => execBlock c s gp' ts
    | .ok (s1, gp1, _) => execTx c s gp t ++ execBlock c s1 gp1 ts

/-- the weight `ChangeVotesByBalance` takes as the voter's OLD weight: ⌊balance at block start / rate⌋ for an account of the
    universe the pass walks over (0 for any other account: the tally does not count it) -/
def startWeight (c : Ctx) (start : Nat → Int) (V : List Nat) (v : Nat) : Int :=
  if v ∈ V then start v / c.p.voteRate else 0

/-- the weight `CallVoteTx` / `modifyCandidateVotes` move for a voter whose balance was `ib` when its tx started -/
def movedWeight (c : Ctx) (ib : Int) : Int :=
  if ib / c.p.voteRate ≤ 0 then 0 else ib / c.p.voteRate

/-- GUARD CLAUSE 1 (vote clause), for one executed tx `e.2` starting from state `e.1`: a vote tx that touches candidate `x`
    while `x` is registered — `x` is the new candidate, or the candidate the voter leaves — moves exactly the weight the
    voter had at block start. -/
def voteClause (c : Ctx) (start : Nat → Int) (V : List Nat) (x : Nat) (e : St × Tx) : Bool :=
  match e.2.kind with
  | .vote cand =>
    if (e.1.accts x).isCand = 1 ∧ (cand = x ∨ (e.1.accts e.2.sender).voteFor = x)
    then decide (movedWeight c (e.1.accts e.2.sender).bal = startWeight c start V e.2.sender) else true
  | _ => true

/-- GUARD CLAUSE 2 (refund clause): `x` is not on the refund list of a reward block while it is a registered candidate
    (`LoadRefundCandidates` only returns unregistered candidates; the list is a trusted input of the model) -/
def refundClause (c : Ctx) (afterTxs : St) (x : Nat) : Bool :=
  !(isRewardBlock c && c.rf.refunds.contains x && decide ((afterTxs.accts x).isCand = 1))

/-- **the guard** for candidate `x` -/
def guardX (c : Ctx) (s : St) (gp : Nat) (txs : List Tx) (V : List Nat) (x : Nat) : Bool :=
  refundClause c (mine c s gp txs).st x &&
  (execBlock c s gp txs).all (voteClause c (fun a => (s.accts a).bal) V x)

/-- the guard for every account of the universe at once -/
def guardBlock (c : Ctx) (s : St) (gp : Nat) (txs : List Tx) (V : List Nat) : Bool :=
  V.all fun x => guardX c s gp txs V x

/-- a sufficient condition that reads without brackets ("typical" blocks), `untouchedVoters`: every executed vote tx is sent by an account
    of the universe whose balance, when its vote tx starts, is still the non-negative balance it had when the block began
    (no earlier transaction of the block has paid, charged or credited it — the fee of the vote tx itself comes later) -/
def untouchedClause (s : St) (V : List Nat) (e : St × Tx) : Bool :=
  match e.2.kind with
  | .vote _ => V.contains e.2.sender && decide ((e.1.accts e.2.sender).bal = (s.accts e.2.sender).bal) &&
               decide (0 ≤ (s.accts e.2.sender).bal)
  | _ => true

def untouchedVoters (c : Ctx) (s : St) (gp : Nat) (txs : List Tx) (V : List Nat) : Bool :=
  (execBlock c s gp txs).all (untouchedClause s V)

/-- a sufficient condition on the candidate LIST alone (no execution): no boxes, and the sender of every vote tx is an
    account of the universe with a non-negative balance that no EARLIER candidate of the list names as sender, gas payer
    or transfer recipient, and that is not the deposit pool. `seen` = the accounts named so far. -/
def freshVoters (c : Ctx) (s : St) (V : List Nat) : List Nat → List Tx → Bool
  | _, [] => true
  | seen, t :: ts =>
    (match t.kind with
     | .box => false
     | .vote _ => V.contains t.sender && !seen.contains t.sender && decide (0 ≤ (s.accts t.sender).bal)
     | _ => true) &&
    freshVoters c s V (t.sender :: t.payer :: c.p.pool :: (match t.kind with | .transfer to _ => [to] | _ => []) ++ seen) ts

/-! ### what the line-protocol driver prints for the `guard` op -/

/-- one executed vote tx: id, voter, old candidate (with its flag), new candidate (with its flag), weight at block start,
    weight moved -/
def voteTraceLine (c : Ctx) (start : Nat → Int) (V : List Nat) (e : St × Tx) : Option String :=
  match e.2.kind with
  | .vote cand =>
    let v := e.2.sender
    let o := (e.1.accts v).voteFor
    some s!"{e.2.id}:{v}:{o}.{(e.1.accts o).isCand}>{cand}.{(e.1.accts cand).isCand}:{startWeight c start V v}/{movedWeight c (e.1.accts v).bal}"
  | _ => none

def guardAnswer (c : Ctx) (s : St) (gp : Nat) (txs : List Tx) (V : List Nat) : String :=
  let start := fun a => (s.accts a).bal
  let tr := (execBlock c s gp txs).filterMap (voteTraceLine c start V)
  let fin := (mineBlock c s gp txs V).1
  let regs := V.filter fun x => (fin.accts x).isCand == 1
  let ok := regs.filter fun x => guardX c s gp txs V x
  let bad := regs.filter fun x => !guardX c s gp txs V x
  let j := fun (l : List Nat) => ",".intercalate (l.map toString)
  s!"votes={",".intercalate tr} ok={j ok} bad={j bad} typical={if untouchedVoters c s gp txs V then 1 else 0} fresh={if freshVoters c s V [] txs then 1 else 0}"

end LemoModel.Ledger

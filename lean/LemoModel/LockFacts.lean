/-
  C19 — the EXPECTED lock-discipline table (a literal list; core Lean only).

  Generated ONCE by `hx c19-genfacts` (harness/hx/c19_scan.go: go/types scan of /repo) and committed.
  Every `./check C19` run re-scans the source and sends each row as an op line
  `access <var> <func> <r|w> <lockHeld> <entry>` to the driver, which answers `table-mismatch` for a row
  that is not in this table and, at `access-end`, for a row of this table that was not sent.

  Row: the function `fn` reads (write = false) / writes the shared variable `var`; on every call path
  from the entry point `entry` (public engine call, goroutine / timer root `go:`/`timer:`, store API
  `store:`, other exported accessor called from outside `ext:`, `-` = reached from no entry point:
  constructor / start-up code) the variable's lock is held at the access (held = true) or not.
  The variable's nominal lock (harness/hx/c19_scan.go c19Vars): sigCache -> consensus.sigCacheMu, lastSig ->
  Confirmer.lastSigLock, FileQueue.Offset -> FileQueue.putLock (each falls back to DPoVP.chainLock / ChainDatabase.RW
  on a tree without the dedicated mutex); UnConfirmBlocks, LastConfirm -> ChainDatabase.RW; FileQueue.Index ->
  FileQueue.IndexRW; termList -> Manager.lock; evilDeputies -> Manager.edLock; ForkManager.head -> accessed through
  sync/atomic.Value Load/Store only.  held = the access holds the nominal lock or the variable's guard.
  Beansdb.blockRecord = the stored record of a STABLE block, read-modify-written by ChainDatabase.setConfirm
  (getBlock4DB; append confirms; setBlock2DB): the r row is held when ChainDatabase.RW is held at the read, the w
  row when RW is held at the write back AND it is the SAME critical section as the read (same Lock() statement, or
  both inherited from the caller and never released in between): a release between read and write = lost update.
  ForkManager.head.decision = reads of the fork head / stable head that feed a decision: inside every function that
  takes DPoVP.chainLock, each call that reads the head (directly or through its callees) is a row named
  <function>/<callee>; held = the call is made with the chain lock of that function held, i.e. the critical section
  starts BEFORE the head is read.  The rows listed in benignPrechecks are outside on purpose (false in this table):
  InsertBlock's early exit isIgnorableBlock tests monotone facts and is re-validated under the lock.
-/
namespace LemoModel.LockFacts

inductive Var where
  | sigCache | lastSig | head | unConfirmBlocks | lastConfirm | offset | index | termList | evilDeputies
  | blockRecord | headDecision
  deriving DecidableEq, Repr

def Var.ofString? : String → Option Var
  | "sigCache" => some .sigCache
  | "Confirmer.lastSig" => some .lastSig
  | "ForkManager.head" => some .head
  | "ChainDatabase.UnConfirmBlocks" => some .unConfirmBlocks
  | "ChainDatabase.LastConfirm" => some .lastConfirm
  | "FileQueue.Offset" => some .offset
  | "FileQueue.Index" => some .index
  | "Manager.termList" => some .termList
  | "Manager.evilDeputies" => some .evilDeputies
  | "Beansdb.blockRecord" => some .blockRecord
  | "ForkManager.head.decision" => some .headDecision
  | _ => none

/-- the kind of entry point a row is about (the prefix of the entry name) -/
inductive Kind where
  | engine | go | timer | store | ext | api | init | startup
  deriving DecidableEq, Repr

def Kind.ofEntry (e : String) : Kind :=
  if e == "-" then .startup
  else if e.startsWith "go:" then .go
  else if e.startsWith "timer:" then .timer
  else if e.startsWith "store:" then .store
  else if e.startsWith "ext:" then .ext
  else if e.startsWith "api:" then .api
  else if e.startsWith "init:" then .init
  else .engine

structure Row where
  var   : Var
  fn    : String
  write : Bool
  held  : Bool
  kind  : Kind
  entry : String
  deriving DecidableEq, Repr

def table : List Row := [
  ⟨.blockRecord, "ChainDatabase.setConfirm", false, true, .engine, "DPoVP.InsertConfirms"⟩,
  ⟨.blockRecord, "ChainDatabase.setConfirm", false, true, .go, "go:DPoVP.batchConfirmStable"⟩,
  ⟨.blockRecord, "ChainDatabase.setConfirm", false, true, .store, "store:SetConfirms"⟩,
  ⟨.blockRecord, "ChainDatabase.setConfirm", true, true, .engine, "DPoVP.InsertConfirms"⟩,
  ⟨.blockRecord, "ChainDatabase.setConfirm", true, true, .go, "go:DPoVP.batchConfirmStable"⟩,
  ⟨.blockRecord, "ChainDatabase.setConfirm", true, true, .store, "store:SetConfirms"⟩,
  ⟨.lastConfirm, "ChainDatabase.CandidatesRanking", false, true, .engine, "DPoVP.InsertBlock"⟩,
  ⟨.lastConfirm, "ChainDatabase.CandidatesRanking", false, true, .engine, "DPoVP.MineBlock"⟩,
  ⟨.lastConfirm, "ChainDatabase.CandidatesRanking", false, true, .store, "store:CandidatesRanking"⟩,
  ⟨.lastConfirm, "ChainDatabase.GetActDatabase", false, true, .engine, "DPoVP.InsertBlock"⟩,
  ⟨.lastConfirm, "ChainDatabase.GetActDatabase", false, true, .engine, "DPoVP.MineBlock"⟩,
  ⟨.lastConfirm, "ChainDatabase.GetActDatabase", false, true, .store, "store:GetActDatabase"⟩,
  ⟨.lastConfirm, "ChainDatabase.GetCandidatesTop", false, true, .engine, "DPoVP.InsertBlock"⟩,
  ⟨.lastConfirm, "ChainDatabase.GetCandidatesTop", false, true, .engine, "DPoVP.MineBlock"⟩,
  ⟨.lastConfirm, "ChainDatabase.GetCandidatesTop", false, true, .store, "store:GetCandidatesTop"⟩,
  ⟨.lastConfirm, "ChainDatabase.GetLastConfirm", false, true, .store, "store:GetLastConfirm"⟩,
  ⟨.lastConfirm, "ChainDatabase.GetUnConfirmByHeight", false, true, .engine, "DPoVP.InsertBlock"⟩,
  ⟨.lastConfirm, "ChainDatabase.GetUnConfirmByHeight", false, true, .engine, "DPoVP.InsertConfirms"⟩,
  ⟨.lastConfirm, "ChainDatabase.GetUnConfirmByHeight", false, true, .engine, "DPoVP.MineBlock"⟩,
  ⟨.lastConfirm, "ChainDatabase.GetUnConfirmByHeight", false, true, .store, "store:GetUnConfirmByHeight"⟩,
  ⟨.lastConfirm, "ChainDatabase.IterateUnConfirms", false, true, .engine, "DPoVP.InsertBlock"⟩,
  ⟨.lastConfirm, "ChainDatabase.IterateUnConfirms", false, true, .engine, "DPoVP.InsertConfirms"⟩,
  ⟨.lastConfirm, "ChainDatabase.IterateUnConfirms", false, true, .engine, "DPoVP.MineBlock"⟩,
  ⟨.lastConfirm, "ChainDatabase.IterateUnConfirms", false, true, .go, "go:DPoVP.InsertBlock$1"⟩,
  ⟨.lastConfirm, "ChainDatabase.IterateUnConfirms", false, true, .store, "store:IterateUnConfirms"⟩,
  ⟨.lastConfirm, "ChainDatabase.LoadLatestBlock", false, true, .engine, "DPoVP.InsertBlock"⟩,
  ⟨.lastConfirm, "ChainDatabase.LoadLatestBlock", false, true, .engine, "DPoVP.InsertConfirms"⟩,
  ⟨.lastConfirm, "ChainDatabase.LoadLatestBlock", false, true, .engine, "DPoVP.MineBlock"⟩,
  ⟨.lastConfirm, "ChainDatabase.LoadLatestBlock", false, true, .store, "store:LoadLatestBlock"⟩,
  ⟨.lastConfirm, "ChainDatabase.SerializeForks", false, true, .engine, "DPoVP.InsertBlock"⟩,
  ⟨.lastConfirm, "ChainDatabase.SerializeForks", false, true, .engine, "DPoVP.InsertConfirms"⟩,
  ⟨.lastConfirm, "ChainDatabase.SerializeForks", false, true, .engine, "DPoVP.MineBlock"⟩,
  ⟨.lastConfirm, "ChainDatabase.SerializeForks", false, true, .store, "store:SerializeForks"⟩,
  ⟨.lastConfirm, "ChainDatabase.SetBlock", false, true, .engine, "DPoVP.InsertBlock"⟩,
  ⟨.lastConfirm, "ChainDatabase.SetBlock", false, true, .engine, "DPoVP.MineBlock"⟩,
  ⟨.lastConfirm, "ChainDatabase.SetBlock", false, true, .store, "store:SetBlock"⟩,
  ⟨.lastConfirm, "ChainDatabase.SetStableBlock", false, true, .engine, "DPoVP.InsertBlock"⟩,
  ⟨.lastConfirm, "ChainDatabase.SetStableBlock", false, true, .engine, "DPoVP.InsertConfirms"⟩,
  ⟨.lastConfirm, "ChainDatabase.SetStableBlock", false, true, .engine, "DPoVP.MineBlock"⟩,
  ⟨.lastConfirm, "ChainDatabase.SetStableBlock", false, true, .store, "store:SetStableBlock"⟩,
  ⟨.lastConfirm, "ChainDatabase.SetStableBlock", true, true, .engine, "DPoVP.InsertBlock"⟩,
  ⟨.lastConfirm, "ChainDatabase.SetStableBlock", true, true, .engine, "DPoVP.InsertConfirms"⟩,
  ⟨.lastConfirm, "ChainDatabase.SetStableBlock", true, true, .engine, "DPoVP.MineBlock"⟩,
  ⟨.lastConfirm, "ChainDatabase.SetStableBlock", true, true, .store, "store:SetStableBlock"⟩,
  ⟨.lastConfirm, "ChainDatabase.blockCommit", false, true, .engine, "DPoVP.InsertBlock"⟩,
  ⟨.lastConfirm, "ChainDatabase.blockCommit", false, true, .engine, "DPoVP.InsertConfirms"⟩,
  ⟨.lastConfirm, "ChainDatabase.blockCommit", false, true, .engine, "DPoVP.MineBlock"⟩,
  ⟨.lastConfirm, "ChainDatabase.blockCommit", false, true, .store, "store:SetStableBlock"⟩,
  ⟨.lastConfirm, "store.NewChainDataBase", false, false, .startup, "-"⟩,
  ⟨.lastConfirm, "store.NewChainDataBase", true, false, .startup, "-"⟩,
  ⟨.unConfirmBlocks, "ChainDatabase.CandidatesRanking", false, true, .engine, "DPoVP.InsertBlock"⟩,
  ⟨.unConfirmBlocks, "ChainDatabase.CandidatesRanking", false, true, .engine, "DPoVP.MineBlock"⟩,
  ⟨.unConfirmBlocks, "ChainDatabase.CandidatesRanking", false, true, .store, "store:CandidatesRanking"⟩,
  ⟨.unConfirmBlocks, "ChainDatabase.GetActDatabase", false, true, .engine, "DPoVP.InsertBlock"⟩,
  ⟨.unConfirmBlocks, "ChainDatabase.GetActDatabase", false, true, .engine, "DPoVP.MineBlock"⟩,
  ⟨.unConfirmBlocks, "ChainDatabase.GetActDatabase", false, true, .store, "store:GetActDatabase"⟩,
  ⟨.unConfirmBlocks, "ChainDatabase.GetCandidatesTop", false, true, .engine, "DPoVP.InsertBlock"⟩,
  ⟨.unConfirmBlocks, "ChainDatabase.GetCandidatesTop", false, true, .engine, "DPoVP.MineBlock"⟩,
  ⟨.unConfirmBlocks, "ChainDatabase.GetCandidatesTop", false, true, .store, "store:GetCandidatesTop"⟩,
  ⟨.unConfirmBlocks, "ChainDatabase.GetUnConfirmByHeight", false, true, .engine, "DPoVP.InsertBlock"⟩,
  ⟨.unConfirmBlocks, "ChainDatabase.GetUnConfirmByHeight", false, true, .engine, "DPoVP.InsertConfirms"⟩,
  ⟨.unConfirmBlocks, "ChainDatabase.GetUnConfirmByHeight", false, true, .engine, "DPoVP.MineBlock"⟩,
  ⟨.unConfirmBlocks, "ChainDatabase.GetUnConfirmByHeight", false, true, .store, "store:GetUnConfirmByHeight"⟩,
  ⟨.unConfirmBlocks, "ChainDatabase.SerializeForks", false, true, .engine, "DPoVP.InsertBlock"⟩,
  ⟨.unConfirmBlocks, "ChainDatabase.SerializeForks", false, true, .engine, "DPoVP.InsertConfirms"⟩,
  ⟨.unConfirmBlocks, "ChainDatabase.SerializeForks", false, true, .engine, "DPoVP.MineBlock"⟩,
  ⟨.unConfirmBlocks, "ChainDatabase.SerializeForks", false, true, .store, "store:SerializeForks"⟩,
  ⟨.unConfirmBlocks, "ChainDatabase.SetBlock", false, true, .engine, "DPoVP.InsertBlock"⟩,
  ⟨.unConfirmBlocks, "ChainDatabase.SetBlock", false, true, .engine, "DPoVP.MineBlock"⟩,
  ⟨.unConfirmBlocks, "ChainDatabase.SetBlock", false, true, .store, "store:SetBlock"⟩,
  ⟨.unConfirmBlocks, "ChainDatabase.SetBlock", true, true, .engine, "DPoVP.InsertBlock"⟩,
  ⟨.unConfirmBlocks, "ChainDatabase.SetBlock", true, true, .engine, "DPoVP.MineBlock"⟩,
  ⟨.unConfirmBlocks, "ChainDatabase.SetBlock", true, true, .store, "store:SetBlock"⟩,
  ⟨.unConfirmBlocks, "ChainDatabase.SetStableBlock", false, true, .engine, "DPoVP.InsertBlock"⟩,
  ⟨.unConfirmBlocks, "ChainDatabase.SetStableBlock", false, true, .engine, "DPoVP.InsertConfirms"⟩,
  ⟨.unConfirmBlocks, "ChainDatabase.SetStableBlock", false, true, .engine, "DPoVP.MineBlock"⟩,
  ⟨.unConfirmBlocks, "ChainDatabase.SetStableBlock", false, true, .store, "store:SetStableBlock"⟩,
  ⟨.unConfirmBlocks, "ChainDatabase.SetStableBlock", true, true, .engine, "DPoVP.InsertBlock"⟩,
  ⟨.unConfirmBlocks, "ChainDatabase.SetStableBlock", true, true, .engine, "DPoVP.InsertConfirms"⟩,
  ⟨.unConfirmBlocks, "ChainDatabase.SetStableBlock", true, true, .engine, "DPoVP.MineBlock"⟩,
  ⟨.unConfirmBlocks, "ChainDatabase.SetStableBlock", true, true, .store, "store:SetStableBlock"⟩,
  ⟨.unConfirmBlocks, "ChainDatabase.blockCommit", false, true, .engine, "DPoVP.InsertBlock"⟩,
  ⟨.unConfirmBlocks, "ChainDatabase.blockCommit", false, true, .engine, "DPoVP.InsertConfirms"⟩,
  ⟨.unConfirmBlocks, "ChainDatabase.blockCommit", false, true, .engine, "DPoVP.MineBlock"⟩,
  ⟨.unConfirmBlocks, "ChainDatabase.blockCommit", false, true, .store, "store:SetStableBlock"⟩,
  ⟨.unConfirmBlocks, "ChainDatabase.getBlock4Cache", false, true, .engine, "DPoVP.InsertBlock"⟩,
  ⟨.unConfirmBlocks, "ChainDatabase.getBlock4Cache", false, true, .engine, "DPoVP.InsertConfirms"⟩,
  ⟨.unConfirmBlocks, "ChainDatabase.getBlock4Cache", false, true, .engine, "DPoVP.MineBlock"⟩,
  ⟨.unConfirmBlocks, "ChainDatabase.getBlock4Cache", false, true, .store, "store:AfterScan"⟩,
  ⟨.unConfirmBlocks, "ChainDatabase.getBlock4Cache", false, true, .store, "store:GetBlockByHash"⟩,
  ⟨.unConfirmBlocks, "ChainDatabase.getBlock4Cache", false, true, .store, "store:GetConfirms"⟩,
  ⟨.unConfirmBlocks, "ChainDatabase.getBlock4Cache", false, true, .store, "store:GetStableBlock"⟩,
  ⟨.unConfirmBlocks, "ChainDatabase.isExistByHash", false, true, .engine, "DPoVP.InsertBlock"⟩,
  ⟨.unConfirmBlocks, "ChainDatabase.isExistByHash", false, true, .engine, "DPoVP.MineBlock"⟩,
  ⟨.unConfirmBlocks, "ChainDatabase.isExistByHash", false, true, .store, "store:IsExistByHash"⟩,
  ⟨.unConfirmBlocks, "ChainDatabase.isExistByHash", false, true, .store, "store:SetBlock"⟩,
  ⟨.unConfirmBlocks, "ChainDatabase.setConfirm", false, true, .engine, "DPoVP.InsertConfirms"⟩,
  ⟨.unConfirmBlocks, "ChainDatabase.setConfirm", false, true, .go, "go:DPoVP.batchConfirmStable"⟩,
  ⟨.unConfirmBlocks, "ChainDatabase.setConfirm", false, true, .store, "store:SetConfirms"⟩,
  ⟨.lastSig, "Confirmer.SetLastSig", false, true, .engine, "DPoVP.InsertBlock"⟩,
  ⟨.lastSig, "Confirmer.SetLastSig", false, true, .engine, "DPoVP.MineBlock"⟩,
  ⟨.lastSig, "Confirmer.SetLastSig", false, true, .go, "go:DPoVP.batchConfirmStable"⟩,
  ⟨.lastSig, "Confirmer.SetLastSig", true, true, .engine, "DPoVP.InsertBlock"⟩,
  ⟨.lastSig, "Confirmer.SetLastSig", true, true, .engine, "DPoVP.MineBlock"⟩,
  ⟨.lastSig, "Confirmer.SetLastSig", true, true, .go, "go:DPoVP.batchConfirmStable"⟩,
  ⟨.lastSig, "Confirmer.needConfirm", false, true, .engine, "DPoVP.InsertBlock"⟩,
  ⟨.lastSig, "consensus.NewConfirmer", true, false, .startup, "-"⟩,
  ⟨.index, "FileQueue.delIndex", false, true, .go, "go:FileQueue.start$1"⟩,
  ⟨.index, "FileQueue.delIndex", true, true, .go, "go:FileQueue.start$1"⟩,
  ⟨.index, "FileQueue.emptyFile", false, true, .engine, "DPoVP.InsertBlock"⟩,
  ⟨.index, "FileQueue.emptyFile", false, true, .engine, "DPoVP.InsertConfirms"⟩,
  ⟨.index, "FileQueue.emptyFile", false, true, .engine, "DPoVP.MineBlock"⟩,
  ⟨.index, "FileQueue.emptyFile", false, true, .go, "go:DPoVP.batchConfirmStable"⟩,
  ⟨.index, "FileQueue.emptyFile", false, true, .go, "go:SyncFileDB.start"⟩,
  ⟨.index, "FileQueue.emptyFile", false, true, .store, "store:SetConfirms"⟩,
  ⟨.index, "FileQueue.emptyFile", false, true, .store, "store:SetContractCode"⟩,
  ⟨.index, "FileQueue.emptyFile", false, true, .store, "store:SetStableBlock"⟩,
  ⟨.index, "FileQueue.getIndex", false, true, .engine, "DPoVP.InsertBlock"⟩,
  ⟨.index, "FileQueue.getIndex", false, true, .engine, "DPoVP.InsertConfirms"⟩,
  ⟨.index, "FileQueue.getIndex", false, true, .engine, "DPoVP.MineBlock"⟩,
  ⟨.index, "FileQueue.getIndex", false, true, .go, "go:DPoVP.batchConfirmStable"⟩,
  ⟨.index, "FileQueue.getIndex", false, true, .store, "store:AfterScan"⟩,
  ⟨.index, "FileQueue.getIndex", false, true, .store, "store:GetAccount"⟩,
  ⟨.index, "FileQueue.getIndex", false, true, .store, "store:GetActDatabase"⟩,
  ⟨.index, "FileQueue.getIndex", false, true, .store, "store:GetAssetCode"⟩,
  ⟨.index, "FileQueue.getIndex", false, true, .store, "store:GetAssetID"⟩,
  ⟨.index, "FileQueue.getIndex", false, true, .store, "store:GetBlockByHash"⟩,
  ⟨.index, "FileQueue.getIndex", false, true, .store, "store:GetBlockByHeight"⟩,
  ⟨.index, "FileQueue.getIndex", false, true, .store, "store:GetConfirms"⟩,
  ⟨.index, "FileQueue.getIndex", false, true, .store, "store:GetContractCode"⟩,
  ⟨.index, "FileQueue.getIndex", false, true, .store, "store:GetStableBlock"⟩,
  ⟨.index, "FileQueue.getIndex", false, true, .store, "store:IsExistByHash"⟩,
  ⟨.index, "FileQueue.getIndex", false, true, .store, "store:SetBlock"⟩,
  ⟨.index, "FileQueue.getIndex", false, true, .store, "store:SetConfirms"⟩,
  ⟨.index, "FileQueue.getIndex", false, true, .store, "store:SizeOfValue"⟩,
  ⟨.index, "FileQueue.getIndex", false, true, .timer, "timer:DPoVP.FetchRemoteConfirms$1"⟩,
  ⟨.index, "FileQueue.setIndex", false, true, .engine, "DPoVP.InsertBlock"⟩,
  ⟨.index, "FileQueue.setIndex", false, true, .engine, "DPoVP.InsertConfirms"⟩,
  ⟨.index, "FileQueue.setIndex", false, true, .engine, "DPoVP.MineBlock"⟩,
  ⟨.index, "FileQueue.setIndex", false, true, .go, "go:DPoVP.batchConfirmStable"⟩,
  ⟨.index, "FileQueue.setIndex", false, true, .go, "go:SyncFileDB.start"⟩,
  ⟨.index, "FileQueue.setIndex", false, true, .store, "store:SetConfirms"⟩,
  ⟨.index, "FileQueue.setIndex", false, true, .store, "store:SetContractCode"⟩,
  ⟨.index, "FileQueue.setIndex", false, true, .store, "store:SetStableBlock"⟩,
  ⟨.index, "FileQueue.setIndex", true, true, .engine, "DPoVP.InsertBlock"⟩,
  ⟨.index, "FileQueue.setIndex", true, true, .engine, "DPoVP.InsertConfirms"⟩,
  ⟨.index, "FileQueue.setIndex", true, true, .engine, "DPoVP.MineBlock"⟩,
  ⟨.index, "FileQueue.setIndex", true, true, .go, "go:DPoVP.batchConfirmStable"⟩,
  ⟨.index, "FileQueue.setIndex", true, true, .go, "go:SyncFileDB.start"⟩,
  ⟨.index, "FileQueue.setIndex", true, true, .store, "store:SetConfirms"⟩,
  ⟨.index, "FileQueue.setIndex", true, true, .store, "store:SetContractCode"⟩,
  ⟨.index, "FileQueue.setIndex", true, true, .store, "store:SetStableBlock"⟩,
  ⟨.offset, "FileQueue.Put", false, true, .engine, "DPoVP.InsertBlock"⟩,
  ⟨.offset, "FileQueue.Put", false, true, .engine, "DPoVP.InsertConfirms"⟩,
  ⟨.offset, "FileQueue.Put", false, true, .engine, "DPoVP.MineBlock"⟩,
  ⟨.offset, "FileQueue.Put", false, true, .go, "go:DPoVP.batchConfirmStable"⟩,
  ⟨.offset, "FileQueue.Put", false, true, .go, "go:SyncFileDB.start"⟩,
  ⟨.offset, "FileQueue.Put", false, true, .store, "store:SetConfirms"⟩,
  ⟨.offset, "FileQueue.Put", false, true, .store, "store:SetContractCode"⟩,
  ⟨.offset, "FileQueue.Put", true, true, .engine, "DPoVP.InsertBlock"⟩,
  ⟨.offset, "FileQueue.Put", true, true, .engine, "DPoVP.InsertConfirms"⟩,
  ⟨.offset, "FileQueue.Put", true, true, .engine, "DPoVP.MineBlock"⟩,
  ⟨.offset, "FileQueue.Put", true, true, .go, "go:DPoVP.batchConfirmStable"⟩,
  ⟨.offset, "FileQueue.Put", true, true, .go, "go:SyncFileDB.start"⟩,
  ⟨.offset, "FileQueue.Put", true, true, .store, "store:SetConfirms"⟩,
  ⟨.offset, "FileQueue.Put", true, true, .store, "store:SetContractCode"⟩,
  ⟨.offset, "FileQueue.PutBatch", false, true, .engine, "DPoVP.InsertBlock"⟩,
  ⟨.offset, "FileQueue.PutBatch", false, true, .engine, "DPoVP.InsertConfirms"⟩,
  ⟨.offset, "FileQueue.PutBatch", false, true, .engine, "DPoVP.MineBlock"⟩,
  ⟨.offset, "FileQueue.PutBatch", false, true, .store, "store:SetStableBlock"⟩,
  ⟨.offset, "FileQueue.checkFile", false, true, .init, "init:store.NewChainDataBase"⟩,
  ⟨.offset, "FileQueue.checkFile", true, true, .init, "init:store.NewChainDataBase"⟩,
  ⟨.offset, "FileQueue.deliver", false, true, .engine, "DPoVP.InsertBlock"⟩,
  ⟨.offset, "FileQueue.deliver", false, true, .engine, "DPoVP.InsertConfirms"⟩,
  ⟨.offset, "FileQueue.deliver", false, true, .engine, "DPoVP.MineBlock"⟩,
  ⟨.offset, "FileQueue.deliver", false, true, .go, "go:DPoVP.batchConfirmStable"⟩,
  ⟨.offset, "FileQueue.deliver", false, true, .go, "go:SyncFileDB.start"⟩,
  ⟨.offset, "FileQueue.deliver", false, true, .store, "store:SetConfirms"⟩,
  ⟨.offset, "FileQueue.deliver", false, true, .store, "store:SetContractCode"⟩,
  ⟨.offset, "FileQueue.deliver", false, true, .store, "store:SetStableBlock"⟩,
  ⟨.offset, "FileQueue.deliverBatch", true, true, .engine, "DPoVP.InsertBlock"⟩,
  ⟨.offset, "FileQueue.deliverBatch", true, true, .engine, "DPoVP.InsertConfirms"⟩,
  ⟨.offset, "FileQueue.deliverBatch", true, true, .engine, "DPoVP.MineBlock"⟩,
  ⟨.offset, "FileQueue.deliverBatch", true, true, .store, "store:SetStableBlock"⟩,
  ⟨.offset, "FileQueue.emptyFile", true, true, .engine, "DPoVP.InsertBlock"⟩,
  ⟨.offset, "FileQueue.emptyFile", true, true, .engine, "DPoVP.InsertConfirms"⟩,
  ⟨.offset, "FileQueue.emptyFile", true, true, .engine, "DPoVP.MineBlock"⟩,
  ⟨.offset, "FileQueue.emptyFile", true, true, .go, "go:DPoVP.batchConfirmStable"⟩,
  ⟨.offset, "FileQueue.emptyFile", true, true, .go, "go:SyncFileDB.start"⟩,
  ⟨.offset, "FileQueue.emptyFile", true, true, .store, "store:SetConfirms"⟩,
  ⟨.offset, "FileQueue.emptyFile", true, true, .store, "store:SetContractCode"⟩,
  ⟨.offset, "FileQueue.emptyFile", true, true, .store, "store:SetStableBlock"⟩,
  ⟨.offset, "FileQueue.scanFile", false, true, .init, "init:store.NewChainDataBase"⟩,
  ⟨.offset, "FileQueue.scanFile", true, true, .init, "init:store.NewChainDataBase"⟩,
  ⟨.head, "ForkManager.GetHeadBlock", false, true, .engine, "DPoVP.InsertBlock"⟩,
  ⟨.head, "ForkManager.GetHeadBlock", false, true, .engine, "DPoVP.InsertConfirms"⟩,
  ⟨.head, "ForkManager.GetHeadBlock", false, true, .engine, "DPoVP.MineBlock"⟩,
  ⟨.head, "ForkManager.SetHeadBlock", true, true, .engine, "DPoVP.InsertBlock"⟩,
  ⟨.head, "ForkManager.SetHeadBlock", true, true, .engine, "DPoVP.InsertConfirms"⟩,
  ⟨.head, "ForkManager.SetHeadBlock", true, true, .engine, "DPoVP.MineBlock"⟩,
  ⟨.headDecision, "DPoVP.InsertBlock/Confirmer.TryConfirm", false, true, .engine, "DPoVP.InsertBlock"⟩,
  ⟨.headDecision, "DPoVP.InsertBlock/DPoVP.VerifyAndSeal", false, true, .engine, "DPoVP.InsertBlock"⟩,
  ⟨.headDecision, "DPoVP.InsertBlock/DPoVP.isIgnorableBlock", false, false, .engine, "DPoVP.InsertBlock"⟩,
  ⟨.headDecision, "DPoVP.InsertBlock/DPoVP.saveNewBlock", false, true, .engine, "DPoVP.InsertBlock"⟩,
  ⟨.headDecision, "DPoVP.InsertConfirms/DPoVP.CurrentBlock", false, true, .engine, "DPoVP.InsertConfirms"⟩,
  ⟨.headDecision, "DPoVP.InsertConfirms/DPoVP.StableBlock", false, true, .engine, "DPoVP.InsertConfirms"⟩,
  ⟨.headDecision, "DPoVP.InsertConfirms/DPoVP.UpdateStable", false, true, .engine, "DPoVP.InsertConfirms"⟩,
  ⟨.headDecision, "DPoVP.InsertConfirms/DPoVP.logCurrentChange", false, true, .engine, "DPoVP.InsertConfirms"⟩,
  ⟨.headDecision, "DPoVP.InsertConfirms/ForkManager.UpdateForkForConfirm", false, true, .engine, "DPoVP.InsertConfirms"⟩,
  ⟨.headDecision, "DPoVP.MineBlock/BlockAssembler.MineBlock", false, true, .engine, "DPoVP.MineBlock"⟩,
  ⟨.headDecision, "DPoVP.MineBlock/DPoVP.CurrentBlock", false, true, .engine, "DPoVP.MineBlock"⟩,
  ⟨.headDecision, "DPoVP.MineBlock/DPoVP.saveNewBlock", false, true, .engine, "DPoVP.MineBlock"⟩,
  ⟨.evilDeputies, "Manager.IsEvilDeputyNode", false, true, .ext, "ext:Manager.IsEvilDeputyNode"⟩,
  ⟨.evilDeputies, "Manager.IsEvilDeputyNode", true, true, .ext, "ext:Manager.IsEvilDeputyNode"⟩,
  ⟨.evilDeputies, "Manager.PutEvilDeputyNode", true, true, .go, "go:DPoVP.InsertBlock$1"⟩,
  ⟨.termList, "Manager.GetTermByHeight", false, true, .engine, "DPoVP.InsertBlock"⟩,
  ⟨.termList, "Manager.GetTermByHeight", false, true, .engine, "DPoVP.InsertConfirms"⟩,
  ⟨.termList, "Manager.GetTermByHeight", false, true, .engine, "DPoVP.MineBlock"⟩,
  ⟨.termList, "Manager.GetTermByHeight", false, true, .go, "go:DPoVP.batchConfirmStable"⟩,
  ⟨.termList, "Manager.GetTermByHeight", false, true, .timer, "timer:DPoVP.FetchRemoteConfirms$1"⟩,
  ⟨.termList, "Manager.SaveSnapshot", false, true, .engine, "DPoVP.InsertBlock"⟩,
  ⟨.termList, "Manager.SaveSnapshot", false, true, .engine, "DPoVP.InsertConfirms"⟩,
  ⟨.termList, "Manager.SaveSnapshot", false, true, .engine, "DPoVP.MineBlock"⟩,
  ⟨.termList, "Manager.SaveSnapshot", true, true, .engine, "DPoVP.InsertBlock"⟩,
  ⟨.termList, "Manager.SaveSnapshot", true, true, .engine, "DPoVP.InsertConfirms"⟩,
  ⟨.termList, "Manager.SaveSnapshot", true, true, .engine, "DPoVP.MineBlock"⟩,
  ⟨.sigCache, "consensus.SignBlock", false, true, .engine, "DPoVP.InsertBlock"⟩,
  ⟨.sigCache, "consensus.SignBlock", false, true, .engine, "DPoVP.MineBlock"⟩,
  ⟨.sigCache, "consensus.SignBlock", false, true, .ext, "ext:consensus.SignBlock"⟩,
  ⟨.sigCache, "consensus.SignBlock", false, true, .go, "go:DPoVP.batchConfirmStable"⟩,
  ⟨.sigCache, "consensus.SignBlock", true, true, .engine, "DPoVP.InsertBlock"⟩,
  ⟨.sigCache, "consensus.SignBlock", true, true, .engine, "DPoVP.MineBlock"⟩,
  ⟨.sigCache, "consensus.SignBlock", true, true, .ext, "ext:consensus.SignBlock"⟩,
  ⟨.sigCache, "consensus.SignBlock", true, true, .go, "go:DPoVP.batchConfirmStable"⟩
]

/-- the guard of each variable: a lock held at EVERY access from a real entry point ("atomic": only
    atomic.Value Load/Store; "none": no such lock) -/
def guards : List (Var × String) := [
  (.sigCache, "consensus.sigCacheMu"),
  (.lastSig, "Confirmer.lastSigLock"),
  (.head, "atomic"),
  (.unConfirmBlocks, "ChainDatabase.RW"),
  (.lastConfirm, "ChainDatabase.RW"),
  (.offset, "FileQueue.putLock"),
  (.index, "FileQueue.IndexRW"),
  (.termList, "Manager.lock"),
  (.evilDeputies, "Manager.edLock"),
  (.blockRecord, "ChainDatabase.RW"),
  (.headDecision, "DPoVP.chainLock")
]

/-- functions of the anchored packages that call (second number: start with go / time.AfterFunc) a function VALUE
    (func-typed variable, parameter or field): the scanner's call graph does not follow these calls; function literals
    are analysed where they are DEFINED.  The list is compared on every run: a new entry is a table-mismatch. -/
def dynCalls : List (String × Nat × Nat) := [("CBlock.Walk", 1, 0), ("ChainDatabase.IterateUnConfirms", 1, 0), ("ChainDatabase.SetStableBlock", 2, 0), ("ChainDatabase.blockCommit", 3, 0), ("RunContext.flush", 2, 0), ("TrieDatabase.Commit", 1, 0)]

/-- check-then-act splits (a function that reads a variable in one section of its lock and writes it in another):
    expected none -/
def rmwSplits : List (String × String) := []

/-- goroutine / deferred function literals inside a loop that read the loop's variable (go.mod `go 1.14`: one variable shared
    by all iterations), as `(package:function, variable)`; scanned on every run (`loopvar` ops).  None in /repo. -/
def loopvarCaptures : List (String × String) := []

/-- functions that can return still holding a lock they took (expected: only the deliberate lock-handing wrapper) -/
def lockLeaks : List (String × String) := [("TrieDatabase.Lock", "TrieDatabase.lock")]

/-- lock-order edges (A, B): B is taken while A may be held (A held at the Lock() statement or by some caller path);
    at least one of the two is a lock of chain/consensus, store, chain/deputynode.  (A, A) = per-TYPE re-acquisition
    (different instances / over-approximated interface calls). -/
def lockOrder : List (String × String) := [
  ("BitCask.RW", "BitCask.RW"),
  ("BitCask.RW", "FileQueue.IndexRW"),
  ("BitCask.RW", "rlp.typeCacheMutex"),
  ("ChainDatabase.BizRW", "BitCask.RW"),
  ("ChainDatabase.BizRW", "ChainDatabase.RW"),
  ("ChainDatabase.BizRW", "FileQueue.IndexRW"),
  ("ChainDatabase.BizRW", "rlp.typeCacheMutex"),
  ("ChainDatabase.RW", "BitCask.RW"),
  ("ChainDatabase.RW", "FileQueue.IndexRW"),
  ("ChainDatabase.RW", "FileQueue.putLock"),
  ("ChainDatabase.RW", "rlp.typeCacheMutex"),
  ("DPoVP.chainLock", "BitCask.RW"),
  ("DPoVP.chainLock", "ChainDatabase.RW"),
  ("DPoVP.chainLock", "Confirmer.lastSigLock"),
  ("DPoVP.chainLock", "FileQueue.IndexRW"),
  ("DPoVP.chainLock", "FileQueue.putLock"),
  ("DPoVP.chainLock", "Manager.lock"),
  ("DPoVP.chainLock", "MemDatabase.lock"),
  ("DPoVP.chainLock", "TrieDatabase.lock"),
  ("DPoVP.chainLock", "TxGuard.RW"),
  ("DPoVP.chainLock", "TxPool.RW"),
  ("DPoVP.chainLock", "TxProcessor.lock"),
  ("DPoVP.chainLock", "consensus.sigCacheMu"),
  ("DPoVP.chainLock", "rlp.typeCacheMutex"),
  ("FileQueue.putLock", "FileQueue.IndexRW"),
  ("FileQueue.putLock", "rlp.typeCacheMutex"),
  ("Node.lock", "BitCask.RW"),
  ("Node.lock", "ChainDatabase.RW"),
  ("Node.lock", "FileQueue.IndexRW"),
  ("Node.lock", "MemDatabase.lock"),
  ("Node.lock", "TrieDatabase.lock"),
  ("TxProcessor.lock", "BitCask.RW"),
  ("TxProcessor.lock", "ChainDatabase.RW"),
  ("TxProcessor.lock", "FileQueue.IndexRW"),
  ("TxProcessor.lock", "Manager.lock"),
  ("TxProcessor.lock", "MemDatabase.lock"),
  ("TxProcessor.lock", "TrieDatabase.lock")
]

/-- a topological order of the locks: every edge of lockOrder other than the (A, A) ones goes forward in it -/
def lockRank : List String := ["ChainDatabase.BizRW", "DPoVP.chainLock", "Confirmer.lastSigLock", "Node.lock", "TxGuard.RW", "TxPool.RW", "TxProcessor.lock", "ChainDatabase.RW", "BitCask.RW", "FileQueue.putLock", "FileQueue.IndexRW", "Manager.lock", "MemDatabase.lock", "TrieDatabase.lock", "consensus.sigCacheMu", "rlp.typeCacheMutex"]

/-- head reads that are deliberately made before the chain lock is taken (see the header) -/
def benignPrechecks : List String := ["DPoVP.InsertBlock/DPoVP.isIgnorableBlock"]

/-- every listed access of `v` from a real entry point holds `v`'s lock
    (rows with entry "-" are constructor / start-up code that runs before the object is shared) -/
def disciplined (t : List Row) (v : Var) : Bool :=
  t.all (fun r => r.var != v || r.held || r.kind == .startup)

/-- the rows that break the discipline of `v` -/
def offenders (t : List Row) (v : Var) : List Row :=
  t.filter (fun r => r.var == v && !r.held && r.kind != .startup)

end LemoModel.LockFacts

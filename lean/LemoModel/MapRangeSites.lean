/-
  C01, clause "the block result does not depend on hash-map iteration order" — the committed inventory of every place
  where the block-execution packages (chain/transaction, chain/vm, chain/account, chain/consensus, chain/types; production
  files) range over a Go MAP, with the reason why the visiting order cannot reach the block result.

  Row format (produced from the sources on every run by harness/hx/c01_sites.go, go/types):
      file|function|operand|callees of the loop body|non-local assignment targets of the body|early exits
  The driver answers `mo-site <row>` with `ok` iff the row is in this table: a NEW map range, or a loop body that calls
  something else than it did when the row was reviewed (a setter instead of collecting keys for a sort …) is a
  `table-mismatch` and this table — and the model — have to be revisited.
  THIS IS NOT A THEOREM: no Lean statement mentions `table`; `known row` is a string lookup in the driver and the second
  column is reviewed PROSE.  Re-committing the table makes any code pass; what the run adds is that the committed rows equal
  a fresh extraction (`mo-site`, `mo-sites N`).  The extractor (trusted Go code of the harness) records as "assignment
  targets" only index / selector / star targets and `op=` on identifiers: a PLAIN `=` / `:=` to an identifier declared
  outside the loop (`winner = k`, the classic map-order leak), `++` / `--` and `continue <label>` are NOT in a row; callees
  are bare last names; slice-index and map-index targets both print `x[]`; what happens AFTER the loop (the `sort` behind the
  `append`-only rows) is not in the row; ranges outside a FuncDecl and directories other than the five (no sub-directories)
  are not scanned. chain/consensus has no map range: the refund list
  reaches `refundCandidateDeposit` as a slice the store's candidate loader built from a map (order parameter πR).
  Core Lean only.
-/
namespace LemoModel.MapRangeSites

/-- (row, why the order is harmless / which order parameter of LemoModel.MergeOrder stands for it) -/
def table : List (String × String) := [
  ("chain/account/account.go|Account.GetCandidate|a.data.Candidate.Profile|-|result[]|-",
     "copy map to map (a map has no order)"),
  ("chain/account/account.go|Account.IsEmpty|a.data.NewestRecords|-|-|return",
     "exists-a-nonzero-version: the answer is the same for every order"),
  ("chain/account/account.go|Account.SetCandidate|profile|-|a.data.Candidate.Profile[]|-",
     "copy map to map"),
  ("chain/account/account.go|NewAccount|data.NewestRecords|-|account.newestRecords[]|-",
     "copy map to map"),
  ("chain/account/account.go|Storage.Copy|s|-|cpy[]|-",
     "copy map to map"),
  ("chain/account/account.go|Storage.String|s|Sprintf|str+=|-",
     "debug string only (never hashed or stored)"),
  ("chain/account/account.go|StorageCache.Update|cache.dirty|TrimLeft,TryDelete,TryUpdate,delete,len|-|return",
     "writes the dirty entries into the trie: distinct keys, the trie root is a function of the content (C17 trie canonicity); the early return is a database error"),
  ("chain/account/change_log.go|cloneCandidateProfile|src|-|result[]|-",
     "copy map to map"),
  ("chain/account/log_compressor.go|MergeChangeLogs|logsByAccount|append|-|-",
     "order parameter π2 of MergeOrder.mergeChangeLogs: keys collected, then sort.Sort (publish_order_independent)"),
  ("chain/account/log_compressor.go|MergeChangeLogs|logsByAccount|merge,removeUnchanged|logsByAccount[]|-",
     "order parameter π1 of MergeOrder.mergeChangeLogs: each account compressed independently (publish_order_independent)"),
  ("chain/account/manager.go|Manager.Finalise|am.accountCache|append|-|-",
     "order parameter π3 of MergeOrder.finaliseParts: keys collected, then sort.Sort (publish_order_independent)"),
  ("chain/account/manager.go|Manager.GetEvents|am.accountCache|GetEvents,append|-|-",
     "events in map order — the function has no caller in the production code"),
  ("chain/account/manager.go|Manager.Save|am.accountCache|CurrentBlockHeight,GetAddress,Put,Save,len|-|return",
     "one database write per account, independent of each other; the early return is a database error"),
  ("chain/transaction/asset_tx.go|RunAssetEnv.ModifyAssetProfileTx|info|append|-|-",
     "keys collected, then sort.Strings, then one SetAssetCodeState per key: MergeOrder.modifyProfile (modifyProfile_order_independent; applying in range order is refuted: modifyProfileUnsorted_order_dependent)"),
  ("chain/transaction/candidate_vote_tx.go|CandidateVoteEnv.modifyCandidateInfo|txBuildProfile|-|candidateProfile[]|-",
     "copy map to map (distinct keys), the result map is written by ONE SetCandidate"),
  ("chain/transaction/candidate_vote_tx.go|CheckRegisterTxProfile|profile|Errorf,len|-|return",
     "validation: whether SOME entry is too long does not depend on the order (which entry is named in the log line does)"),
  ("chain/transaction/tx_processor.go|ChangeVotesByBalance|changes|changeCandidateVotes|-|-",
     "order parameter πV of MergeOrder.finalizeBlock (votePass_order_sim)"),
  ("chain/transaction/tx_processor.go|getVotesChangesByLogs|balanceLogs|Cmp,Div,Sub,new|votesChange[]|-",
     "map to map, one entry per account"),
  ("chain/types/account_data.go|AccountData.Copy|a.Candidate.Profile|-|cpy.Candidate.Profile[]|-",
     "copy map to map"),
  ("chain/types/account_data.go|AccountData.Copy|a.NewestRecords|-|cpy.NewestRecords[]|-",
     "copy map to map"),
  ("chain/types/account_data.go|AccountData.EncodeRLP|a.NewestRecords|append|-|-",
     "records collected, then sort.Slice by log type (C14 encode_deterministic)"),
  ("chain/types/account_data.go|AccountData.String|a.Candidate.Profile|Sprintf,append|-|-",
     "debug string only"),
  ("chain/types/account_data.go|AccountData.String|a.NewestRecords|Sprintf,append|-|-",
     "debug string only"),
  ("chain/types/account_data.go|Profile.Clone|*a|-|result[]|-",
     "copy map to map"),
  ("chain/types/account_data.go|Profile.EncodeRLP|*a|append|-|-",
     "keys collected, then sort.Strings (C14)"),
  ("chain/types/asset.go|Asset.Clone|profile|-|result[]|-",
     "copy map to map"),
  ("chain/types/asset.go|Asset.String|asset.Profile|Sprintf,append|-|-",
     "debug string only"),
  ("chain/vm/contracts.go|setRewardValue.Run|rewardMap|Add|-|-",
     "sum of big.Int values: commutative (the map itself is stored by json.Marshal, which sorts keys)"),
  ("chain/vm/logger.go|Storage.Copy|self|-|cpy[]|-",
     "copy map to map"),
  ("chain/vm/logger.go|WriteTrace|log.Storage|Fprintf|-|-",
     "debug trace output only")
]

def known (row : String) : Bool := table.any (fun r => r.1 == row)

end LemoModel.MapRangeSites

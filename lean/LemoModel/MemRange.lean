/-
  C16 — every memory-touching instruction stays inside the memory the interpreter resized for it.

  Model of (a) chain/vm/memory_table.go (the `memorySize` functions of the jump table, `calcMemSize`
  over big.Int, `math.BigMax` of two ranges for the call family), (b) the memory stage of
  `Interpreter.Run` (chain/vm/interpreter.go: `bigUint64`, `toWordSize`, `math.SafeMul(…, 32)`, the
  refusal of `memoryGasCost` above 0xffffffffe0 that every gas function of a memory instruction
  starts with, `mem.Resize(memorySize)` only when `memorySize > 0`) and (c) the memory accesses of
  the instruction bodies (chain/vm/instructions.go: `memory.Get / GetPtr / Set` and the direct index
  `memory.store[off]` of opMstore8, with the `.Int64()` / `.Uint64()` conversions of the operands).
  Core Lean only. Stack words are naturals (non-negative big.Int); `Back(i)` = `st[i]`, top first.
  A Go panic (index / slice bounds, `make` with a negative length, Memory.Set's own panic) is `none`.
-/
import LemoModel.JumpAnalysis
namespace LemoModel.MemRange
open LemoModel.JumpAnalysis

abbrev Stack := List Nat

/-- `stack.Back(i)` (a missing item reads as 0; the interpreter has validated the height before) -/
def back (st : Stack) (i : Nat) : Nat := st.getD i 0

/-! ### (a) memory_table.go -/

/-- a size operand: a stack slot or a literal -/
inductive Arg where
  | slot (i : Nat)
  | const (n : Nat)
  deriving Repr, DecidableEq

def Arg.val (st : Stack) : Arg → Nat
  | .slot i => back st i
  | .const n => n


/-- common.go `calcMemSize(off, l)`: `if l.Sign() == 0 { return 0 }; return off + l` -/
def calcMemSize (off l : Nat) : Nat := if l = 0 then 0 else off + l

/-- common/math `BigMax(x, y)`: `if x.Cmp(y) < 0 { return y }; return x` -/
def bigMax (x y : Nat) : Nat := if x < y then y else x

def memorySha3 (st : Stack) : Nat := calcMemSize (back st 0) (back st 1)
def memoryCallDataCopy (st : Stack) : Nat := calcMemSize (back st 0) (back st 2)
def memoryReturnDataCopy (st : Stack) : Nat := calcMemSize (back st 0) (back st 2)
def memoryCodeCopy (st : Stack) : Nat := calcMemSize (back st 0) (back st 2)
def memoryExtCodeCopy (st : Stack) : Nat := calcMemSize (back st 1) (back st 3)
def memoryMLoad (st : Stack) : Nat := calcMemSize (back st 0) 32
def memoryMStore8 (st : Stack) : Nat := calcMemSize (back st 0) 1
def memoryMStore (st : Stack) : Nat := calcMemSize (back st 0) 32
def memoryCreate (st : Stack) : Nat := calcMemSize (back st 1) (back st 2)
def memoryCall (st : Stack) : Nat :=
  bigMax (calcMemSize (back st 5) (back st 6)) (calcMemSize (back st 3) (back st 4))
def memoryDelegateCall (st : Stack) : Nat :=
  bigMax (calcMemSize (back st 4) (back st 5)) (calcMemSize (back st 2) (back st 3))
def memoryStaticCall (st : Stack) : Nat :=
  bigMax (calcMemSize (back st 4) (back st 5)) (calcMemSize (back st 2) (back st 3))
def memoryReturn (st : Stack) : Nat := calcMemSize (back st 0) (back st 1)
def memoryRevert (st : Stack) : Nat := calcMemSize (back st 0) (back st 1)
def memoryEvent (st : Stack) : Nat := calcMemSize (back st 0) (back st 1)

/-- a `memorySize` column entry: the Go function's name (tied by the go/ast rows) and its meaning -/
structure MemFn where
  name : String
  fn : Stack → Nat

/-- the `memorySize` column of jump_table.go (`none` = nil). CALLCODE uses `memoryCall`
    (`memoryCallCode` exists in memory_table.go but no row refers to it). -/
def memFn (op : Nat) : Option MemFn :=
  match op with
  | 0x20 => some ⟨"memorySha3", memorySha3⟩
  | 0x37 => some ⟨"memoryCallDataCopy", memoryCallDataCopy⟩
  | 0x39 => some ⟨"memoryCodeCopy", memoryCodeCopy⟩
  | 0x3c => some ⟨"memoryExtCodeCopy", memoryExtCodeCopy⟩
  | 0x3e => some ⟨"memoryReturnDataCopy", memoryReturnDataCopy⟩
  | 0x51 => some ⟨"memoryMLoad", memoryMLoad⟩
  | 0x52 => some ⟨"memoryMStore", memoryMStore⟩
  | 0x53 => some ⟨"memoryMStore8", memoryMStore8⟩
  | 0xa0 => some ⟨"memoryEvent", memoryEvent⟩
  | 0xa1 => some ⟨"memoryEvent", memoryEvent⟩
  | 0xa2 => some ⟨"memoryEvent", memoryEvent⟩
  | 0xa3 => some ⟨"memoryEvent", memoryEvent⟩
  | 0xa4 => some ⟨"memoryEvent", memoryEvent⟩
  | 0xf0 => some ⟨"memoryCreate", memoryCreate⟩
  | 0xf1 => some ⟨"memoryCall", memoryCall⟩
  | 0xf2 => some ⟨"memoryCall", memoryCall⟩
  | 0xf3 => some ⟨"memoryReturn", memoryReturn⟩
  | 0xf4 => some ⟨"memoryDelegateCall", memoryDelegateCall⟩
  | 0xfa => some ⟨"memoryStaticCall", memoryStaticCall⟩
  | 0xfd => some ⟨"memoryRevert", memoryRevert⟩
  | _ => none

/-- the SOURCE of a memory_table.go function as a term (tied by the go/ast rows `mrt`): what the
    function returns, local variables substituted -/
inductive SizeExpr where
  | calc (off : Nat) (size : Arg)        -- calcMemSize(stack.Back(off), stack.Back(i) | big.NewInt(n))
  | max (a b : SizeExpr)                 -- math.BigMax(a, b)
  deriving Repr, DecidableEq

def SizeExpr.eval (st : Stack) : SizeExpr → Nat
  | .calc off size => calcMemSize (back st off) (size.val st)
  | .max a b => bigMax (a.eval st) (b.eval st)

/-- every function of memory_table.go by name (`memoryCallCode` is defined there but unused) -/
def memSpec (name : String) : Option SizeExpr :=
  match name with
  | "memorySha3" => some (.calc 0 (.slot 1))
  | "memoryCallDataCopy" => some (.calc 0 (.slot 2))
  | "memoryReturnDataCopy" => some (.calc 0 (.slot 2))
  | "memoryCodeCopy" => some (.calc 0 (.slot 2))
  | "memoryExtCodeCopy" => some (.calc 1 (.slot 3))
  | "memoryMLoad" => some (.calc 0 (.const 32))
  | "memoryMStore8" => some (.calc 0 (.const 1))
  | "memoryMStore" => some (.calc 0 (.const 32))
  | "memoryCreate" => some (.calc 1 (.slot 2))
  | "memoryCall" => some (.max (.calc 5 (.slot 6)) (.calc 3 (.slot 4)))
  | "memoryCallCode" => some (.max (.calc 5 (.slot 6)) (.calc 3 (.slot 4)))
  | "memoryDelegateCall" => some (.max (.calc 4 (.slot 5)) (.calc 2 (.slot 3)))
  | "memoryStaticCall" => some (.max (.calc 4 (.slot 5)) (.calc 2 (.slot 3)))
  | "memoryReturn" => some (.calc 0 (.slot 1))
  | "memoryRevert" => some (.calc 0 (.slot 1))
  | "memoryEvent" => some (.calc 0 (.slot 1))
  | _ => none

/-! ### (b) the memory stage of Interpreter.Run -/

def maxU64 : Nat := 18446744073709551615

/-- `memoryGasCost`: `if newMemSize > 0xffffffffe0 { return 0, errGasUintOverflow }` -/
def memLimit : Nat := 0xffffffffe0

/-- common.go `bigUint64(v)`: `v.Uint64(), v.BitLen() > 64` -/
def bigUint64 (v : Nat) : Nat × Bool := (v % u64, decide (v ≥ u64))

/-- common.go `toWordSize` -/
def toWordSize (size : Nat) : Nat :=
  if size > maxU64 - 31 then maxU64 / 32 + 1 else (size + 31) / 32

/-- common/math `SafeMul` -/
def safeMul (x y : Nat) : Nat × Bool :=
  if x = 0 ∨ y = 0 then (0, false) else ((x * y) % u64, decide (y > maxU64 / x))

inductive Stage where
  | overflow                 -- Run returns errGasUintOverflow (its own two checks)
  | refused                  -- the gas function's memoryGasCost refuses the size → ErrOutOfGas
  | ok (memorySize : Nat)    -- the gas function is asked to price `memorySize` bytes (0 = no memory function / empty range)
  deriving Repr, DecidableEq

/-- the stage for a given `memorySize` column `F` (the real one is `memFn`; variants are used by the
    refutations only) -/
def stageWith (F : Nat → Option MemFn) (op : Nat) (st : Stack) : Stage :=
  match F op with
  | none => .ok 0
  | some f =>
    let r := bigUint64 (f.fn st)                 -- memSize, overflow := bigUint64(operation.memorySize(stack))
    if r.2 then .overflow
    else
      let r2 := safeMul (toWordSize r.1) 32      -- memorySize, overflow = math.SafeMul(toWordSize(memSize), 32)
      if r2.2 then .overflow
      else if r2.1 > memLimit then .refused
      else .ok r2.1

def stage (op : Nat) (st : Stack) : Stage := stageWith memFn op st

/-- `if memorySize > 0 { mem.Resize(memorySize) }` -/
def resized (m : Mem) (memorySize : Nat) : Mem := if memorySize > 0 then memResize m memorySize else m

/-- gas_table.go `memoryGasCost(mem, newMemSize)` on EMPTY memory (`lastGasCost` 0), in the uint64
    arithmetic of the code (`none` = errGasUintOverflow):
      newMemSizeWords := toWordSize(newMemSize); square := words * words
      linCoef := words * params.MemoryGas; quadCoef := square / params.QuadCoeffDiv; fee := linCoef + quadCoef -/
def memoryGasCost64 (memoryGas quadCoeffDiv newMemSize : Nat) : Option Nat :=
  if newMemSize = 0 then some 0
  else if newMemSize > memLimit then none
  else
    let words := toWordSize newMemSize
    let square := (words * words) % u64
    let linCoef := (words * memoryGas) % u64
    let quadCoef := square / quadCoeffDiv
    some ((linCoef + quadCoef) % u64)

/-! ### (c) the instruction bodies -/

/-- `x.Int64()` of a non-negative big.Int: the low 64 bits as two's complement -/
def int64 (w : Nat) : Int := if w % u64 < i63 then ((w % u64 : Nat) : Int) else ((w % u64 : Nat) : Int) - (u64 : Int)

/-- `x.Uint64()` -/
def uint64 (w : Nat) : Nat := w % u64

/-- one use of the `memory` parameter in an instruction body; `off` is the stack slot (pop order)
    holding the offset -/
inductive Access where
  | get (off : Nat) (size : Arg)      -- memory.Get(s_off.Int64(), size.Int64())
  | getPtr (off : Nat) (size : Arg)   -- memory.GetPtr(s_off.Int64(), size.Int64())
  | set (off : Nat) (size : Arg)      -- memory.Set(s_off.Uint64(), size.Uint64(), value)
  | store8 (off : Nat)                -- memory.store[s_off.Int64()] = byte
  | len                               -- memory.Len() (touches no byte)
  deriving Repr, DecidableEq

def Access.touches : Access → Bool
  | .len => false
  | _ => true

/-- the memory uses of the `execute` function of every opcode, in execution order (instructions.go;
    tied to the source by the go/ast rows `mra`) -/
def bodyAccesses (op : Nat) : List Access :=
  match op with
  | 0x20 => [.get 0 (.slot 1)]                        -- opSha3
  | 0x37 => [.set 0 (.slot 2)]                        -- opCallDataCopy
  | 0x39 => [.set 0 (.slot 2)]                        -- opCodeCopy
  | 0x3c => [.set 1 (.slot 3)]                        -- opExtCodeCopy
  | 0x3e => [.set 0 (.slot 2)]                        -- opReturnDataCopy
  | 0x51 => [.get 0 (.const 32)]                      -- opMload
  | 0x52 => [.set 0 (.const 32)]                      -- opMstore
  | 0x53 => [.store8 0]                               -- opMstore8
  | 0x59 => [.len]                                    -- opMsize
  | 0xa0 => [.get 0 (.slot 1)]                        -- makeEvent(0)
  | 0xa1 => [.get 0 (.slot 1)]
  | 0xa2 => [.get 0 (.slot 1)]
  | 0xa3 => [.get 0 (.slot 1)]
  | 0xa4 => [.get 0 (.slot 1)]
  | 0xf0 => [.get 1 (.slot 2)]                        -- opCreate
  | 0xf1 => [.get 3 (.slot 4), .set 5 (.slot 6)]      -- opCall
  | 0xf2 => [.get 3 (.slot 4), .set 5 (.slot 6)]      -- opCallCode
  | 0xf3 => [.getPtr 0 (.slot 1)]                     -- opReturn
  | 0xf4 => [.get 2 (.slot 3), .set 4 (.slot 5)]      -- opDelegateCall
  | 0xfa => [.get 2 (.slot 3), .set 4 (.slot 5)]      -- opStaticCall
  | 0xfd => [.getPtr 0 (.slot 1)]                     -- opRevert
  | _ => []

/-- the byte range `[lo, hi)` an access indexes (with Go's conversions, before any bounds check);
    `none` = the zero-size short cut of Get / GetPtr / Set, nothing is indexed -/
def Access.range (st : Stack) : Access → Option (Int × Int)
  | .get off size | .getPtr off size =>
    if int64 (size.val st) = 0 then none else some (int64 (back st off), int64 (back st off) + int64 (size.val st))
  | .set off size =>
    if uint64 (size.val st) = 0 then none
    else some ((uint64 (back st off) : Int), (uint64 (back st off) : Int) + (uint64 (size.val st) : Int))
  | .store8 off => some (int64 (back st off), int64 (back st off) + 1)
  | .len => none

/-- `Memory.Get` / `GetPtr` with int64 arguments of either sign:
      if size == 0 { return nil }
      if len(store) > int(offset) { cpy = make([]byte, size); copy(cpy, store[offset:offset+size]) }
    A negative size makes `make` panic, a negative offset or a wrapped `offset+size` the slice
    expression; for non-negative, non-wrapping arguments it is `JumpAnalysis.memGet`. -/
def doGet (m : Mem) (off size : Int) : Option (List UInt8) :=
  if size = 0 then some []
  else if off < 0 ∨ size < 0 ∨ off + size ≥ (i63 : Int) then
    (if (m.len : Int) > off then none else some [])
  else memGet m off.toNat size.toNat

/-- `memory.store[off] = b` with an int index: checked against the LENGTH -/
def doStore8 (m : Mem) (off : Int) (b : UInt8) : Option Mem :=
  if 0 ≤ off ∧ off < (m.len : Int) then some { m with buf := m.buf.set off.toNat b } else none

/-- what the frame looks like from inside an instruction body -/
structure Env where
  input : List UInt8 := []                 -- contract.Input
  code : List UInt8 := []                  -- contract.Code
  extCode : Option (List UInt8) := some [] -- EXTCODECOPY: the account's code (`none` = GetCode error)
  retData : List UInt8 := []               -- interpreter.returnData
  /-- call family: the callee's output for the given arguments when the body writes it
      (`err == nil || err == errExecutionReverted`), `none` otherwise -/
  callRet : List UInt8 → Option (List UInt8) := fun _ => none

/-- what `Set` is called with: the body returned before (`skip`), a slice expression in the operand
    panicked, or the value -/
inductive SetVal where
  | skip
  | panic
  | val (v : List UInt8)

def ofOpt : Option (List UInt8) → SetVal
  | some v => .val v
  | none => .panic

/-- big-endian bytes of `n`, `len` of them (`math.PaddedBigBytes(val, 32)` for a 256-bit word) -/
def beBytes (n len : Nat) : List UInt8 :=
  (List.range len).map (fun i => UInt8.ofNat (n / 256 ^ (len - 1 - i) % 256))

/-- the third argument of the instruction's `memory.Set`, `read` being what its preceding
    `memory.Get` returned -/
def setValue (op : Nat) (st : Stack) (env : Env) (read : List UInt8) : SetVal :=
  match op with
  | 0x37 => ofOpt (getDataBig env.input (back st 1) (back st 2))
  | 0x39 => ofOpt (getDataBig env.code (back st 1) (back st 2))
  | 0x3c =>
    match env.extCode with
    | none => .skip
    | some c => ofOpt (getDataBig c (back st 2) (back st 3))
  | 0x3e =>
    -- end := dataOffset + length; if end.BitLen() > 64 || uint64(len(returnData)) < end.Uint64() { return err }
    let e := back st 1 + back st 2
    if e ≥ u64 ∨ env.retData.length < e % u64 then .skip
    else ofOpt (slice env.retData (uint64 (back st 1)) (e % u64))
  | 0x52 => .val (beBytes (back st 1) 32)
  | 0xf1 | 0xf2 | 0xf4 | 0xfa =>
    match env.callRet read with
    | some r => .val r
    | none => .skip
  | _ => .skip

/-- one access of the body of `op`; the state is the memory and the bytes last read -/
def runAccess (op : Nat) (st : Stack) (env : Env) (s : Mem × List UInt8) : Access → Option (Mem × List UInt8)
  | .get off size | .getPtr off size =>
    match doGet s.1 (int64 (back st off)) (int64 (size.val st)) with
    | some r => some (s.1, r)
    | none => none
  | .set off size =>
    match setValue op st env s.2 with
    | .skip => some s
    | .panic => none
    | .val v =>
      match memSet s.1 (uint64 (back st off)) (uint64 (size.val st)) v with
      | some m' => some (m', s.2)
      | none => none
  | .store8 off =>
    match doStore8 s.1 (int64 (back st off)) (UInt8.ofNat (uint64 (back st 1) % 256)) with
    | some m' => some (m', s.2)
    | none => none
  | .len => some s

def runAll (op : Nat) (st : Stack) (env : Env) : Mem × List UInt8 → List Access → Option (Mem × List UInt8)
  | s, [] => some s
  | s, a :: as =>
    match runAccess op st env s a with
    | some s' => runAll op st env s' as
    | none => none

/-- the memory effects of the body of `op` on memory `m`: the memory afterwards and the bytes the
    body read from it (hash input, log data, init code, call arguments, return value, MLOAD word) -/
def exec (op : Nat) (st : Stack) (env : Env) (m : Mem) : Option (Mem × List UInt8) :=
  runAll op st env (m, []) (bodyAccesses op)

/-- one interpreter step as far as memory is concerned: the stage, the resize, the body -/
inductive StepOut where
  | stopped (s : Stage)                       -- errGasUintOverflow / refused before the body
  | panic                                     -- the body indexes outside the store
  | done (m : Mem) (read : List UInt8)
  deriving Repr, DecidableEq

def stepWith (F : Nat → Option MemFn) (op : Nat) (st : Stack) (env : Env) (m : Mem) : StepOut :=
  match stageWith F op st with
  | .ok ms =>
    match exec op st env (resized m ms) with
    | some (m', r) => .done m' r
    | none => .panic
  | s => .stopped s

def step (op : Nat) (st : Stack) (env : Env) (m : Mem) : StepOut := stepWith memFn op st env m

/-! ### hypothetical slips (refutation variants; NOT the code) -/

/-- `memoryCall` taking only the argument range -/
def memFnCallArgsOnly (op : Nat) : Option MemFn :=
  if op = 0xf1 then some ⟨"memoryCall", fun st => calcMemSize (back st 3) (back st 4)⟩ else memFn op

/-- `memoryMStore8` sized as zero bytes -/
def memFnMstore8Zero (op : Nat) : Option MemFn :=
  if op = 0x53 then some ⟨"memoryMStore8", fun st => calcMemSize (back st 0) 0⟩ else memFn op

/-- `memoryReturnDataCopy` sized from the data offset (`stack.Back(1)`) instead of the memory offset -/
def memFnRdcDataOffset (op : Nat) : Option MemFn :=
  if op = 0x3e then some ⟨"memoryReturnDataCopy", fun st => calcMemSize (back st 1) (back st 2)⟩ else memFn op

end LemoModel.MemRange

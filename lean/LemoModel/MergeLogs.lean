/-
  C07 (last clause) — model of `MergeChangeLogs` (chain/account/log_compressor.go, `merge`) and of
  replaying change logs (`ChangeLog.Redo` in order, as `Manager.RebuildAll` does), for the logs of ONE account.

  A log is abstracted to what its Redo writes: a list of (cell, value) assignments.
  * a MERGEABLE log (BalanceLog, VotesLog, VoteForLog, EquityLog, AssetCodeTotalSupplyLog, the root logs)
    has a key (log type + Extra) and writes exactly the one cell named by that key;
  * a non-mergeable log (StorageLog, CodeLog, SuicideLog, CandidateLog, …) may write any cells
    (SuicideLog's Redo zeroes the balance, the code hash and the roots).
  `merge` walks the logs; a mergeable log whose key is already in the result overwrites the NewVal of that
  EARLIER entry (keeping its position), anything else is appended.  Core Lean only.
-/
namespace LemoModel.MergeLogs

structure L where
  key : Nat
  mergeable : Bool
  writes : List (Nat × Int)     -- for a mergeable log: [(key, NewVal)]

def upd (f : Nat → Int) (k : Nat) (v : Int) : Nat → Int := fun x => if x = k then v else f x

/-- Redo of one log -/
def apply (l : L) (s : Nat → Int) : Nat → Int := l.writes.foldl (fun s w => upd s w.1 w.2) s

/-- Redo of a log list in order (`RebuildAll`) -/
def redo (logs : List L) (s : Nat → Int) : Nat → Int := logs.foldl (fun s l => apply l s) s

def sameKey (l r : L) : Bool := r.mergeable && r.key == l.key

/-- one iteration of `merge` -/
def mergeStep (res : List L) (l : L) : List L :=
  if l.mergeable && res.any (sameKey l) then
    res.map (fun r => if sameKey l r then { r with writes := l.writes } else r)
  else res ++ [l]

/-- `merge` of log_compressor.go (without `removeUnchanged`, which only drops logs whose Redo is a no-op) -/
def merge (logs : List L) : List L := logs.foldl mergeStep []

/-- the table of merged log types (`needMerge`), by ChangeLogType number; checked against the real function on every run
    (`needmerge` rows of `hx c07`) -/
def needMerge (t : Nat) : Bool := t ∈ [1, 3, 6, 7, 9, 10, 11, 17, 18]

/-- number of log types (`LOG_TYPE_STOP`) -/
def logTypeStop : Nat := 20

/-- a log (type, extra, newVal) as an `L`: key = type·100 + extra; only the NewVal cell is recorded -/
def mkL (t e : Nat) (v : Int) : L := { key := t * 100 + e, mergeable := needMerge t, writes := [(t * 100 + e, v)] }

/-! ### `removeUnchanged` (log_compressor.go): after the merge, logs that `IsValuable` judges unchanged are dropped.
`valuable` is the verdict of `IsValuable` (change_log.go) on the log's OldVal / NewVal as recorded when the log was
made: for a SuicideLog "the account had a balance, a code hash or a COMMITTED storage root". -/

structure VL where
  log : L
  valuable : Bool

def removeUnchanged (ls : List VL) : List L := (ls.filter (·.valuable)).map (·.log)

end LemoModel.MergeLogs

/-
  C01, clause "the block result does not depend on hash-map iteration order" — model of the pipeline that turns
  the block's raw change journal into the PUBLISHED change-log list (what `Header.LogRoot` hashes and what the
  version records / version trie are computed from).  Core Lean only.

  Code modelled (line by line, defects included):
    chain/account/log_compressor.go   MergeChangeLogs, merge, needMerge, removeUnchanged
    chain/account/change_log.go       IsValuable
    chain/account/manager.go          Finalise, updateVersion, logGrouping
    chain/account/account.go          GetNextVersion / GetVersion / SetVersion, updateTrie (which roots change)
    chain/transaction/candidate_vote_tx.go   Refund              (called from assembler.refundCandidateDeposit in the
                                                                  order LoadRefundCandidates returns: a Go map order)
    chain/transaction/tx_processor.go        ChangeVotesByBalance, filterLogs, getVotesChangesByLogs, changeCandidateVotes
    common/types.go                   AddressSlice.Less (lower-case hex of 20 bytes = numeric order of the address)
    chain/account/safe_account.go + account.go + change_log.go   SetAssetCode / SetAssetCodeState / SetAssetCodeTotalSupply /
                                      SetSuicide (what the log records, what the raw setter does to the four StorageCaches)
    chain/account/manager.go          updateVersion: the Index written into event records (`eventIndices`)
    chain/transaction/asset_tx.go     ModifyAssetProfileTx: the ONE tx handler that turns a Go map into journal writes
                                      (`modifyProfile`; every other map range of the block-execution packages is listed in
                                      LemoModel.MapRangeSites and compared with the sources on every run)

  Every place where the code ranges over a Go map takes the visiting order as an explicit parameter:
    πR  the refund list                                   (assembler.go:179, produced from a map by the loader)
    πV  `for addr, changeVotes := range changes`          (tx_processor.go:652)
    π1  `for addr, accountLogs := range logsByAccount`    (log_compressor.go:17)
    π2  `for addr := range logsByAccount`                 (log_compressor.go:25)
    π3  `for addr := range am.accountCache`               (manager.go:241)
    π   `for k := range info`                             (asset_tx.go ModifyAssetProfileTx; keys sorted by `IsKeySort`)
  and `sort.Sort(addressList)` (an unstable sort) is a parameter `srt` constrained only by "returns a sorted
  permutation of its input" (`IsSort`).

  Values are integer labels: big.Int values are themselves; an address is its 160-bit number (0 = zero address);
  strings / byte strings / hashes / pointers are labels with 0 = empty / nil (the harness keeps the labelling injective).
  Candidate-state strings: 0 = "", 1 = "true", 2 = "false", 1000+n = the decimal numeral n.
-/
import LemoModel.MergeLogs
namespace LemoModel.MergeOrder

/-- a change log. `extra` 0 = nil, otherwise the label of the key/hash in `Extra`. -/
structure Log where
  addr : Nat
  ty : Nat
  extra : Nat
  old : Int
  new : Int
  ver : Nat
  deriving DecidableEq, Repr, Inhabited

/-- `needMerge` (log_compressor.go): the table of LemoModel.MergeLogs, tied to the real function by the `mo-needmerge` rows -/
def needMerge (t : Nat) : Bool := LemoModel.MergeLogs.needMerge t

/-- same slot of `typeMap[log.LogType][log.Extra]` -/
def sameKey (l r : Log) : Bool := r.ty == l.ty && r.extra == l.extra

/-- one iteration of `merge`: a log of a merged type whose (type, extra) is already in the result overwrites the NewVal of
    that EARLIER entry (position, OldVal and Version of the first log are kept); anything else is appended -/
def mergeStep (res : List Log) (l : Log) : List Log :=
  if needMerge l.ty && res.any (sameKey l) then
    res.map (fun r => if sameKey l r then { r with new := l.new } else r)
  else res ++ [l]

def merge (g : List Log) : List Log := g.foldl mergeStep []

/-- `IsValuable` (change_log.go). Types: 1 Balance 2 Storage 3 StorageRoot 4 AssetCode 5 AssetCodeState 6 AssetCodeRoot
    7 AssetCodeTotalSupply 8 AssetId 9 AssetIdRoot 10 Equity 11 EquityRoot 12 Candidate 13 CandidateState 14 Code
    15 AddEvent 16 Suicide 17 VoteFor 18 Votes 19 Signer.
    * 4, 10: OldVal / NewVal are freshly cloned pointers compared by identity: equal only when both are nil;
    * 12: pointers to two locals: never equal; 5: the `case` body is empty (the "fallthrough" is a comment): always true;
    * 16: the label of OldVal is 1 iff the account had a balance, a code hash or a committed storage root;
    * 14: valuable iff the new code is non-empty; 15: engine events are never nil. -/
def valuable (l : Log) : Bool :=
  if l.ty == 1 || l.ty == 2 || l.ty == 7 || l.ty == 17 || l.ty == 18 then l.old != l.new
  else if l.ty == 14 then l.new != 0
  else if l.ty == 16 then l.old != 0
  else if l.ty == 5 || l.ty == 12 || l.ty == 15 || l.ty == 19 then true
  else if l.ty == 4 || l.ty == 10 then !(l.old == 0 && l.new == 0)
  else l.old != l.new

def removeUnchanged (g : List Log) : List Log := g.filter valuable

/-- `logsByAccount[addr]` after the classify loop -/
def group (a : Nat) (j : List Log) : List Log := j.filter (fun l => l.addr == a)

def compress (g : List Log) : List Log := removeUnchanged (merge g)

def updM (m : Nat → List Log) (a : Nat) (v : List Log) : Nat → List Log := fun x => if x = a then v else m x

/-- `MergeChangeLogs`: `π1` = order of the merging range over the map, `π2` = order in which the keys are collected,
    `srt` = sort.Sort on AddressSlice -/
def mergeChangeLogs (srt : List Nat → List Nat) (π1 π2 : List Nat) (j : List Log) : List Log :=
  let m1 := π1.foldl (fun m a => updM m a (compress (m a))) (fun a => group a j)
  (srt π2).flatMap m1

/-- a Go map range visits every key exactly once, in any order -/
def IsKeyOrder (π : List Nat) (j : List Log) : Prop := π.Nodup ∧ ∀ a, a ∈ π ↔ ∃ l ∈ j, l.addr = a

/-- all that is assumed of `sort.Sort(AddressSlice)` -/
def IsSort (srt : List Nat → List Nat) : Prop := ∀ l, (srt l).Perm l ∧ (srt l).Pairwise (· ≤ ·)

/-! ### the journal and the state its setters read -/

structure JS where
  cell : Nat → Nat → Nat → Int := fun _ _ _ => 0   -- what the getter of (account, log type, extra) returns now
  com : Nat → Nat → Nat → Int := fun _ _ _ => 0    -- the committed content (parent state)
  base : Nat → Nat → Nat := fun _ _ => 0           -- data.NewestRecords[type].Version (parent state)
  next : Nat → Nat → Nat := fun _ _ => 0           -- Account.newestRecords[type] (provisional counter)
  rootZero : Nat → Nat → Bool := fun _ _ => true   -- (account, content type): the committed trie root is the ZERO hash
  logs : List Log := []                            -- LogProcessor.changeLogs, oldest first

def upd3 (f : Nat → Nat → Nat → Int) (a t e : Nat) (v : Int) : Nat → Nat → Nat → Int :=
  fun a' t' e' => if a' = a ∧ t' = t ∧ e' = e then v else f a' t' e'

def upd2 (f : Nat → Nat → Nat) (a t : Nat) (v : Nat) : Nat → Nat → Nat :=
  fun a' t' => if a' = a ∧ t' = t then v else f a' t'

/-- a SafeAccount setter of a cell-like attribute: NewXxxLog reads OldVal through the getter and takes
    `GetNextVersion` (counter bumped), the log is pushed, the raw setter runs -/
def JS.write (s : JS) (a t e : Nat) (v : Int) : JS :=
  { s with cell := upd3 s.cell a t e v, next := upd2 s.next a t (s.next a t + 1),
           logs := s.logs ++ [{ addr := a, ty := t, extra := e, old := s.cell a t e, new := v, ver := s.next a t + 1 }] }

def profLookup (p : List (Nat × Int)) (k : Nat) : Int :=
  match p.find? (fun x => x.1 == k) with
  | some x => x.2
  | none => 0

def encodeProfile (p : List (Nat × Int)) : Int := p.foldl (fun acc x => (acc * 100 + x.1) * 1000000 + x.2) 0

/-- `SetCandidate(profile)`: one CandidateLog; the whole profile map is replaced -/
def JS.writeProfile (s : JS) (a : Nat) (p : List (Nat × Int)) : JS :=
  { s with cell := (fun a' t' e' => if a' = a ∧ t' = 13 then profLookup p e'
                                    else if a' = a ∧ t' = 12 ∧ e' = 0 then encodeProfile p else s.cell a' t' e'),
           next := upd2 s.next a 12 (s.next a 12 + 1),
           logs := s.logs ++ [{ addr := a, ty := 12, extra := 0, old := 0, new := encodeProfile p, ver := s.next a 12 + 1 }] }

def kIsCand : Nat := 1      -- profile key "isCandidate"
def kDeposit : Nat := 2     -- profile key "depositBalance"

/-- `new(big.Int).SetString(s, 10)` on a candidate-state label -/
def depositOf (v : Int) : Option Int := if v ≥ 1000 then some (v - 1000) else none

/-! ### Finalize, phase 1: `refundCandidateDeposit` → `transaction.Refund` for every address of the refund list -/

/-- the three setters of `Refund` (pool balance down, candidate balance up, deposit record cleared) -/
def refundT (pool : Nat) (s : JS) (x : Nat) : JS :=
  match depositOf (s.cell x 13 kDeposit) with
  | none => s
  | some d =>
    let s1 := s.write pool 1 0 (s.cell pool 1 0 - d)
    let s2 := s1.write x 1 0 (s1.cell x 1 0 + d)
    s2.write x 13 kDeposit 0

/-- the two panics of `Refund`: the deposit string does not parse; the pool does not cover the deposit -/
def refundPanics (pool : Nat) (s : JS) (x : Nat) : Bool :=
  match depositOf (s.cell x 13 kDeposit) with
  | none => true
  | some d => decide (s.cell pool 1 0 < d)

def refund (pool : Nat) (s : JS) (x : Nat) : Option JS :=
  if refundPanics pool s x then none else some (refundT pool s x)

/-- the refund loop; `none` = a Go panic -/
def refundAll (pool : Nat) : List Nat → JS → Option JS
  | [], s => some s
  | x :: xs, s =>
    match refund pool s x with
    | none => none
    | some s' => refundAll pool xs s'

/-! ### Finalize, phase 2: `ChangeVotesByBalance` -/

/-- `filterLogs(logs, BalanceLog)[a]`: OldVal of the account's first balance log, NewVal of its last -/
def balSummary (j : List Log) (a : Nat) : Option (Int × Int) :=
  j.foldl (fun acc l => if l.ty == 1 && l.addr == a then
      (match acc with
       | none => some (l.old, l.new)
       | some (o, _) => some (o, l.new)) else acc) none

/-- keep the last occurrence of every element -/
def dedup : List Nat → List Nat
  | [] => []
  | a :: as => if a ∈ dedup as then dedup as else a :: dedup as

/-- the keys of `logsByAccount` (some order) -/
def keysOf (j : List Log) : List Nat := dedup (j.map (·.addr))

/-- `getVotesChangesByLogs`: the entries of the `changes` map (`big.Int.Div` is Euclidean, like `Int./`) -/
def voteChanges (rate : Int) (j : List Log) : List (Nat × Int) :=
  (keysOf j).filterMap (fun a =>
    match balSummary j a with
    | none => none
    | some (o, n) => if n / rate - o / rate = 0 then none else some (a, n / rate - o / rate))

/-- `changeCandidateVotes(am, addr, changeVotes)` -/
def voteStep (s : JS) (p : Nat × Int) : JS :=
  if p.2 = 0 then s else
  let c := (s.cell p.1 17 0).toNat
  if c = 0 then s
  else if s.cell c 13 kIsCand = 1 then s.write c 18 0 (s.cell c 18 0 + p.2) else s

/-- a range over the `changes` map: every entry once -/
def IsChangeOrder (π : List (Nat × Int)) (rate : Int) (j : List Log) : Prop :=
  π.Nodup ∧ ∀ p, p ∈ π ↔ p ∈ voteChanges rate j

/-! ### `Manager.Finalise` -/

/-- the tries `Account.updateTrie` rewrites, in code order: (type of the content logs, type of the root log) -/
def rootPairs : List (Nat × Nat) := [(2, 3), (4, 6), (8, 9), (10, 11)]

/-! #### bookkeeping cells (log-type numbers ≥ 100 of `cell` are not account attributes but facts about the four
`StorageCache`s of the account inside this block; `JS.commit` — a new Manager — resets them):
  * `(a, 116, 0) = 1`  a `SetSuicide(true)` ran on `a` in this block: `data.StorageRoot / AssetCodeRoot / AssetIdRoot` are
                       the ZERO hash now and the three caches were `Reset()` (not the equity cache);
  * `(a, 102, k) = 1`, `(a, 108, k) = 1`   the pending write of storage / asset-id key `k` was forgotten by that `Reset()`
                       (a later write of the key — `JS.writeT` — makes it pending again: 0);
  * `(a, 104, c) = 1`  asset code `c` is in `assetCode.dirty` (SetState puts it there, DelState — SetAssetCode(nil) — takes
                       it out again, a SetAssetCodeState on a missing asset never gets that far). -/

def JS.setCell (s : JS) (a t e : Nat) (v : Int) : JS := { s with cell := upd3 s.cell a t e v }

/-- the trie a content log writes: AssetCodeStateLog (5) and AssetCodeTotalSupplyLog (7) rewrite the asset record of the
    asset-code trie (4) -/
def trieOf (t : Nat) : Nat := if t == 5 || t == 7 then 4 else t

/-- the trie key a content log writes; the Extra label of an AssetCodeStateLog is `code * 100 + profile key` -/
def keyOf (t e : Nat) : Nat := if t == 5 then e / 100 else e

/-- the root `Finalise` reads as the old root is the ZERO hash: committed so, or zeroed by SetSuicide in this block -/
def JS.rz (s : JS) (a t : Nat) : Bool :=
  s.rootZero a t || (s.cell a 116 0 == 1 && (t == 2 || t == 4 || t == 8))

/-- what a read that misses the cache finds in the trie: the committed content, or nothing after a SetSuicide -/
def JS.comEff (s : JS) (a t e : Nat) : Int :=
  if s.cell a 116 0 == 1 && (t == 2 || t == 4 || t == 5 || t == 7 || t == 8) then 0 else s.com a t e

/-- key `k` of trie `t` is in the cache's `dirty` map when `Finalise` runs (given that a log of the block wrote it) -/
def pending (s : JS) (a t k : Nat) : Bool :=
  if t == 4 then s.cell a 104 k == 1 else s.cell a (100 + t) k == 0

/-- the value the trie gets for key `k` is not the committed one. Asset records: id label (cell 4), total supply (cell 7)
    and the profile (cells 5, key labels 1..99) -/
def differs (s : JS) (a t k : Nat) : Bool :=
  if t == 4 then
    s.cell a 4 k != s.com a 4 k || s.cell a 7 k != s.com a 7 k ||
      (List.range 100).any (fun i => s.cell a 5 (k * 100 + i) != s.com a 5 (k * 100 + i))
  else s.cell a t k != s.com a t k

/-- a log of type `t'` / extra `e` witnesses that `StorageCache.Update` returns another root for trie `t` of `a` -/
def slotChanged (s : JS) (a t t' e : Nat) : Bool :=
  trieOf t' == t && pending s a t (keyOf t' e) && (s.rz a t || differs s a t (keyOf t' e))

/-- does `StorageCache.Update` return another root for the trie of `(a, t)`:
    * old root = the zero hash (the account never had such a trie, or SetSuicide zeroed it): `Update` returns the zero hash
      only when NO entry is dirty; any pending write — even one that writes nil over nothing, whose log removeUnchanged
      drops — opens an empty trie and returns the EMPTY-TRIE hash, which differs from the zero hash: a root log is published;
    * otherwise: some pending key now reads differently from the committed content (an entry rewritten to its old value
      leaves the root alone). -/
def contentChanged (s : JS) (a t : Nat) : Bool :=
  s.logs.any (fun l => l.addr == a && slotChanged s a t l.ty l.extra)

/-- the root logs `Finalise` pushes for account `a`. Their version is taken from the PROVISIONAL counter and is never
    recorded (updateVersion only walks the logs grouped before the push) — modelled as coded. The root hashes themselves
    are outside this model (label 0): C17. -/
def rootLogs (s : JS) (a : Nat) : List Log :=
  (rootPairs.filter (fun p => contentChanged s a p.1)).map
    (fun p => { addr := a, ty := p.2, extra := 0, old := 0, new := 0, ver := s.next a p.2 + 1 })

/-- `updateVersion` over the logs of account `a`, mutating them in place inside the full list -/
def renumberIn (a : Nat) (cnt : Nat → Nat) : List Log → List Log
  | [] => []
  | l :: ls =>
    if l.addr = a then { l with ver := cnt l.ty + 1 } :: renumberIn a (fun t => if t = l.ty then cnt l.ty + 1 else cnt t) ls
    else l :: renumberIn a cnt ls

/-- one iteration of the loop over the sorted cache keys; the state is (the merged logs, the root logs pushed so far) -/
def finStep (s : JS) (acc : List Log × List Log) (a : Nat) : List Log × List Log :=
  if acc.1.any (fun l => l.addr == a) then (renumberIn a (s.base a) acc.1, acc.2 ++ rootLogs s a) else acc

def finaliseParts (srt : List Nat → List Nat) (π3 : List Nat) (s : JS) (merged : List Log) : List Log × List Log :=
  (srt π3).foldl (finStep s) (merged, [])

/-- `processor.changeLogs` after `Finalise`: the renumbered merged logs followed by the root logs -/
def finalise (srt : List Nat → List Nat) (π3 : List Nat) (s : JS) (merged : List Log) : List Log :=
  (finaliseParts srt π3 s merged).1 ++ (finaliseParts srt π3 s merged).2

/-- the accounts `accountCache` holds: at least every account with a log (setters go through `GetAccount`) -/
def IsCacheOrder (π : List Nat) (j : List Log) : Prop := π.Nodup ∧ ∀ l ∈ j, l.addr ∈ π

/-- `MergeChangeLogs(); Finalise(); GetChangeLogs()` -/
def publish (srt : List Nat → List Nat) (π1 π2 π3 : List Nat) (s : JS) : List Log :=
  finalise srt π3 s (mergeChangeLogs srt π1 π2 s.logs)

/-- `BlockAssembler.Finalize` from the refund loop on (term reward and everything before are part of `s`) -/
def finalizeBlock (srt : List Nat → List Nat) (pool : Nat) (πR : List Nat) (πV : List (Nat × Int)) (π1 π2 π3 : List Nat)
    (s : JS) : Option (List Log) :=
  match refundAll pool πR s with
  | none => none
  | some s1 => some (publish srt π1 π2 π3 (πV.foldl voteStep s1))

/-! ### the remaining setters: contract storage behind a SetSuicide, asset records, SetSuicide -/

/-- a SafeAccount setter of a storage-like attribute (2 storage, 8 asset id, 10 equity): `JS.write`, and the key is in the
    cache's `dirty` map again whatever an earlier SetSuicide forgot -/
def JS.writeT (s : JS) (a t e : Nat) (v : Int) : JS := (s.write a t e v).setCell a (100 + t) e 0

/-- the profile of the asset record a getter sees (key labels 1..99; a value label is never 0) -/
def assetProfile (f : Nat → Nat → Nat → Int) (a code : Nat) : List (Nat × Int) :=
  (List.range 100).filterMap (fun i => if f a 5 (code * 100 + i) != 0 then some (i, f a 5 (code * 100 + i)) else none)

/-- label of a `*types.Asset` value in a log: 0 = nil -/
def assetLabel (id supply : Int) (p : List (Nat × Int)) : Int :=
  if id = 0 then 0 else (encodeProfile p * 1000 + id) * 1000000 + supply

/-- `GetAssetCode(code)` as a label -/
def JS.assetNow (s : JS) (a code : Nat) : Int :=
  assetLabel (s.cell a 4 code) (s.cell a 7 code) (assetProfile s.cell a code)

/-- `SetAssetCode(code, asset)`: one AssetCodeLog (OldVal = the record read through the getter). `id = 0` is the nil
    asset: the raw setter is `DelState` — the key leaves BOTH `cached` and `dirty`, so the next read finds the committed
    record in the trie again and nothing stays pending (as coded). Otherwise the whole record (id, total supply, profile)
    is replaced and the key is dirty. -/
def JS.setAsset (s : JS) (a code : Nat) (id supply : Int) (p : List (Nat × Int)) : JS :=
  let lg : Log := { addr := a, ty := 4, extra := code, old := s.assetNow a code, new := assetLabel id supply p,
                    ver := s.next a 4 + 1 }
  let cell' : Nat → Nat → Nat → Int :=
    if id = 0 then
      fun a' t' e' =>
        if a' = a ∧ (((t' = 4 ∨ t' = 7) ∧ e' = code) ∨ (t' = 5 ∧ e' / 100 = code)) then s.comEff a' t' e'
        else if a' = a ∧ t' = 104 ∧ e' = code then 0 else s.cell a' t' e'
    else
      fun a' t' e' =>
        if a' = a ∧ t' = 4 ∧ e' = code then id
        else if a' = a ∧ t' = 7 ∧ e' = code then supply
        else if a' = a ∧ t' = 5 ∧ e' / 100 = code then profLookup p (e' % 100)
        else if a' = a ∧ t' = 104 ∧ e' = code then 1 else s.cell a' t' e'
  { s with cell := cell', next := upd2 s.next a 4 (s.next a 4 + 1), logs := s.logs ++ [lg] }

/-- `SetAssetCodeState(code, key, val)`: the AssetCodeStateLog is pushed (and the version counter taken) BEFORE the raw
    setter looks the asset up: on a missing asset the log stays in the journal and the call returns an error (`false`). -/
def JS.setAState (s : JS) (a code key : Nat) (v : Int) : JS × Bool :=
  let e := code * 100 + key
  let lg : Log := { addr := a, ty := 5, extra := e, old := s.cell a 5 e, new := v, ver := s.next a 5 + 1 }
  let s1 : JS := { s with next := upd2 s.next a 5 (s.next a 5 + 1), logs := s.logs ++ [lg] }
  if s.cell a 4 code = 0 then (s1, false)
  else ({ s1 with cell := fun a' t' e' => if a' = a ∧ t' = 5 ∧ e' = e then v
                                         else if a' = a ∧ t' = 104 ∧ e' = code then 1 else s.cell a' t' e' }, true)

/-- `SetAssetCodeTotalSupply(code, val)`. On a missing asset `NewAssetCodeTotalSupplyLog` dereferences the nil total
    supply AFTER it took the version counter: a Go panic (`false`), no log, the provisional counter is one ahead. -/
def JS.setSupply (s : JS) (a code : Nat) (v : Int) : JS × Bool :=
  if s.cell a 4 code = 0 then ({ s with next := upd2 s.next a 7 (s.next a 7 + 1) }, false)
  else
    let lg : Log := { addr := a, ty := 7, extra := code, old := s.cell a 7 code, new := v, ver := s.next a 7 + 1 }
    ({ s with cell := fun a' t' e' => if a' = a ∧ t' = 7 ∧ e' = code then v
                                     else if a' = a ∧ t' = 104 ∧ e' = code then 1 else s.cell a' t' e',
              next := upd2 s.next a 7 (s.next a 7 + 1), logs := s.logs ++ [lg] }, true)

/-- `SetSuicide(true)`: one SuicideLog whose OldVal label is 1 iff the account had a balance, code or a non-zero storage
    root (what `IsValuable` asks); the raw setter zeroes balance and code hash and resets storage / asset-code / asset-id
    roots to the zero hash with their caches (`Reset()`: every earlier pending write is forgotten) — NOT the equity trie,
    votes, vote-for, candidate profile or signers. No BalanceLog is written (the vote pass does not see the change). -/
def JS.suicide (s : JS) (a : Nat) : JS :=
  let had : Int := if s.cell a 1 0 != 0 || s.cell a 14 0 != 0 || !(s.rz a 2) then 1 else 0
  { s with
    cell := fun a' t' e' =>
      if a' = a then
        (if t' = 116 ∧ e' = 0 then 1
         else if t' = 102 ∨ t' = 108 then 1
         else if t' = 104 then 0
         else if t' = 1 ∨ t' = 14 ∨ t' = 2 ∨ t' = 4 ∨ t' = 5 ∨ t' = 7 ∨ t' = 8 then 0
         else s.cell a' t' e')
      else s.cell a' t' e',
    next := upd2 s.next a 16 (s.next a 16 + 1),
    logs := s.logs ++ [{ addr := a, ty := 16, extra := 0, old := had, new := 0, ver := s.next a 16 + 1 }] }

/-! ### tx phase: the one handler that turns a Go map into a sequence of journal writes -/

/-- `ModifyAssetProfileTx` (asset_tx.go) from the permission check on, given the order `ks` in which the entries of the
    `updateProfile` map are applied: one SetAssetCodeState per entry. (`false`: the asset does not exist / empty map — the
    handler returns before the loop. The issuer check and the size limit of the new record are outside this model.) -/
def modifyProfileIn (s : JS) (a code : Nat) (ks : List (Nat × Int)) : JS × Bool :=
  if ks.isEmpty || s.cell a 4 code = 0 then (s, false)
  else (ks.foldl (fun s kv => (s.setAState a code kv.1 kv.2).1) s, true)

def insKV (x : Nat × Int) : List (Nat × Int) → List (Nat × Int)
  | [] => [x]
  | y :: l => if x.1 ≤ y.1 then x :: y :: l else y :: insKV x l

/-- the model's executable `sort.Strings` on the collected keys (key labels are order-isomorphic to the key strings) -/
def sortKV : List (Nat × Int) → List (Nat × Int)
  | [] => []
  | x :: l => insKV x (sortKV l)

/-- all that is assumed of collecting the keys of the map in range order `π` and `sort.Strings`: a permutation of the
    entries, ascending by key -/
def IsKeySort (srt : List (Nat × Int) → List (Nat × Int)) : Prop :=
  ∀ l, (srt l).Perm l ∧ (srt l).Pairwise (fun x y => x.1 ≤ y.1)

/-- the handler AS CODED: `π` = the order in which `for k := range info` visits the map; the keys are sorted first -/
def modifyProfile (srt : List (Nat × Int) → List (Nat × Int)) (s : JS) (a code : Nat) (π : List (Nat × Int)) : JS × Bool :=
  modifyProfileIn s a code (srt π)

/-- the variant that applies the entries in range order (NOT the code: the refuted alternative) -/
def modifyProfileUnsorted (s : JS) (a code : Nat) (π : List (Nat × Int)) : JS × Bool := modifyProfileIn s a code π

/-! ### `updateVersion`: the Index of the event records -/

/-- `updateVersion(logs, account)` for account `a`: `eventIndex` starts at 0 and is written into the `*types.Event` of
    every AddEventLog (15) of the account, in list order. `idx` runs parallel to the merged list (`none` = not written). -/
def setIdx (a : Nat) : Nat → List Log → List (Option Nat) → List (Option Nat)
  | k, l :: ls, i :: is =>
    if l.addr = a ∧ l.ty = 15 then some k :: setIdx a (k + 1) ls is else i :: setIdx a k ls is
  | _, _, is => is

def idxStep (L : List Log) (idx : List (Option Nat)) (a : Nat) : List (Option Nat) :=
  if L.any (fun l => l.addr == a) then setIdx a 0 L idx else idx

/-- the Index fields after `Finalise` (the loop over the sorted cache keys), parallel to the merged list `L` -/
def eventIndices (srt : List Nat → List Nat) (π3 : List Nat) (L : List Log) : List (Option Nat) :=
  (srt π3).foldl (idxStep L) (L.map (fun _ => none))

/-! ### canonical executable instance (what the driver runs) -/

def sortNat (l : List Nat) : List Nat := l.mergeSort (fun a b => decide (a ≤ b))

/-- the version records after the block: `data.NewestRecords[t].Version` of account `a` -/
def recordAfter (s : JS) (renumbered : List Log) (a t : Nat) : Nat :=
  s.base a t + (renumbered.filter (fun l => l.addr == a && l.ty == t)).length

/-- `Save` + a new Manager on the new block: accounts without a published log are not written; the bookkeeping cells
    (type numbers ≥ 100) start at 0 again -/
def JS.commit (s : JS) (renumbered : List Log) : JS :=
  let saved := fun a => renumbered.any (fun l => l.addr == a)
  let cell := fun a t e => if t ≥ 100 then 0 else if saved a then s.cell a t e else s.com a t e
  let base := fun a t => recordAfter s renumbered a t
  let rz := fun a t =>
    if saved a then
      (if s.logs.any (fun l => l.addr == a && trieOf l.ty == t && pending s a t (keyOf l.ty l.extra)) then false else s.rz a t)
    else s.rootZero a t
  { cell := cell, com := cell, base := base, next := base, rootZero := rz, logs := [] }

end LemoModel.MergeOrder

/-
  C17 (part A) — executable model of /repo/common/merkle/merkle_tree.go.  Core Lean only.

  The Go tree is a FLAT ARRAY built by a queue: `calculateNodes` copies the leaves into `nodes`
  and then, with `offset = 0, 2, 4, …`, appends `H(nodes[offset], nodes[offset+1])` while
  `offset < len(nodes)-1` — `len(nodes)` grows while the loop runs.  For `n ≥ 1` leaves the array
  ends with `2n-1` entries and interior node `n+k` is the parent of entries `2k` and `2k+1`; an odd
  tail entry is therefore not paired with itself but with the first node of the next level
  (three leaves a,b,c give the root `H(c, H(a,b))`).  `Root()` is the last entry, or
  `EmptyTrieHash` for an empty leaf list.

  Hashes are an arbitrary type `α` with decidable equality (instantiate with `Nat`); the hash
  combiner `H a b` (Go: `Keccak256(a ++ b)`) is an abstract parameter.
-/
namespace LemoModel.Merkle

/-- `NodeTypeFlag` of merkle_tree.go -/
inductive Side where
  | left | right | root
  deriving DecidableEq, Repr, Inhabited

/-- `MerkleNode`: a sibling hash and the side on which it is hashed in. -/
structure MNode (α : Type) where
  hash : α
  side : Side
  deriving DecidableEq, Repr

/-- result of `FindSiblingNodes` -/
inductive SibRes (α : Type) where
  | ok (path : List (MNode α))
  | notFound                 -- `can't find hash … in src nodes`
  | panic                    -- Go index out of range (or the recursion not ending within `len` steps)
  deriving DecidableEq, Repr

variable {α : Type}

/-- The loop of `calculateNodes`: `for ; offset < len(nodes)-1; offset += 2 { nodes = append(nodes, H(nodes[offset], nodes[offset+1])) }`.
    `fuel` bounds the number of iterations (`calcNodes` passes `len(leaves)`, the loop makes `len-1`). -/
def calcLoop (H : α → α → α) : Nat → List α → Nat → List α
  | 0, nodes, _ => nodes
  | fuel + 1, nodes, offset =>
    if h : offset + 1 < nodes.length then
      calcLoop H fuel (nodes ++ [H (nodes[offset]'(by omega)) (nodes[offset + 1]'h)]) (offset + 2)
    else nodes

/-- `calculateNodes` / `HashNodes()`: all node hashes, leaves first, root last. -/
def calcNodes (H : α → α → α) (leaves : List α) : List α :=
  calcLoop H leaves.length leaves 0

/-- `Root()`: last entry of the node array, `EmptyTrieHash` if there is none. -/
def root (H : α → α → α) (emptyHash : α) (leaves : List α) : α :=
  match (calcNodes H leaves).getLast? with
  | some r => r
  | none => emptyHash

/-- first index holding `src`, `len` if absent (the search loop of `FindSiblingNodes`) -/
def indexOf [DecidableEq α] (src : α) : List α → Nat
  | [] => 0
  | x :: xs => if x = src then 0 else indexOf src xs + 1

/-- the recursive closure `findPath` of `FindSiblingNodes` (`nodesLen = (len(srcNodes)+1)/2`).
    `none` = index out of range / fuel exhausted. -/
def findPath (nodes : List α) (nodesLen : Nat) : Nat → Nat → Option (List (MNode α))
  | 0, _ => none
  | fuel + 1, n =>
    if n + 1 = nodes.length then
      match nodes[n]? with
      | some h => some [⟨h, .root⟩]
      | none => none
    else if n % 2 = 1 then
      match nodes[n - 1]?, findPath nodes nodesLen fuel (nodesLen + n / 2) with
      | some h, some rest => some (⟨h, .left⟩ :: rest)
      | _, _ => none
    else
      match nodes[n + 1]?, findPath nodes nodesLen fuel (nodesLen + n / 2) with
      | some h, some rest => some (⟨h, .right⟩ :: rest)
      | _, _ => none

/-- path from array index `index` to the root -/
def pathFrom (nodes : List α) (index : Nat) : Option (List (MNode α)) :=
  findPath nodes ((nodes.length + 1) / 2) nodes.length index

/-- `FindSiblingNodes(src, srcNodes)` for a non-nil `srcNodes`. -/
def findSiblings [DecidableEq α] (src : α) (nodes : List α) : SibRes α :=
  let index := indexOf src nodes
  if index = nodes.length then .notFound
  else match pathFrom nodes index with
    | some p => .ok p
    | none => .panic

/-- one step of the loop in `Verify` -/
def verifyStep (H : α → α → α) (computed : α) (item : MNode α) : α :=
  match item.side with
  | .left => H item.hash computed
  | .right => H computed item.hash
  | .root => computed

/-- the value `computedRoot` after the loop of `Verify` -/
def computedRoot (H : α → α → α) (target : α) (sibling : List (MNode α)) : α :=
  sibling.foldl (verifyStep H) target

/-- `Verify(target, root, sibling)` -/
def verify [DecidableEq α] (H : α → α → α) (target rootHash : α) (sibling : List (MNode α)) : Bool :=
  decide (computedRoot H target sibling = rootHash)

/-! ### the free hash algebra: an injective, domain-separated instance (driver, non-vacuity examples) -/

/-- symbolic hashes: `leaf i` is the i-th distinct leaf value, `node l r` stands for `H l r`. -/
inductive HTerm where
  | leaf (i : Nat)
  | node (l r : HTerm)
  deriving DecidableEq, Repr, Inhabited

end LemoModel.Merkle

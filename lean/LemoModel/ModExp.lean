/-
  C16 — the length handling of the MODEXP precompile (chain/vm/contracts.go `bigModExp`,
  address 0x05): the three 32-byte length words of the header, the gas formula of
  `RequiredGas`, and the allocation sizes `Run` requests through `getData` →
  `common.RightPadBytes(slice, int(size))` and the final `common.LeftPadBytes(…, int(modLen))`.
  Core Lean only.  Lengths are naturals (`RequiredGas` computes with big.Int, `Run` truncates them
  with `.Uint64()`).  `guard = true` is the current code (early return when both the base and the
  modulus length are zero); `guard = false` is the variant without that early return.
-/
namespace LemoModel.ModExp

def u64 : Nat := 18446744073709551616
def i63 : Nat := 9223372036854775808

/-- runtime `maxAlloc` on 64-bit linux: `make([]byte, n)` panics ("len out of range") above it and
    tries to get the memory (fatal out-of-memory) below it -/
def maxAlloc : Nat := 281474976710656

/-- the "multiplication complexity" of EIP-198 as coded -/
def mult (x : Nat) : Nat :=
  if x ≤ 64 then x * x
  else if x ≤ 1024 then x * x / 4 + (96 * x - 3072)
  else x * x / 16 + (480 * x - 199680)

def adjExpLen (expLen headBits : Nat) : Nat :=
  (if expLen > 32 then 8 * (expLen - 32) else 0) + (if headBits > 0 then headBits - 1 else 0)

/-- `bigModExp.RequiredGas`. `dlen` = number of bytes after the 96-byte header, `headBits` = bit length
    of the first `min(expLen,32)` bytes of the exponent (as read with `getData`, right-padded). -/
def requiredGas (baseLen expLen modLen dlen headBits : Nat) : Nat :=
  let hb := if dlen ≤ baseLen then 0 else headBits
  let g := mult (max modLen baseLen) * max (adjExpLen expLen hb) 1 / 20
  if g ≥ u64 then u64 - 1 else g

/-- bytes available to `getData(data, start, size)`: `data[min(start,len) : min(start'+size,len)]` -/
def avail (dlen start size : Nat) : Nat :=
  let s := min start dlen
  min (s + size) dlen - s

/-- `getData` computes `end := start + size` in uint64: a wrap-around makes `end < start` and the
    slice expression panics -/
def wraps (dlen start size : Nat) : Bool := decide (min start dlen + size ≥ u64)

/-- `RightPadBytes(slice, int(size))` / `LeftPadBytes`: a new slice of `size` bytes is made only when
    the *signed* length exceeds what is there (a length ≥ 2^63 is negative: nothing is allocated) -/
def padAlloc (present size : Nat) : Nat := if size < i63 ∧ present < size then size else 0

structure RunOut where
  allocs : List Nat      -- sizes handed to `make([]byte, ·)` (0 = no allocation)
  slicePanic : Bool      -- a `getData` slice expression panics
  retLen : Nat           -- length of the returned slice
  deriving Repr, DecidableEq

/-- `bigModExp.Run` as far as lengths are concerned -/
def run (guard : Bool) (baseLen expLen modLen dlen : Nat) : RunOut :=
  let b := baseLen % u64
  let e := expLen % u64
  let m := modLen % u64
  if guard = true ∧ b = 0 ∧ m = 0 then ⟨[], false, 0⟩
  else
    ⟨[padAlloc (avail dlen 0 b) b, padAlloc (avail dlen b e) e, padAlloc (avail dlen ((b + e) % u64) m) m, padAlloc 0 m],
     wraps dlen 0 b || wraps dlen b e || wraps dlen ((b + e) % u64) m,
     m⟩

/-- what a caller observes: `none` = the Go code panics (slice bounds, or `make` above `maxAlloc`) -/
def outcome (guard : Bool) (baseLen expLen modLen dlen : Nat) : Option Nat :=
  let r := run guard baseLen expLen modLen dlen
  if r.slicePanic ∨ r.allocs.any (· > maxAlloc) then none else some r.retLen

/-- gas formulas of the other length-driven precompiles (words of 32 bytes) -/
def words (n : Nat) : Nat := (n + 31) / 32
def sha256Gas (n : Nat) : Nat := 60 + 12 * words n
def ripemdGas (n : Nat) : Nat := 600 + 120 * words n
def dataCopyGas (n : Nat) : Nat := 15 + 3 * words n
def pairingGas (n : Nat) : Nat := 100000 + 80000 * (n / 192)

end LemoModel.ModExp

/-
  C17 (part B) — executable model of the Merkle-Patricia trie of /repo/store/trie/trie.go
  (`insert`, `delete`, `tryGet`, `TryUpdate`, `keybytesToHex`).  Core Lean only.

  What is modelled: the RESOLVED node structure (`nil | *shortNode | *fullNode | valueNode`) and the
  three recursive functions, case by case, on hex keys (`keybytesToHex`: two nibbles per byte plus
  the terminator 16).  A Go panic (index out of range, `invalid node`) is the explicit result `none`
  / `GetRes.panic`.  The `dirty` result of insert/delete is kept (it decides whether the old node
  is returned unchanged).

  What is NOT modelled HERE: hash nodes and their resolution from the `TrieDatabase`, the node flags /
  cache generations, `Commit`, and the hasher — see `LemoModel.MptStore` (partially resolved trie over
  a node store, abstract `hashOf` / `small`), which `LemoProofs.C17Store` proves to simulate this
  resolved model (commit, re-open by root and cache eviction are the identity on the structure).
-/
namespace LemoModel.Mpt

/-- a hex-key element: nibbles 0..15 and the terminator 16 (`keybytesToHex` produces nothing else) -/
abbrev Nib := Fin 17
/-- value bytes -/
abbrev Val := List Nat

/-- resolved trie node: `nil`, `*shortNode{Key, Val}`, `*fullNode{Children[17]}`, `valueNode` -/
inductive Node where
  | empty
  | short (key : List Nib) (child : Node)
  | full (children : Nib → Node)
  | value (v : Val)

instance : Inhabited Node := ⟨.empty⟩

def Node.isEmpty : Node → Bool
  | .empty => true
  | _ => false

/-- `keybytesToHex` -/
def hexKey : List Nat → List Nib
  | [] => [16]
  | b :: bs => Fin.ofNat 17 (b / 16 % 16) :: Fin.ofNat 17 (b % 16) :: hexKey bs

/-- common prefix split: `(a[:m], a[m:], b[m:])` with `m = prefixLen(a, b)` -/
def splitPrefix : List Nib → List Nib → List Nib × List Nib × List Nib
  | a :: as, b :: bs =>
    if a = b then
      let r := splitPrefix as bs
      (a :: r.1, r.2.1, r.2.2)
    else ([], a :: as, b :: bs)
  | as, bs => ([], as, bs)

/-- `some (key[len p:])` if `p` is a prefix of `key` (the test of `tryGet` on a short node) -/
def stripPrefix : List Nib → List Nib → Option (List Nib)
  | [], key => some key
  | _ :: _, [] => none
  | a :: p, b :: key => if a = b then stripPrefix p key else none

inductive GetRes where
  | found (v : Val)
  | absent
  | panic
  deriving DecidableEq, Repr

/-- `Trie.tryGet(origNode, key, pos)` on the remaining key `key[pos:]` -/
def get : Node → List Nib → GetRes
  | .empty, _ => .absent
  | .value v, _ => .found v
  | .short K c, key =>
    match stripPrefix K key with
    | none => .absent
    | some rest => get c rest
  | .full ch, key =>
    match key with
    | [] => .panic                      -- key[pos]: index out of range
    | k :: rest => get (ch k) rest

/-- `insert(nil, prefix, key, value)`: `value` itself for an empty key, else a short node -/
def insertNil (key : List Nib) (value : Node) : Node :=
  match key with
  | [] => value
  | _ :: _ => .short key value

def setChild (ch : Nib → Node) (i : Nib) (n : Node) : Nib → Node :=
  fun j => if j = i then n else ch j

/-- `Trie.insert(n, prefix, key, valueNode(v))`; `none` = panic; result `(dirty, newnode)` -/
def insert : Node → List Nib → Val → Option (Bool × Node)
  | .empty, key, v =>
    match key with
    | [] => some (true, .value v)
    | _ :: _ => some (true, .short key (.value v))
  | .value old, key, v =>
    match key with
    | [] => some (decide (old ≠ v), .value v)
    | _ :: _ => none                    -- default: panic("invalid node")
  | .short K c, key, v =>
    match key with
    | [] => some (true, .value v)
    | _ :: _ =>
      match splitPrefix key K with
      | (_, rk, []) =>                  -- matchlen == len(n.Key)
        match insert c rk v with
        | none => none
        | some (false, _) => some (false, .short K c)
        | some (true, nn) => some (true, .short K nn)
      | (common, rk, kn :: rK) =>       -- branch out at the index where they differ
        match rk with
        | [] => none                    -- key[matchlen]: index out of range
        | kk :: rk' =>
          let branch := setChild (setChild (fun _ => .empty) kn (insertNil rK c)) kk (insertNil rk' (.value v))
          match common with
          | [] => some (true, .full branch)
          | _ :: _ => some (true, .short common (.full branch))
  | .full ch, key, v =>
    match key with
    | [] => some (true, .value v)
    | k0 :: krest =>
      match insert (ch k0) krest v with
      | none => none
      | some (false, _) => some (false, .full ch)
      | some (true, nn) => some (true, .full (setChild ch k0 nn))

/-- indices of the non-nil children, in order (the `pos` loop of `delete`) -/
def nonEmptyIdx (ch : Nib → Node) : List Nib :=
  (List.finRange 17).filter (fun i => !(ch i).isEmpty)

/-- `Trie.delete(n, prefix, key)`; `none` = panic; result `(dirty, newnode)` -/
def delete : Node → List Nib → Option (Bool × Node)
  | .empty, _ => some (false, .empty)
  | .value _, _ => some (true, .empty)
  | .short K c, key =>
    match splitPrefix key K with
    | (_, _, _ :: _) => some (false, .short K c)        -- matchlen < len(n.Key)
    | (_, [], []) => some (true, .empty)                -- matchlen == len(key)
    | (_, rk@(_ :: _), []) =>
      match delete c rk with
      | none => none
      | some (false, _) => some (false, .short K c)
      | some (true, child) =>
        match child with
        | .short ck cv => some (true, .short (K ++ ck) cv)   -- merge short nodes
        | _ => some (true, .short K child)
  | .full ch, key =>
    match key with
    | [] => none                                        -- key[0]: index out of range
    | k0 :: krest =>
      match delete (ch k0) krest with
      | none => none
      | some (false, _) => some (false, .full ch)
      | some (true, nn) =>
        let ch' := setChild ch k0 nn
        match nonEmptyIdx ch' with
        | [pos] =>
          if pos ≠ 16 then
            match ch' pos with
            | .short ck cv => some (true, .short (pos :: ck) cv)
            | c => some (true, .short [pos] c)
          else some (true, .short [pos] (ch' pos))
        | _ => some (true, .full ch')

/-- `Trie.TryUpdate(key, value)` on the hex key: delete for an empty value, insert otherwise;
    the root is replaced by the returned node whatever `dirty` says.  `none` = panic. -/
def update (root : Node) (key : List Nib) (v : Val) : Option Node :=
  match v with
  | [] => (delete root key).map (·.2)
  | _ :: _ => (insert root key v).map (·.2)

/-- `Trie.TryDelete(key)` -/
def remove (root : Node) (key : List Nib) : Option Node :=
  (delete root key).map (·.2)

/-- pre-order walk as performed by the public `NodeIterator`: every visited node with its hex path,
    and the value for value nodes. -/
def walk : Node → List Nib → List (List Nib × Option Val)
  | .empty, path => [(path, none)]
  | .value v, path => [(path, some v)]
  | .short K c, path => (path, none) :: walk c (path ++ K)
  | .full ch, path =>
    (path, none) :: (List.finRange 17).flatMap
      (fun i => match ch i with
        | .empty => []
        | _ => walk (ch i) (path ++ [i]))

end LemoModel.Mpt

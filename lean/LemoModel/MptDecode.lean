/-
  C17 (part D) — the node DECODER of /repo/store/trie/node.go as a total function of the blob's BYTES:
  `decodeNode`, `decodeShort`, `decodeFull`, `decodeRef`, `mustDecodeNode`, on top of C14's model of the
  slice reader of /repo/common/rlp/raw.go (`Rlp.rawSplit` = `rlp.Split`, `Rlp.rawCount` = `rlp.CountValues`;
  `splitString` / `splitList` below are `rlp.SplitString` / `rlp.SplitList`, three lines each over `rawSplit`).
  Core Lean only.

  Every Go path ends in exactly one of
    * `.ok c`      the decoded node (as the collapsed node `MptStore.CNode`; the node flags the real decoder
                   sets — cached hash, cache generation, clean — are added by `decodeTop`),
    * `.err e`     the `error` decodeNode returns: what it says (`DErr`) and the decode path `wrapError`
                   records (`short`, `full`, `val`, `[i]`, innermost first),
    * `.panic`     a Go RUN-TIME panic inside decodeNode.  Only the code BEFORE /repo 93439c0 has one
                   (`emptyKeyPanics = true`): `compactToHex` indexes `base[0]` of an empty slice when the key
                   string of a 2-element list is EMPTY (`c2 80 80`) — encoding.go:58.  Since 93439c0
                   (`emptyKeyPanics = false`, the CURRENT code, what `decodeNode` below is) decodeShort returns
                   the error "empty compact key" there and no input panics
                   (`LemoProofs.C17.decodeNode_never_panics`),
    * `.depth`     nesting deeper than the blob is long — the recursion decodeRef → decodeNode is on a strictly
                   shorter buffer, so this is unreachable (`LemoProofs.C17.decodeNode_depth_unreachable`); it is
                   only here because the recursion is written with a depth counter.

  Laxness of the real decoder that the model carries (LemoProofs.C17 has the witnesses):
    * bytes after the top-level list are ignored (`rlp.SplitList` returns them, decodeNode drops them);
    * `compactToHex` reads only bit 0 (odd) and `>= 2` (terminator) of the flag nibble and ignores the
      padding nibble of an even key: `20`, `2f`, `40`, `60`, … all decode to the same key;
    * an embedded child may be 32 bytes long (`size > hashLen` is the test; the hasher embeds `< 32` only);
    * a value node may be empty, a short node may have an empty key or a nil child.
  Strictness it does have: canonical RLP headers only (`ErrCanonSize`), exactly 2 or 17 elements, a child
  reference is nil, 32 bytes, or an embedded LIST of at most 32 bytes.
-/
import LemoModel.MptStore
import LemoModel.Rlp
namespace LemoModel.MptDecode
open LemoModel.Mpt LemoModel.MptStore

/-- what a decodeNode error says -/
inductive DErr where
  | rlp (e : Rlp.Err)        -- an error of `rlp.Split` / `rlp.SplitString` passed on unchanged; `io.ErrUnexpectedEOF` for an empty blob
  | list (e : Rlp.Err)       -- "decode error: …" (`rlp.SplitList` of the blob)
  | count (c : Nat)          -- "invalid number of list elements: c"
  | value (e : Rlp.Err)      -- "invalid value node: …"
  | oversized (size : Nat)   -- "oversized embedded node (size is … bytes, want size < 32)"
  | strSize (n : Nat)        -- "invalid RLP string size … (want 0 or 32)"
  | emptyKey                 -- "empty compact key" (decodeShort, since /repo 93439c0)
  deriving Repr, DecidableEq

/-- `decodeError{what, stack}`; an error that was never wrapped has the empty path -/
structure DecErr where
  what : DErr
  path : List String
  deriving Repr, DecidableEq

inductive DRes (α : Type) where
  | ok (a : α)
  | err (e : DecErr)
  | panic
  | depth

def DRes.bind {α β : Type} (r : DRes α) (f : α → DRes β) : DRes β :=
  match r with
  | .ok a => f a
  | .err e => .err e
  | .panic => .panic
  | .depth => .depth

/-- `wrapError(err, ctx)` -/
def DRes.wrap {α : Type} (ctx : String) : DRes α → DRes α
  | .err e => .err ⟨e.what, e.path ++ [ctx]⟩
  | r => r

/-- `rlp.SplitString` -/
def splitString (b : List UInt8) : Except Rlp.Err (List UInt8 × List UInt8) :=
  match Rlp.rawSplit b with
  | .error e => .error e
  | .ok (k, content, rest) => if k = 2 then .error .expectedString else .ok (content, rest)

/-- `rlp.SplitList` -/
def splitList (b : List UInt8) : Except Rlp.Err (List UInt8 × List UInt8) :=
  match Rlp.rawSplit b with
  | .error e => .error e
  | .ok (k, content, rest) => if k = 2 then .ok (content, rest) else .error .expectedList

def bytesToVal (b : List UInt8) : List Nat := b.map UInt8.toNat

def setC (ch : Nib → CNode) (i : Nib) (n : CNode) : Nib → CNode :=
  fun j => if j = i then n else ch j

/-- the loop `for i := 0; i < 16; i++` of decodeFull -/
def slots16 : List Nib := [0, 1, 2, 3, 4, 5, 6, 7, 8, 9, 10, 11, 12, 13, 14, 15]

section open_recursion
-- `pk` (`emptyKeyPanics`): `true` = the code before /repo 93439c0 (no guard in decodeShort, compactToHex panics
--      on an empty key string), `false` = the current code (decodeShort returns "empty compact key")
-- `rec` is the nested `decodeNode(nil, buf, cachegen)` of decodeRef
variable (pk : Bool) (rec : List UInt8 → DRes CNode)

/-- `decodeRef(buf)`: the reference and the bytes after it -/
def decodeRefW (buf : List UInt8) : DRes (CNode × List UInt8) :=
  match Rlp.rawSplit buf with
  | .error e => .err ⟨.rlp e, []⟩
  | .ok (k, val, rest) =>
    if k = 2 then
      -- 'embedded' node reference: `size := len(buf) - len(rest); size > hashLen`
      if buf.length - rest.length > 32 then .err ⟨.oversized (buf.length - rest.length), []⟩
      else (rec buf).bind (fun n => .ok (n, rest))
    else if k = 1 ∧ val.length = 0 then .ok (.empty, rest)
    else if k = 1 ∧ val.length = 32 then .ok (.hash (bytesToVal val), rest)
    else .err ⟨.strSize val.length, []⟩

/-- `decodeShort(hash, buf, elems)` -/
def decodeShortW (elems : List UInt8) : DRes CNode :=
  match splitString elems with
  | .error e => .err ⟨.rlp e, []⟩
  | .ok (kbuf, rest) =>
    -- `if len(kbuf) == 0 { return nil, fmt.Errorf("empty compact key") }` (since /repo 93439c0)
    if pk = false ∧ kbuf.isEmpty = true then .err ⟨.emptyKey, []⟩
    else
    match compactToHex kbuf with
    | none => .panic                          -- base[0]: index out of range [0] with length 0
    | some key =>
      if hasTerm key then
        match splitString rest with
        | .error e => .err ⟨.value e, []⟩
        | .ok (val, _) => .ok (.short key (.value (bytesToVal val)))
      else
        ((decodeRefW rec rest).wrap "val").bind (fun r => .ok (.short key r.1))

/-- the 16 `decodeRef` calls of decodeFull, children stored into the (all nil) array as they come -/
def decodeKids : List Nib → (Nib → CNode) → List UInt8 → DRes ((Nib → CNode) × List UInt8)
  | [], ch, elems => .ok (ch, elems)
  | i :: is, ch, elems =>
    match decodeRefW rec elems with
    | .ok (c, rest) => decodeKids is (setC ch i c) rest
    | .err e => .err ⟨e.what, e.path ++ ["[" ++ toString i.val ++ "]"]⟩
    | .panic => .panic
    | .depth => .depth

/-- `decodeFull(hash, buf, elems)` -/
def decodeFullW (elems : List UInt8) : DRes CNode :=
  (decodeKids rec slots16 (fun _ => .empty) elems).bind (fun r =>
    match splitString r.2 with
    | .error e => .err ⟨.rlp e, []⟩
    | .ok (val, _) =>
      .ok (.full (if val.length > 0 then setC r.1 16 (.value (bytesToVal val)) else r.1)))

end open_recursion

/-- `c, _ := rlp.CountValues(elems)`: the error is dropped, the count is then 0 -/
def countOf (elems : List UInt8) : Nat :=
  match Rlp.rawCount elems with
  | .ok c => c
  | .error _ => 0

section open_recursion
variable (pk : Bool) (rec : List UInt8 → DRes CNode)

/-- `decodeNode(hash, buf, cachegen)` -/
def decodeNodeW (buf : List UInt8) : DRes CNode :=
  if buf.isEmpty then .err ⟨.rlp .unexpectedEOF, []⟩
  else
    match splitList buf with
    | .error e => .err ⟨.list e, []⟩
    | .ok (elems, _) =>
      if countOf elems = 2 then (decodeShortW pk rec elems).wrap "short"
      else if countOf elems = 17 then (decodeFullW rec elems).wrap "full"
      else .err ⟨.count (countOf elems), []⟩

end open_recursion

/-- decodeNode with at most `d` nested decodeNode calls -/
def decodeNodeF (pk : Bool) : Nat → List UInt8 → DRes CNode
  | 0 => fun _ => .depth
  | d + 1 => decodeNodeW pk (decodeNodeF pk d)

/-- **`decodeNode(hash, buf, cachegen)`** of the CURRENT code (since /repo 93439c0) as a function of the bytes
    (the nesting cannot exceed the length) -/
def decodeNode (buf : List UInt8) : DRes CNode := decodeNodeF false (buf.length + 1) buf

/-- decodeNode of the code BEFORE /repo 93439c0 (no empty-key guard) -/
def decodeNodeLegacy (buf : List UInt8) : DRes CNode := decodeNodeF true (buf.length + 1) buf

/-- outcome of `mustDecodeNode(hash, buf, cachegen)` -/
inductive Must where
  | ok (c : CNode)
  | panicErr (e : DecErr)     -- `panic(fmt.Sprintf("node %x: %v", hash, err))`
  | panicIndex                -- the run-time panic of compactToHex (legacy code only), not caught by anything
  | depth

def mustOf : DRes CNode → Must
  | .ok c => .ok c
  | .err e => .panicErr e
  | .panic => .panicIndex
  | .depth => .depth

/-- `mustDecodeNode` of the current code -/
def mustDecodeNode (buf : List UInt8) : Must := mustOf (decodeNode buf)

/-- `mustDecodeNode` of the code before /repo 93439c0 -/
def mustDecodeNodeLegacy (buf : List UInt8) : Must := mustOf (decodeNodeLegacy buf)

/-- the in-memory node decodeNode returns: the flags of the top node carry `hash` (nil for an embedded node)
    and the cache generation, all nodes are clean (`MptStore.decodeEmb` for what is embedded) -/
def decodeTop (hash : Option Hash) (gen : Nat) (buf : List UInt8) : DRes PNode :=
  (decodeNode buf).bind (fun c =>
    match c with
    | .short k ch => .ok (.short k (decodeEmb gen ch) ⟨hash, gen, false⟩)
    | .full ch => .ok (.full (fun i => decodeEmb gen (ch i)) ⟨hash, gen, false⟩)
    | c => .ok (decodeEmb gen c))

/-! ### the database as BYTES

  `MptStore.Store` maps a hash to the collapsed node its blob decodes to.  Here the database holds the
  blobs; `resolveHashB` is `Trie.resolveHash` with the real `mustDecodeNode` in it, `viewOf` is what the
  node-level model sees of a byte database, `encStore` the byte database the hasher writes
  (`hasher.store`: `db.Insert(hash, rlp(collapsed))`). -/

abbrev BStore := Hash → Option (List UInt8)

/-- `Trie.resolveHash` over bytes: `db.Node(hash)`, nothing there ⇒ MissingNodeError; `mustDecodeNode` panics
    on every blob decodeNode does not accept -/
def resolveHashB (bs : BStore) (gen : Nat) (h : Hash) : Res PNode :=
  match bs h with
  | none => .missing h
  | some blob =>
    match decodeNode blob with
    | .ok (.short k c) => .ok (.short k (decodeEmb gen c) ⟨some h, gen, false⟩)
    | .ok (.full ch) => .ok (.full (fun i => decodeEmb gen (ch i)) ⟨some h, gen, false⟩)
    | _ => .panic

/-- a byte database as the node-level model sees it; a blob the decoder does not accept is a non-branch
    node, on which `MptStore.resolveHash` panics as `mustDecodeNode` does -/
def viewOf (bs : BStore) : Store := fun h =>
  match bs h with
  | none => none
  | some blob =>
    match decodeNode blob with
    | .ok c => some c
    | _ => some .empty

/-- the bytes `hasher.store` writes for a node-level store -/
def encStore (s : Store) : BStore := fun h => (s h).map nodeRlp

/-- `TrieDatabase.insert(hash, blob)` on bytes: an existing entry is kept -/
def BStore.put (bs : BStore) (h : Hash) (blob : List UInt8) : BStore :=
  fun x => if x = h then (match bs h with | some b => some b | none => some blob) else bs x

/-- `trie.New(root, db)` over a byte database -/
def newB (hashOf : CNode → Hash) (bs : BStore) (root : Hash) : Res Trie :=
  if root = zeroHash ∨ root = hashOf .empty then .ok {}
  else
    match resolveHashB bs 0 root with
    | .ok n => .ok { root := n }
    | .missing h => .missing h
    | .panic => .panic
    | .overflow => .overflow

/-- `VerifyProof(rootHash, key, proofDb)` (code since /repo 18a0e58) over a reader of BYTES; `K` = Keccak256.
    A nil answer is `none`.  decodeNode's error ⇒ "bad proof node"; a run-time panic (none in the current decoder)
    would not be caught. -/
def verifyProofB (K : List UInt8 → Hash) (r : BStore) : Nat → Hash → List Nib → Nat → ProofRes
  | 0, _, _, _ => .diverge
  | fuel + 1, want, key, i =>
    match r want with
    | none => .missing i
    | some buf =>
      if K buf ≠ want then .mismatch i
      else
        match decodeNode buf with
        | .err _ => .bad i
        | .panic => .panic
        | .depth => .panic
        | .ok c =>
          match proofGet c key with
          | .nil => .absent i
          | .hash h rest => verifyProofB K r fuel h rest (i + 1)
          | .value v => .value v (i + 1)
          | .panic => .panic

/-! ### rendering shared with the harness -/

def nibChar (n : Nib) : Char :=
  if n.val = 16 then 'g' else Rlp.hexDigit n.val

def hexNat (l : List Nat) : String :=
  String.ofList (l.flatMap fun b => [Rlp.hexDigit (b / 16 % 16), Rlp.hexDigit (b % 16)])

def showFlag (f : Flag) : String :=
  "[" ++ (if f.dirty then "d" else "c") ++ toString f.gen ++ (if f.hash.isSome then "#" else "") ++ "]"

def joinComma : List String → String
  | [] => ""
  | [x] => x
  | x :: y :: r => x ++ "," ++ joinComma (y :: r)

/-- the dump of /repo/store/trie/verif_c17_decode.go -/
def dump : PNode → String
  | .empty => "n"
  | .hash h => "h" ++ hexNat h
  | .value v => "v" ++ hexNat v
  | .short k c f => "s" ++ String.ofList (k.map nibChar) ++ showFlag f ++ "(" ++ dump c ++ ")"
  | .full ch f => "f" ++ showFlag f ++ "(" ++ joinComma ((List.finRange 17).map (fun i => dump (ch i))) ++ ")"

def DErr.show : DErr → String
  | .rlp e => "rlp:" ++ e.name
  | .list e => "list:" ++ e.name
  | .count c => "count:" ++ toString c
  | .value e => "value:" ++ e.name
  | .oversized n => "oversized:" ++ toString n
  | .strSize n => "strsize:" ++ toString n
  | .emptyKey => "emptykey"

def joinPath : List String → String
  | [] => ""
  | [x] => x
  | x :: y :: r => x ++ "<-" ++ joinPath (y :: r)

def DecErr.show (e : DecErr) : String :=
  "err " ++ e.what.show ++ "@" ++ (if e.path.isEmpty then "-" else joinPath e.path)

end LemoModel.MptDecode

/-
  C17 (part C) — executable model of the PARTIALLY RESOLVED Merkle-Patricia trie of
  /repo/store/trie: hash nodes and `resolveHash` (trie.go), the hasher (`hasher.go`: collapse,
  embedding of small nodes, `store`, cache generations / `canUnload`, `dirty`), `Trie.Commit`,
  `Trie.Hash`, `trie.New` (re-open by root) and the node pool of /repo/store/trie_database.go
  (`Insert`, `Reference`, `Node`, `Commit`, `uncache`).  Core Lean only.

  Parameters, never given a definition here:
    * `hashOf : CNode → Hash`   Keccak256 ∘ RLP on a collapsed node (a property — injectivity — appears
                                only as an explicit hypothesis of the commit theorems);
    * `small  : CNode → Bool`   `len(rlp(node)) < 32` (RLP sizes are C14's business; in the
                                correspondence run the driver instantiates it, commit by commit, by
                                what the real hasher decided).

  Abstraction of RLP: the database stores COLLAPSED NODES (`CNode`), not byte strings;
  `decodeNode(encode c)` is the identity on the shape (flags: cached hash of the blob, current cache
  generation, clean).  In Go this round trip holds for every node the hasher emits for tries over
  terminated keys (values only below a terminated short key or in slot 16).  The non-round-trip cases
  are unreachable through `keybytesToHex` and stay outside the model (listed in the comment of
  `resolveHash`); what IS modelled of them: a stored blob that is not a list of 2 or 17 items makes
  `mustDecodeNode` panic, and the hasher's nil-interface panic on a short node with a nil child.

  Stack depth: `tryGet` / `insert` / `delete` recurse through the database (a resolved node is not a
  subterm of the hash node), so the model carries the remaining stack depth `fuel`; exhausting it is
  the explicit outcome `overflow` (Go: `fatal error: stack overflow`, reachable only with a hash
  cycle through empty-key short nodes in the database).  `LemoProofs.C17Store` shows that
  `2 * len(key) + 2` frames always suffice on a closed store.
-/
import LemoModel.Mpt
import LemoModel.Rlp
namespace LemoModel.MptStore
open LemoModel.Mpt

/-- `common.Hash` (32 bytes in Go; the model never looks inside) -/
abbrev Hash := List Nat

/-- `nodeFlag{hash, gen, dirty}`; `gen` is a `uint16` -/
structure Flag where
  hash : Option Hash
  gen : Nat
  dirty : Bool
  deriving DecidableEq, Repr

/-- in-memory trie node: `nil | *shortNode | *fullNode | valueNode | hashNode` -/
inductive PNode where
  | empty
  | short (key : List Nib) (child : PNode) (f : Flag)
  | full (ch : Nib → PNode) (f : Flag)
  | value (v : Val)
  | hash (h : Hash)

instance : Inhabited PNode := ⟨.empty⟩

/-- collapsed node = what is RLP-encoded: children are embedded collapsed nodes, hashes, values, or
    nil (encoded as the empty string) -/
inductive CNode where
  | empty
  | short (key : List Nib) (child : CNode)
  | full (ch : Nib → CNode)
  | value (v : Val)
  | hash (h : Hash)

instance : Inhabited CNode := ⟨.empty⟩

/-- the node database seen through `TrieDatabase.Node` -/
abbrev Store := Hash → Option CNode

/-- outcome of a trie operation: result, `MissingNodeError`, Go panic, stack exhausted -/
inductive Res (α : Type) where
  | ok (a : α)
  | missing (h : Hash)
  | panic
  | overflow

def PNode.isEmpty : PNode → Bool
  | .empty => true
  | _ => false

def CNode.isBranch : CNode → Bool
  | .short _ _ => true
  | .full _ => true
  | _ => false

def setP (ch : Nib → PNode) (i : Nib) (n : PNode) : Nib → PNode :=
  fun j => if j = i then n else ch j

/-- `Trie.newFlag()` -/
def newFlag (gen : Nat) : Flag := ⟨none, gen, true⟩

/-- `decodeNode(nil, …)` on an embedded child: no cached hash, current generation, clean -/
def decodeEmb (gen : Nat) : CNode → PNode
  | .empty => .empty
  | .value v => .value v
  | .hash h => .hash h
  | .short k c => .short k (decodeEmb gen c) ⟨none, gen, false⟩
  | .full ch => .full (fun i => decodeEmb gen (ch i)) ⟨none, gen, false⟩

/-- `Trie.resolveHash`: `db.Node(hash)`; nothing there ⇒ `MissingNodeError`; `mustDecodeNode(hash, enc,
    cachegen)` panics unless the blob is a list of 2 or 17 items.
    NOT modelled (RLP level, unreachable with terminated keys): a value in a slot < 16 of a full node
    or below a non-terminated short key does not survive encode/decode (`decodeRef` reads a 32-byte
    string as a hash node, an empty one as nil, any other as an error), `oversized embedded node`. -/
def resolveHash (s : Store) (gen : Nat) (h : Hash) : Res PNode :=
  match s h with
  | none => .missing h
  | some (.short k c) => .ok (.short k (decodeEmb gen c) ⟨some h, gen, false⟩)
  | some (.full ch) => .ok (.full (fun i => decodeEmb gen (ch i)) ⟨some h, gen, false⟩)
  | some _ => .panic

/-- `Trie.resolve` -/
def resolve (s : Store) (gen : Nat) : PNode → Res PNode
  | .hash h => resolveHash s gen h
  | n => .ok n

/-- `Trie.tryGet(origNode, key, pos)`: `(value, newnode, didResolve)`; on an error the caller keeps
    its node, so no node is returned. -/
def tryGet (s : Store) (gen : Nat) : Nat → PNode → List Nib → Res (Option Val × PNode × Bool)
  | 0, _, _ => .overflow
  | _ + 1, .empty, _ => .ok (none, .empty, false)
  | _ + 1, .value v, _ => .ok (some v, .value v, false)
  | fuel + 1, .short K c f, key =>
    match stripPrefix K key with
    | none => .ok (none, .short K c f, false)
    | some rest =>
      match tryGet s gen fuel c rest with
      | .ok (v, nn, true) => .ok (v, .short K nn { f with gen := gen }, true)
      | .ok (v, _, false) => .ok (v, .short K c f, false)
      | .missing h => .missing h
      | .panic => .panic
      | .overflow => .overflow
  | fuel + 1, .full ch f, key =>
    match key with
    | [] => .panic                      -- key[pos]: index out of range
    | k :: rest =>
      match tryGet s gen fuel (ch k) rest with
      | .ok (v, nn, true) => .ok (v, .full (setP ch k nn) { f with gen := gen }, true)
      | .ok (v, _, false) => .ok (v, .full ch f, false)
      | .missing h => .missing h
      | .panic => .panic
      | .overflow => .overflow
  | fuel + 1, .hash h, key =>
    match resolveHash s gen h with
    | .ok child =>
      match tryGet s gen fuel child key with
      | .ok (v, nn, _) => .ok (v, nn, true)
      | .missing h => .missing h
      | .panic => .panic
      | .overflow => .overflow
    | .missing h => .missing h
    | .panic => .panic
    | .overflow => .overflow

/-- `insert(nil, prefix, key, value)` -/
def insertNilP (gen : Nat) (key : List Nib) (value : PNode) : PNode :=
  match key with
  | [] => value
  | _ :: _ => .short key value (newFlag gen)

/-- `Trie.insert(n, prefix, key, valueNode(v))`: `(dirty, newnode)` -/
def insert (s : Store) (gen : Nat) : Nat → PNode → List Nib → Val → Res (Bool × PNode)
  | 0, _, _, _ => .overflow
  | _ + 1, .empty, key, v =>
    match key with
    | [] => .ok (true, .value v)
    | _ :: _ => .ok (true, .short key (.value v) (newFlag gen))
  | _ + 1, .value old, key, v =>
    match key with
    | [] => .ok (decide (old ≠ v), .value v)
    | _ :: _ => .panic                  -- default: panic("invalid node")
  | fuel + 1, .short K c f, key, v =>
    match key with
    | [] => .ok (true, .value v)
    | _ :: _ =>
      match splitPrefix key K with
      | (_, rk, []) =>
        match insert s gen fuel c rk v with
        | .ok (false, _) => .ok (false, .short K c f)
        | .ok (true, nn) => .ok (true, .short K nn (newFlag gen))
        | .missing h => .missing h
        | .panic => .panic
        | .overflow => .overflow
      | (common, rk, kn :: rK) =>
        match rk with
        | [] => .panic                  -- key[matchlen]: index out of range
        | kk :: rk' =>
          let branch := setP (setP (fun _ => .empty) kn (insertNilP gen rK c)) kk
            (insertNilP gen rk' (.value v))
          match common with
          | [] => .ok (true, .full branch (newFlag gen))
          | _ :: _ => .ok (true, .short common (.full branch (newFlag gen)) (newFlag gen))
  | fuel + 1, .full ch f, key, v =>
    match key with
    | [] => .ok (true, .value v)
    | k0 :: krest =>
      match insert s gen fuel (ch k0) krest v with
      | .ok (false, _) => .ok (false, .full ch f)
      | .ok (true, nn) => .ok (true, .full (setP ch k0 nn) (newFlag gen))
      | .missing h => .missing h
      | .panic => .panic
      | .overflow => .overflow
  | fuel + 1, .hash h, key, v =>
    match key with
    | [] => .ok (true, .value v)
    | _ :: _ =>
      match resolveHash s gen h with
      | .ok rn =>
        match insert s gen fuel rn key v with
        | .ok (false, _) => .ok (false, rn)      -- the resolved node stays in the trie
        | .ok (true, nn) => .ok (true, nn)
        | .missing h => .missing h
        | .panic => .panic
        | .overflow => .overflow
      | .missing h => .missing h
      | .panic => .panic
      | .overflow => .overflow

def nonEmptyIdxP (ch : Nib → PNode) : List Nib :=
  (List.finRange 17).filter (fun i => !(ch i).isEmpty)

/-- `Trie.delete(n, prefix, key)`: `(dirty, newnode)` -/
def delete (s : Store) (gen : Nat) : Nat → PNode → List Nib → Res (Bool × PNode)
  | 0, _, _ => .overflow
  | _ + 1, .empty, _ => .ok (false, .empty)
  | _ + 1, .value _, _ => .ok (true, .empty)
  | fuel + 1, .short K c f, key =>
    match splitPrefix key K with
    | (_, _, _ :: _) => .ok (false, .short K c f)
    | (_, [], []) => .ok (true, .empty)
    | (_, rk@(_ :: _), []) =>
      match delete s gen fuel c rk with
      | .ok (false, _) => .ok (false, .short K c f)
      | .ok (true, child) =>
        match child with
        | .short ck cv _ => .ok (true, .short (K ++ ck) cv (newFlag gen))
        | _ => .ok (true, .short K child (newFlag gen))
      | .missing h => .missing h
      | .panic => .panic
      | .overflow => .overflow
  | fuel + 1, .full ch f, key =>
    match key with
    | [] => .panic                      -- key[0]: index out of range
    | k0 :: krest =>
      match delete s gen fuel (ch k0) krest with
      | .ok (false, _) => .ok (false, .full ch f)
      | .ok (true, nn) =>
        let ch' := setP ch k0 nn
        match nonEmptyIdxP ch' with
        | [pos] =>
          if pos ≠ 16 then
            -- "Since the entry might not be loaded yet, resolve it just for this check."
            match resolve s gen (ch' pos) with
            | .ok (.short ck cv _) => .ok (true, .short (pos :: ck) cv (newFlag gen))
            | .ok _ => .ok (true, .short [pos] (ch' pos) (newFlag gen))   -- the UNRESOLVED child
            | .missing h => .missing h
            | .panic => .panic
            | .overflow => .overflow
          else .ok (true, .short [pos] (ch' pos) (newFlag gen))
        | _ => .ok (true, .full ch' (newFlag gen))
      | .missing h => .missing h
      | .panic => .panic
      | .overflow => .overflow
  | fuel + 1, .hash h, key =>
    match resolveHash s gen h with
    | .ok rn =>
      match delete s gen fuel rn key with
      | .ok (false, _) => .ok (false, rn)
      | .ok (true, nn) => .ok (true, nn)
      | .missing h => .missing h
      | .panic => .panic
      | .overflow => .overflow
    | .missing h => .missing h
    | .panic => .panic
    | .overflow => .overflow

/-! ### the hasher (`hasher.go`) -/

/-- `nodeFlag.canUnload`: `!dirty && cachegen - gen >= cachelimit` in `uint16` arithmetic -/
def Flag.canUnload (f : Flag) (cachegen cachelimit : Nat) : Bool :=
  !f.dirty && decide (cachelimit ≤ (cachegen % 65536 + 65536 - f.gen % 65536) % 65536)

/-- a hasher: `small`, `hashOf` (parameters), `cachegen`, `cachelimit`, `commit` = `db != nil` -/
structure Hasher where
  small : CNode → Bool
  hashOf : CNode → Hash
  cachegen : Nat
  cachelimit : Nat
  commit : Bool

/-- the head of `hasher.hash`: with a cached hash the node is not processed — `some (h, unload)`:
    without a database always; with a database when it can be unloaded (then it is REPLACED by its
    hash node) or when it is clean. -/
def cacheDecision (hs : Hasher) (f : Flag) : Option (Hash × Bool) :=
  match f.hash with
  | none => none
  | some h =>
    if !hs.commit then some (h, false)
    else if f.canUnload hs.cachegen hs.cachelimit then some (h, true)
    else if !f.dirty then some (h, false)
    else none

/-- raw copy (flags dropped): what slot 16 of a full node is encoded as -/
def rawC : PNode → CNode
  | .empty => .empty
  | .value v => .value v
  | .hash h => .hash h
  | .short k c _ => .short k (rawC c)
  | .full ch _ => .full (fun i => rawC (ch i))

/-- `hasher.store`, the returned reference: nil and hash nodes as they are; a node whose encoding is
    `small` stays embedded unless `force`; otherwise the hash (the cached one if the node has one). -/
def storeRef (hs : Hasher) (c : CNode) (cached : Option Hash) (force : Bool) : CNode :=
  match c with
  | .empty => .empty
  | .hash h => .hash h
  | _ => if hs.small c && !force then c else .hash (cached.getD (hs.hashOf c))

/-- `hasher.store`, the database write `db.Insert(hash, blob)` -/
def storeWrite (hs : Hasher) (c : CNode) (cached : Option Hash) (force : Bool) : List (Hash × CNode) :=
  if !hs.commit then [] else
  match c with
  | .empty => []
  | .hash _ => []
  | _ => if hs.small c && !force then [] else [(cached.getD (hs.hashOf c), c)]

/-- first result of `hasher.hash(n, db, force)`: the reference to `n` (hash node or embedded node).
    Slot 16 of a full node and a value below a short node are never hashed. -/
def hashed (hs : Hasher) : PNode → Bool → CNode
  | .empty, _ => .empty
  | .value v, force => storeRef hs (.value v) none force
  | .hash h, _ => .hash h
  | .short K c f, force =>
    match cacheDecision hs f with
    | some (h, _) => .hash h
    | none =>
      storeRef hs (.short K (match c with
        | .value v => CNode.value v
        | _ => hashed hs c false)) f.hash force
  | .full ch f, force =>
    match cacheDecision hs f with
    | some (h, _) => .hash h
    | none =>
      storeRef hs (.full (fun i => if i = 16 then rawC (ch 16) else hashed hs (ch i) false)) f.hash force

/-- `hasher.hashChildren`, first result: the collapsed node handed to `store` -/
def kids (hs : Hasher) : PNode → CNode
  | .empty => .empty
  | .value v => .value v
  | .hash h => .hash h
  | .short K c _ => .short K (match c with
      | .value v => CNode.value v
      | _ => hashed hs c false)
  | .full ch _ => .full (fun i => if i = 16 then rawC (ch 16) else hashed hs (ch i) false)

def refHash? : CNode → Option Hash
  | .hash h => some h
  | _ => none

/-- second result of `hasher.hash`: the node that replaces `n` in the trie (hash cached, `dirty`
    cleared in commit mode, unloadable nodes replaced by their hash node) -/
def cachedOf (hs : Hasher) : PNode → Bool → PNode
  | .empty, _ => .empty
  | .value v, _ => .value v
  | .hash h, _ => .hash h
  | .short K c f, force =>
    match cacheDecision hs f with
    | some (h, true) => .hash h
    | some (_, false) => .short K c f
    | none =>
      .short K (match c with
        | .value v => PNode.value v
        | _ => cachedOf hs c false)
        { hash := refHash? (hashed hs (.short K c f) force), gen := f.gen,
          dirty := if hs.commit then false else f.dirty }
  | .full ch f, force =>
    match cacheDecision hs f with
    | some (h, true) => .hash h
    | some (_, false) => .full ch f
    | none =>
      .full (fun i => if i = 16 then ch 16 else cachedOf hs (ch i) false)
        { hash := refHash? (hashed hs (.full ch f) force), gen := f.gen,
          dirty := if hs.commit then false else f.dirty }

/-- the `db.Insert` calls of `hasher.hash(n, db, force)`, in order (children first) -/
def writes (hs : Hasher) : PNode → Bool → List (Hash × CNode)
  | .empty, _ => []
  | .value v, force => storeWrite hs (.value v) none force
  | .hash _, _ => []
  | .short K c f, force =>
    match cacheDecision hs f with
    | some _ => []
    | none =>
      (match c with
        | .value _ => []
        | _ => writes hs c false) ++ storeWrite hs (kids hs (.short K c f)) f.hash force
  | .full ch f, force =>
    match cacheDecision hs f with
    | some _ => []
    | none =>
      (List.finRange 17).flatMap (fun i => if i = 16 then [] else writes hs (ch i) false)
        ++ storeWrite hs (kids hs (.full ch f)) f.hash force

/-- the hasher calls `n.Val.cache()` on a nil interface: a processed short node with a nil child panics -/
def hashBad (hs : Hasher) : PNode → Bool
  | .short _ c f =>
    match cacheDecision hs f with
    | some _ => false
    | none =>
      match c with
      | .empty => true
      | .value _ => false
      | _ => hashBad hs c
  | .full ch f =>
    match cacheDecision hs f with
    | some _ => false
    | none => (List.finRange 17).any (fun i => i ≠ 16 && hashBad hs (ch i))
  | _ => false

/-! ### the store -/

/-- `TrieDatabase.insert`: an existing entry is kept -/
def Store.put (s : Store) (h : Hash) (c : CNode) : Store :=
  fun x => if x = h then (match s h with | some c' => some c' | none => some c) else s x

def Store.putAll (s : Store) (ws : List (Hash × CNode)) : Store :=
  ws.foldl (fun s w => s.put w.1 w.2) s

/-! ### `Trie` -/

structure Trie where
  root : PNode := .empty
  cachegen : Nat := 0
  cachelimit : Nat := 0

/-- `common.Hash{}` -/
def zeroHash : Hash := List.replicate 32 0

/-- `trie.New(root, db)`: the zero hash and `emptyRoot = Keccak(rlp(""))` open the empty trie -/
def Trie.new (hashOf : CNode → Hash) (s : Store) (root : Hash) : Res Trie :=
  if root = zeroHash ∨ root = hashOf .empty then .ok {}
  else
    match resolveHash s 0 root with
    | .ok n => .ok { root := n }
    | .missing h => .missing h
    | .panic => .panic
    | .overflow => .overflow

/-- `Trie.TryGet` on the hex key -/
def Trie.get (s : Store) (fuel : Nat) (t : Trie) (key : List Nib) : Res (Option Val × Trie) :=
  match tryGet s t.cachegen fuel t.root key with
  | .ok (v, nn, true) => .ok (v, { t with root := nn })
  | .ok (v, _, false) => .ok (v, t)
  | .missing h => .missing h
  | .panic => .panic
  | .overflow => .overflow

/-- `Trie.TryDelete` on the hex key (the root is replaced whatever `dirty` says) -/
def Trie.remove (s : Store) (fuel : Nat) (t : Trie) (key : List Nib) : Res Trie :=
  match delete s t.cachegen fuel t.root key with
  | .ok (_, n) => .ok { t with root := n }
  | .missing h => .missing h
  | .panic => .panic
  | .overflow => .overflow

/-- `Trie.TryUpdate` on the hex key -/
def Trie.update (s : Store) (fuel : Nat) (t : Trie) (key : List Nib) (v : Val) : Res Trie :=
  match v with
  | [] => t.remove s fuel key
  | _ :: _ =>
    match insert s t.cachegen fuel t.root key v with
    | .ok (_, n) => .ok { t with root := n }
    | .missing h => .missing h
    | .panic => .panic
    | .overflow => .overflow

def Trie.hasher (small : CNode → Bool) (hashOf : CNode → Hash) (t : Trie) (commit : Bool) : Hasher :=
  ⟨small, hashOf, t.cachegen, t.cachelimit, commit⟩

/-- `Trie.Commit(nil)`: root hash, the trie with the cached root and `cachegen+1`, the node writes -/
def Trie.commit (small : CNode → Bool) (hashOf : CNode → Hash) (t : Trie) :
    Res (Hash × Trie × List (Hash × CNode)) :=
  match t.root with
  | .empty => .ok (hashOf .empty, { t with cachegen := (t.cachegen + 1) % 65536 }, [])
  | r =>
    let hs := t.hasher small hashOf true
    if hashBad hs r then .panic else
    match hashed hs r true with
    | .hash h => .ok (h, { t with root := cachedOf hs r true, cachegen := (t.cachegen + 1) % 65536 },
        writes hs r true)
    | _ => .panic                       -- hash.(hashNode)

/-- `Trie.Hash()`: no database, hashes are cached, nothing is unloaded or cleaned -/
def Trie.hash (small : CNode → Bool) (hashOf : CNode → Hash) (t : Trie) : Res (Hash × Trie) :=
  match t.root with
  | .empty => .ok (hashOf .empty, t)
  | r =>
    let hs := t.hasher small hashOf false
    if hashBad hs r then .panic else
    match hashed hs r true with
    | .hash h => .ok (h, { t with root := cachedOf hs r true })
    | _ => .panic

/-! ### the node codec at the level of RLP items (`node.go`, `encoding.go`, `hasher.store`)

  `toItem c` is the RLP item `rlp.Encode(collapsed)` writes (C14's `LemoModel.Rlp.encode` turns it into
  bytes): a short node is the list `[hexToCompact(Key), Val]`, a full node the list of its 17 children,
  nil is the empty string, a hash node its 32 bytes, a value node its bytes.  `rlpSmall` is the real
  embedding test `len(rlp) < 32` of `hasher.store`. -/

/-- `hasTerm` -/
def hasTerm (k : List Nib) : Bool := k.getLast? == some 16

/-- `decodeNibbles`: two nibbles per byte -/
def packNibbles : List Nib → List UInt8
  | a :: b :: rest => UInt8.ofNat (a.val * 16 + b.val) :: packNibbles rest
  | _ => []

/-- `hexToCompact`: flag byte (terminator `<<5`, odd `<<4` | first nibble), then the packed nibbles -/
def hexToCompact (hex : List Nib) : List UInt8 :=
  let t := hasTerm hex
  let h := if t then hex.dropLast else hex
  let flag := if t then 32 else 0
  if h.length % 2 = 1 then
    match h with
    | x :: rest => UInt8.ofNat (flag + 16 + x.val) :: packNibbles rest
    | [] => []
  else UInt8.ofNat flag :: packNibbles h

/-- nibbles of a byte string, two per byte (`keybytesToHex` without its terminator) -/
def unpackNibbles : List UInt8 → List Nib
  | [] => []
  | b :: r => Fin.ofNat 17 (b.toNat / 16) :: Fin.ofNat 17 (b.toNat % 16) :: unpackNibbles r

/-- `compactToHex`: the flag nibble says terminator (`>= 2`) and odd length (`& 1`); `none` = the
    `base[0]` index panic on an empty input -/
def compactToHex (c : List UInt8) : Option (List Nib) :=
  match unpackNibbles c with
  | [] => none
  | f :: rest =>
    let body := if f.val % 2 = 1 then rest else rest.drop 1
    some (if f.val ≥ 2 then body ++ [16] else body)

def toItem : CNode → Rlp.Item
  | .empty => .bytes []
  | .value v => .bytes (v.map UInt8.ofNat)
  | .hash h => .bytes (h.map UInt8.ofNat)
  | .short K c => .list [.bytes (hexToCompact K), toItem c]
  | .full ch => .list ((List.finRange 17).map (fun i => toItem (ch i)))

/-- the blob `hasher.store` hashes and writes -/
def nodeRlp (c : CNode) : List UInt8 := Rlp.encode (toItem c)

/-- `h.tmp.Len() < 32`: the node is stored inside its parent -/
def rlpSmall (c : CNode) : Bool := decide ((nodeRlp c).length < 32)

/-- the same collapsed node with every hash reference replaced by 32 zero bytes (for sizes, when the
    model's hashes are not 32 bytes long) -/
def pad32 : CNode → CNode
  | .hash _ => .hash (List.replicate 32 0)
  | .short K c => .short K (pad32 c)
  | .full ch => .full (fun i => pad32 (ch i))
  | c => c

/-! ### `proof.go`: `VerifyProof` and its helper `get`

  `Trie.Prove` is commented out in /repo: there is no producer to model; a proof is any reader that
  holds the nodes on the path.  The reader returns blobs; as everywhere here a blob is the collapsed
  node it decodes to (a blob `decodeNode` rejects = a `CNode` that is not a short/full node).
  `check = true` is the code since /repo commit 18a0e58 (`Keccak(buf) != wantHash` ⇒ error);
  `check = false` is the code before that fix (the reader is trusted to be content-addressed). -/

inductive PGet where
  | nil
  | hash (h : Hash) (rest : List Nib)
  | value (v : Val)
  | panic
  deriving DecidableEq, Repr

/-- `get(tn, key)`: walk inside one decoded node (through embedded children) -/
def proofGet : CNode → List Nib → PGet
  | .short K c, key =>
    match stripPrefix K key with
    | none => .nil
    | some rest => proofGet c rest
  | .full ch, key =>
    match key with
    | [] => .panic                      -- key[0]: index out of range
    | k :: rest => proofGet (ch k) rest
  | .hash h, key => .hash h key
  | .empty, _ => .nil
  | .value v, _ => .value v

inductive ProofRes where
  | value (v : Val) (nodes : Nat)       -- `return cld, nil, i+1`
  | absent (nodes : Nat)                -- `return nil, nil, i`
  | missing (i : Nat)                   -- "proof node %d missing"
  | mismatch (i : Nat)                  -- "proof node %d does not hash to …" (since 18a0e58)
  | bad (i : Nat)                       -- "bad proof node %d"
  | panic
  | diverge                             -- the `for` loop never ends (reader with a cycle)
  deriving DecidableEq, Repr

/-- `VerifyProof(rootHash, key, proofDb)` on the hex key; `fuel` bounds the loop -/
def verifyProof (check : Bool) (hashOf : CNode → Hash) (r : Store) : Nat → Hash → List Nib → Nat → ProofRes
  | 0, _, _, _ => .diverge
  | fuel + 1, want, key, i =>
    match r want with
    | none => .missing i
    | some c =>
      if check && decide (hashOf c ≠ want) then .mismatch i
      else if !c.isBranch then .bad i
      else
        match proofGet c key with
        | .nil => .absent i
        | .hash h rest => verifyProof check hashOf r fuel h rest (i + 1)
        | .value v => .value v (i + 1)
        | .panic => .panic

/-! ### the node pool of /repo/store/trie_database.go

  `TrieDatabase.nodes` (blob + the child references recorded by `Reference`) in front of the
  key-value store (BeansDB, `ItemFlagTrie`).  NOT modelled: `Parents` counters and `Dereference`
  (garbage collection) — no caller in /repo outside tests —, preimages, sizes.  Batching and the lock
  only as far as write faults are concerned (`Db.flush` below). -/

structure MemNode where
  blob : CNode
  children : List Hash            -- keys of `CachedNode.Children`

structure Db where
  mem : List (Hash × MemNode) := []     -- `db.nodes` (without the `{}` root entry)
  disk : List (Hash × CNode) := []      -- key-value store, latest write first

def lookupH {α : Type} : List (Hash × α) → Hash → Option α
  | [], _ => none
  | (k, a) :: rest, h => if k = h then some a else lookupH rest h

/-- `TrieDatabase.Node`: memory first, then disk -/
def Db.node (db : Db) : Store :=
  fun h => match lookupH db.mem h with
    | some m => some m.blob
    | none => lookupH db.disk h

/-- the child hashes `hasher.store` passes to `db.Reference`: direct hash children only -/
def directRefs : CNode → List Hash
  | .short _ (.hash h) => [h]
  | .full ch => (List.finRange 17).filterMap (fun i =>
      if i = 16 then none else match ch i with | .hash h => some h | _ => none)
  | _ => []

def addChild (mem : List (Hash × MemNode)) (parent child : Hash) : List (Hash × MemNode) :=
  mem.map (fun e => if e.1 = parent ∧ child ∉ e.2.children
    then (e.1, { e.2 with children := e.2.children ++ [child] }) else e)

/-- `TrieDatabase.reference(child, parent)`: skipped when the child is not in memory ("a node pulled
    from disk") or already referenced -/
def Db.reference (db : Db) (child parent : Hash) : Db :=
  match lookupH db.mem child with
  | none => db
  | some _ => { db with mem := addChild db.mem parent child }

/-- `db.Insert(hash, blob)` (kept if known) followed by the `db.Reference` calls of `hasher.store` -/
def Db.insert (db : Db) (w : Hash × CNode) : Db :=
  let db1 : Db := match lookupH db.mem w.1 with
    | some _ => db
    | none => { db with mem := db.mem ++ [(w.1, ⟨w.2, []⟩)] }
  (directRefs w.2).foldl (fun d c => d.reference c w.1) db1

def Db.insertAll (db : Db) (ws : List (Hash × CNode)) : Db := ws.foldl Db.insert db

/-- the hashes `TrieDatabase.commit(hash, batch)` visits: stops at nodes that are not in memory
    ("previously committed"); `none` = recursion deeper than the pool is large (reference cycle; Go: stack
    overflow) -/
def reach (mem : List (Hash × MemNode)) : Nat → Hash → Option (List Hash)
  | 0, _ => none
  | fuel + 1, h =>
    match lookupH mem h with
    | none => some []
    | some m =>
      (m.children.foldl (fun acc c => match acc, reach mem fuel c with
        | some a, some r => some (a ++ r)
        | _, _ => none) (some [])).map (fun l => l ++ [h])

/-- `TrieDatabase.Commit(root)`: write every pool node reachable from `root` through the recorded
    references to disk (children first), then `uncache` them -/
def Db.commit (db : Db) (root : Hash) : Res Db :=
  match reach db.mem (db.mem.length + 1) root with
  | none => .overflow
  | some hs =>
    let puts := hs.filterMap (fun h => (lookupH db.mem h).map (fun m => (h, m.blob)))
    .ok { mem := db.mem.filter (fun e => e.1 ∉ hs), disk := puts.reverse ++ db.disk }

/-- a new `TrieDatabase` over the same key-value store -/
def Db.fresh (db : Db) : Db := { mem := [], disk := db.disk }

/-! ### write faults of `TrieDatabase.Commit` (trie_database.go:260-344)

  `Commit(root)`: `db.lock.RLock()`; every preimage is `Put` into a batch (`batch.Commit()` + `Reset`
  whenever the batch holds more than `IdealBatchSize` bytes); `db.commit(root, batch)` walks the pool
  nodes reachable from `root` through the recorded references, children first, `Put`s each blob
  (`batch.Commit()` + `Reset` at `IdealBatchSize`); the final `batch.Commit()`; `db.lock.RUnlock()`;
  and only THEN, under the write lock, `db.uncache(root)` drops the written nodes from the pool and the
  preimage table is cleared ("the two-phase commit is to ensure consistent data availability while
  moving from memory to disk").  Every `batch.Commit()` may return an error (full disk, I/O error): the
  call logs, releases the read lock and returns the error; nothing is uncached.

  The fault is an INPUT of the model (`Fault`), so is what had reached the key-value store in earlier,
  successful batches of the same call (`wrote`; batch boundaries depend on blob sizes and, through
  `range node.Children`, on Go's map iteration order — the theorems of `LemoProofs.C17Fault` hold for
  every `wrote`).  Preimages themselves are not modelled (they live under the `secure-key-` prefix,
  43-byte keys, disjoint from the 32-byte node keys): whether the preimage loop performs an
  intermediate write (pending preimages > `IdealBatchSize`) is part of the input (`Fault.preimage`).
  The lock is modelled as the number of read locks the call still holds when it returns.
  A pool with a reference cycle is reported as `overflow` whatever the fault (in Go the fault may hit
  before the stack is exhausted; no cycle was ever observed). -/

/-- where a `batch.Commit()` of one `TrieDatabase.Commit` returns an error; `wrote` = the visited hashes
    whose `Put` had reached the key-value store in earlier batches of this call (`[]`: one batch) -/
inductive Fault where
  | preimage                      -- the intermediate write of the preimage loop (line 278)
  | node (wrote : List Hash)      -- an intermediate write inside `commit` (line 338)
  | final (wrote : List Hash)     -- the final write (line 292)

/-- the hashes a fault reports as written before it (`none`: it hit before any node was batched) -/
def Fault.wrote? : Fault → Option (List Hash)
  | .preimage => none
  | .node w => some w
  | .final w => some w

/-- which code.  `uncacheAfterWrite = true`: the code as it is (pool nodes are dropped by `uncache` AFTER
    the write succeeded); `false`: the variant that deletes each node from `db.nodes` right after
    `batch.Put` (refuted in `LemoProofs.C17Fault`; modelled exactly for one-batch flushes).
    `preimageUnlocks = true`: the code since /repo 228c7d3; `false`: the code before it (`return err`
    without `db.lock.RUnlock()` when the intermediate write of the preimage loop fails). -/
structure FlushCode where
  uncacheAfterWrite : Bool := true
  preimageUnlocks : Bool := true

/-- what one call of `TrieDatabase.Commit` leaves behind: the database, whether the call returned the
    write error, and the read locks on `db.lock` it still holds (0 = released) -/
structure FlushOut where
  db : Db
  err : Bool
  rlocks : Nat

/-- the pool part of `TrieDatabase.Commit(root)`.  `wrote = none`: every write succeeded (this is
    `Db.commit`); `wrote = some w`: a write failed after the visited hashes in `w` had been written —
    the pool is left as it is (`uncacheAfterWrite`) -/
def Db.flushWrite (uncacheAfterWrite : Bool) (db : Db) (root : Hash) (wrote : Option (List Hash)) : Res Db :=
  match reach db.mem (db.mem.length + 1) root with
  | none => .overflow
  | some hs =>
    let puts := fun (l : List Hash) => l.filterMap (fun h => (lookupH db.mem h).map (fun m => (h, m.blob)))
    let kept := db.mem.filter (fun e => e.1 ∉ hs)
    match wrote with
    | none => .ok { mem := kept, disk := (puts hs).reverse ++ db.disk }
    | some w =>
      .ok { mem := if uncacheAfterWrite then db.mem else kept,
            disk := (puts (hs.filter (fun h => h ∈ w))).reverse ++ db.disk }

/-- `TrieDatabase.Commit(root)` with an optional write fault -/
def Db.flush (c : FlushCode) (db : Db) (root : Hash) : Option Fault → Res FlushOut
  | some .preimage => .ok ⟨db, true, if c.preimageUnlocks then 0 else 1⟩
  | some (.node w) =>
    match db.flushWrite c.uncacheAfterWrite root (some w) with
    | .ok d => .ok ⟨d, true, 0⟩
    | .missing h => .missing h
    | .panic => .panic
    | .overflow => .overflow
  | some (.final w) =>
    match db.flushWrite c.uncacheAfterWrite root (some w) with
    | .ok d => .ok ⟨d, true, 0⟩
    | .missing h => .missing h
    | .panic => .panic
    | .overflow => .overflow
  | none =>
    match db.flushWrite c.uncacheAfterWrite root none with
    | .ok d => .ok ⟨d, false, 0⟩
    | .missing h => .missing h
    | .panic => .panic
    | .overflow => .overflow

end LemoModel.MptStore

/-
  C18 — the transaction pool of /repo/chain/txpool/tx_pool.go, exactly as coded
  (core Lean only).

  Go state                                  model
  ----------------------------------------  ---------------------------------------
  pool.txs  types.Transactions (nil slots)  `txs : List (Option Tx)`   (deleted = none)
  pool.hashIndexMap map[common.Hash]int     `idx : List (Hash × Nat)`  (assoc list, one entry per key)
  pool.cap int                              `cap : Nat`

  A transaction is `{hash, expiration, subs}`; `subs` are the (hash, expiration)
  pairs of `getSubTxs(tx)` — non-empty only for a `params.BoxTx` whose data
  decodes to a box (a box whose data does not decode behaves like a plain tx,
  exactly as `getSubTxs` returns an empty list on error).

  Go panics are explicit: `delHash` returns `none` for `pool.txs[index] = nil` with an out-of-range index.

  `fixed = true` is the code as it is now, i.e. after the two /repo commits
    85d2f65 "fix: delTx of a box must clear the slots of its pooled sub-txs"
            (a sub-tx hash of a deleted box also clears the slot it is indexed at), and
    6d2038c "fix: GetTxs checks size before allocating the result"
            (`size <= 0` returns an empty list; the reserved capacity is `min(size, len(pool.txs))`, which is
            not observable and not modelled).
  `fixed = false` is the code BEFORE both commits: the sub-tx loop of `delTx` only deleted index entries, and
  `GetTxs` ran `make([]*Transaction, 0, size)` first, which panics for `size < 0` (modelled: `Out.panic`) and
  for `size` above ~2^45 / exhausts memory below that (NOT modelled: the legacy variant is only meaningful for
  `size < 2^31`).  It is kept for the refutation and `_partial` theorems of LemoProofs/C18.lean.

  `time` is Go's `uint32` widened to `uint64` before the comparison; the model's `Nat` contains it.
-/
namespace LemoModel.Pool

abbrev Hash := Nat

structure Sub where
  hash : Hash
  expiration : Nat
  deriving DecidableEq, Repr

structure Tx where
  hash : Hash
  expiration : Nat
  subs : List Sub
  deriving DecidableEq, Repr

/-- every hash the pool indexes for a transaction: its own, then its sub-txs' -/
def Tx.keys (t : Tx) : List Hash := t.hash :: t.subs.map Sub.hash

/-! ### `map[common.Hash]int` as an association list -/

abbrev Idx := List (Hash × Nat)

def lookup : Idx → Hash → Option Nat
  | [], _ => none
  | (k', v) :: r, k => if k' = k then some v else lookup r k

def erase (m : Idx) (k : Hash) : Idx := m.filter (fun e => decide (e.1 ≠ k))

def put (m : Idx) (k : Hash) (v : Nat) : Idx := (k, v) :: erase m k

/-! ### the pool -/

structure Pool where
  txs : List (Option Tx)
  idx : Idx
  cap : Nat
  deriving Repr

def defaultPoolCap : Nat := 128

/-- `NewTxPool` -/
def newPool : Pool := { txs := [], idx := [], cap := defaultPoolCap }

/-- `IsEmpty`: `len(pool.hashIndexMap) <= 0` -/
def isEmpty (p : Pool) : Bool := p.idx.isEmpty

/-- `isTxExist`: own hash or any sub-tx hash is a key of the index -/
def isTxExist (p : Pool) (t : Tx) : Bool := t.keys.any (fun k => (lookup p.idx k).isSome)

inductive AddRes where
  | ok | errInvalidTx | errTxIsExist
  deriving DecidableEq, Repr

/-- `addTx` (a nil tx is `none`).  `ErrTxPoolExtendFail` is unreachable (`copy` always copies `txCount`). -/
def addTx (p : Pool) : Option Tx → Pool × AddRes
  | none => (p, .errInvalidTx)
  | some t =>
    if isTxExist p t then (p, .errTxIsExist)
    else
      let n := p.txs.length
      ({ txs := p.txs ++ [some t]
         idx := t.keys.foldl (fun m k => put m k n) p.idx
         cap := if p.cap - n < 1 then p.cap * 2 else p.cap }, .ok)

/-- loop of `AddTxs`: counts the accepted ones -/
def addLoop (p : Pool) (c : Nat) : List (Option Tx) → Pool × Nat
  | [] => (p, c)
  | t :: r =>
    match addTx p t with
    | (p', .ok) => addLoop p' (c + 1) r
    | (p', _) => addLoop p' c r

/-- `isTxTimeOut` -/
def isTxTimeOut (t : Tx) (time : Nat) : Bool :=
  decide (t.expiration < time) || t.subs.any (fun s => decide (s.expiration < time))

/-- `if index, ok := pool.hashIndexMap[hash]; ok { pool.txs[index] = nil; delete(pool.hashIndexMap, hash) }`;
    `none` = Go panic (index out of range). -/
def delHash (p : Pool) (k : Hash) : Option Pool :=
  match lookup p.idx k with
  | some i =>
    if i < p.txs.length then some { p with txs := p.txs.set i none, idx := erase p.idx k }
    else none
  | none => some p

/-- second half of `delTx`: the sub-tx loop. `fixed = true`: as coded now (clears the slot the sub-tx hash
    is indexed at, then deletes the entry); `fixed = false`: as coded before commit 85d2f65 (only deletes
    the index entry). -/
def delSubs (fixed : Bool) (p : Pool) : List Sub → Option Pool
  | [] => some p
  | s :: r =>
    if fixed then
      match delHash p s.hash with
      | none => none
      | some p' => delSubs fixed p' r
    else delSubs fixed { p with idx := erase p.idx s.hash } r

/-- `delTx` for a non-nil tx -/
def delTx (fixed : Bool) (p : Pool) (t : Tx) : Option Pool :=
  match delHash p t.hash with
  | none => none
  | some p1 => delSubs fixed p1 t.subs

/-- `gc` -/
def gc (p : Pool) : Pool :=
  if p.idx.isEmpty then
    { txs := [], idx := [], cap := if p.cap > defaultPoolCap then p.cap - 1 else p.cap }
  else p

/-- loop of `DelTxs`; the `Bool` is "panicked" (state = the state at the panic) -/
def delLoop (fixed : Bool) (p : Pool) : List (Option Tx) → Pool × Bool
  | [] => (p, false)
  | none :: r => delLoop fixed p r
  | some t :: r =>
    match delTx fixed p t with
    | none => (p, true)
    | some p' => delLoop fixed p' r

/-- loop of `GetTxs` over the slot indices (the Go `range` re-reads each slot, so a slot cleared by an
    earlier `delTx` of the same scan is skipped). Returns state, result, panicked. -/
def getLoop (fixed : Bool) (time size : Nat) : List Nat → Pool → List Tx → Pool × List Tx × Bool
  | [], p, acc => (p, acc, false)
  | i :: is, p, acc =>
    match p.txs[i]? with
    | some (some t) =>
      if isTxTimeOut t time then
        match delTx fixed p t with
        | none => (p, acc, true)
        | some p' => getLoop fixed time size is p' acc
      else if (acc ++ [t]).length ≥ size then (p, acc ++ [t], false)
      else getLoop fixed time size is p (acc ++ [t])
    | _ => getLoop fixed time size is p acc

inductive Out where
  | ok
  | err (e : AddRes)
  | count (n : Nat)
  | txs (l : List Tx)
  | bool (b : Bool)
  | panic
  deriving DecidableEq, Repr

/-- the exported methods -/
inductive Op where
  | add (t : Option Tx)
  | adds (ts : List (Option Tx))
  | get (time : Nat) (size : Int)
  | del (ts : List (Option Tx))
  | isEmpty
  deriving DecidableEq, Repr

def getTxs (fixed : Bool) (p : Pool) (time : Nat) (size : Int) : Pool × Out :=
  if size < 0 then (if fixed then (p, .txs []) else (p, .panic))
  else if size = 0 then (p, .txs [])
  else
    match getLoop fixed time size.toNat (List.range p.txs.length) p [] with
    | (p', _, true) => (p', .panic)
    | (p', l, false) => (p', .txs l)

def delTxs (fixed : Bool) (p : Pool) (ts : List (Option Tx)) : Pool × Out :=
  if ts.isEmpty then (p, .ok)
  else
    match delLoop fixed p ts with
    | (p', true) => (p', .panic)
    | (p', false) => (gc p', .ok)

def step (fixed : Bool) (p : Pool) : Op → Pool × Out
  | .add t =>
    match addTx p t with
    | (p', .ok) => (p', .ok)
    | (p', e) => (p', .err e)
  | .adds ts => if ts.isEmpty then (p, .count 0) else let r := addLoop p 0 ts; (r.1, .count r.2)
  | .get time size => getTxs fixed p time size
  | .del ts => delTxs fixed p ts
  | .isEmpty => (p, .bool (isEmpty p))

/-- state after a sequence of calls -/
def runState (fixed : Bool) (p : Pool) (ops : List Op) : Pool :=
  ops.foldl (fun q op => (step fixed q op).1) p

/-- outputs of a sequence of calls -/
def runOut (fixed : Bool) : Pool → List Op → List Out
  | _, [] => []
  | p, op :: r => (step fixed p op).2 :: runOut fixed (step fixed p op).1 r

/-- the live slots in slot order: what an unbounded `GetTxs(0, ·)` scans -/
def live (p : Pool) : List Tx := p.txs.filterMap id

end LemoModel.Pool

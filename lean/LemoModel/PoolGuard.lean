/-
  C04 × C18 — the engine's bookkeeping between the transaction pool and the replay guard, as coded in
  /repo/chain/consensus/dpovp.go (MineBlock, InsertBlock, saveNewBlock, onCurrentChanged, onStableChanged,
  InsertConfirms), main/node/api.go (PublicTxAPI.SendTx, PrivateTxAPI.GetPendingTx) and
  network/protocol_manager.go (handleTxsMsg).  Core Lean only.

  This is a COMPOSITION: every step below calls the existing models
    `LemoModel.Pool`    (chain/txpool/tx_pool.go, property C18: addTx / AddTxs / GetTxs / DelTxs, `fixed = true`) and
    `LemoModel.TxGuard` (chain/txpool/tx_guard.go + validator.go verifyTxs, property C04: SaveBlock / ExistTxs /
                         GetTxsByBranch / DelOldBlocks / verifyTxs with `fixed = true` / the VerifyTxBody window),
  it re-implements none of them.

  What is NOT decided here and therefore an INPUT of the ops (the theorems quantify over all values):
    * the fork choice (ForkManager.UpdateFork / UpdateForkForConfirm): the op names the head the engine moves to;
    * whether a block becomes stable (confirm counting): the op says so;
    * the wall clock (`now`);
    * which candidates the assembler cannot execute (`invalid`, returned as invalidTxs and deleted from the pool) and
      which it leaves over because the block's gas / time budget is used up (`skip`);
    * every check of a block other than verifyTxs (signature, miner, roots, …): the ops only offer blocks that pass them.
  `envB` collects what consensus guarantees about these inputs (block ids are fresh, a verified block's parent is a
  saved block that descends from the stable block, height = parent height + 1, time ≥ parent time, the new head
  descends from the (new) stable block).

  NOT MODELLED (see props/C04.json `partial`): every op is ATOMIC — in particular `ask` (head read + guard call; two
  unlocked reads in Go, see its doc comment); the early error returns of MineBlock (after GetTxs / DelTxs(replayedTxs),
  before saveNewBlock) and of saveNewBlock (ErrSaveBlock after txGuard.SaveBlock) are no ops: `mine` always saves;
  `envB`'s `confirm` does not require a higher stable height (over-approximation).

  VARIANTS (`Cfg`).  The driver and the registered current-code theorems use `Cfg.live = ⟨true, true⟩`:
    * `boxDupCheck`    = true: since /repo fix 786852c `checkBoxTx` (VerifyTxBody) refuses a box that names a sub-tx twice;
                         false = the code before it (such a box was pooled through SendTx / handleTxsMsg);
    * `minerAsksGuard` = true: since /repo fix 609d2a8 `MineBlock` asks `txGuard.ExistTx(parent, tx)` for every candidate
                         and deletes the replayed ones from the pool; false = the code before it (the guard was not consulted).
  The `false` variants are kept for the refutations and `_partial` theorems about the code before the two fixes.

  A pooled transaction is a `Pool.Tx` (hash, expiration, sub-tx hashes/expirations); a block carries `TxGuard.Tx`.
  `toPool` forgets the signed-content fields, `ofPool` fills them with the tx hash: the pool, the guard and verifyTxs
  read hashes and expirations only.
-/
import LemoModel.Pool
import LemoModel.TxGuard
namespace LemoModel.PoolGuard
open LemoModel LemoModel.TxGuard

abbrev PTx := LemoModel.Pool.Tx

/-- what the pool keeps of a transaction: `tx.Hash()`, `tx.Expiration()`, and the same of `getSubTxs(tx)` -/
def toPool (t : Tx) : PTx := ⟨t.txId, t.exp, t.subs.map (fun c => ⟨c.txId, c.exp⟩)⟩

/-- a pooled transaction as a block transaction (the signed-content fields are not used by pool / guard / verifyTxs) -/
def ofPool (t : PTx) : Tx :=
  { txId := t.hash, content := t.hash, exp := t.expiration, subs := t.subs.map (fun s => ⟨s.hash, s.hash, s.expiration, 0⟩) }

structure Cfg where
  boxDupCheck : Bool
  minerAsksGuard : Bool
  deriving DecidableEq, Repr

/-- the code as it is (after fixes 786852c and 609d2a8) -/
def Cfg.live : Cfg := ⟨true, true⟩

/-- `VerifyTxBody`, the part modelled: the expiration window (`Tx.validAt`) and, since fix 786852c, `checkBoxTx`'s
    refusal of a repeated sub-tx hash -/
def validBody (cfg : Cfg) (tx : Tx) (time : Nat) : Bool :=
  tx.validAt time && (!cfg.boxDupCheck || decide (tx.subs.map (·.txId)).Nodup)

/-- `params.MaxTxsForMiner` -/
def maxTxsForMiner : Int := 10000

structure State where
  /-- every block handed to `txGuard.SaveBlock` (newest first) -/
  blocks : List Block
  g : Guard
  pool : Pool.Pool
  /-- `dp.CurrentBlock()` -/
  head : Block
  /-- `dp.StableBlock()` -/
  stable : Block
  /-- entry goroutines (SendTx / handleTxsMsg) between their `ExistTx(head, tx) = false` and their `AddTx(tx)`:
      neither takes `chainLock`, so any other op may run in between -/
  asked : List Tx
  deriving Repr

def outGuard : Out Guard → Option Guard
  | .ok g => some g
  | _ => none

/-- a fresh node on a genesis block: `NewTxGuard(genesis.time)`, `initTxPool` (one `SaveBlock`), `NewTxPool()` -/
def init (gen : Block) : Option State :=
  (outGuard ((newTxGuard gen.time).saveBlock gen)).map fun g =>
    { blocks := [gen], g := g, pool := Pool.newPool, head := gen, stable := gen, asked := [] }

/-! ### pool calls (`none` = Go panic) -/

def optTxs (txs : List Tx) : List (Option PTx) := txs.map (fun t => some (toPool t))

/-- `txPool.DelTxs(txs)` -/
def poolDel (p : Pool.Pool) (txs : List Tx) : Option Pool.Pool :=
  match Pool.step true p (.del (optTxs txs)) with
  | (_, .panic) => none
  | (p', _) => some p'

/-- `txPool.AddTxs(txs)` -/
def poolAdds (p : Pool.Pool) (txs : List Tx) : Pool.Pool := (Pool.step true p (.adds (optTxs txs))).1

/-- `txPool.AddTx(tx)` -/
def poolAdd (p : Pool.Pool) (tx : Tx) : Pool.Pool := (Pool.step true p (.add (some (toPool tx)))).1

/-- `txPool.GetTxs(time, size)` -/
def poolGet (p : Pool.Pool) (time : Nat) (size : Int) : Option (Pool.Pool × List PTx) :=
  match Pool.step true p (.get time size) with
  | (p', .txs l) => some (p', l)
  | _ => none

/-! ### dpovp.go -/

/-- `onCurrentChanged(oldCurrent, newCurrent)`; a `GetTxsByBranch` error is only logged: both lists stay nil -/
def onCurrentChanged (g : Guard) (p : Pool.Pool) (old new : Block) : Option Pool.Pool :=
  if new.parent = old.hash then poolDel p new.txs
  else
    match g.getTxsByBranch old.hash old.height new.hash new.height with
    | .ok oldForkTxs newForkTxs => poolDel (poolAdds p oldForkTxs) newForkTxs
    | .hang => none
    | _ => poolDel (poolAdds p []) []

/-- `saveNewBlock`, branch `!currentChanged`: the txs of a side-branch block which the current branch lacks -/
def sidePush (g : Guard) (head : Nat) : Pool.Pool → List Tx → Option Pool.Pool
  | p, [] => some p
  | p, tx :: r =>
    match g.existTxs head [tx] with
    | .ok false => sidePush g head (poolAdd p tx) r
    | .ok true => sidePush g head p r
    | _ => none

/-- the pool bookkeeping of `saveNewBlock` / `InsertConfirms` once the fork update has named the head: nothing when the
    head stays and no block arrived (`side = none`), the side-branch push of the arrived block's txs when the head stays,
    `onCurrentChanged` when it moves -/
def headPool (g : Guard) (pool : Pool.Pool) (old newHead : Block) (side : Option (List Tx)) : Option Pool.Pool :=
  if newHead.hash = old.hash then
    match side with
    | some txs => sidePush g old.hash pool txs
    | none => some pool
  else onCurrentChanged g pool old newHead

/-- `onStableChanged(block)` when the stable block changed: `DelOldBlocks(block.Time())` -/
def pruneIf (g : Guard) (stab : Bool) (time : Nat) : Option Guard :=
  if stab then outGuard (g.delOldBlocks time) else some g

/-- `saveNewBlock` after `txGuard.SaveBlock(block)` (result `g1`): UpdateStable (input `stab`), UpdateFork (input
    `newHead`), then `onCurrentChanged` or the side-branch push, then `onStableChanged(block)` -/
def afterSave (s : State) (g1 : Guard) (pool : Pool.Pool) (b : Block) (stab : Bool) (newHead : Block) : Option State :=
  match headPool g1 pool s.head newHead (some b.txs), pruneIf g1 stab b.time with
  | some pool1, some g2 =>
    some { blocks := b :: s.blocks, g := g2, pool := pool1, head := newHead,
           stable := if stab then b else s.stable, asked := s.asked }
  | _, _ => none

/-- `InsertBlock`: `verifyTxs` (the only check modelled), `saveNewBlock`.  A refused block changes nothing. -/
def insert (s : State) (b : Block) (stab : Bool) (newHead : Block) : Option State :=
  match verifyTxs true s.g b with
  | .ok false => some s
  | .ok true =>
    match s.g.saveBlock b with
    | .ok g1 => afterSave s g1 s.pool b stab newHead
    | _ => none
  | _ => none

/-- `InsertConfirms` making `st` the stable block: UpdateForkForConfirm (the head moves only when its fork was cut:
    input `newHead`), `onCurrentChanged`, `onStableChanged(st)` -/
def confirm (s : State) (st newHead : Block) : Option State :=
  match headPool s.g s.pool s.head newHead none, pruneIf s.g true st.time with
  | some pool1, some g1 => some { s with g := g1, pool := pool1, head := newHead, stable := st }
  | _, _ => none

/-- `PrepareHeader`: the wall clock, but never before the parent -/
def mineTime (s : State) (now : Nat) : Nat := if s.head.time > now then s.head.time else now

def okBool : Out Bool → Bool
  | .ok _ => true
  | _ => false

/-- what `GetTxs` handed out and `VerifyTxBody(header.Time)` lets through (fix 2e18e3d) -/
def candidates (cfg : Cfg) (s : State) (now : Nat) (l : List PTx) : List Tx :=
  (l.map ofPool).filter (fun t => validBody cfg t (mineTime s now))

/-- since fix 609d2a8 every candidate is put to `txGuard.ExistTx(parent, tx)`: a panic of the guard is a panic of MineBlock -/
def guardAnswers (cfg : Cfg) (s : State) (cands : List Tx) : Bool :=
  !cfg.minerAsksGuard || cands.all (fun tx => okBool (s.g.existTxs s.head.hash [tx]))

/-- `replayedTxs` (fix 609d2a8; nothing before it) -/
def replayed (cfg : Cfg) (s : State) (cands : List Tx) : List Tx :=
  if cfg.minerAsksGuard then cands.filter (fun tx => s.g.existTxs s.head.hash [tx] == .ok true) else []

/-- `packable` -/
def packable (cfg : Cfg) (s : State) (cands : List Tx) : List Tx :=
  if cfg.minerAsksGuard then cands.filter (fun tx => s.g.existTxs s.head.hash [tx] == .ok false) else cands

/-- `MineBlock` up to the assembled block: `GetTxs(header.Time, MaxTxsForMiner)`; the candidate loop; `DelTxs(replayedTxs)`;
    the assembler's selection; `DelTxs(invalidTxs)`.  `verifyTxs` is NOT run on the result. -/
def assemble (cfg : Cfg) (s : State) (hash now : Nat) (skip invalid : List Nat) : Option (Pool.Pool × Block) :=
  match poolGet s.pool (mineTime s now) maxTxsForMiner with
  | none => none
  | some (p1, l) =>
    if guardAnswers cfg s (candidates cfg s now l) then
      match poolDel p1 (replayed cfg s (candidates cfg s now l)) with
      | none => none
      | some p1' =>
        match poolDel p1' ((packable cfg s (candidates cfg s now l)).filter (fun t => invalid.contains t.txId)) with
        | none => none
        | some p2 =>
          some (p2, ⟨hash, s.head.hash, s.head.height + 1, mineTime s now,
            (packable cfg s (candidates cfg s now l)).filter (fun t => !(invalid.contains t.txId) && !(skip.contains t.txId))⟩)
    else none

/-- `MineBlock`: the block is stored by `saveNewBlock` without verification and becomes the head -/
def mine (cfg : Cfg) (s : State) (hash now : Nat) (skip invalid : List Nat) (stab : Bool) : Option State :=
  match assemble cfg s hash now skip invalid with
  | none => none
  | some (p2, b) =>
    match s.g.saveBlock b with
    | .ok g1 => afterSave s g1 p2 b stab b
    | _ => none

/-! ### the entry points of a single transaction -/

/-- first half of `SendTx` / `handleTxsMsg`: `VerifyTxBody(now)`, `ExistTx(CurrentBlock().Hash(), tx)`.
    ATOMIC HERE, NOT IN GO: the head read and the guard call are one step of the model; Go reads `CurrentBlock()` and calls
    `ExistTx(thatBlock.Hash(), tx)` later with no lock (the entry goroutines never take `chainLock`), so an
    `InsertConfirms` can run in between and prune that head from the guard's cache: the guard then panics for it
    (`LemoProofs.C04Pool.stale_head_ask_panics`).  That two-read race is not an op sequence of this machine. -/
def ask (cfg : Cfg) (s : State) (now : Nat) (tx : Tx) : Option State :=
  if validBody cfg tx now then
    match s.g.existTxs s.head.hash [tx] with
    | .ok false => some { s with asked := tx :: s.asked }
    | .ok true => some s
    | _ => none
  else some s

/-- second half: `txPool.AddTx(tx)` of an entry that was answered `false` -/
def add (s : State) (tx : Tx) : State :=
  if s.asked.contains tx then { s with asked := s.asked.erase tx, pool := poolAdd s.pool tx } else s

inductive Op where
  | ask (now : Nat) (tx : Tx)
  | add (tx : Tx)
  /-- RPC `GetPendingTx(size)` = `GetTxs(now, size)`: drops what it sees expired -/
  | pending (now : Nat) (size : Int)
  | insert (b : Block) (stab : Bool) (newHead : Block)
  | confirm (st newHead : Block)
  | mine (hash now : Nat) (skip invalid : List Nat) (stab : Bool)
  deriving Repr

def step (cfg : Cfg) (s : State) : Op → Option State
  | .ask now tx => ask cfg s now tx
  | .add tx => some (add s tx)
  | .pending now size =>
    match Pool.step true s.pool (.get now size) with
    | (_, .panic) => none
    | (p', _) => some { s with pool := p' }
  | .insert b stab nh => insert s b stab nh
  | .confirm st nh => confirm s st nh
  | .mine hash now skip invalid stab => mine cfg s hash now skip invalid stab

def run (cfg : Cfg) : State → List Op → Option State
  | s, [] => some s
  | s, op :: r => (step cfg s op).bind (fun s' => run cfg s' r)

/-! ### what the environment (consensus) guarantees about the inputs -/

def findBlock (bs : List Block) (h : Nat) : Option Block := bs.find? (fun b => b.hash == h)

/-- `target` is the block of hash `h` or one of its ancestors, parent links resolved in `bs` -/
def descends (bs : List Block) (target : Block) : Nat → Nat → Bool
  | 0, _ => false
  | fuel + 1, h =>
    match findBlock bs h with
    | none => false
    | some b => b == target || descends bs target fuel b.parent

def freshId (bs : List Block) (h : Nat) : Bool := bs.all (fun x => decide (x.hash < h))

def envB (s : State) : Op → Bool
  | .ask _ tx => !((tx.subs.map (·.txId)).contains tx.txId)   -- a tx hash covers its data: a box does not contain itself
  | .insert b stab nh =>
    freshId s.blocks b.hash && decide (b.parent < b.hash) &&
    (match findBlock s.blocks b.parent with
     | some p => p.height + 1 == b.height && decide (p.time ≤ b.time) && descends s.blocks s.stable (b.parent + 1) b.parent
     | none => false) &&
    (b :: s.blocks).contains nh &&
    descends (b :: s.blocks) (if stab then b else s.stable) (nh.hash + 1) nh.hash
  | .confirm st nh =>
    s.blocks.contains st && descends s.blocks s.stable (st.hash + 1) st.hash &&
    s.blocks.contains nh && descends s.blocks st (nh.hash + 1) nh.hash
  | .mine hash _ _ _ _ => freshId s.blocks hash
  | _ => true

/-- the guard of the `_partial` theorems: `AddTx` is reached (1) while the guard's answer for the CURRENT head is still
    `false` (the entry goroutines ask first and add later, without `chainLock`: a head change can come in between), and
    (2) — only for the code before fix 786852c — not with a box that names a sub-transaction twice -/
def cleanB (cfg : Cfg) (s : State) : Op → Bool
  | .add tx =>
    !(s.asked.contains tx) ||
    ((s.g.existTxs s.head.hash [tx] == .ok false) && (cfg.boxDupCheck || decide ((toPool tx).keys.Nodup)))
  | _ => true

/-- all ops of a run satisfy `f` in the state they are applied to (vacuous after a panic) -/
def RunAll (cfg : Cfg) (f : State → Op → Bool) : State → List Op → Prop
  | _, [] => True
  | s, op :: r => f s op = true ∧ ∀ s', step cfg s op = some s' → RunAll cfg f s' r

/-- executable form of `RunAll` (for concrete witnesses) -/
def runAllB (cfg : Cfg) (f : State → Op → Bool) : State → List Op → Bool
  | _, [] => true
  | s, op :: r =>
    f s op && (match step cfg s op with
      | some s' => runAllB cfg f s' r
      | none => true)

/-- the genesis block of a run -/
def genOK (gen : Block) : Bool := gen.txs.isEmpty && decide (gen.parent < gen.hash) && decide (1800 ≤ gen.time)

/-- the state of a node started on `gen` after `ops` (`none` = a Go panic on the way) -/
def runFrom (cfg : Cfg) (gen : Block) (ops : List Op) : Option State := (init gen).bind (fun s0 => run cfg s0 ops)

/-- executable: the genesis block is one, and `f` holds for every op of the run from it -/
def checkRun (cfg : Cfg) (f : State → Op → Bool) (gen : Block) (ops : List Op) : Bool :=
  match init gen with
  | some s0 => runAllB cfg f s0 ops
  | none => true

/-! ### canonical output for the correspondence harness -/

def showIds (l : List Nat) : String := if l.isEmpty then "-" else ",".intercalate (l.map toString)

def showOutBool : Out Bool → String
  | .ok true => "1"
  | .ok false => "0"
  | .panic => "panic"
  | .hang => "hang"

/-- head, stable, the slots (`_` = cleared), what an unbounded non-expiring `GetTxs` hands out, and for each of those
    the guard's answer for the head -/
def State.dump (s : State) : String :=
  let slots := if s.pool.txs.isEmpty then "-" else ",".intercalate (s.pool.txs.map (fun x => match x with | some t => toString t.hash | none => "_"))
  let out := match poolGet s.pool 0 ((s.pool.txs.length : Int) + 1) with
    | some (_, l) => l
    | none => []
  let guard := if out.isEmpty then "-" else
    ",".intercalate (out.map (fun t => s!"{t.hash}:{showOutBool (s.g.existTxs s.head.hash [ofPool t])}"))
  s!"head={s.head.hash} stable={s.stable.hash} slots={slots} out={showIds (out.map (·.hash))} onbranch={guard}"

end LemoModel.PoolGuard

/-
  C19 (writer lag) — reads of the write-ahead queue while the asynchronous writer lags behind (core Lean only).

  Anchors: store/file_queue.go (setIndex, delIndex, getIndex, Get, Put, deliver, start/afterPut),
           store/sync_file_db.go (start: put → After hook → Done), store/chain_database.go (SetBlock, SetStableBlock →
           blockCommit, setConfirm, GetConfirms, GetBlockByHash, GetBlockByHeight, GetAccount).

  Three threads touch one key:  the REQUEST threads (every `ChainDatabase` call; they `Put` and `Get`),
  the SYNC goroutine (`SyncFileDB.start`: takes the oldest record of `WriteChan`, writes it to its bitcask file and the
  position index, runs the After hook, sends it to `DoneChan`) and the DONE goroutine (`FileQueue.start`: `afterPut` →
  `delIndex`).  `FileQueue.Index` (one entry per key BYTES — the flag is not part of the map key) holds the NEWEST
  value handed to the sync goroutine and `refCnt` = how many hand-overs of that key `delIndex` has not seen yet.
  `Get` answers from the index entry when there is one with the asked flag and from the bitcask files otherwise.

  This file extends the pending-index model of LemoModel/Wal.lean (C08: key, flag, count) by the VALUE the entry
  holds — that is what a read returns — and splits C08's `done` step into the two steps that really are separate
  (`write`: the record is on disk; `ack`: `delIndex` has run).  tmp.data (the write-ahead file) is not part of this
  model: no read ever looks at it (C08 owns it: `queue_no_acked_record_lost`).

  `seeded = true` is the variant of seed C19i (NOT the code under test): `setIndex` increments the count of the OLD
  entry object and then replaces it by the new item, whose count is the 1 that `deliver` gave it — the count never
  exceeds 1.
-/
import LemoModel.Wal
namespace LemoModel.QueueLin
open LemoModel.Wal

/-! ## the pending index with values -/

structure LEntry where
  key : Bytes
  flg : Nat
  val : Bytes
  cnt : Nat
  deriving DecidableEq, Repr

abbrev LIndex := List LEntry

def lFind (idx : LIndex) (k : Bytes) : Option LEntry := idx.find? (fun e => e.key == k)
def lErase (idx : LIndex) (k : Bytes) : LIndex := idx.filter (fun e => !(e.key == k))
def lPut (idx : LIndex) (e : LEntry) : LIndex := e :: lErase idx e.key
/-- reference count of a key (0 = no entry) -/
def lCnt (idx : LIndex) (k : Bytes) : Nat := match lFind idx k with | some e => e.cnt | none => 0

/-- the C08 view of an entry (LemoModel/Wal.lean `IdxEntry`): the value is forgotten -/
def LEntry.erase (e : LEntry) : IdxEntry := ⟨e.key, e.flg, e.cnt⟩

/-- `setIndex` (file_queue.go:90): the new item replaces the entry of its key; its count is the old count + 1 -/
def lSetIndex (seeded : Bool) (idx : LIndex) (r : Record) : LIndex :=
  match lFind idx r.key with
  | none => lPut idx ⟨r.key, r.flg, r.val, 1⟩
  | some e => lPut idx ⟨r.key, r.flg, r.val, if seeded then 1 else e.cnt + 1⟩

/-- `delIndex(flag, key)` (file_queue.go:104): `none` = the Go code panics ("del index.val.flag != flag"; the deferred
    Unlock runs, the map is unchanged).  The entry object is kept (flag, value), only its count goes down. -/
def lDelIndex (idx : LIndex) (flg : Nat) (k : Bytes) : Option LIndex :=
  match lFind idx k with
  | none => some idx                        -- "del index.done is not exist": logged only
  | some e =>
    if e.flg ≠ flg then none
    else if e.cnt ≤ 1 then some (lErase idx k)
    else some (lPut idx { e with cnt := e.cnt - 1 })

/-- `getIndex(flag, key)` (file_queue.go:130): the entry's value when its flag is the asked one -/
def lGetIndex (idx : LIndex) (flg : Nat) (k : Bytes) : Option Bytes :=
  match lFind idx k with
  | none => none
  | some e => if e.flg = flg then some e.val else none   -- "val.flag != flag": logged, nil

/-! ## queue + writer state, the four kinds of steps -/

structure LState where
  index : LIndex
  chan : List Record      -- `WriteChan`: handed to the sync goroutine, not yet written; oldest first
  acks : List Record      -- written (bitcask + position index); `delIndex` has not run yet (After hook / `DoneChan`)
  disk : Store            -- bitcask files + LevelDB position index, keyed by (flag, key)
  dead : Bool             -- `delIndex` panicked in the done goroutine (the process dies)

def LState.init : LState := ⟨[], [], [], Store.empty, false⟩

/-- steps of the two background goroutines -/
inductive WEv where
  | write     -- sync goroutine: `db.put` of the oldest queued record
  | ack       -- done goroutine: `afterPut` → `delIndex` of the oldest written record
  deriving DecidableEq, Repr

/-- `FileQueue.Put` / one item of `PutBatch` as the readers see it: `deliver` = setIndex + hand-over -/
def qPut (seeded : Bool) (s : LState) (r : Record) : LState :=
  { s with index := lSetIndex seeded s.index r, chan := s.chan ++ [r] }

/-- `FileQueue.Get`: the index entry, else the files -/
def qGet (s : LState) (flg : Nat) (k : Bytes) : Option Bytes :=
  match lGetIndex s.index flg k with
  | some v => some v
  | none => s.disk (flg, k)

def wStep (s : LState) : WEv → LState
  | .write =>
    match s.chan with
    | [] => s
    | r :: rest => { s with chan := rest, acks := s.acks ++ [r], disk := s.disk.apply r }
  | .ack =>
    match s.acks with
    | [] => s
    | r :: rest =>
      match lDelIndex s.index r.flg r.key with
      | some idx => { s with index := idx, acks := rest }
      | none => { s with acks := rest, dead := true }

def wRun (s : LState) (es : List WEv) : LState := es.foldl wStep s

/-- what the acknowledged writes promise: the files plus the queued records, in order (written records are in `disk`) -/
def LState.promised (s : LState) : Store := s.disk.replay s.chan

/-! ## schedules: a list of events of the three threads -/

inductive Ev where
  | put (r : Record)
  | get (flg : Nat) (key : Bytes)
  | w (e : WEv)
  deriving DecidableEq, Repr

/-- run a schedule on the queue; the answers of the gets, in order -/
def lRun (seeded : Bool) : LState → List Ev → List (Option Bytes) × LState
  | s, [] => ([], s)
  | s, .put r :: evs => lRun seeded (qPut seeded s r) evs
  | s, .get f k :: evs => ((qGet s f k) :: (lRun seeded s evs).1, (lRun seeded s evs).2)
  | s, .w e :: evs => lRun seeded (wStep s e) evs

/-- the sequential specification: a map that is written synchronously; the writer's steps are invisible -/
def mRun : Store → List Ev → List (Option Bytes) × Store
  | st, [] => ([], st)
  | st, .put r :: evs => mRun (st.apply r) evs
  | st, .get f k :: evs => ((st (f, k)) :: (mRun st evs).1, (mRun st evs).2)
  | st, .w _ :: evs => mRun st evs

/-! ## client programs: reads and writes with data dependencies (read-modify-write) -/

/-- a request as a program over the store: the continuation of a read sees the value read -/
inductive Prog (α : Type) where
  | ret (a : α)
  | get (flg : Nat) (key : Bytes) (k : Option Bytes → Prog α)
  | put (r : Record) (k : Prog α)

/-- run a request on the queue.  `sc` is the background schedule INSIDE requests: after every store access of the
    program the next element of `sc` (a list of writer steps, possibly empty) runs — the request holds
    `ChainDatabase.RW`, so no other request runs in between, but the two goroutines do. -/
def Prog.runQ {α : Type} (seeded : Bool) : Prog α → LState → List (List WEv) → α × LState × List (List WEv)
  | .ret a, s, sc => (a, s, sc)
  | .get f k c, s, sc => (c (qGet s f k)).runQ seeded (wRun s (sc.headD [])) sc.tail
  | .put r c, s, sc => c.runQ seeded (wRun (qPut seeded s r) (sc.headD [])) sc.tail

/-- run a request on the synchronous map -/
def Prog.runM {α : Type} : Prog α → Store → α × Store
  | .ret a, st => (a, st)
  | .get f k c, st => (c (st (f, k))).runM st
  | .put r c, st => c.runM (st.apply r)

/-- every record the program can write carries the flag its key is always written with -/
def Prog.Flagged {α : Type} (fl : Bytes → Nat) : Prog α → Prop
  | .ret _ => True
  | .get _ _ c => ∀ v, (c v).Flagged fl
  | .put r c => r.flg = fl r.key ∧ c.Flagged fl

def Prog.bind {α β : Type} : Prog α → (α → Prog β) → Prog β
  | .ret a, f => f a
  | .get fl k c, f => .get fl k (fun v => (c v).bind f)
  | .put r c, f => .put r (c.bind f)

/-- write a batch item by item (`deliverBatch`) -/
def putAll {α : Type} : List Record → Prog α → Prog α
  | [], c => c
  | r :: rs, c => .put r (putAll rs c)

/-! ## `ChainDatabase` over the store: the unconfirmed tree in memory, stable blocks in the store

  Blocks, heights, accounts and signers are small numbers; the key of a record is the flag byte followed by `n`
  zero bytes (injective; the flag is a function of the key, as in the real key spaces: 32-byte block hashes, 4-byte
  heights, 20-byte addresses).  The value of a block record is the list of its confirms (one byte per signer, in
  the order they were appended — the header never changes); the value of a height record is the block's key; the
  value of an account record is one version byte. -/

def flagBlock : Nat := 1
def flagHeight : Nat := 2
def flagAct : Nat := 4

def mkKey (flag n : Nat) : Bytes := UInt8.ofNat flag :: List.replicate n 0
/-- the flag every key of the three key spaces is written with -/
def flagOf (k : Bytes) : Nat := (k.headD 0).toNat
/-- inverse of `mkKey` on its image -/
def keyNum (k : Bytes) : Nat := k.length - 1

structure UBlock where
  id : Nat
  parent : Nat
  height : Nat
  confirms : List UInt8
  acct : Option (Nat × UInt8)      -- the account this block changes and its new version
  deriving DecidableEq, Repr

/-- the part of `ChainDatabase` that lives in memory -/
structure CState where
  unconf : List UBlock     -- `UnConfirmBlocks`
  last : Nat               -- `LastConfirm`: id of the stable block
  lastHeight : Nat
  deriving DecidableEq, Repr

def CState.init : CState := ⟨[], 0, 0⟩

inductive Api where
  | setBlock (id parent height : Nat) (acct : Option (Nat × UInt8))
  | setStable (id : Nat)
  | confirm (id : Nat) (c : UInt8)
  | getConfirms (id : Nat)
  | getByHash (id : Nat)
  | getByHeight (h : Nat)
  | getAccount (a : Nat)
  deriving DecidableEq, Repr

inductive Out where
  | ok
  | exist                          -- ErrExist
  | invalid                        -- ErrArgInvalid
  | notExist                       -- ErrBlockNotExist / ErrAccountNotExist
  | confirms (cs : List UInt8)
  | block (id : Nat) (cs : List UInt8)
  | acct (v : Bytes)
  deriving DecidableEq, Repr

def findU (us : List UBlock) (id : Nat) : Option UBlock := us.find? (fun b => b.id == id)

/-- `appendConfirm`: a confirm that is already there is not added again -/
def addConfirm (cs : List UInt8) (c : UInt8) : List UInt8 := if cs.contains c then cs else cs ++ [c]

/-- `CollectToParent(LastConfirm)`: the blocks from the stable block (exclusive) down to `id`, oldest first -/
def pathTo (us : List UBlock) (last : Nat) : Nat → Nat → List UBlock
  | 0, _ => []
  | fuel + 1, id =>
    if id = last then [] else
    match findU us id with
    | none => []
    | some b => pathTo us last fuel b.parent ++ [b]

/-- the ids of `root` and of everything below it in the unconfirmed tree -/
def descend (us : List UBlock) : Nat → List Nat → List Nat
  | 0, acc => acc
  | fuel + 1, acc => descend us fuel (acc ++ ((us.filter (fun b => acc.contains b.parent && !acc.contains b.id)).map (·.id)))

/-- `clear(oldRoot, newRoot)`: everything that does not descend from the new stable block is dropped, and the new
    stable block itself leaves the map -/
def pruneTo (us : List UBlock) (root : Nat) : List UBlock :=
  let keep := descend us us.length [root]
  us.filter (fun b => keep.contains b.id && b.id != root)

/-- the batch of `blockCommit`: block record, height record, the changed account -/
def commitBatch (b : UBlock) : List Record :=
  [⟨flagBlock, mkKey flagBlock b.id, b.confirms⟩, ⟨flagHeight, mkKey flagHeight b.height, mkKey flagBlock b.id⟩] ++
  (match b.acct with
   | some (a, v) => [⟨flagAct, mkKey flagAct a, [v]⟩]
   | none => [])

/-- `SetStableBlock`'s loop: commit the path oldest first, move `LastConfirm`, prune -/
def commitPath : List UBlock → CState → Prog (CState × Out)
  | [], cs => .ret (cs, .ok)
  | b :: rest, cs =>
    putAll (commitBatch b) (commitPath rest { unconf := pruneTo cs.unconf b.id, last := b.id, lastHeight := b.height })

/-- one call of the `ChainDatabase` API as a program over the store -/
def apiProg (cs : CState) : Api → Prog (CState × Out)
  | .setBlock id parent height acct =>
    match findU cs.unconf id with
    | some _ => .ret (cs, .exist)
    | none =>
      -- isExistByHash → UtilsHashBlock → Beansdb.Get(ItemFlagBlock, hash)
      .get flagBlock (mkKey flagBlock id) fun v =>
        match v with
        | some _ => .ret (cs, .exist)
        | none =>
          if height ≤ cs.lastHeight then .ret (cs, .invalid) else
          let nb : UBlock := ⟨id, parent, height, [], acct⟩
          match findU cs.unconf parent with
          | none =>
            if parent = cs.last ∧ height = cs.lastHeight + 1 then .ret ({ cs with unconf := cs.unconf ++ [nb] }, .ok)
            else .ret (cs, .invalid)
          | some p =>
            if p.height + 1 = height then .ret ({ cs with unconf := cs.unconf ++ [nb] }, .ok)
            else .ret (cs, .invalid)
  | .setStable id =>
    match findU cs.unconf id with
    | none => .ret (cs, .invalid)
    | some _ => commitPath (pathTo cs.unconf cs.last (cs.unconf.length + 1) id) cs
  | .confirm id c =>
    match findU cs.unconf id with
    | some b =>
      let b' := { b with confirms := addConfirm b.confirms c }
      .ret ({ cs with unconf := cs.unconf.map (fun x => if x.id == id then b' else x) }, .confirms b'.confirms)
    | none =>
      -- setConfirm on a stable block: getBlock4DB; appendConfirm; setBlock2DB — under ChainDatabase.RW
      .get flagBlock (mkKey flagBlock id) fun v =>
        match v with
        | none => .ret (cs, .notExist)
        | some old => .put ⟨flagBlock, mkKey flagBlock id, addConfirm old c⟩ (.ret (cs, .confirms (addConfirm old c)))
  | .getConfirms id =>
    match findU cs.unconf id with
    | some b => .ret (cs, .confirms b.confirms)
    | none =>
      .get flagBlock (mkKey flagBlock id) fun v =>
        match v with
        | none => .ret (cs, .notExist)
        | some x => .ret (cs, .confirms x)
  | .getByHash id =>
    match findU cs.unconf id with
    | some b => .ret (cs, .block b.id b.confirms)
    | none =>
      .get flagBlock (mkKey flagBlock id) fun v =>
        match v with
        | none => .ret (cs, .notExist)
        | some x => .ret (cs, .block id x)
  | .getByHeight h =>
    -- UtilsGetBlockByHeight: height record, then the block record; the unconfirmed tree is not consulted
    .get flagHeight (mkKey flagHeight h) fun v =>
      match v with
      | none => .ret (cs, .notExist)
      | some bk =>
        .get flagBlock bk fun w =>
          match w with
          | none => .ret (cs, .notExist)
          | some x => .ret (cs, .block (keyNum bk) x)
  | .getAccount a =>
    .get flagAct (mkKey flagAct a) fun v =>
      match v with
      | none => .ret (cs, .notExist)
      | some x => .ret (cs, .acct x)

/-- a script: API calls of the request threads and steps of the two goroutines between them -/
inductive SStep where
  | api (a : Api)
  | w (e : WEv)
  deriving DecidableEq, Repr

/-- the script on the real structure: queue + lagging writer; `sc` = the goroutines' steps inside the calls -/
def runScriptQ (seeded : Bool) : CState → LState → List (List WEv) → List SStep → List Out × LState
  | _, s, _, [] => ([], s)
  | cs, s, sc, .w e :: rest => runScriptQ seeded cs (wStep s e) sc rest
  | cs, s, sc, .api a :: rest =>
    let r := (apiProg cs a).runQ seeded s sc
    (r.1.2 :: (runScriptQ seeded r.1.1 r.2.1 r.2.2 rest).1, (runScriptQ seeded r.1.1 r.2.1 r.2.2 rest).2)

/-- the script on the sequential specification: the same calls on a synchronous map -/
def runScriptM : CState → Store → List SStep → List Out × Store
  | _, st, [] => ([], st)
  | cs, st, .w _ :: rest => runScriptM cs st rest
  | cs, st, .api a :: rest =>
    let r := (apiProg cs a).runM st
    (r.1.2 :: (runScriptM r.1.1 r.2 rest).1, (runScriptM r.1.1 r.2 rest).2)

/-- read-modify-write of one record as `setConfirm` does it on a stable block -/
def rmwConfirm (k : Bytes) (c : UInt8) : Prog (Option Bytes) :=
  .get flagBlock k fun v =>
    match v with
    | none => .ret none
    | some old => .put ⟨flagBlock, k, addConfirm old c⟩ (.ret (some (addConfirm old c)))

end LemoModel.QueueLin

/-
  C10 — executable model of the candidate ranking of the store and of the deputy list written
  into term-snapshot blocks.  Core Lean only.

  Hand-written, line by line, from
    store/vote.go            VoteTop.ranking (selection sort), MergeCandidates
    store/cblock.go          CBlock.Ranking / dye / updateTop / filterUnregisters / collectUnregisters
    store/chain_database.go  NewChainDataBase (start-up re-rank), SetBlock, SetStableBlock/blockCommit,
                             GetCandidatesTop, CandidatesRanking
    store/beansdb.go         RunContext.SetCandidates / GetCandidates (persisted candidate list)
    chain/consensus/dpovp.go LoadTopCandidates ; chain/deputynode/term_record.go NewTermRecord
  and tied to the code by `hx c10` (harness/hx/c10.go).

  Abstractions (each is covered by the correspondence run, see props/C10.json):
  * an address is a natural number (bytes.Compare on 20-byte big-endian addresses = `<` on Nat);
    votes are natural numbers (big.Int ≥ 0);
  * the copy-on-write tries (`AccountTrieDB`, `CandidateTrieDB`) are association lists; the order in
    which a Go map / a trie enumerates its entries is not modelled — `ranking_perm_invariant`
    (LemoProofs/C10.lean) proves that the result of `ranking` does not depend on it;
  * an account is (address, candidate flag, votes); the flag has four values, see `Flag`.
-/
import LemoModel.GoSem
namespace LemoModel.Ranking
open LemoModel

structure Cand where
  addr : Nat
  votes : Nat
  deriving DecidableEq, Repr, Inhabited

/-! ## vote.go: `ranking` (selection sort) and the specification `fullSort` -/

/-- the inner-loop test of `ranking`: `val < 0 || (val == 0 && bytes.Compare(addr_i, addr_j) > 0)` -/
def swapNeeded (ci cj : Cand) : Bool :=
  decide (ci.votes < cj.votes) || (decide (ci.votes = cj.votes) && decide (ci.addr > cj.addr))

/-- one run of the inner loop `for j := i+1; j < length; j++` with `cur = candidates[i]`:
    returns the final `candidates[i]` and the final `candidates[i+1:]`. -/
def pass (cur : Cand) : List Cand → Cand × List Cand
  | [] => (cur, [])
  | x :: xs =>
    if swapNeeded cur x then
      let r := pass x xs
      (r.1, cur :: r.2)
    else
      let r := pass cur xs
      (r.1, x :: r.2)

/-- the outer loop `for i := 0; i < minCnt; i++` -/
def selSort : Nat → List Cand → List Cand
  | 0, _ => []
  | _, [] => []
  | k + 1, c :: cs =>
    let r := pass c cs
    r.1 :: selSort k r.2

/-- `VoteTop.ranking(topSize, candidates)` -/
def ranking (topSize : Nat) (cs : List Cand) : List Cand :=
  match cs with
  | [] => []
  | [c] => [c]            -- `length == 1`: returned whatever `topSize` is
  | _ => selSort (min topSize cs.length) cs

/-- strict order of the specification: votes descending, ties by address ascending -/
def before (a b : Cand) : Bool :=
  decide (a.votes > b.votes) || (decide (a.votes = b.votes) && decide (a.addr < b.addr))

/-- non-strict version of `before` (total pre-order on candidates) -/
def rankLE (a b : Cand) : Bool :=
  decide (a.votes > b.votes) || (decide (a.votes = b.votes) && decide (a.addr ≤ b.addr))

def insertC (c : Cand) : List Cand → List Cand
  | [] => [c]
  | x :: xs => if before x c then x :: insertC c xs else c :: x :: xs

/-- the full sort of the property statement (insertion sort by `before`) -/
def fullSort : List Cand → List Cand
  | [] => []
  | c :: cs => insertC c (fullSort cs)

/-! ## association lists -/

/-- map update `m[c.addr] = c` -/
def putCand (l : List Cand) (c : Cand) : List Cand :=
  c :: l.filter (fun e => e.addr != c.addr)

/-- the candidate flag of an account, as far as the four predicates of the store can tell values apart:
    `none`  = empty candidate profile;
    `yes`   = profile[isCandidate] = "true";
    `no`    = profile[isCandidate] = "false";
    `other` = a non-empty profile whose isCandidate entry is any other string (buildProfile keeps a
              user-supplied value on first registration, e.g. "yes") or is missing.
    The predicates: cblock.go collectUnregisters `== "false"` (`Flag.no`); chain_database.go start-up
    `== "true"` (`Flag.yes`); filterCandidates / blockCommit "profile non-empty" (`≠ Flag.none`);
    the property's "registered candidate" is `Flag.yes`.  (A fifth predicate, ChainDatabase.isCandidate
    with strconv.ParseBool and a panic, sits behind AfterScan, which has no caller in /repo.) -/
inductive Flag where
  | none | yes | no | other
  deriving DecidableEq, Repr, Inhabited

structure Acct where
  addr : Nat
  flag : Flag
  votes : Nat
  deriving DecidableEq, Repr, Inhabited

def putAcct (l : List Acct) (a : Acct) : List Acct :=
  a :: l.filter (fun e => e.addr != a.addr)

def findAcct (l : List Acct) (a : Nat) : Option Acct := l.find? (fun e => e.addr == a)

def flagOf (l : List Acct) (a : Nat) : Flag :=
  match findAcct l a with
  | some x => x.flag
  | none => Flag.none

def votesOf (l : List Acct) (a : Nat) : Nat :=
  match findAcct l a with
  | some x => x.votes
  | none => 0

/-- the registered candidates of an account view, with the votes of that view
    (what the property statement sorts) -/
def registered (accts : List Acct) : List Cand :=
  (accts.filter (fun a => a.flag == Flag.yes)).map (fun a => ⟨a.addr, a.votes⟩)

/-! ## cblock.go -/

/-- one changed account of a block (`AccountTrieDB.Put(account, height)`), and whether the block's
    change logs contain a VotesLog for it (`logged`; its NewVal is `votes`) -/
structure Change where
  addr : Nat
  flag : Flag
  votes : Nat
  logged : Bool
  deriving DecidableEq, Repr, Inhabited

structure Blk where
  parent : Nat := 0
  top : List Cand := []          -- CBlock.Top
  index : List Cand := []        -- CBlock.CandidateTrieDB ("all candidates" index)
  accts : List Acct := []        -- the block's account view (AccountTrieDB over the stable data)
  changes : List Change := []    -- accounts dyed with this block's height
  deriving DecidableEq, Repr, Inhabited

/-- `filterUnregisters` -/
def filterUnreg (l : List Cand) (un : List Nat) : List Cand :=
  l.filter (fun c => !un.contains c.addr)

/-- `CBlock.dye`: `CandidateTrieDB.Put(candidate, height)` for every vote log, in order.
    `PatriciaTrie.put` returns without storing when the key already carries this block's dye, so a
    second log for the same address in one block is ignored by the index (first wins). -/
def dyeGo (idx : List Cand) (seen : List Nat) : List Cand → List Cand
  | [] => idx
  | l :: ls =>
    if seen.contains l.addr then dyeGo idx seen ls
    else dyeGo (putCand idx l) (l.addr :: seen) ls

def dye (idx : List Cand) (logs : List Cand) : List Cand := dyeGo idx [] logs

/-- `VoteTop.MergeCandidates`: map of the top, overwritten by the changed candidates in order
    (last wins), re-ranked; nothing happens for an empty argument. -/
def mergeCandidates (max : Nat) (top : List Cand) (changed : List Cand) : List Cand :=
  if changed.isEmpty then top else ranking max (changed.foldl putCand top)

/-- `collectUnregisters`: accounts dyed with this height whose profile says isCandidate="false" -/
def collectUnreg (chs : List Change) : List Nat :=
  (chs.filter (fun c => c.flag == Flag.no)).map (·.addr)

/-- `CBlock.updateTop` — the four branches as coded.  `oldTop` = block.Top (clone of the parent's),
    `index` = CandidateTrieDB after `dye`.  `Min()` of an empty list is a nil dereference.
    `tieFix = true` is the current code (`rankedAtOrBefore`, /repo fix 991f3e9: the third branch
    compares in the ranking order); `tieFix = false` is the code before that fix (totals only). -/
def updateTop (tieFix : Bool) (max : Nat) (oldTop index : List Cand) (unregs : List Nat)
    (changed : List Cand) : GoRes (List Cand) :=
  let newTop0 := filterUnreg oldTop unregs
  let changed := filterUnreg changed unregs
  let newTop := mergeCandidates max newTop0 changed
  if oldTop.length < max then .ok newTop
  else if oldTop.length > newTop.length then .ok (ranking max index)
  else
    match newTop.getLast?, oldTop.getLast? with
    | some nm, some om =>
      if (if tieFix then rankLE nm om else decide (nm.votes ≥ om.votes)) then .ok newTop
      else .ok (ranking max index)
    | _, _ => .panic

/-- the vote logs handed to `CandidatesRanking`: one per logged change, then `extra` raw logs -/
def logsOf (chs : List Change) (extra : List Cand) : List Cand :=
  (chs.filter (·.logged)).map (fun c => ⟨c.addr, c.votes⟩) ++ extra

/-- `AccountTrieDB.Put` for every change, then `CBlock.Ranking(voteLogs)` on a fresh child of `parent`
    (`NewNormalBlock` clones the parent's tries and top). -/
def applyBlock (tieFix : Bool) (max : Nat) (pid : Nat) (parent : Blk) (chs : List Change)
    (extra : List Cand) : GoRes Blk :=
  let accts := chs.foldl (fun l c => putAcct l ⟨c.addr, c.flag, c.votes⟩) parent.accts
  let logs := logsOf chs extra
  let b : Blk := { parent := pid, top := parent.top, index := parent.index, accts := accts, changes := chs }
  if logs.isEmpty then .ok b      -- `if len(voteLogs) <= 0 { return }`
  else
    let index := dye parent.index logs
    match updateTop tieFix max parent.top index (collectUnreg chs) logs with
    | .ok t => .ok { b with top := t, index := index }
    | .err e => .err e
    | .panic => .panic

/-! ## chain_database.go: commit and start-up -/

/-- `blockCommit`: `filterCandidates(accounts)` (every dyed account with a non-empty candidate
    profile, with the votes of the ACCOUNT) goes to `Context.SetCandidates`. -/
def commitPersist (persist : List Cand) (chs : List Change) : List Cand :=
  (chs.filter (fun c => c.flag != Flag.none)).foldl (fun p c => putCand p ⟨c.addr, c.votes⟩) persist

/-- `NewChainDataBase`: persisted candidates whose stored account says isCandidate="true", ranked. -/
def restartTop (max : Nat) (persist : List Cand) (stableAccts : List Acct) : List Cand :=
  ranking max (persist.filter (fun c => flagOf stableAccts c.addr == Flag.yes))

/-- the `LastConfirm` CBlock after a restart: `NewGenesisBlock(stableBlock)`, top re-ranked.
    `idxFix = true` is the current code (/repo fix d292196: the all-candidates index is rebuilt from
    EVERY persisted candidate, un-registered ones included); `idxFix = false` is the code before that
    fix (the index stays empty). -/
def restartBlk (idxFix : Bool) (max : Nat) (persist : List Cand) (stable : Blk) : Blk :=
  { parent := stable.parent, top := restartTop max persist stable.accts,
    index := if idxFix then persist else [],
    accts := stable.accts, changes := [] }

/-! ## Fully repaired variants (the two fixes that are in /repo PLUS the two proposed ones that are
    not: skip un-registered index entries in re-rank-all, no early return) — NOT what /repo does -/

/-- `updateTop` with the two repairs: the re-rank-all branches skip index entries that are not
    registered in the block's account view, and the third branch compares (votes, address). -/
def updateTopFixed (max : Nat) (oldTop index : List Cand) (accts : List Acct) (unregs : List Nat)
    (changed : List Cand) : GoRes (List Cand) :=
  let newTop0 := filterUnreg oldTop unregs
  let changed := filterUnreg changed unregs
  let newTop := mergeCandidates max newTop0 changed
  let all := index.filter (fun c => flagOf accts c.addr == Flag.yes)
  if oldTop.length < max then .ok newTop
  else if oldTop.length > newTop.length then .ok (ranking max all)
  else
    match newTop.getLast?, oldTop.getLast? with
    | some nm, some om =>
      if rankLE nm om then .ok newTop
      else .ok (ranking max all)
    | _, _ => .panic

/-- `Ranking` repaired: no early return on an empty log list (an un-registration of a candidate
    with 0 votes produces no VotesLog), then `updateTopFixed`. -/
def applyBlockFixed (max : Nat) (pid : Nat) (parent : Blk) (chs : List Change) (extra : List Cand) :
    GoRes Blk :=
  let accts := chs.foldl (fun l c => putAcct l ⟨c.addr, c.flag, c.votes⟩) parent.accts
  let logs := logsOf chs extra
  let index := dye parent.index logs
  match updateTopFixed max parent.top index accts (collectUnreg chs) logs with
  | .ok t => .ok { parent := pid, top := t, index := index, accts := accts, changes := chs }
  | .err e => .err e
  | .panic => .panic

/-- start-up repaired: the candidate index is rebuilt from the persisted list. -/
def restartBlkFixed (max : Nat) (persist : List Cand) (stable : Blk) : Blk :=
  { parent := stable.parent, top := restartTop max persist stable.accts, index := persist,
    accts := stable.accts, changes := [] }

/-! ## consensus: deputies of a snapshot block -/

structure Deputy where
  addr : Nat
  votes : Nat
  rank : Nat
  deriving DecidableEq, Repr, Inhabited

def sealGo (votesAt : Nat → Nat) : Nat → List Cand → List Deputy
  | _, [] => []
  | i, c :: cs => ⟨c.addr, votesAt c.addr, i⟩ :: sealGo votesAt (i + 1) cs

/-- `DPoVP.LoadTopCandidates(parentHash)` as called by `Seal` / `verifyDeputy`: ORDER (and rank) from
    the parent's top list cut to `deputyCount`, VOTES from the account manager `votesAt`
    (in the engine: the post-state of the snapshot block itself). -/
def sealDeputies (deputyCount : Nat) (parentTop : List Cand) (votesAt : Nat → Nat) : List Deputy :=
  sealGo votesAt 0 (parentTop.take deputyCount)

/-- result of `NewTermRecord`: every failed check is a Go `panic(Err…)`; the name is kept. -/
inductive TermRes where
  | ok
  | panic (e : String)
  deriving DecidableEq, Repr, Inhabited

def termCheckGo : Nat → Option Deputy → List Deputy → TermRes
  | _, _, [] => .ok
  | i, prev, d :: ds =>
    if i ≠ d.rank then .panic "ErrInvalidDeputyRank"
    else
      match prev with
      | some p =>
        if d.votes > p.votes then .panic "ErrInvalidDeputyVotes" else termCheckGo (i + 1) (some d) ds
      | none => termCheckGo (i + 1) (some d) ds

/-- the precondition checks of `deputynode.NewTermRecord` -/
def newTermRecord (termDuration snapshotHeight : Nat) (nodes : List Deputy) : TermRes :=
  if snapshotHeight % termDuration ≠ 0 then .panic "ErrInvalidSnapshotHeight"
  else if nodes.isEmpty then .panic "ErrNoDeputyInBlock"
  else termCheckGo 0 none nodes

end LemoModel.Ranking

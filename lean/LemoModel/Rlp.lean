/-
  C14 — executable model of /repo/common/rlp (generic codec).  Core Lean only.

  * `Item`            the value space of the codec: a byte string or a list of items
                      (what `rlp.Decode` stores into an `interface{}`: `[]byte` / `[]interface{}`).
  * `encode`          `encbuf.encodeString` / list writers + `puthead` / `putint` (encode.go:150,191,202,588).
  * `readHead`        `Stream.Kind` = `readKind` + `readUint` + the input-limit / list-limit check
                      (decode.go:860-979).  `top = true` is the top-level stream of `DecodeBytes`
                      (limit = len(input)); `top = false` is "inside a list" where the limit is the
                      rest of the enclosing list's payload (`ErrElemTooLarge` instead of `ErrValueTooLarge`).
  * `split`           `Kind` followed by `Stream.Bytes` (strings: single-byte canonical check) or
                      `Stream.List` (lists: payload is cut out, decoded by `decodeList`).
  * `decodeList`      `decodeListSlice`/`decodeSliceElems` with `decodeInterface` as element decoder:
                      loop until the list payload is exhausted (EOL).  Well-founded on the input length.
  * `decode`          `DecodeBytes` into `interface{}`: one value, then `ErrMoreThanOneValue` on trailing bytes.
  * `encodeUint` / `decodeUint`   `writeUint` (encode.go:392) / `Stream.uint` (decode.go:694).
  * `decodeBig`       `decodeBigInt` (decode.go:238).
  * `rawSplit`, `rawCount`        the second, slice-based reader `readKind`/`readSize`/`Split`/`CountValues` of raw.go.

  There is no `panic` constructor in `Err`: every Go path of the generic decoder ends in a value or
  in one of the errors below (the harness wraps the real calls in `Safe` and would print `panic`).
  Sizes are `Nat`; Go uses `uint64` and only ever *compares* a decoded size (`size > remaining`),
  and a size is at most 8 bytes, so no wrap-around is possible in the decoder.  The encoder's sizes
  are Go `int`s (< 2^63); the theorems about `encode` carry the hypothesis `length < 2^64`.
-/
namespace LemoModel.Rlp

inductive Item where
  | bytes (b : List UInt8)
  | list (xs : List Item)
  deriving Repr, Inhabited

/-- decoder errors, named after the Go values -/
inductive Err where
  | eof             -- io.EOF: empty input at top level
  | eol             -- rlp.EOL: end of the enclosing list
  | valueTooLarge   -- ErrValueTooLarge
  | elemTooLarge    -- ErrElemTooLarge
  | canonSize       -- ErrCanonSize
  | canonInt        -- ErrCanonInt
  | expectedString  -- ErrExpectedString
  | expectedList    -- ErrExpectedList
  | uintOverflow    -- errUintOverflow
  | moreThanOne     -- ErrMoreThanOneValue
  | unexpectedEOF   -- io.ErrUnexpectedEOF (raw.go only)
  deriving Repr, DecidableEq, Inhabited

def Err.name : Err → String
  | .eof => "EOF" | .eol => "EOL" | .valueTooLarge => "ValueTooLarge" | .elemTooLarge => "ElemTooLarge"
  | .canonSize => "CanonSize" | .canonInt => "CanonInt" | .expectedString => "ExpectedString"
  | .expectedList => "ExpectedList" | .uintOverflow => "UintOverflow" | .moreThanOne => "MoreThanOne"
  | .unexpectedEOF => "UnexpectedEOF"

/-! ### integers as big-endian byte strings -/

/-- minimal big-endian representation (`putint`; `big.Int.Bytes`): empty for 0, no leading zero byte -/
def toBE (n : Nat) : List UInt8 :=
  if _h : n = 0 then [] else toBE (n / 256) ++ [UInt8.ofNat (n % 256)]
termination_by n
decreasing_by omega

/-- big-endian value of a byte string (`binary.BigEndian.Uint64` on the zero-padded buffer; `big.Int.SetBytes`) -/
def fromBE (l : List UInt8) : Nat := l.foldl (fun acc b => acc * 256 + b.toNat) 0

/-! ### encoder -/

/-- `puthead(buf, smalltag, largetag, size)` with `smalltag = off`, `largetag = off + 55` -/
def encLen (off : Nat) (n : Nat) : List UInt8 :=
  if n < 56 then [UInt8.ofNat (off + n)]
  else UInt8.ofNat (off + 55 + (toBE n).length) :: toBE n

/-- `encbuf.encodeString` -/
def encodeBytes (b : List UInt8) : List UInt8 :=
  match b with
  | [x] => if x.toNat < 128 then [x] else encLen 128 1 ++ [x]
  | _ => encLen 128 b.length ++ b

mutual
  def encode : Item → List UInt8
    | .bytes b => encodeBytes b
    | .list xs => encLen 192 (encodeList xs).length ++ encodeList xs
  def encodeList : List Item → List UInt8
    | [] => []
    | x :: xs => encode x ++ encodeList xs
end

/-- `writeUint` -/
def encodeUint (n : Nat) : List UInt8 :=
  if n = 0 then [128]
  else if n < 128 then [UInt8.ofNat n]
  else UInt8.ofNat (128 + (toBE n).length) :: toBE n

/-! ### decoder: header -/

inductive Head where
  | byte (b : UInt8)   -- Kind = Byte, value in the tag
  | str (n : Nat)      -- Kind = String, n payload bytes follow
  | lst (n : Nat)      -- Kind = List, n payload bytes follow
  deriving Repr

def tooLarge (top : Bool) : Err := if top then .valueTooLarge else .elemTooLarge

/-- `readUint(n)` as used for the size of a long-form header, plus `size < 56 → ErrCanonSize`.
    `willRead(n)` fails before any byte is consumed when fewer than `n` bytes remain. -/
def readSize (top : Bool) (n : Nat) (inp : List UInt8) : Except Err (Nat × List UInt8) :=
  if inp.length < n then .error (tooLarge top)
  else if (inp.take n).head? = some 0 then .error .canonSize
  else if fromBE (inp.take n) < 56 then .error .canonSize
  else .ok (fromBE (inp.take n), inp.drop n)

/-- `Stream.Kind()`: tag, size, and the check of the size against what is left of the
    input (top level) or of the enclosing list. -/
def readHead (top : Bool) (inp : List UInt8) : Except Err (Head × List UInt8) :=
  match inp with
  | [] => .error (if top then .eof else .eol)
  | b :: rest =>
    if b.toNat < 128 then .ok (.byte b, rest)
    else if b.toNat < 184 then
      if rest.length < b.toNat - 128 then .error (tooLarge top) else .ok (.str (b.toNat - 128), rest)
    else if b.toNat < 192 then
      match readSize top (b.toNat - 183) rest with
      | .error e => .error e
      | .ok (n, r) => if r.length < n then .error (tooLarge top) else .ok (.str n, r)
    else if b.toNat < 248 then
      if rest.length < b.toNat - 192 then .error (tooLarge top) else .ok (.lst (b.toNat - 192), rest)
    else
      match readSize top (b.toNat - 247) rest with
      | .error e => .error e
      | .ok (n, r) => if r.length < n then .error (tooLarge top) else .ok (.lst n, r)

/-- a one-byte string whose byte is < 0x80 must have been written as the byte itself -/
def singleLow (s : List UInt8) : Bool :=
  match s with
  | [x] => x.toNat < 128
  | _ => false

/-- one value cut off the input: `(isList, payload, rest)`.
    Strings: `Stream.Bytes` (with the `size == 1 && b[0] < 128 → ErrCanonSize` check). -/
def split (top : Bool) (inp : List UInt8) : Except Err (Bool × List UInt8 × List UInt8) :=
  match readHead top inp with
  | .error e => .error e
  | .ok (.byte b, rest) => .ok (false, [b], rest)
  | .ok (.str n, rest) =>
    if singleLow (rest.take n) then .error .canonSize else .ok (false, rest.take n, rest.drop n)
  | .ok (.lst n, rest) => .ok (true, rest.take n, rest.drop n)

theorem readSize_length {top n inp v r} (h : readSize top n inp = .ok (v, r)) (hn : 0 < n) :
    r.length < inp.length := by
  unfold readSize at h
  split at h
  · cases h
  · split at h
    · cases h
    · split at h
      · cases h
      · cases h
        rw [List.length_drop]; omega

theorem readHead_length {top inp hd r} (h : readHead top inp = .ok (hd, r)) :
    r.length < inp.length := by
  unfold readHead at h
  match inp, h with
  | [], h => cases h
  | b :: rest, h =>
    simp only at h
    split at h
    · cases h; simp
    · split at h
      · split at h
        · cases h
        · cases h; simp
      · split at h
        · split at h
          · cases h
          · rename_i n r' hs
            split at h
            · cases h
            · cases h
              have := readSize_length hs (by omega)
              simp; omega
        · split at h
          · split at h
            · cases h
            · cases h; simp
          · split at h
            · cases h
            · rename_i n r' hs
              split at h
              · cases h
              · cases h
                have := readSize_length hs (by omega)
                simp; omega

/-- payload and rest of a split are strictly shorter than the input (termination of `decodeList`). -/
theorem split_length {top inp isL p r} (h : split top inp = .ok (isL, p, r)) :
    p.length + r.length ≤ inp.length ∧ r.length < inp.length ∧ (isL = true → p.length < inp.length) := by
  unfold split at h
  split at h
  · cases h
  · rename_i b rest hh
    cases h
    have := readHead_length hh
    simp; omega
  · rename_i n rest hh
    split at h
    · cases h
    · cases h
      have := readHead_length hh
      simp [List.length_take, List.length_drop]; omega
  · rename_i n rest hh
    cases h
    have := readHead_length hh
    simp [List.length_take, List.length_drop]; omega

/-! ### decoder: items -/

/-- the elements of a list payload (`decodeSliceElems` with `decodeInterface`), until EOL -/
def decodeList (inp : List UInt8) : Except Err (List Item) :=
  if inp.isEmpty then .ok []
  else
    match h : split false inp with
    | .error e => .error e
    | .ok (isL, p, r) =>
      if hl : isL = true then
        match decodeList p with
        | .error e => .error e
        | .ok xs =>
          match decodeList r with
          | .error e => .error e
          | .ok ys => .ok (.list xs :: ys)
      else
        match decodeList r with
        | .error e => .error e
        | .ok ys => .ok (.bytes p :: ys)
termination_by inp.length
decreasing_by
  · have := (split_length h).2.2 hl; exact this
  · exact (split_length h).2.1
  · exact (split_length h).2.1

/-- one value (`decodeInterface`) and the unread rest -/
def decodeItem (top : Bool) (inp : List UInt8) : Except Err (Item × List UInt8) :=
  match split top inp with
  | .error e => .error e
  | .ok (isL, p, r) =>
    if isL then
      match decodeList p with
      | .error e => .error e
      | .ok xs => .ok (.list xs, r)
    else .ok (.bytes p, r)

/-- `rlp.DecodeBytes(b, &interface{})` -/
def decode (b : List UInt8) : Except Err Item :=
  match decodeItem true b with
  | .error e => .error e
  | .ok (x, r) => if r.isEmpty then .ok x else .error .moreThanOne

/-! ### integers -/

/-- `Stream.uint(maxbits)` at top level, followed by nothing (the `DecodeBytes` trailing check is in `decodeUintTop`) -/
def decodeUint (bits : Nat) (inp : List UInt8) : Except Err (Nat × List UInt8) :=
  match readHead true inp with
  | .error e => .error e
  | .ok (.byte b, rest) => if b.toNat = 0 then .error .canonInt else .ok (b.toNat, rest)
  | .ok (.str n, rest) =>
    if n > bits / 8 then .error .uintOverflow
    else if n > 1 ∧ (rest.take n).head? = some 0 then .error .canonInt
    else if n > 0 ∧ fromBE (rest.take n) < 128 then .error .canonSize
    else .ok (fromBE (rest.take n), rest.drop n)
  | .ok (.lst _, _) => .error .expectedString

def decodeUintTop (bits : Nat) (b : List UInt8) : Except Err Nat :=
  match decodeUint bits b with
  | .error e => .error e
  | .ok (v, r) => if r.isEmpty then .ok v else .error .moreThanOne

/-- `decodeBigInt`: `Stream.Bytes` then the leading-zero check -/
def decodeBig (inp : List UInt8) : Except Err (Nat × List UInt8) :=
  match split true inp with
  | .error e => .error e
  | .ok (true, _, _) => .error .expectedString
  | .ok (false, p, r) => if p.head? = some 0 then .error .canonInt else .ok (fromBE p, r)

def decodeBigTop (b : List UInt8) : Except Err Nat :=
  match decodeBig b with
  | .error e => .error e
  | .ok (v, r) => if r.isEmpty then .ok v else .error .moreThanOne

/-- `writeBigInt` for a non-negative value -/
def encodeBig (n : Nat) : List UInt8 := if n = 0 then [128] else encodeBytes (toBE n)

/-! ### raw.go: the slice based reader -/

/-- `readSize(b, slen)` of raw.go -/
def rawReadSize (b : List UInt8) (slen : Nat) : Except Err Nat :=
  if b.length < slen then .error .unexpectedEOF
  else if fromBE (b.take slen) < 56 ∨ (b.take slen).head? = some 0 then .error .canonSize
  else .ok (fromBE (b.take slen))

def lowHead (l : List UInt8) : Bool :=
  match l with
  | x :: _ => x.toNat < 128
  | [] => false

/-- `readKind(buf)` of raw.go: `(isList, isByteKind, tagsize, contentsize)` -/
def rawReadKind (buf : List UInt8) : Except Err (Nat × Nat × Nat) :=
  match buf with
  | [] => .error .unexpectedEOF
  | b :: rest =>
    let fin (k ts cs : Nat) : Except Err (Nat × Nat × Nat) :=
      if cs > buf.length - ts then .error .valueTooLarge else .ok (k, ts, cs)
    if b.toNat < 128 then fin 0 0 1
    else if b.toNat < 184 then
      if b.toNat - 128 = 1 ∧ lowHead rest = true then .error .canonSize
      else fin 1 1 (b.toNat - 128)
    else if b.toNat < 192 then
      match rawReadSize rest (b.toNat - 183) with
      | .error e => .error e
      | .ok cs => fin 1 (b.toNat - 183 + 1) cs
    else if b.toNat < 248 then fin 2 1 (b.toNat - 192)
    else
      match rawReadSize rest (b.toNat - 247) with
      | .error e => .error e
      | .ok cs => fin 2 (b.toNat - 247 + 1) cs

/-- `rlp.Split`: kind (0 Byte, 1 String, 2 List), content, rest -/
def rawSplit (b : List UInt8) : Except Err (Nat × List UInt8 × List UInt8) :=
  match rawReadKind b with
  | .error e => .error e
  | .ok (k, ts, cs) => .ok (k, (b.drop ts).take cs, b.drop (ts + cs))

/-- `rlp.CountValues` (fuel = input length: every step consumes at least one byte) -/
def rawCountAux : Nat → List UInt8 → Nat → Except Err Nat
  | 0, b, acc => if b.isEmpty then .ok acc else .error .unexpectedEOF
  | fuel + 1, b, acc =>
    if b.isEmpty then .ok acc
    else
      match rawReadKind b with
      | .error e => .error e
      | .ok (_, ts, cs) => rawCountAux fuel (b.drop (ts + cs)) (acc + 1)

def rawCount (b : List UInt8) : Except Err Nat := rawCountAux b.length b 0

/-! ### rendering shared with the harness -/

def hexDigit (n : Nat) : Char :=
  if n < 10 then Char.ofNat (48 + n) else Char.ofNat (87 + n)

def hexOf (l : List UInt8) : String :=
  String.ofList (l.flatMap fun b => [hexDigit (b.toNat / 16), hexDigit (b.toNat % 16)])

mutual
  def render : Item → String
    | .bytes b => "x" ++ hexOf b
    | .list xs => "[" ++ renderList xs ++ "]"
  def renderList : List Item → String
    | [] => ""
    | [x] => render x
    | x :: y :: xs => render x ++ "," ++ renderList (y :: xs)
end

end LemoModel.Rlp

/-
  C14 — `types.AccountData` (the account record that the store persists) and the blocks message, over the generic
  `Item` tree of LemoModel/Rlp.lean and on top of the typed layers LemoModel/RlpSchema.lean / RlpCustom.lean.

    * `AccountData.EncodeRLP` / `DecodeRLP`                      /repo/chain/types/account_data.go:185-286
      wire struct `rlpAccountData` (13 fields), nested `rlpCandidate{Votes *big.Int; Profile *Profile}`,
      `rlpVersionRecord{LogType, Version, Height uint32}`, `Signers = []SignAccount{Address, Weight uint8}`
    * the blocks message: `peer.SendBlocks` = `rlp.EncodeToBytes(&blocks)` with `blocks types.Blocks = []*Block`
      (network/peer.go:227), `handleBlocksMsg` = `msg.Decode(&blocks)` (network/protocol_manager.go:839,
      network/p2p/message.go:48: one value, nothing after it); the request `GetBlocksData{From, To uint32}`.

  Everything is modelled AS THE CODE IS (`fx = true` of the other layers: the strictness fixes are in).

  What the account codec does, stated and not hidden:
    - the ENCODER walks the Go map `NewestRecords` (`for logType, record := range a.NewestRecords`, an order that the Go
      runtime randomises) and then sorts the records by log type (`sort.Slice`, since /repo 07cd1f5).  The model takes
      the iteration order as the explicit parameter `ord` and the sort as the parameter `srt`; `sortRecs` (insertion
      sort) is what the driver runs.  `LemoProofs.C14Account.accountData_encode_deterministic`: for EVERY `srt` that
      returns a sorted permutation and EVERY `ord` that enumerates the map, the result is the same.
      The wire struct's fields `TxHashList` and `TxCount` are never set by the encoder: it writes their zero values
      (`0xC0`, `0x80`).
    - the DECODER reads all 13 fields with the reflection struct decoder (so each must be well-formed: TxHashList a list
      of 32-byte strings, TxCount a canonical uint32), then copies eleven of them: `TxHashList` and `TxCount` are
      IGNORED, and the version records are put into a fresh map one after the other (`a.NewestRecords[t] = …`): a
      later record with the same log type overwrites an earlier one, and the order on the wire is forgotten.
      The receiver's pointers are replaced by fresh objects: Balance and Votes are never nil after decoding, the
      profile is the map made before `s.Decode`, NewestRecords is `make(map…)`, Signers is what the slice decoder
      produced (an empty, non-nil slice for `0xC0`).  Nothing is assigned when an error is returned.
  Go nil-ness is kept in the value (`Option`): `none` = nil pointer / nil map / nil slice.  The encoder writes nil and
  the empty value alike; the decoder never produces nil.  `norm` is that normal form.

  AccountData is STORED (store/chain_database.go), it is neither hashed nor sent: the decoder's laxness is an
  observation (`info:accountdata-noncanonical-accept`), not a finding.
  Core Lean only.
-/
import LemoModel.RlpCustom
namespace LemoModel.RlpAccount
open LemoModel.Rlp LemoModel.RlpSchema LemoModel.RlpCustom

/-! ### leaf fields: the reflection coders of the schema layer, projected to the Go field type -/

/-- `[n]byte` (common.Address, common.Hash): `decodeByteArray` -/
def decFixed (n : Nat) (it : Item) : Option (List UInt8) :=
  match decodeS true (.fixed n) it with
  | some (.bytes b) => some b
  | _ => none

/-- `uint8/16/32/64`: `Stream.uint(bits)` -/
def decUint (bits : Nat) (it : Item) : Option Nat :=
  match decodeS true (.uint bits) it with
  | some (.nat n) => some n
  | _ => none

/-- `*big.Int`: `decodeBigInt` (allocates when the pointer is nil: the result is never nil) -/
def decBigN (it : Item) : Option Nat :=
  match decodeS true .big it with
  | some (.nat n) => some n
  | _ => none

def encFixed (n : Nat) (b : List UInt8) : Option Item := encodeS (.fixed n) (.bytes b)
def encUint (bits n : Nat) : Option Item := encodeS (.uint bits) (.nat n)
/-- `writeBigIntPtr`: a nil pointer is written like 0 (callers pass `getD 0`) -/
def encBigN (n : Nat) : Item := .bytes (toBE n)

/-! ### slices: `decodeListSlice` / `makeSliceWriter` with a typed element coder -/

def decList {α : Type} (f : Item → Option α) : List Item → Option (List α)
  | [] => some []
  | x :: xs =>
    match f x, decList f xs with
    | some a, some as => some (a :: as)
    | _, _ => none

def encList {α : Type} (f : α → Option Item) : List α → Option (List Item)
  | [] => some []
  | a :: as =>
    match f a, encList f as with
    | some x, some xs => some (x :: xs)
    | _, _ => none

def decListOf {α : Type} (f : Item → Option α) : Item → Option (List α)
  | .list xs => decList f xs
  | .bytes _ => none

def encListOf {α : Type} (f : α → Option Item) (l : List α) : Option Item := (encList f l).map Item.list

/-! ### version records and signers -/

/-- `rlpVersionRecord`: (LogType, Version, Height), three uint32 -/
abbrev Rec := Nat × Nat × Nat

def decRec : Item → Option Rec
  | .list [a, b, c] =>
    match decUint 32 a, decUint 32 b, decUint 32 c with
    | some t, some v, some h => some (t, v, h)
    | _, _, _ => none
  | _ => none

def encRec (r : Rec) : Option Item :=
  match encUint 32 r.1, encUint 32 r.2.1, encUint 32 r.2.2 with
  | some a, some b, some c => some (.list [a, b, c])
  | _, _, _ => none

/-- `SignAccount`: (Address, Weight uint8) -/
abbrev Signer := List UInt8 × Nat

def decSigner : Item → Option Signer
  | .list [a, w] =>
    match decFixed 20 a, decUint 8 w with
    | some addr, some wt => some (addr, wt)
    | _, _ => none
  | _ => none

def encSigner (s : Signer) : Option Item :=
  match encFixed 20 s.1, encUint 8 s.2 with
  | some a, some w => some (.list [a, w])
  | _, _ => none

/-- `a.NewestRecords[t] = VersionRecord{v, h}` on a map kept as the association list sorted by log type -/
def insertRec (r : Rec) : List Rec → List Rec
  | [] => [r]
  | q :: qs =>
    if r.1 < q.1 then r :: q :: qs
    else if q.1 < r.1 then q :: insertRec r qs
    else r :: qs

/-- the loop `for _, record := range dec.NewestRecords { a.NewestRecords[record.LogType] = … }` into a fresh map -/
def recsToMap (rs : List Rec) : List Rec := rs.foldl (fun m r => insertRec r m) []

/-- the driver's stand-in for `sort.Slice(NewestRecords, LogType <)`: insertion sort (stable).  The theorems do not depend
    on the algorithm: they hold for every function that returns a sorted permutation (`SortSpec`), and a map has
    distinct keys, so that permutation is unique. -/
def insertSorted (r : Rec) : List Rec → List Rec
  | [] => [r]
  | q :: qs => if r.1 < q.1 then r :: q :: qs else q :: insertSorted r qs

def sortRecs (l : List Rec) : List Rec := l.foldr insertSorted []

/-- adjacent log types strictly ascending (the wire form the encoder produces) -/
def ascRecs : List Rec → Bool
  | [] => true
  | [_] => true
  | a :: b :: rest => decide (a.1 < b.1) && ascRecs (b :: rest)

/-! ### the candidate: `rlpCandidate{Votes *big.Int; Profile *Profile}` -/

/-- struct decoder of `rlpCandidate`; the Profile pointer is preset to a fresh map by `AccountData.DecodeRLP`, and
    `decodeDecoder` keeps a non-nil pointer -/
def decCandidate : Item → Option (Nat × List KV)
  | .list [v, p] =>
    match decBigN v, decodeProfile true p with
    | some n, some ps => some (n, ps)
    | _, _ => none
  | _ => none

def encCandidate (votes : Nat) (ps : List KV) : Item := .list [encBigN votes, encodeProfile ps]

/-! ### AccountData -/

/-- `types.AccountData`.  `none` = Go nil (pointer, map, slice).  `profile` and `records` are Go maps, kept as
    association lists sorted by key (strictly: a map has each key once). -/
structure AccountV where
  address : List UInt8
  balance : Option Nat
  codeHash : List UInt8
  storageRoot : List UInt8
  assetCodeRoot : List UInt8
  assetIdRoot : List UInt8
  equityRoot : List UInt8
  voteFor : List UInt8
  votes : Option Nat
  profile : Option (List KV)
  records : Option (List Rec)
  signers : Option (List Signer)
  deriving Repr, DecidableEq, Inhabited

/-- `AccountData.DecodeRLP`: all 13 fields of `rlpAccountData` are decoded (index 7 = TxHashList, 10 = TxCount), eleven are
    kept.  Any error leaves the receiver untouched (`none`). -/
def decodeAccount : Item → Option AccountV
  | .list [a0, a1, a2, a3, a4, a5, a6, a7, a8, a9, a10, a11, a12] =>
    match decFixed 20 a0, decBigN a1, decFixed 32 a2, decFixed 32 a3, decFixed 32 a4, decFixed 32 a5, decFixed 32 a6,
          decListOf (decFixed 32) a7, decFixed 20 a8, decCandidate a9, decUint 32 a10, decListOf decRec a11,
          decListOf decSigner a12 with
    | some addr, some bal, some ch, some sr, some acr, some air, some er, some _txHashList, some vf, some cand,
      some _txCount, some recs, some sgs =>
      some { address := addr, balance := some bal, codeHash := ch, storageRoot := sr, assetCodeRoot := acr,
             assetIdRoot := air, equityRoot := er, voteFor := vf, votes := some cand.1, profile := some cand.2,
             records := some (recsToMap recs), signers := some sgs }
    | _, _, _, _, _, _, _, _, _, _, _, _, _ => none
  | _ => none

/-- `AccountData.EncodeRLP`.  `ord` = the records in the order in which `range a.NewestRecords` yields them (some
    enumeration of the map `v.records`), `srt` = `sort.Slice` by log type.  TxHashList (index 7) and TxCount (index 10)
    are the zero values of the wire struct.  `none` = `v` is not a value of the Go type (an address that has not 20
    bytes, a number that does not fit its uint type). -/
def encodeAccountWith (srt : List Rec → List Rec) (ord : List Rec) (v : AccountV) : Option Item :=
  match encFixed 20 v.address, encFixed 32 v.codeHash, encFixed 32 v.storageRoot, encFixed 32 v.assetCodeRoot,
        encFixed 32 v.assetIdRoot, encFixed 32 v.equityRoot, encFixed 20 v.voteFor, encListOf encRec (srt ord),
        encListOf encSigner (v.signers.getD []) with
  | some a0, some a2, some a3, some a4, some a5, some a6, some a8, some a11, some a12 =>
    some (.list [a0, encBigN (v.balance.getD 0), a2, a3, a4, a5, a6, .list [], a8,
                 encCandidate (v.votes.getD 0) (v.profile.getD []), .bytes [], a11, a12])
  | _, _, _, _, _, _, _, _, _ => none

/-- the encoder with the map enumerated in key order and the reference sort: a function of the value alone -/
def encodeAccount (v : AccountV) : Option Item := encodeAccountWith sortRecs (v.records.getD []) v

/-- THE CODE BEFORE 07cd1f5: the records were written in map iteration order (no sort) -/
def encodeAccountLegacy (ord : List Rec) (v : AccountV) : Option Item := encodeAccountWith id ord v

/-- what a decoded value looks like: no nil pointer, nil map or nil slice -/
def norm (v : AccountV) : AccountV :=
  { v with balance := some (v.balance.getD 0), votes := some (v.votes.getD 0), profile := some (v.profile.getD []),
           records := some (v.records.getD []), signers := some (v.signers.getD []) }

/-- the exact condition under which an accepted item is what the encoder writes for the decoded value: TxHashList is the
    empty list, TxCount is zero (the empty string) and the version records come in strictly ascending log type order -/
def acctStrict : Item → Bool
  | .list [_, _, _, _, _, _, _, .list [], _, _, .bytes [], recs, _] =>
    match decListOf decRec recs with
    | some rs => ascRecs rs
    | none => false
  | _ => false

/-- the version-record element as the encoder writes it for the decoded map -/
def normRecs (recs : Item) : Item :=
  match decListOf decRec recs with
  | some rs => (encListOf encRec (recsToMap rs)).getD recs
  | none => recs

/-- the normal form on the WIRE: what re-encoding the decoded value yields for an accepted item -/
def wireNorm : Item → Item
  | .list [a0, a1, a2, a3, a4, a5, a6, _, a8, a9, _, recs, a12] =>
    .list [a0, a1, a2, a3, a4, a5, a6, .list [], a8, a9, .bytes [], normRecs recs, a12]
  | it => it

/-! ### never a panic: the partial Go operations of `AccountData.DecodeRLP`

  Three statements of the decoder are partial in Go:
    * `(*a)[key] = val` in `Profile.DecodeRLP` — panics when `*a` is a nil map ("assignment to entry in nil map");
    * `*dec.Candidate.Profile` — panics when the pointer is nil;
    * `a.NewestRecords[t] = …` — panics when the map is nil.
  `AccountData.DecodeRLP` prepares all three (`profile := make(Profile)`, `dec.Candidate.Profile = &profile`,
  `a.NewestRecords = make(…)`).  Here the decoder is written once more with these operations PARTIAL and the state of
  the receiver explicit; `LemoProofs.C14Account.accountData_never_panics` shows that the prepared receiver never reaches
  the panic value and that this checked decoder is `decodeAccount`. -/

inductive Out (α : Type) where
  | ok (a : α)
  | err
  | panic
  deriving Repr, DecidableEq

def Out.ofOption {α : Type} : Option α → Out α
  | some a => .ok a
  | none => .err

/-- the loop of `Profile.DecodeRLP` over the decoded `[]Pair`: order test against the previous key, then the map
    assignment, which needs a non-nil map (`m = none`: nil map) -/
def profileLoopChk : Option KV → List KV → Option (List KV) → Out (Option (List KV))
  | _, [], m => .ok m
  | prev, p :: ps, m =>
    if (match prev with | some q => !ltBytes q.1 p.1 | none => false) then .err
    else
      match m with
      | none => .panic
      | some kvs => profileLoopChk (some p) ps (some (insertKV p kvs))

/-- `Profile.DecodeRLP` with receiver `*a = m` -/
def profileDecodeChk (m : Option (List KV)) : Item → Out (Option (List KV))
  | .list xs =>
    match asPairs xs with
    | some ps => profileLoopChk none ps m
    | none => .err
  | .bytes _ => .err

/-- the record loop into the map `m` (`none` = nil map) -/
def recsLoopChk : List Rec → Option (List Rec) → Out (Option (List Rec))
  | [], m => .ok m
  | r :: rs, m =>
    match m with
    | none => .panic
    | some kvs => recsLoopChk rs (some (insertRec r kvs))

/-- `AccountData.DecodeRLP` with the partial operations checked.  `prof` = the map that `dec.Candidate.Profile` points to
    before `s.Decode` (`none` = nil map), `ptr` = that pointer is set, `recMap` = `a.NewestRecords` before the loop.
    The struct decoder works through the list from the left and notices a missing or a surplus element only when it
    gets there (the tails `crest`, `rest`), so a panic inside the profile comes BEFORE those errors. -/
def decodeAccountChk (prof : Option (List KV)) (ptr : Bool) (recMap : Option (List Rec)) : Item → Out AccountV
  | .list (a0 :: a1 :: a2 :: a3 :: a4 :: a5 :: a6 :: a7 :: a8 :: .list (cv :: cp :: crest) :: rest) =>
    match decFixed 20 a0, decBigN a1, decFixed 32 a2, decFixed 32 a3, decFixed 32 a4, decFixed 32 a5, decFixed 32 a6,
          decListOf (decFixed 32) a7, decFixed 20 a8, decBigN cv with
    | some addr, some bal, some ch, some sr, some acr, some air, some er, some _, some vf, some votes =>
      -- `decodeDecoder` allocates `new(Profile)` (a pointer to a NIL map) when the pointer is nil
      match profileDecodeChk (if ptr then prof else none) cp with
      | .panic => .panic
      | .err => .err
      | .ok pm =>
        match crest, rest with
        | [], [a10, a11, a12] =>
          match decUint 32 a10, decListOf decRec a11, decListOf decSigner a12 with
          | some _, some recs, some sgs =>
            match recsLoopChk recs recMap with
            | .panic => .panic
            | .err => .err
            | .ok rm =>
              .ok { address := addr, balance := some bal, codeHash := ch, storageRoot := sr, assetCodeRoot := acr,
                    assetIdRoot := air, equityRoot := er, voteFor := vf, votes := some votes, profile := pm,
                    records := rm, signers := some sgs }
          | _, _, _ => .err
        | _, _ => .err
    | _, _, _, _, _, _, _, _, _, _ => .err
  | _ => .err

/-! ### the blocks message -/

/-- network/protocol.go `GetBlocksData` (request: GetBlocksMsg and GetBlocksWithChangeLogMsg) -/
def getBlocksSchema : Schema := .struct [.uint 32, .uint 32]

/-- `types.Blocks = []*Block` through the slice decoder: every element is a Block (LemoModel/RlpCustom.lean `decodeBlock`).
    A nil `*Block` is not a value of the model: the encoder writes 0xC0 for it, which the Block decoder rejects. -/
def decodeBlocks (E : List UInt8) : Item → Option (List BlockV) := decListOf (decodeBlock E)

def encodeBlocks (E : List UInt8) (bs : List BlockV) : Option Item := encListOf (encodeBlock E) bs

/-- `p2p.Msg.Decode` / `rlp.DecodeBytes`: exactly one RLP value (`decode` rejects trailing bytes), then the typed decoder -/
def decodeBlocksMsg (E b : List UInt8) : Option (List BlockV) :=
  match decode b with
  | .ok it => decodeBlocks E it
  | .error _ => none

/-- `peer.SendBlocks`: `rlp.EncodeToBytes(&blocks)` -/
def encodeBlocksMsg (E : List UInt8) (bs : List BlockV) : Option (List UInt8) := (encodeBlocks E bs).map encode

/-- `rlp.DecodeBytes(val, &account)` (store) -/
def decodeAccountBytes (b : List UInt8) : Option AccountV :=
  match decode b with
  | .ok it => decodeAccount it
  | .error _ => none

def encodeAccountBytes (v : AccountV) : Option (List UInt8) := (encodeAccount v).map encode

end LemoModel.RlpAccount

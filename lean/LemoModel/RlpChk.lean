/-
  C14 — "decoding returns a value or an error, never a panic": the partial Go primitives of the generic decoder.

  The only operations of common/rlp's generic decoding path that can panic are
    * `make([]byte, size)` + `readFull` in `Stream.Bytes` (decode.go:649-650)   — needs `size` ≤ what is left of the input
    * `s.uintbuf[8-size:]` in `Stream.readUint` (decode.go:964-968)             — needs 1 ≤ size ≤ 8
    * `b[ts : ts+cs]`, `b[ts+cs:]` in `rlp.Split` / `CountValues` (raw.go:28,65) — needs ts + cs ≤ len(b)
  (list elements are appended to a growing slice; the recursion depth of `decodeInterface` — the Go stack — is
  NOT modelled).  Here the same readers as in LemoModel/Rlp.lean are written with these primitives made
  PARTIAL (`none` = the Go statement would panic) and a three-valued result; LemoProofs/C14.lean proves that
  the panic value is never produced, i.e. that the guards of the real code are sufficient.
  Core Lean only.
-/
import LemoModel.Rlp
namespace LemoModel.RlpChk
open LemoModel.Rlp

inductive Out (α : Type) where
  | ok (a : α)
  | err (e : Err)
  | panic
  deriving Repr

def Out.ofExcept {α : Type} : Except Err α → Out α
  | .ok a => .ok a
  | .error e => .err e

/-- `make([]byte, n)` followed by `readFull`, or a slice expression `l[:n]`: defined only inside the input -/
def takeChk (n : Nat) (l : List UInt8) : Option (List UInt8) := if n ≤ l.length then some (l.take n) else none
/-- a slice expression `l[n:]` -/
def dropChk (n : Nat) (l : List UInt8) : Option (List UInt8) := if n ≤ l.length then some (l.drop n) else none

/-- `readUint(size)` for a size tag: `uintbuf[8-size:]` is defined only for 1 ≤ size ≤ 8 -/
def readSizeChk (top : Bool) (n : Nat) (inp : List UInt8) : Out (Nat × List UInt8) :=
  if n = 0 ∨ 8 < n then .panic
  else if inp.length < n then .err (tooLarge top)
  else
    match takeChk n inp, dropChk n inp with
    | some sz, some rest =>
      if sz.head? = some 0 then .err .canonSize
      else if fromBE sz < 56 then .err .canonSize
      else .ok (fromBE sz, rest)
    | _, _ => .panic

def readHeadChk (top : Bool) (inp : List UInt8) : Out (Head × List UInt8) :=
  match inp with
  | [] => .err (if top then .eof else .eol)
  | b :: rest =>
    if b.toNat < 128 then .ok (.byte b, rest)
    else if b.toNat < 184 then
      if rest.length < b.toNat - 128 then .err (tooLarge top) else .ok (.str (b.toNat - 128), rest)
    else if b.toNat < 192 then
      match readSizeChk top (b.toNat - 183) rest with
      | .panic => .panic
      | .err e => .err e
      | .ok (n, r) => if r.length < n then .err (tooLarge top) else .ok (.str n, r)
    else if b.toNat < 248 then
      if rest.length < b.toNat - 192 then .err (tooLarge top) else .ok (.lst (b.toNat - 192), rest)
    else
      match readSizeChk top (b.toNat - 247) rest with
      | .panic => .panic
      | .err e => .err e
      | .ok (n, r) => if r.length < n then .err (tooLarge top) else .ok (.lst n, r)

/-- `Kind` + `Bytes` / `List`: the payload is cut out with the partial primitives -/
def splitChk (top : Bool) (inp : List UInt8) : Out (Bool × List UInt8 × List UInt8) :=
  match readHeadChk top inp with
  | .panic => .panic
  | .err e => .err e
  | .ok (.byte b, rest) => .ok (false, [b], rest)
  | .ok (.str n, rest) =>
    match takeChk n rest, dropChk n rest with
    | some s, some r => if singleLow s then .err .canonSize else .ok (false, s, r)
    | _, _ => .panic
  | .ok (.lst n, rest) =>
    match takeChk n rest, dropChk n rest with
    | some s, some r => .ok (true, s, r)
    | _, _ => .panic

/-- `rlp.Split` with partial slice expressions -/
def rawSplitChk (b : List UInt8) : Out (Nat × List UInt8 × List UInt8) :=
  match rawReadKind b with
  | .error e => .err e
  | .ok (k, ts, cs) =>
    match dropChk ts b with
    | some t =>
      match takeChk cs t, dropChk (ts + cs) b with
      | some content, some rest => .ok (k, content, rest)
      | _, _ => .panic
    | none => .panic

end LemoModel.RlpChk

/-
  C14 — the hand-written (non-reflection) codecs of the consensus types, over the generic `Item` tree:

    * `types.Profile`            EncodeRLP / DecodeRLP                      chain/types/account_data.go:70-107
    * change-log payload decoders registered per log type                  chain/account/change_log.go:53-250
    * `types.ChangeLog`          EncodeRLP / DecodeRLP                      chain/types/change_log.go:91-132
    * a list of change logs decoded through `decodeSliceElems`, with the `rlp.EOL` that
      `ChangeLog.DecodeRLP` lets escape                                    common/rlp/decode.go:306-333
    * `types.Asset` (reflection struct whose last field is a Profile)      chain/types/asset.go:34-43

  Everything is modelled AS THE CODE IS, laxness included (see the refutation theorems in LemoProofs/C14.lean).
  What the item level cannot express (stated in props `assumptions`):
    - `Profile.DecodeRLP` and the `size <= 0` tests ignore the *error* of `Stream.Kind`, so they also accept
      size-zero headers that are not canonical RLP (0xB800, 0xF800 …); such inputs are no `Item` at all;
    - after the leaked EOL the Stream's list stack is one level off; inside a Block the following struct fields
      are then read from inside the change-log list.  Only the stand-alone list (`DecodeBytes` into a
      `ChangeLogSlice`) is modelled (`decodeLogSlice`).
  Core Lean only.
-/
import LemoModel.RlpSchema
namespace LemoModel.RlpCustom
open LemoModel.Rlp LemoModel.RlpSchema

/-- `_, size, _ := s.Kind(); size <= 0`: the empty string, a single byte < 0x80 (kind Byte has size 0)
    and the empty list. -/
def sizeZero : Item → Bool
  | .bytes [] => true
  | .bytes [x] => x.toNat < 128
  | .bytes _ => false
  | .list [] => true
  | .list _ => false

/-! ### Profile: a map written as the list of its (key, value) pairs in key order -/

/-- Go string comparison (bytewise lexicographic, a proper prefix is smaller) -/
def ltBytes : List UInt8 → List UInt8 → Bool
  | [], [] => false
  | [], _ :: _ => true
  | _ :: _, [] => false
  | a :: as, b :: bs => if a.toNat < b.toNat then true else if b.toNat < a.toNat then false else ltBytes as bs

abbrev KV := List UInt8 × List UInt8

/-- `(*a)[key] = val` on a map kept as a key-sorted association list -/
def insertKV (p : KV) : List KV → List KV
  | [] => [p]
  | q :: qs =>
    if ltBytes p.1 q.1 then p :: q :: qs
    else if ltBytes q.1 p.1 then q :: insertKV p qs
    else p :: qs

def asPair : Item → Option KV
  | .list [.bytes k, .bytes v] => some (k, v)
  | _ => none

def asPairs : List Item → Option (List KV)
  | [] => some []
  | x :: xs =>
    match asPair x, asPairs xs with
    | some p, some ps => some (p :: ps)
    | _, _ => none

/-- `Profile.DecodeRLP` into an empty map: size zero → nothing read; otherwise `[]Pair`, inserted in order -/
def decodeProfile (it : Item) : Option (List KV) :=
  if sizeZero it then some []
  else
    match it with
    | .list xs => (asPairs xs).map (fun ps => ps.foldl (fun m p => insertKV p m) [])
    | .bytes _ => none

def pairItem (p : KV) : Item := .list [.bytes p.1, .bytes p.2]

/-- `Profile.EncodeRLP`: pairs in key order (the association list is key-sorted) -/
def encodeProfile (ps : List KV) : Item := .list (ps.map pairItem)

def pairVal (p : KV) : Val := .list [.bytes p.1, .bytes p.2]
def profileVal (ps : List KV) : Val := .list (ps.map pairVal)

/-! ### Asset: seven reflection-decoded fields and a Profile -/

def assetFields : List Schema := [.uint 32, .uint 8, .fixed 32, .uint 32, .big, .uint 8, .fixed 20]

/-- `decodeBool`: `Stream.uint(8)` followed by "0 or 1, anything else is an error" -/
def boolOk : Val → Bool
  | .nat 0 => true
  | .nat 1 => true
  | _ => false

/-- IsDivisible (index 1) and IsReplenishable (index 5) are Go bools -/
def assetBools : List Val → Bool
  | [_, b1, _, _, _, b2, _] => boolOk b1 && boolOk b2
  | _ => false

def decodeAssetFields (xs : List Item) : Option (List Val) :=
  match decodeFields assetFields xs with
  | some fs => if assetBools fs then some fs else none
  | none => none

/-- struct decoder of `types.Asset`; a list with only the seven leading fields is accepted as well:
    at the end of the list `Profile.DecodeRLP` sees `size == 0` (the EOL error is ignored) and returns nil. -/
def decodeAsset : Item → Option (List Val × List KV)
  | .list [a, b, c, d, e, f, g] => (decodeAssetFields [a, b, c, d, e, f, g]).map (fun fs => (fs, []))
  | .list [a, b, c, d, e, f, g, p] =>
    match decodeAssetFields [a, b, c, d, e, f, g], decodeProfile p with
    | some fs, some ps => some (fs, ps)
    | _, _ => none
  | _ => none

def encodeAsset (v : List Val × List KV) : Option Item :=
  if assetBools v.1 then (encodeFields assetFields v.1).map (fun xs => .list (xs ++ [encodeProfile v.2])) else none

/-! ### change-log payloads -/

/-- the registered payload decoders, by their decoding behaviour -/
inductive PDec where
  | strict (s : Schema)   -- decodeBigInt (.big), decodeBytes/decodeString/decodeCode (.bytes), decodeEvent (struct)
  | emptyIface            -- decodeEmptyInterface
  | loose (n : Nat)       -- decodeHash (32) / decodeAddress (20): `BytesToHash` / `BytesToAddress` of any byte string
  | nilOr (s : Schema)    -- decodeSigners / decodeEquity / decodeProfileChangeLogExtra: `size <= 0` → nil, else the struct
  | asset                 -- decodeAsset
  | candidate             -- decodeCandidate: `size <= 0` → *interface{} holding whatever was there, else a Profile
  deriving Repr, Inhabited

/-- payload values: a typed value, a Profile, an Asset, or the raw item kept by `decodeCandidate` -/
inductive CVal where
  | v (x : Val)
  | prof (ps : List KV)
  | asset (fs : List Val) (ps : List KV)
  | raw (it : Item)
  deriving Repr, Inhabited

/-- `Hash.SetBytes` / `Address.SetBytes` on a zero value: keep the last n bytes, left-pad with zeros -/
def setBytesN (n : Nat) (b : List UInt8) : List UInt8 :=
  List.replicate (n - (b.drop (b.length - n)).length) 0 ++ b.drop (b.length - n)

def runDec : PDec → Item → Option CVal
  | .strict s, it => (decodeS s it).map CVal.v
  | .emptyIface, it => if sizeZero it then some (.v .nil) else none
  | .loose n, .bytes b => some (.v (.bytes (setBytesN n b)))
  | .loose _, .list _ => none
  | .nilOr s, it => if sizeZero it then some (.v .nil) else (decodeS s it).map CVal.v
  | .asset, it => if sizeZero it then some (.v .nil) else (decodeAsset it).map (fun a => CVal.asset a.1 a.2)
  | .candidate, it => if sizeZero it then some (.raw it) else (decodeProfile it).map CVal.prof

/-- the encoder side (`rlp.Encode` of the `interface{}` field): untyped nil is the empty list -/
def runEnc : PDec → CVal → Option Item
  | .strict s, .v x => encodeS s x
  | .emptyIface, .v .nil => some (.list [])
  | .loose n, .v (.bytes b) => if b.length = n then some (.bytes b) else none
  | .nilOr _, .v .nil => some (.list [])
  | .nilOr s, .v x => encodeS s x
  | .asset, .v .nil => some (.list [])
  | .asset, .asset fs ps => encodeAsset (fs, ps)
  | .candidate, .raw it => some it
  | .candidate, .prof ps => some (encodeProfile ps)
  | _, _ => none

def signersSchema : Schema := .listOf (.struct [.fixed 20, .uint 8])
def equitySchema : Schema := .struct [.fixed 32, .fixed 32, .big]
def extraSchema : Schema := .struct [.fixed 32, .bytes]
def eventSchema' : Schema := .struct [.fixed 20, .listOf (.fixed 32), .bytes]

def dHash := PDec.loose 32
def dAddr := PDec.loose 20
def dBig := PDec.strict .big
def dBytes := PDec.strict .bytes

/-- `logConfigs`: (NewValDecoder, ExtraDecoder) per log type (chain/account/change_log.go:14-37, 53-73) -/
def logDecoders : Nat → Option (PDec × PDec)
  | 1 => some (dBig, .emptyIface)                        -- BalanceLog
  | 2 => some (dBytes, dHash)                            -- StorageLog
  | 3 => some (dHash, .emptyIface)                       -- StorageRootLog
  | 4 => some (.asset, dHash)                            -- AssetCodeLog
  | 5 => some (dBytes, .nilOr extraSchema)               -- AssetCodeStateLog
  | 6 => some (dHash, .emptyIface)                       -- AssetCodeRootLog
  | 7 => some (dBig, dHash)                              -- AssetCodeTotalSupplyLog
  | 8 => some (dBytes, dHash)                            -- AssetIdLog
  | 9 => some (dHash, .emptyIface)                       -- AssetIdRootLog
  | 10 => some (.nilOr equitySchema, dHash)              -- EquityLog
  | 11 => some (dHash, .emptyIface)                      -- EquityRootLog
  | 12 => some (.candidate, .emptyIface)                 -- CandidateLog
  | 13 => some (dBytes, dBytes)                          -- CandidateStateLog
  | 14 => some (dBytes, .emptyIface)                     -- CodeLog
  | 15 => some (.strict eventSchema', .emptyIface)       -- AddEventLog
  | 16 => some (.emptyIface, .emptyIface)                -- SuicideLog
  | 17 => some (dAddr, .emptyIface)                      -- VoteForLog
  | 18 => some (dBig, .emptyIface)                       -- VotesLog
  | 19 => some (.nilOr signersSchema, .emptyIface)       -- SignerLog
  | _ => none

structure CLog where
  logType : Nat
  address : List UInt8
  version : Nat
  newVal : CVal
  extra : CVal
  deriving Repr, Inhabited

def decU32 (it : Item) : Option Nat :=
  match decodeS (.uint 32) it with
  | some (.nat n) => some n
  | _ => none

def decAddr (it : Item) : Option (List UInt8) :=
  match decodeS (.fixed 20) it with
  | some (.bytes b) => some b
  | _ => none

/-- `ChangeLog.DecodeRLP` on a complete five-element list -/
def decodeChangeLog : Item → Option CLog
  | .list [a, b, c, d, e] =>
    match decU32 a, decAddr b, decU32 c with
    | some lt, some addr, some ver =>
      match logDecoders lt with
      | some (p, q) =>
        match runDec p d, runDec q e with
        | some nv, some ex => some ⟨lt, addr, ver, nv, ex⟩
        | _, _ => none
      | none => none
    | _, _, _ => none
  | _ => none

def encodeChangeLog (l : CLog) : Option Item :=
  match logDecoders l.logType with
  | some (p, q) =>
    match encodeS (.uint 32) (.nat l.logType), encodeS (.fixed 20) (.bytes l.address),
          encodeS (.uint 32) (.nat l.version), runEnc p l.newVal, runEnc q l.extra with
    | some a, some b, some c, some d, some e => some (.list [a, b, c, d, e])
    | _, _, _, _, _ => none
  | none => none

/-- a list element with fewer than five entries whose present entries decode: `ChangeLog.DecodeRLP`
    runs into the end of the element's list and returns the raw `rlp.EOL` of the Stream -/
def leaksEOL : Item → Bool
  | .list [] => true
  | .list [a] => (decU32 a).isSome
  | .list [a, b] => (decU32 a).isSome && (decAddr b).isSome
  | .list [a, b, c] =>
    match decU32 a, decAddr b, decU32 c with
    | some lt, some _, some _ => (logDecoders lt).isSome
    | _, _, _ => false
  | .list [a, b, c, d] =>
    match decU32 a, decAddr b, decU32 c with
    | some lt, some _, some _ =>
      match logDecoders lt with
      | some (p, _) => (runDec p d).isSome
      | none => false
    | _, _, _ => false
  | _ => false

/-- `decodeSliceElems` over change logs at top level (`rlp.DecodeBytes(b, &ChangeLogSlice)`):
    an element error equal to EOL ends the loop "successfully"; `DecodeBytes` then still insists that
    all input was consumed, so the leak is accepted exactly when the short log is the last element. -/
def decodeLogElems : List Item → Option (List CLog)
  | [] => some []
  | x :: rest =>
    if leaksEOL x then (if rest.isEmpty then some [] else none)
    else
      match decodeChangeLog x, decodeLogElems rest with
      | some l, some ls => some (l :: ls)
      | _, _ => none

def decodeLogSlice : Item → Option (List CLog)
  | .list xs => decodeLogElems xs
  | .bytes _ => none

def encodeLogElems : List CLog → Option (List Item)
  | [] => some []
  | l :: ls =>
    match encodeChangeLog l, encodeLogElems ls with
    | some x, some xs => some (x :: xs)
    | _, _ => none

def encodeLogSlice (ls : List CLog) : Option Item := (encodeLogElems ls).map Item.list

/-! ### `Header` on top of `rlpHeader` (block.go:193-243): TxRoot (index 3) and LogRoot (index 4) -/

def onBytes (f : List UInt8 → List UInt8) : Val → Val
  | .bytes r => .bytes (f r)
  | x => x

/-- apply `f` to the elements whose position (counted from `i`) is 3 or 4 -/
def mapAt (f : Val → Val) : Nat → List Val → List Val
  | _, [] => []
  | i, x :: xs => (if i = 3 ∨ i = 4 then f x else x) :: mapAt f (i + 1) xs

def okAt (P : Val → Prop) : Nat → List Val → Prop
  | _, [] => True
  | i, x :: xs => ((i = 3 ∨ i = 4) → P x) ∧ okAt P (i + 1) xs

/-- `Header.DecodeRLP`: the reflection decoder of `rlpHeader`, then the roots through `decRoot` -/
def decodeHeader (E : List UInt8) (it : Item) : Option Val :=
  match decodeS headerSchema it with
  | some (.list ws) => some (.list (mapAt (onBytes (decRoot E)) 0 ws))
  | _ => none

/-- `Header.EncodeRLP`: the roots through `encRoot`, then the reflection encoder of `rlpHeader` -/
def encodeHeader (E : List UInt8) : Val → Option Item
  | .list vs => encodeS headerSchema (.list (mapAt (onBytes (encRoot E)) 0 vs))
  | _ => none

/-- what `Header.Hash()` feeds to Keccak: every field except SignData, roots NOT elided (block.go:96-110) -/
def headerHashPreimage : Val → Option (List UInt8)
  | .list [a, b, c, d, e, f, g, h, i, _, k, l] =>
    (encodeS (.struct [hash, address, hash, hash, hash, .uint 32, .uint 64, .uint 64, .uint 32, .bytes, .bytes])
      (.list [a, b, c, d, e, f, g, h, i, k, l])).map encode
  | _ => none

/-- `merkle.EmptyTrieHash` = Keccak256 of nothing (common/merkle) -/
def emptyTrieHash : List UInt8 :=
  [0xc5, 0xd2, 0x46, 0x01, 0x86, 0xf7, 0x23, 0x3c, 0x92, 0x7e, 0x7d, 0xb2, 0xdc, 0xc7, 0x03, 0xc0,
   0xe5, 0x00, 0xb6, 0x53, 0xca, 0x82, 0x27, 0x3b, 0x7b, 0xfa, 0xd8, 0x04, 0x5d, 0x85, 0xa4, 0x70]

end LemoModel.RlpCustom
